#!/usr/bin/env python3
"""Regenerates MANIFEST.json from the table below (kept in one place so the manifest is always valid and current)."""
import json, os, subprocess

HERE = os.path.dirname(os.path.abspath(__file__))
FIX_COMMITS = subprocess.run(["git", "-C", "/repo", "log", "--format=%H %s", "54e9bae..HEAD"], capture_output=True, text=True).stdout.strip().splitlines()

TECH = "contract-based deductive verification: VCs generated from the real Python AST against sidecar contracts, discharged by z3/cvc5 (+ induction pairs / Lean lemmas); counter-models replayed natively"

CLAIMED = {
    "C12": dict(
        text="Every method of HistContainer that the property depends on (_fill_unprocessed with its merge-loop invariant, data/underflow/overflow/raw_data getters, fill, rebin, set_bins) is verified function by function against contracts stated over the half-open-bin specification taken from the property text (binof/cnt spec functions), for all edge sequences, entries, batch sizes and iteration counts; three counting lemmas are proved by z3 induction pairs. Proof level is right because the property quantifies over unbounded inputs and histories and the code is a comparison-only loop over arrays, which the VC generator covers completely.",
        note="Trusted: np.sort is a sorted permutation (count-preserving); elementwise numpy models (zeros/asarray/insert/append/diff); floats as reals, entries finite (no NaN); closed world (no subclass overrides); z3/cvc5 soundness; induction principle applied outside the solver (base+step discharged). Bounded only (not counted as proved): HistContainer.__init__ argument normalisation and n_entries' sum lemma are exercised by the native small-scope enumeration.",
        ref="3 C12"),
    "C16": dict(
        text="Every method of ConfidenceLevel (constructor case analysis, the cl/sigma/delta_nll/ndim setters with their raise paths, the lazy getters and both conversion helpers) is verified against contracts over the axiomatised regularised incomplete gamma functions: sigma->CL is the chi2 cdf F_n(sigma^2), CL->sigma its exact inverse, both strictly increasing, delta_nll = sigma^2, and a class invariant (cl and sigma caches are never both empty and always correspond) covers every order of setter calls and reads. MinimizerIMinuit.contour is proved to hand MINUIT the two-dimensional level 1-exp(-sigma^2/2) = F_2(sigma^2). Proof over the reals is the right level: the property is an algebraic identity for all n, sigma, cl.",
        note="Trusted: scipy.special gammaincc/gammainccinv axioms (mutual inverses, ranges, strict monotonicity, Q(1,x)=exp(-x)), np.sqrt axioms, floats as reals (IEEE cancellation near 8 sigma is outside the technique and stated), iminuit.mncontour(cl=) semantics. One open known finding: the ndim setter does not re-establish the invariant (KF-C16-1), so that run reports discharged = obligations - 1 and level 'other'. Bounded only: MinimizerBase._get_arrow_specs (profile arrows) and the 68.27/95.45/99.73 % table are checked by the native run.",
        ref="3 C16"),
    "C13": dict(
        text="The three quadrature rules, the antiderivative and numerical evaluations, _recalculate and the lazy data getter of HistParametricModel (for each of the five methods), the parameters setter, eval_model_function_density (scalar broadcast) and HistFit.model (N-scaling with the data container's total number of entries) are verified against per-bin specifications with an uninterpreted density at the current parameter vector; exactness of midpoint/trapezoid/Simpson on polynomial densities of degree 1/1/3 and inexactness one degree higher are z3 NRA lemmas with symbolic coefficients, which pins nodes and weights independently of the code.",
        note="Trusted: scipy.integrate.quad returns the integral of the function it is given (the proof checks that this function is the density at the current parameters); user densities are pure and vectorised calls are elementwise; a supplied antiderivative is the user's obligation; textbook convergence orders follow from the exactness degrees (cited); numpy slicing/broadcast models; floats as reals. Bounded only: the string -> method table of __init__ and end-to-end HistFit wiring (native run).",
        ref="3 C13"),
    "C10": dict(
        text="FitBase.ndf and MultiFit.ndf (nested loops over the multi-fit's own and every member's constraints) are verified against the documented formula N_d + sum extra_ndf - N_p + N_fixed, with extra_ndf of both constraint classes proved against 1 resp. n; CostFunction.goodness_of_fit is verified for every built-in argument configuration against cost(determinant zeroed) - handle(model:=data), CostFunction_GaussApproximation.goodness_of_fit against the flag save/restore protocol, FitBase.goodness_of_fit against the choice of pointwise/covariance variant with node values in argument order, chi2_probability of cost wrapper, fit and multi-fit against 1 - chi2cdf(cost - log-determinant terms, ndf) with each log-determinant subtracted exactly once.",
        note="Trusted: chi2.cdf (uninterpreted), cost handle is a pure function, node values are what Nexus.get(name).value returns (C04), dict length = number of fixed parameters (fix/release bookkeeping is dict semantics, exercised natively), equality of covariance and pointwise chi2 on diagonal matrices (stated linear-algebra fact), floats as reals. Bounded only: end-to-end formulas on real fits and multi-fits (native run).",
        ref="3 C10"),
    "C04": dict(
        text="The representation invariant of the node graph (edge symmetry S, staleness closure I, cache correctness J with values, parameter/children sync, acyclicity witness) is proved to be preserved by every node operation of nexus.py from an arbitrary invariant-satisfying state: mark_for_update/notify_parents (mutually recursive, by contract), value setter and getter, update of leaf/Alias/Function/Tuple nodes incl. user functions that raise (the node then stays stale), freeze/unfreeze, add/remove child/parent, replace_child, replace, set_children, func setter, add_parameter, Tuple.__setitem__; the ghost evaluation counter proves 'each definition is evaluated at most once per read and only if the node was stale'. The Lean lemma cache_correct turns the invariant into 'a read returns the from-scratch value'. This is the unbounded-history quantifier of the property collapsed into one obligation per operation.",
        note="Trusted: lists/sets of nodes abstracted to relations; weakrefs never die during an operation; user functions pure (frame axiom on definitions); iterator contract for parent/child iteration; Lean/Mathlib (lemma checked in thorough tier); partial correctness of the two recursions; z3/cvc5. Not under contract (bounded native histories only): Array.update, Fallback.update (open known finding KF-C04-1), Nexus.add/add_function/add_alias/add_dependency/get_value_dict, NodeCycleChecker (assumed contract, exhaustively exercised on all 3-node digraphs).",
        ref="3 C04"),
    "C02": dict(
        text="Source level: _calculate_cov_mat_generic is proved equal to (sigma sigma^T) o rho elementwise (both branches, symmetric, correct diagonal); the SimpleGaussianError reference getter/setter, _calculate_cov_mat(_rel), cov_mat and error getters and the error/error_rel setters are proved against the property's src_cov with sigma = relative size x CURRENT reference, under the cache invariant Inv_src, and the reference setter is proved to drop exactly the caches of the opposite relativity. Container level: IndexedContainer._calculate_total_error and XYContainer._calculate_total_error (per-axis routing) are proved by loop invariant to return the sum over ENABLED sources only; get_total_error returns the cached or recomputed sum under Inv_tot; disable_error/enable_error flip exactly the named flag and drop the cache (so disable-then-enable restores the total exactly); every value-changing mutator under contract (IndexedContainer.data setter, HistContainer.fill, HistParametricModel._recalculate, parameters setter of parametric models) is proved to re-point EVERY source and drop the cached total, HistContainer._get_error_reference to bin outstanding entries first, and parametric models to recompute before summing. These per-mutator obligations are what the unbounded histories of the property reduce to.",
        note="Trusted: numpy elementwise models; array references are value snapshots (in-place aliasing of numpy arrays is not modelled); inverse/Cholesky uninterpreted ('consistent' by construction from the proved total); PSD by the Schur product theorem (assumed); user matrices symmetric; floats as reals. Bounded only (native histories, 15k sequences over 8 container kinds): XYContainer x/y/data setters, MatrixGaussianError conversions, add_error/add_matrix_error argument handling, cor_mat/inverse numerics.",
        ref="3 C02"),
    "C19": dict(
        text="For each specification call under contract two obligation kinds are proved: 'raises' (the call ends in raise exactly for the malformed inputs named by the property: wrong sizes, any negative entry, correlation outside [0,1], non-unit correlation diagonal, duplicate or unknown source names, unknown parameter names incl. mixed known/unknown keyword sets, missing or non-numeric limits, Poisson data with a negative or non-integer entry, unsorted bin edges, wrong-dimensional histogram heights or fill data, unknown axis names, out-of-range confidence levels) and 'exc.frame' (on every raising path the object's abstract view equals its pre-state; NexusFitter.set_fit_parameter_values raises before any node or minimizer value is touched). Functions: SimpleGaussianError.__init__ and error/error_rel setters, MatrixGaussianError._calculate_cov_mat_from_cor_mat_and_error_array, DataContainerBase._add_error_object, disable_error/enable_error, XYContainer._find_axis_raise, HistContainer.rebin/set_bins/fill, ConfidenceLevel.__init__ and setters, CostFunction_NegLogLikelihood.is_data_compatible, NexusFitter.set_fit_parameter_values, FitBase.add_parameter_constraint/limit_parameter.",
        note="Trusted: np.allclose as an opaque 'unit diagonal' predicate, value-copy models of np.array/asarray, float() succeeds exactly on numbers, python dict/set semantics on concrete key sets, backend and node assignments recorded as external calls. Open known finding KF-C19-1 (Nexus.add with 'replace' leaves a cycle-closing replacement in place). Bounded only (native, 310 call/variant/age combinations with before/after observable comparison): FitBase.__init__ reserved names, FitBase.data setter rollback, HistContainer.__init__, GaussianMatrixParameterConstraint.__init__, node names, Nexus.add/add_dependency/add_alias.",
        ref="3 C19"),
    "C01": dict(
        text="The cost is decomposed along its anchors and each piece is verified on the real source: CostFunction.__call__ for every built-in configuration (loop invariant over the constraint list: result = handle(core arguments) + the cost of EVERY constraint + the log-determinant when present, nothing else); CostFunction_Chi2._chi2 on its QR, Cholesky, pointwise and no-error paths incl. the documented fallbacks and raise conditions, identified with r^T V^-1 r through Lean/Mathlib lemmas; log_determinant_cholesky/qr/pointwise = ln det V; the four negative log-likelihood statics; both constraint cost methods; XYFit._project_cov_mat/_project_error and the central-difference model slope; the two total = model + data lambdas registered in the graph; FitBase._on_error_change (every basic error node marked, implicit no-error chi2 replaced by the covariance chi2, re-registered and re-targeted) and the FitBase.data setter wiring BOTH the data container and the parametric model to it - which is what 'no declared source is silently ignored, also when a model-referenced source is the first or only one' rests on.",
        note="Trusted: Lean lemmas as axioms over uninterpreted linear algebra (checked by `lean` in the thorough tier); numpy/scipy contracts for qr, cholesky, solve_triangular, inner/dot/sum/log and the log densities; cost handle pure; node values delivered by the graph (C04); per-container totals (C02); floats as reals with NaN guards never firing. Open known finding KF-C01-1 (HistFit density=True with a model-relative source, a FIXME in the code). Bounded/enumerated only (native, 640 configurations): end-to-end cost of real fits of all four types against an independent formula implementation, the typed wiring table of cost arguments for every fit type x cost identifier, and 'every error-reading node below the cost is in the marked set'.",
        ref="3 C01"),
    "C07": dict(
        text="The code that turns the optimiser's raw outputs into the reported uncertainties is verified on the real source: MinimizerBase fill/remove of zero rows and columns for fixed parameters (loop invariants with a rank function and a gap lemma proved by z3 induction), the chain hessian -> hessian_inv -> cov_mat = 2 errordef H^-1 -> cor_mat = C_ij/(sigma_i sigma_j) (idempotent cached getters) for the base class and the iminuit adapter, _calculate_asymmetric_parameter_errors (each free parameter: the two crossings of the profile at rise 1 around the optimum, state saved and restored, fixed parameters get 0), the profile trace of _find_cost_cut, _save_state/_load_state as an exact round trip, and XYFit.error_band = sqrt of the quadratic form of the Jacobian row with the covariance restricted to the FREE parameters. Proof level over uninterpreted linear algebra is right: the property is a family of defining equations, not numerics.",
        note="Trusted: numdifftools.Hessian / iminuit.hesse return the Hessian at the optimum; np.linalg.inv is the inverse; scipy brentq returns a root of its argument; masked-index identity for the band; floats as reals. Bounded only (native): the equations on real back ends for quadratic costs with known curvature, every fixed subset, both errordefs; MINUIT contour points lie on the errordef*sigma^2 level; the scipy adapter's heuristic contour grid is not checked (stated).",
        ref="3 C07"),
    "C15": dict(
        text="Bookkeeping only: every kafe2 function that translates between the full and the free parameter vector, or addresses parameters by position, is verified against a rank-based, label-free specification: fill/remove of fixed rows and columns (shared with C07), the scipy adapter's argument re-packing loop for fixed parameters (invariant: the k-th free slot receives the k-th free argument, for any number and position of fixed parameters, including the nested objective), its per-name fix/release/limit/unlimit bookkeeping over every limit pattern of three parameters, is_diagonal as a statement about exact zeros (hence the same in every unit), and NexusFitter's initial step sizes. End-to-end invariance of an optimiser's result is numerical and is NOT proved; it is observed by the bounded native run only.",
        note="Trusted as C07 plus: scipy.optimize.minimize calls the objective with vectors of the length it was given; numpy fancy / mask indexing identities. Bounded only (never counted as proved): twin fits under permutation of points (correlated covariance, with and without x errors), all orders of three parameters x {none, fixed, limited, constrained, combinations} incl. asymmetric errors and band, rescaling of y by 1e-6..1e4 on both back ends. Open known finding KF-C15-1: the scipy back end is not invariant under rescaling y by >= 1000x (absolute optimiser tolerances); iminuit is.",
        ref="3 C15"),
}

NOT_APPLICABLE = {
    "C05": "decided by numerical convergence of MIGRAD/SLSQP (external native code) to the GLS optimum in floating point; no contract on a kafe2 function implies it (kafe2-side ingredients are claimed under C01/C07/C15); a numerical comparison would be exploration, a different technique family",
    "C06": "local minimality within tolerance, agreement of two external optimisers and convergence of the iterative refit are numerical properties of external code; the protocol pieces that are code (nothing left frozen, references restored, fixed values bit-identical) are claimed under C03/C15",
}
PENDING = "contracts for this property are not built yet in this commit (see DESIGN.md section 6 for the build order); not claimed until its check passes its self-test"


def main():
    props = [json.loads(l)["id"] for l in open(os.path.join(HERE, "properties.jsonl"))]
    checks = []
    for pid in props:
        if pid not in CLAIMED:
            continue
        c = CLAIMED[pid]
        checks.append({
            "property_id": pid,
            "quick_cmd": f"python3-vt check.py {pid} --tier quick",
            "thorough_cmd": f"python3-vt check.py {pid} --tier thorough",
            "evidence_file": f"/verif/evidence/{pid}.json",
            "replay_cmd_template": f"python3-vt check.py {pid} --replay {{path}}",
            "engine": "pyvc",
            "level_claimed": {"category": c.get("category", "proof"), "text": c["text"], "design_ref": "DESIGN.md section " + c["ref"]},
            "level_note": c["note"],
            "technique": c.get("technique", TECH),
        })
    na = [{"property_id": p, "reason": NOT_APPLICABLE.get(p, PENDING)} for p in props if p not in CLAIMED]
    man = {
        "version": 1,
        "setup_cmd": "python3-vt setup.py",
        "hooks": {
            "guard": "KAFE2_VERIF",
            "enable": "none - contracts are sidecar files under /verif/contracts keyed by (file, qualified name, loop ordinal); /repo is never instrumented, the guard is declared but unused. The only commits in /repo are unguarded 'fix:' repairs of genuine defects.",
            "baseline_off_cmd": "cd /repo && /venv/bin/python -m pytest -ra -q -p no:cacheprovider --timeout=900 --continue-on-collection-errors",
            "source_commits": [],
            "add_only": True,
        },
        "engines": [{"name": "pyvc", "path": "pyvc/", "serves_properties": sorted(CLAIMED), "kind_free_text": "contract-based deductive verification: VC generator over the Python ast of the real /repo source (re-read every run), sidecar contracts in contracts/, z3 + cvc5 back ends, z3 induction pairs and Lean/Mathlib lemmas; counter-models and unproved obligations are replayed / searched natively under /venv/bin/python (native/)"}],
        "checks": checks,
        "not_applicable": na,
        "notes": "exit codes of every check: 0 held (or only listed KNOWN-FINDINGs), 1 VIOLATION (line printed), 2 undecided (an obligation neither proved nor refuted; never reported as a violation), 3 checker error. `--root <dir>` runs a check against a scratch worktree (used for seeded-change self-tests); registered commands run against /repo. Unguarded 'fix:' commits in /repo (repairs of genuine defects, see known_findings.json): " + "; ".join(l[:9] + l[40:] for l in FIX_COMMITS),
    }
    json.dump(man, open(os.path.join(HERE, "MANIFEST.json"), "w"), indent=1)
    try:
        import jsonschema
        jsonschema.validate(man, json.load(open("/root/.vp/MANIFEST.schema.json")))
        print("MANIFEST.json valid;", len(checks), "checks,", len(na), "not claimed")
    except ImportError:
        print("written (jsonschema not available here)")


if __name__ == "__main__":
    main()
