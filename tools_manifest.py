#!/usr/bin/env python3
"""Regenerates MANIFEST.json from the table below (kept in one place so the manifest is always valid and current)."""
import json, os, subprocess

HERE = os.path.dirname(os.path.abspath(__file__))
FIX_COMMITS = subprocess.run(["git", "-C", "/repo", "log", "--format=%H %s", "54e9bae..HEAD"], capture_output=True, text=True).stdout.strip().splitlines()

TECH = "contract-based deductive verification: VCs generated from the real Python AST against sidecar contracts, discharged by z3/cvc5 (+ induction pairs / Lean lemmas); counter-models replayed natively"

CLAIMED = {
    "C12": dict(
        text="Every method of HistContainer that the property depends on (_fill_unprocessed with its merge-loop invariant, data/underflow/overflow/raw_data getters, fill, rebin, set_bins) is verified function by function against contracts stated over the half-open-bin specification taken from the property text (binof/cnt spec functions), for all edge sequences, entries, batch sizes and iteration counts; three counting lemmas are proved by z3 induction pairs. Proof level is right because the property quantifies over unbounded inputs and histories and the code is a comparison-only loop over arrays, which the VC generator covers completely.",
        note="Trusted: np.sort is a sorted permutation (count-preserving); elementwise numpy models (zeros/asarray/insert/append/diff); floats as reals, entries finite (no NaN); closed world (no subclass overrides); z3/cvc5 soundness; induction principle applied outside the solver (base+step discharged). Bounded only (not counted as proved): HistContainer.__init__ argument normalisation and n_entries' sum lemma are exercised by the native small-scope enumeration.",
        ref="3 C12"),
}

NOT_APPLICABLE = {
    "C05": "decided by numerical convergence of MIGRAD/SLSQP (external native code) to the GLS optimum in floating point; no contract on a kafe2 function implies it (kafe2-side ingredients are claimed under C01/C07/C15); a numerical comparison would be exploration, a different technique family",
    "C06": "local minimality within tolerance, agreement of two external optimisers and convergence of the iterative refit are numerical properties of external code; the protocol pieces that are code (nothing left frozen, references restored, fixed values bit-identical) are claimed under C03/C15",
}
PENDING = "contracts for this property are not built yet in this commit (see DESIGN.md section 6 for the build order); not claimed until its check passes its self-test"


def main():
    props = [json.loads(l)["id"] for l in open(os.path.join(HERE, "properties.jsonl"))]
    checks = []
    for pid in props:
        if pid not in CLAIMED:
            continue
        c = CLAIMED[pid]
        checks.append({
            "property_id": pid,
            "quick_cmd": f"python3-vt check.py {pid} --tier quick",
            "thorough_cmd": f"python3-vt check.py {pid} --tier thorough",
            "evidence_file": f"/verif/evidence/{pid}.json",
            "replay_cmd_template": f"python3-vt check.py {pid} --replay {{path}}",
            "engine": "pyvc",
            "level_claimed": {"category": c.get("category", "proof"), "text": c["text"], "design_ref": "DESIGN.md section " + c["ref"]},
            "level_note": c["note"],
            "technique": c.get("technique", TECH),
        })
    na = [{"property_id": p, "reason": NOT_APPLICABLE.get(p, PENDING)} for p in props if p not in CLAIMED]
    man = {
        "version": 1,
        "setup_cmd": "python3-vt setup.py",
        "hooks": {
            "guard": "KAFE2_VERIF",
            "enable": "none - contracts are sidecar files under /verif/contracts keyed by (file, qualified name, loop ordinal); /repo is never instrumented, the guard is declared but unused. The only commits in /repo are unguarded 'fix:' repairs of genuine defects.",
            "baseline_off_cmd": "cd /repo && /venv/bin/python -m pytest -ra -q -p no:cacheprovider --timeout=900 --continue-on-collection-errors",
            "source_commits": [],
            "add_only": True,
        },
        "engines": [{"name": "pyvc", "path": "pyvc/", "serves_properties": sorted(CLAIMED), "kind_free_text": "contract-based deductive verification: VC generator over the Python ast of the real /repo source (re-read every run), sidecar contracts in contracts/, z3 + cvc5 back ends, z3 induction pairs and Lean/Mathlib lemmas; counter-models and unproved obligations are replayed / searched natively under /venv/bin/python (native/)"}],
        "checks": checks,
        "not_applicable": na,
        "notes": "exit codes of every check: 0 held (or only listed KNOWN-FINDINGs), 1 VIOLATION (line printed), 2 undecided (an obligation neither proved nor refuted; never reported as a violation), 3 checker error. `--root <dir>` runs a check against a scratch worktree (used for seeded-change self-tests); registered commands run against /repo. Unguarded 'fix:' commits in /repo (repairs of genuine defects, see known_findings.json): " + "; ".join(l[:9] + l[40:] for l in FIX_COMMITS),
    }
    json.dump(man, open(os.path.join(HERE, "MANIFEST.json"), "w"), indent=1)
    try:
        import jsonschema
        jsonschema.validate(man, json.load(open("/root/.vp/MANIFEST.schema.json")))
        print("MANIFEST.json valid;", len(checks), "checks,", len(na), "not claimed")
    except ImportError:
        print("written (jsonschema not available here)")


if __name__ == "__main__":
    main()
