#!/usr/bin/env python3
"""check.py Cxx [--tier quick|thorough] [--root /repo] [--replay file]   (run with python3-vt)"""
import os, sys

sys.path.insert(0, os.path.dirname(os.path.abspath(__file__)))
from pyvc import harness


def main():
    if len(sys.argv) < 2 or not sys.argv[1].startswith("C"):
        print(__doc__)
        return 3
    prop = sys.argv[1]
    try:
        mod = __import__(f"contracts.{prop.lower()}", fromlist=["META"])
    except ImportError as e:
        print(f"CHECKER-ERROR no contracts for {prop}: {e}")
        return 3
    return harness.main(prop, mod.META)


if __name__ == "__main__":
    sys.exit(main())
