"""setup_cmd: verify tool versions; nothing is downloaded. (Lean lemmas are built by thorough checks / `lean/build.sh`.)"""
import subprocess, sys
def main():
    import z3
    print("z3-solver", z3.get_version_string())
    try:
        import cvc5
        print("cvc5", cvc5.__version__ if hasattr(cvc5, "__version__") else "present")
    except Exception as e:  # cvc5 is a fallback back end only
        print("cvc5 python module not importable:", e)
    r = subprocess.run(["/venv/bin/python", "-c", "import sys; sys.path.insert(0,'/repo'); import kafe2, numpy, scipy, iminuit; print('kafe2', kafe2.__version__, 'numpy', numpy.__version__)"], capture_output=True, text=True)
    print(r.stdout.strip() or r.stderr.strip()[-300:])
    return 0 if r.returncode == 0 else 1
if __name__ == "__main__":
    sys.exit(main())
