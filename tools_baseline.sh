#!/bin/bash
# tools_baseline.sh [Cxx ...]: re-record baseline/<Cxx>.json (ids of the obligations discharged on the unchanged /repo tree) after contracts or /repo changed.
# Maintainer tool; registered commands never write the baseline.
cd /verif || exit 9
props=${@:-$(python3 -c "import json; print(' '.join(c['property_id'] for c in json.load(open('MANIFEST.json'))['checks']))")}
rc=0
for p in $props; do
  python3-vt check.py $p --tier quick --write-baseline --evidence /tmp/baseline_ev_$p.json 2>&1 | grep -v "^KNOWN" | tail -1 | cut -c1-160 || rc=1
  rm -f /tmp/baseline_ev_$p.json
done
exit $rc
