#!/bin/bash
# tools_try.sh <patch.diff> <Cxx> [extra check args]: apply a patch to a scratch worktree of /repo (outside /repo and /verif), run the check on it, remove the worktree
set -u
P=$(readlink -f "$1"); PROP=$2; shift 2
D=$(mktemp -d /tmp/vt_XXXXXX); rmdir "$D"
git -C /repo worktree add -q --detach "$D" HEAD || exit 9
if ! git -C "$D" apply --ignore-whitespace "$P"; then echo "PATCH-DOES-NOT-APPLY"; git -C /repo worktree remove --force "$D"; exit 9; fi
cd /verif && python3-vt check.py "$PROP" --root "$D" --evidence "$D/evidence.json" "$@"
rc=$?
git -C /repo worktree remove --force "$D"
exit $rc
