"""library models for the pyvc prototype (each is a trusted-base entry)"""
import z3
from .core import *


def lib_isinstance(e, st, a, kw, n):
    """isinstance on modelled values against builtin types (python lists and tuples are both VTuple: `list`, `tuple` and `(list, tuple)` accept either)"""
    import ast as _ast
    x = a[0]
    spec = n.args[1]
    names = [_ast.unparse(t) for t in (spec.elts if isinstance(spec, _ast.Tuple) else [spec])]
    kinds = set()
    if isinstance(x, VNum):
        kinds |= {"int"} if (x.is_int and not getattr(x, "python_float", False)) else {"float"}
    if isinstance(x, VBool):
        kinds |= {"bool", "int"}
    if isinstance(x, VStr):
        kinds |= {"str"}
    if isinstance(x, (VTuple, VSeqOf)) or (isinstance(x, VSeq) and (x.pylist or (z3.is_int_value(z3.simplify(x.len)) and z3.simplify(x.len).as_long() == 0))):
        kinds |= {"list", "tuple"}
    if isinstance(x, VDict):
        kinds |= {"dict"}
    known = {"int", "float", "str", "list", "tuple", "dict", "bool"}
    if not set(names) <= known or not kinds:
        raise Unsupported("isinstance " + _ast.unparse(n))
    return VBool(z3.BoolVal(bool(kinds & set(names))))


def lib_getattr(e, st, a, kw, n):
    """getattr(obj, 'name') with a concrete name == obj.name (evaluated as that attribute expression)"""
    import ast as _ast
    if len(a) != 2 or not isinstance(a[1], VStr):
        raise Unsupported("getattr with a default or a non-concrete name: " + _ast.unparse(n))
    tmp = "#getattr%d" % len(st.locals)
    st.locals[tmp] = a[0]
    node = _ast.copy_location(_ast.Attribute(value=_ast.copy_location(_ast.Name(id=tmp, ctx=_ast.Load()), n), attr=a[1].s, ctx=_ast.Load()), n)
    try:
        return e.ev(node, st)
    finally:
        st.locals.pop(tmp, None)


def lib_len(e, st, a, kw, n):
    x = a[0]
    if isinstance(x, (VSeq, VRefSeq, VSeqOf)):
        return VNum(x.len)
    if isinstance(x, VTuple):
        return VNum(z3.IntVal(len(x.items)))
    if isinstance(x, VOpaque) and isinstance(x.tag, tuple) and x.tag[0] == "map":
        return VNum(x.tag[1])  # abstract finite map: ("map", size)
    if isinstance(x, VDict):
        return VNum(z3.IntVal(len(x.d)))
    if isinstance(x, VOpaque):      # length of an external result: some non-negative integer
        r = fresh("extlen", I)
        st.assume(r >= 0)
        return VNum(r)
    raise Unsupported("len of " + type(x).__name__)


def lib_identity(e, st, a, kw, n):
    return a[0]


def lib_asarray(e, st, a, kw, n):
    x = a[0]
    if isinstance(x, VSeq) and x.pylist:   # a fresh ndarray with the same elements
        y = VSeq(x.arr, x.len)
        if hasattr(x, "ndim"):
            y.ndim = x.ndim
        return y
    if isinstance(x, VTuple) and all(isinstance(t, VNum) for t in x.items):
        items = list(x.items)
        def fn(k_):
            r = z3.RealVal(0)
            for idx in reversed(range(len(items))):
                r = z3.If(k_ == idx, items[idx].real(), r)
            return r
        return VSeq(FnArr(fn), z3.IntVal(len(items)))
    return x


def lib_list(e, st, a, kw, n):
    x = a[0]
    if isinstance(x, VNum):
        raise PyRaise("TypeError")     # list(scalar): 'float' object is not iterable
    if isinstance(x, VSeq):
        return VSeq(x.arr, x.len, pylist=True)
    if isinstance(x, VTuple):
        return VTuple(list(x.items))
    raise Unsupported("list() of " + type(x).__name__)


def lib_np_diff(e, st, a, kw, n):
    x = a[0]
    return VSeq(FnArr(lambda k_: x.arr[k_ + 1] - x.arr[k_]), z3.If(x.len >= 1, x.len - 1, z3.IntVal(0)))


def lib_np_all(e, st, a, kw, n):
    return e.bool_reduce(a[0], "all") if isinstance(a[0], (VBoolSeq, VBoolMat)) else VBool(e.truth(a[0]))


def lib_np_any(e, st, a, kw, n):
    return e.bool_reduce(a[0], "any") if isinstance(a[0], (VBoolSeq, VBoolMat)) else VBool(e.truth(a[0]))


def lib_np_sort(e, st, a, kw, n):
    x = a[0]
    s = VSeq.fresh("sorted")
    i, j = z3.Ints("i!s j!s")
    st.assume(s.len == x.len)
    st.assume(z3.ForAll([i, j], z3.Implies(z3.And(0 <= i, i <= j, j < s.len), s.arr[i] <= s.arr[j])))
    st.ghost["sort_of"] = (s, x)
    # count-preservation (np.sort returns a permutation): instantiated for the spec counting functions the contract module registers
    for mkax in getattr(e, "count_preserving", []):
        st.assume(mkax(s.arr, materialise(x.arr), x.len))
    return s


def lib_np_zeros(e, st, a, kw, n):
    shp = a[0] if a else kw["shape"]
    if isinstance(shp, VTuple) and len(shp.items) == 2:
        return VMat(FnArr(lambda i_: FnArr(lambda j_: z3.RealVal(0))), shp.items[0].e, shp.items[1].e)
    return VSeq(FnArr(lambda k_: z3.RealVal(0)), shp.e)


def lib_np_zeros_like(e, st, a, kw, n):
    x = a[0]
    if isinstance(x, VMat):
        return VMat(FnArr(lambda i_: FnArr(lambda j_: z3.RealVal(0))), x.rows, x.cols)
    return VSeq(FnArr(lambda k_: z3.RealVal(0)), x.len)


def lib_np_diag(e, st, a, kw, n):
    x = a[0]
    if isinstance(x, VSeq):  # vector -> diagonal matrix
        return VMat(FnArr(lambda i_: FnArr(lambda j_: z3.If(i_ == j_, x.arr[i_], z3.RealVal(0)))), x.len, x.len)
    return VSeq(FnArr(lambda k_: x.arr[k_][k_]), x.rows)


def lib_np_outer(e, st, a, kw, n):
    x, y = a
    return VMat(FnArr(lambda i_: FnArr(lambda j_: x.arr[i_] * y.arr[j_])), x.len, y.len)


def lib_np_insert(e, st, a, kw, n):
    x, pos, v = a
    p = pos.e
    return VSeq(FnArr(lambda k_: z3.If(k_ < p, x.arr[k_], z3.If(k_ == p, v.real(), x.arr[k_ - 1]))), x.len + 1)


def lib_np_append(e, st, a, kw, n):
    x, v = a
    return VSeq(z3.Store(materialise(x.arr), x.len, v.real()), x.len + 1)


def lib_zip(e, st, a, kw, n):
    return VZip(list(a))


def lib_enumerate(e, st, a, kw, n):
    return VEnum(a[0])


def lib_range(e, st, a, kw, n):
    if len(a) == 1:
        return VRange(z3.IntVal(0), a[0].e)
    return VRange(a[0].e, a[1].e)


def lib_np_ones_like(e, st, a, kw, n):
    x = a[0]
    if isinstance(x, VNum):
        return VNum(z3.RealVal(1))
    return VSeq(FnArr(lambda k_: z3.RealVal(1)), x.len)


def lib_np_isscalar(e, st, a, kw, n):
    return VBool(z3.BoolVal(isinstance(a[0], VNum)))


def lib_set(e, st, a, kw, n):
    if not a:
        return VPySet(())
    x = a[0]
    if isinstance(x, VTuple):
        return VPySet(e.key_of(i_) for i_ in x.items)
    if isinstance(x, VPySet):
        return x
    if isinstance(x, VStr) and not x.s.startswith("<"):          # the characters of a concrete string
        return VPySet(x.s)
    raise Unsupported("set() of " + type(x).__name__)


def lib_float(e, st, a, kw, n):
    x = e.num(a[0], st)
    if isinstance(x, VNum):
        return VNum(x.real())
    if isinstance(x, (VStr, VNone, VSeq, VTuple)):
        raise PyRaise("TypeError" if not isinstance(x, VStr) else "ValueError")
    raise Unsupported("float() of " + type(x).__name__)


def lib_dict(e, st, a, kw, n):
    d = {}
    for k_ in n.keywords:
        if k_.arg is None:                 # **other
            o = e.ev(k_.value, st)
            d.update(o.d)
    d.update({k_: v_ for k_, v_ in kw.items() if k_ is not None})
    return VDict(d)


def lib_any_all(which):
    def f(e, st, a, kw, n):
        x = a[0]
        if isinstance(x, VTuple):
            ts = [e.truth(v) for v in x.items]
            return VBool((z3.Or(ts) if ts else z3.BoolVal(False)) if which == "any" else (z3.And(ts) if ts else z3.BoolVal(True)))
        if isinstance(x, (VBoolSeq, VBoolMat)):
            return e.bool_reduce(x, which)
        raise Unsupported(which + " over " + type(x).__name__)
    return f


def lib_abs(e, st, a, kw, n):
    x = a[0]
    if isinstance(x, VNum):
        v = x.e if x.is_int else x.real()
        r = VNum(z3.If(v >= 0, v, -v))
        return r
    if isinstance(x, VSeq):
        return VSeq(FnArr(lambda k_: z3.If(x.arr[k_] >= 0, x.arr[k_], -x.arr[k_])), x.len)
    raise Unsupported("abs of " + type(x).__name__)


def lib_min_max(which):
    def f(e, st, a, kw, n):
        items = list(a[0].items) if len(a) == 1 and isinstance(a[0], VTuple) else list(a)
        if not items or not all(isinstance(v, VNum) for v in items):
            raise Unsupported(which + " of non-numbers")
        r = items[0]
        for v in items[1:]:
            x, y = num_pair(r, v)
            r = VNum(z3.If((x <= y) if which == "min" else (x >= y), x, y))
        return r
    return f


def install(eng):
    eng.lib.update({"any": lib_any_all("any"), "all": lib_any_all("all"), "min": lib_min_max("min"), "max": lib_min_max("max")})
    eng.lib.update({
        "len": lib_len, "abs": lib_abs, "np.abs": lib_abs, "np.absolute": lib_abs, "partial": lambda e, st, a, kw, node: VPartial(a[0], a[1:], kw), "getattr": lib_getattr, "isinstance": lib_isinstance, "dict": lib_dict, "list": lib_list, "np.asarray": lib_asarray, "np.array": lib_asarray,
        "float": lib_float, "set": lib_set, "zip": lib_zip, "enumerate": lib_enumerate, "range": lib_range, "np.ones_like": lib_np_ones_like, "np.isscalar": lib_np_isscalar,
        "np.diff": lib_np_diff, "np.all": lib_np_all, "np.any": lib_np_any,
        "np.sort": lib_np_sort, "np.zeros": lib_np_zeros, "np.zeros_like": lib_np_zeros_like,
        "np.diag": lib_np_diag, "np.outer": lib_np_outer, "np.insert": lib_np_insert, "np.append": lib_np_append,
    })
