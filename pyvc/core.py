"""pyvc core: AST -> VC symbolic executor over the REAL /repo source with a typed heap, sidecar contracts,
loops cut by invariants, numpy models as index->term closures. See DESIGN.md section 2."""
import ast, os, itertools, hashlib, time, textwrap
import z3

I, R, B = z3.IntSort(), z3.RealSort(), z3.BoolSort()
Ref = z3.DeclareSort("Ref")
Name = z3.DeclareSort("Name")         # symbolic strings used as dictionary keys (only equality matters)
NAME_NONE = z3.Const("name_None", Name)
ALIVE0 = z3.Function("alive_at_entry", Ref, B)     # objects that existed when the verified function was entered
NULL = z3.Const("null", Ref)
_ctr = [0]     # fresh-name counter; reset on statement re-execution so that a re-run regenerates the SAME constants (see exec_stmt)


def fresh(name, sort):
    _ctr[0] += 1
    return z3.Const(f"{name}!{_ctr[0]}", sort)


def arr(*sorts):
    s = sorts[-1]
    for d in reversed(sorts[:-1]):
        s = z3.ArraySort(d, s)
    return s


# ------------------------------------------------------------------ static field types (schema)
class FT:
    def __init__(self, kind, cls=None):
        self.kind, self.cls = kind, cls  # kind in num,int,bool,ref,seq,mat,refseq,refset,str,opaque


OPTSEQ, CALLREF, FUN, PYOBJ, MAP = FT("optseq"), FT("callref"), FT("fun"), FT("pyobj"), FT("map")


def NAMEMAP(cls=None):
    """insertion-ordered dict with symbolic string keys and object values (e.g. name -> error entry)"""
    return FT("namemap", cls)
NUM, INT, BOOL, SEQ, MAT, STR, OPQ, OPTNUM = FT("num"), FT("int"), FT("bool"), FT("seq"), FT("mat"), FT("str"), FT("opaque"), FT("optnum")


def REF(cls=None):
    return FT("ref", cls)


def RECORD(**fields):
    """Optional[dict] with a fixed set of string keys, stored flattened on the owning object: field 'X' of kind record with keys k1.. becomes the
    heap fields 'X.k1', .. plus the flag 'X.#none' (dict identity is not modelled: the dict is never shared between objects)"""
    t = FT("record")
    t.fields = fields
    return t


def REFSEQ(cls=None):
    return FT("refseq", cls)


def REFSET(cls=None):
    return FT("refset", cls)


HEAP_SORTS = {
    "num": {"": arr(Ref, R)},
    "int": {"": arr(Ref, I)},
    "bool": {"": arr(Ref, B)},
    "ref": {"": arr(Ref, Ref)},
    "seq": {"": arr(Ref, I, R), "len": arr(Ref, I)},
    "mat": {"": arr(Ref, I, I, R), "rows": arr(Ref, I), "cols": arr(Ref, I)},
    "refseq": {"": arr(Ref, I, Ref), "len": arr(Ref, I)},
    "refset": {"": arr(Ref, Ref, B)},
    "optnum": {"": arr(Ref, R), "none": arr(Ref, B)},
    "optseq": {"": arr(Ref, I, R), "len": arr(Ref, I), "none": arr(Ref, B)},
    # union None | ndarray | callable bound to (owner container): kind 0/1/2
    "map": {"size": arr(Ref, I)},
    "optmat": {"": arr(Ref, I, I, R), "rows": arr(Ref, I), "cols": arr(Ref, I), "none": arr(Ref, B)},
    "optrefseq": {"": arr(Ref, I, Ref), "len": arr(Ref, I), "none": arr(Ref, B)},
    "namemap": {"": arr(Ref, I, Ref), "len": arr(Ref, I), "names": arr(Ref, I, Name)},
    "callref": {"kind": arr(Ref, I), "": arr(Ref, I, R), "len": arr(Ref, I), "owner": arr(Ref, Ref)},
}


# ------------------------------------------------------------------ values
class V:
    pass


class FnArr:
    """index -> term closure standing for an array value; beta-reduced eagerly on access (no z3 Lambda in the VC,
    so the SMT-LIB text is also accepted by cvc5). Materialised to an array constant + definitional axiom on demand."""

    def __init__(self, fn, depth=1):
        self.fn, self.depth = fn, depth

    def __getitem__(self, i):
        r = self.fn(i)
        return r


DEFS = []  # definitional axioms of materialised arrays (added to every VC that mentions them)


_MAT_CACHE = {}


def materialise(a, name="arr"):
    """turn an index->term closure into an array constant with a definitional axiom; structurally identical closures
    (same term at the canonical index variables) share one constant, so code and specification agree syntactically"""
    if not isinstance(a, FnArr):
        return a
    k = z3.Int("k!def")
    inner = a[k]
    if isinstance(inner, FnArr):
        j = z3.Int("j!def")
        body = inner[j]
        key = ("2", body.get_id())
        if key in _MAT_CACHE and _MAT_CACHE[key][1] is not None:
            return _MAT_CACHE[key][0]
        c = fresh(name, arr(I, I, R))
        DEFS.append((c.decl().name(), z3.ForAll([k, j], c[k][j] == body, patterns=[c[k][j]])))
        _MAT_CACHE[key] = (c, body)      # keep `body` alive so that its AST id is not reused
        return c
    key = ("1", inner.get_id())
    if key in _MAT_CACHE:
        return _MAT_CACHE[key][0]
    c = fresh(name, arr(I, inner.sort()))
    DEFS.append((c.decl().name(), z3.ForAll([k], c[k] == inner, patterns=[c[k]])))
    _MAT_CACHE[key] = (c, inner)
    return c


class VNum(V):
    def __init__(self, e):
        self.e = e

    @property
    def is_int(self):
        return self.e.sort() == I

    def real(self):
        return z3.ToReal(self.e) if self.is_int else self.e


class VBool(V):
    def __init__(self, e):
        self.e = e


class VOptNum(V):
    """Optional[float]: value + is-None flag"""

    def __init__(self, e, none):
        self.e, self.none = e, none

    is_int = False

    def real(self):          # the number itself (callers that may see None have checked or carry an obligation)
        return self.e


class VNone(V):
    pass


class VOptSeq(V):
    """Optional[1-D array]"""

    def __init__(self, a, n, none):
        self.arr, self.len, self.none = a, n, none


class VCallRef(V):
    """None | ndarray | zero-argument callable returning the owner's raw stored values"""

    def __init__(self, kind, a, n, owner):
        self.kind, self.arr, self.len, self.owner = kind, a, n, owner


class VStr(V):
    def __init__(self, s):
        self.s = s


class VRef(V):
    def __init__(self, e, cls=None):
        self.e, self.cls = e, cls


class VSeq(V):
    pylist = False  # python list (+ concatenates) vs numpy array (+ adds)

    def __init__(self, a, n, pylist=False):
        self.arr, self.len = a, n
        if pylist:
            self.pylist = True

    @staticmethod
    def fresh(name):
        return VSeq(fresh(name, arr(I, R)), fresh(name + "_len", I))


class VBoolSeq(V):
    """elementwise boolean array (result of comparing an array)"""

    def __init__(self, fn, n):
        self.fn, self.len = fn, n


class VBoolMat(V):
    def __init__(self, fn, rows, cols):
        self.fn, self.rows, self.cols = fn, rows, cols


class VMat(V):
    none = None   # z3 Bool for Optional[matrix] values read from an 'optmat' field

    def __init__(self, a, rows, cols, none=None):
        self.arr, self.rows, self.cols = a, rows, cols
        if none is not None:
            self.none = none

    def at(self, i, j):
        return self.arr[i][j]


class VName(V):
    """a symbolic string (dictionary key); e == NAME_NONE models None for Optional[str] arguments"""

    def __init__(self, e):
        self.e = e


class VNameMap(V):
    def __init__(self, a, n, names, cls=None):
        self.arr, self.len, self.names, self.cls = a, n, names, cls

    def has(self, nm):
        q = z3.Int("q!nm")
        return z3.Exists([q], z3.And(0 <= q, q < self.len, self.names[q] == nm))


class VRefSeq(V):
    def __init__(self, a, n, cls=None, none=None):
        self.arr, self.len, self.cls = a, n, cls
        self.none = z3.BoolVal(False) if none is None else none      # Optional[list of objects]


class VTuple(V):
    def __init__(self, items):
        self.items = list(items)


class VRecord(V):
    """handle on a flattened dict-valued field of an object"""

    def __init__(self, ref, field, t):
        self.ref, self.field, self.t = ref, field, t


class VIntMap(V):
    """python dict with integer keys and numeric values, keys symbolic: value array + domain array"""

    def __init__(self, a, dom):
        self.arr, self.dom = a, dom


class VSeqOf(V):
    """a sequence of symbolic length whose item i is the value fn(i) (any V): lists of arrays / records handed to a function"""

    def __init__(self, fn, n, key=None):
        self.fn, self.len, self.key = fn, n, key        # key: identity of the sequence (names the first-index function of list.index)


class VPySet(V):
    """python set with concrete (string) members"""

    def __init__(self, items):
        self.items = frozenset(items)


class VDict(V):
    """python dict with CONCRETE keys (strings or class objects) and symbolic values; mutated in place like the real one"""

    def __init__(self, d=None):
        self.d = dict(d or {})


class VBound(V):  # bound method
    def __init__(self, recv, name):
        self.recv, self.name = recv, name


class VLib(V):
    def __init__(self, name):
        self.name = name


class VLambda(V):
    """a lambda / nested function closure over the defining state's locals"""

    def __init__(self, node, env):
        self.node, self.env = node, env


class VPartial(V):
    """functools.partial(f, *args, **kw): calling it calls f with the stored arguments in front"""

    def __init__(self, f, args, kw):
        self.f, self.args, self.kw = f, list(args), dict(kw)

    def vcall(self, e, st, a, kw):
        f, args, kws = self.f, self.args + list(a), {**self.kw, **kw}
        if isinstance(f, VBound) and isinstance(f.recv, VRef):
            return e.call_method(st, f.recv, f.name, args, kws)
        if isinstance(f, VLambda):
            return e.call_lambda(f, args, kws, st)
        if hasattr(f, "vcall"):
            return f.vcall(e, st, args, kws)
        raise Unsupported("partial of " + type(f).__name__)


class VSuper(V):
    """super(Cls, self): attribute lookup continues after Cls in the MRO of the receiver's class"""

    def __init__(self, recv, after):
        self.recv, self.after = recv, after


class VStar(V):
    """*seq in a call with a symbolic-length sequence"""

    def __init__(self, seq):
        self.seq = seq


class VZip(V):
    def __init__(self, parts):
        self.parts = parts


class VEnum(V):
    def __init__(self, inner):
        self.inner = inner


class VRange(V):
    def __init__(self, lo, hi):
        self.lo, self.hi = lo, hi


class VNode(V):
    """a nexus node looked up by (concrete) name: `.value` is supplied by the contract module (eng.node_values), protocol calls
    (mark_for_update, update, freeze, ...) are recorded in st.ghost['node_calls'] - graph behaviour itself is C04's subject"""

    def __init__(self, name, owner=None):
        self.name, self.owner = name, owner


class VExternal(V):
    """an external object (backend handle, matplotlib axes, ...): attribute calls are recorded in rec['calls'] as
    (method, args, kwargs) and return an opaque value (havoc); assumed contracts are stated by the caller's post"""

    def __init__(self, name, rec):
        self.name, self.rec = name, rec
        rec.setdefault("calls", [])


class VOpaque(V):
    def __init__(self, tag):
        self.tag = tag


def num_pair(a, b):
    if a.is_int and b.is_int:
        return a.e, b.e
    return a.real(), b.real()


# ------------------------------------------------------------------ source front end
class Repo:
    def __init__(self, root="/repo"):
        self.root = root
        self.files = {}
        self.classes = {}  # name -> (path, ClassDef)

    def load(self, path):
        if path not in self.files:
            src = open(os.path.join(self.root, path)).read()
            tree = ast.parse(src)
            self.files[path] = (src, tree)
            for c in tree.body:
                if isinstance(c, ast.ClassDef):
                    self.classes[c.name] = (path, c)
            funcs = [c for c in tree.body if isinstance(c, ast.FunctionDef)]
            if funcs:       # module-level functions: methods of the pseudo class "@<path>" (always static)
                self.classes["@" + path] = (path, ast.ClassDef(name="@" + path, bases=[], keywords=[], body=funcs, decorator_list=[]))
        return self.files[path]

    def mro(self, cls):
        out, todo = [], [cls]
        while todo:
            c = todo.pop(0)
            if c in out or c not in self.classes:
                continue
            out.append(c)
            todo.extend(ast.unparse(b).split(".")[-1] for b in self.classes[c][1].bases)
        return out

    def find(self, cls, name, kind=None, include_static=True, after=None):
        """resolve method/property through the MRO of the REAL class statements; returns (owner, FunctionDef)"""
        mro = self.mro(cls)
        if after is not None and after in mro:
            mro = mro[mro.index(after) + 1:]
        for c in mro:
            for f in self.classes[c][1].body:
                if isinstance(f, ast.FunctionDef) and f.name == name:
                    decos = [ast.unparse(d) for d in f.decorator_list if ast.unparse(d) not in ("staticmethod", "classmethod", "abc.abstractmethod", "abstractmethod")]
                    is_set = any(d.endswith(".setter") for d in decos)
                    is_get = "property" in decos
                    if kind == "setter" and not is_set:
                        continue
                    if kind == "getter" and not is_get:
                        continue
                    if kind is None and (is_set or is_get):
                        continue
                    return c, f
        return None, None

    def is_property(self, cls, name):
        return self.find(cls, name, "getter")[1] is not None

    def sha(self, owner, f):
        path = self.classes[owner][0]
        seg = ast.get_source_segment(self.files[path][0], f)
        return hashlib.sha256(seg.encode()).hexdigest()[:12]


# ------------------------------------------------------------------ state
class State:
    def __init__(self):
        self.locals, self.heap, self.pc, self.ghost, self.decisions = {}, {}, [], {}, {}

    def copy(self):
        """a forked path gets its own copies of the mutable python containers (dicts / lists modelled as VDict / VTuple); aliasing between
        two names for the same container is preserved inside the copy"""
        s = State()
        memo = {}

        def clone(v):
            if type(v).__name__ == "VDict":
                if id(v) not in memo:
                    memo[id(v)] = n_ = type(v)({})
                    n_.d.update({k_: clone(x_) for k_, x_ in v.d.items()})
                return memo[id(v)]
            if type(v).__name__ == "VTuple":
                if id(v) not in memo:
                    memo[id(v)] = n_ = type(v)([])
                    n_.items.extend(clone(x_) for x_ in v.items)
                return memo[id(v)]
            if type(v).__name__ == "VPySet":
                if id(v) not in memo:
                    memo[id(v)] = type(v)(v.items)
                return memo[id(v)]
            return v
        s.locals = {k_: clone(v_) for k_, v_ in self.locals.items()}
        s.heap = {k_: (clone(v_) if isinstance(k_, tuple) and k_ and k_[0] == "pyobj" else v_) for k_, v_ in self.heap.items()}
        s.pc, s.ghost, s.decisions = list(self.pc), dict(self.ghost), dict(self.decisions)
        return s

    def assume(self, c):
        self.pc.append(c)
        return self

    def h(self, field, kind, part=""):
        key = (field, kind, part)
        if key not in self.heap:
            self.heap[key] = z3.Const(f"H_{field}_{kind}_{part}", HEAP_SORTS[kind][part])
        return self.heap[key]

    def set_h(self, field, kind, part, val):
        self.heap[(field, kind, part)] = val


class Unsupported(Exception):
    pass


class PyRaise(Exception):
    """a Python exception raised by a modelled library call / operation on the current path"""

    def __init__(self, exc):
        self.exc = exc


class ForkRequest(Exception):
    """expression-level case split: the enclosing statement is re-executed once per decision"""

    def __init__(self, key, cond):
        self.key, self.cond = key, cond


def exc_matches(raised, handler_names):
    import builtins
    for h in handler_names:
        if h == raised or h in ("Exception", "BaseException"):
            return True
        a, b = getattr(builtins, str(raised), None), getattr(builtins, h, None)
        if isinstance(a, type) and isinstance(b, type) and issubclass(a, b):
            return True
    return False


def sel(a, r):
    """heap read with syntactic store-forwarding: Store(a, r, v)[r] -> v (keeps terms flat for E-matching)"""
    while z3.is_store(a):
        base, idx, val = a.arg(0), a.arg(1), a.arg(2)
        if z3.eq(idx, r):
            return val
        break
    return a[r]


def _has_quantifier(f, _seen=None):
    seen = set() if _seen is None else _seen
    todo = [f]
    while todo:
        x = todo.pop()
        if x.get_id() in seen:
            continue
        seen.add(x.get_id())
        if z3.is_quantifier(x):
            return True
        todo.extend(x.children())
    return False


class Contract:
    def __init__(self, cls, name, kind=None):
        self.cls, self.name, self.kind = cls, name, kind
        self.requires, self.ensures, self.modifies = [], [], []  # lambdas(view) -> z3 Bool ; modifies: (field,kind) on self or '*'
        self.loops = {}
        self.inline = False
        self.result = None  # lambda(view) -> V  (for getters by contract)


class View:
    """what contract lambdas see"""

    def __init__(self, eng, pre, post, selfref, args, result=None):
        self.eng, self.pre, self.post, self.self, self.args, self.result = eng, pre, post, selfref, args, result

    def f(self, st, ref, field):
        return self.eng.read_field(st, ref, field)


# ------------------------------------------------------------------ engine
class Engine:
    def __init__(self, repo, schema, axioms=(), timeout_ms=30000):
        self.repo, self.schema, self.axioms = repo, schema, list(axioms)
        self.contracts = {}
        self.lib = {}
        self.obligations = []
        self.dropped = []
        self.timeout = timeout_ms
        self.cur_loops = {}
        self.functions = []
        self._owner_stack = []
        self._prefix = ""
        self.exc_mode = False  # True: library failures fork raise paths instead of obligations

    # ---- schema
    def ftype(self, cls, field):
        for c in self.repo.mro(cls) if cls in self.repo.classes else [cls]:
            if c in self.schema and field in self.schema[c]:
                return self.schema[c][field]
            if "." in field and c in self.schema:        # component of a flattened record field
                base, key = field.split(".", 1)
                t = self.schema[c].get(base)
                if t is not None and t.kind == "record":
                    return BOOL if key == "#none" else t.fields.get(key)
        return None

    def alloc(self, st, name, cls):
        """allocation of a new object by a constructor model: non-null, not among the objects that existed at function entry
        (alive0), and distinct from every object allocated earlier on this path"""
        r = VRef(fresh(name, Ref), cls)
        prev = st.ghost.get("allocated", ())
        st.assume(z3.And(r.e != NULL, z3.Not(ALIVE0(r.e)), *[r.e != p_ for p_ in prev]))
        st.ghost = dict(st.ghost)
        st.ghost["allocated"] = prev + (r.e,)
        return r

    def is_pylist_field(self, cls, field):
        pl = self.schema.get("__pylists__", set())
        return (cls, field) in pl or any((c, field) in pl for c in (self.repo.mro(cls) if cls in self.repo.classes else []))

    def decide(self, st, key, cond):
        """case split inside an expression: returns the decision taken on this path (re-executing the statement if undecided)"""
        cond = z3.simplify(cond)
        if z3.is_true(cond):
            return True
        if z3.is_false(cond):
            return False
        if key in st.decisions:
            return st.decisions[key]
        raise ForkRequest(key, cond)

    def read_field(self, st, ref, field):
        t = self.ftype(ref.cls, field)
        if t is None:
            raise Unsupported(f"no schema for {ref.cls}.{field}")
        k = t.kind
        if k == "record":
            return VRecord(ref, field, t)
        if k in ("num", "int"):
            return VNum(sel(st.h(field, k), ref.e))
        if k == "optnum":
            return VOptNum(sel(st.h(field, k), ref.e), sel(st.h(field, k, "none"), ref.e))
        if k == "optseq":
            return VOptSeq(sel(st.h(field, k), ref.e), sel(st.h(field, k, "len"), ref.e), sel(st.h(field, k, "none"), ref.e))
        if k == "callref":
            return VCallRef(sel(st.h(field, k, "kind"), ref.e), sel(st.h(field, k), ref.e), sel(st.h(field, k, "len"), ref.e), sel(st.h(field, k, "owner"), ref.e))
        if k == "bool":
            return VBool(sel(st.h(field, k), ref.e))
        if k == "ref":
            return VRef(sel(st.h(field, k), ref.e), t.cls)
        if k == "seq":
            return VSeq(sel(st.h(field, k), ref.e), sel(st.h(field, k, "len"), ref.e), pylist=self.is_pylist_field(ref.cls, field))
        if k == "mat":
            return VMat(sel(st.h(field, k), ref.e), sel(st.h(field, k, "rows"), ref.e), sel(st.h(field, k, "cols"), ref.e))
        if k == "refseq":
            return VRefSeq(sel(st.h(field, k), ref.e), sel(st.h(field, k, "len"), ref.e), t.cls)
        if k == "optmat":
            return VMat(sel(st.h(field, k), ref.e), sel(st.h(field, k, "rows"), ref.e), sel(st.h(field, k, "cols"), ref.e), none=sel(st.h(field, k, "none"), ref.e))
        if k == "optrefseq":
            return VRefSeq(sel(st.h(field, k), ref.e), sel(st.h(field, k, "len"), ref.e), t.cls, none=sel(st.h(field, k, "none"), ref.e))
        if k == "namemap":
            return VNameMap(sel(st.h(field, k), ref.e), sel(st.h(field, k, "len"), ref.e), sel(st.h(field, k, "names"), ref.e), t.cls)
        if k == "refset":
            return VOpaque(("refset", field, ref))
        if k == "fun":
            return VOpaque(("fun", field))
        if k == "map":
            return VOpaque(("map", sel(st.h(field, k, "size"), ref.e)))
        if k == "pyobj":
            key = ("pyobj", field, str(ref.e))
            if key not in st.heap:
                raise Unsupported(f"pyobj field {ref.cls}.{field} read before it was set (give it a value in init)")
            return st.heap[key]
        raise Unsupported("field kind " + k)

    def write_field(self, st, ref, field, v):
        t = self.ftype(ref.cls, field)
        if t is None:
            raise Unsupported(f"no schema for {ref.cls}.{field}")
        k = t.kind
        if k == "record":
            if isinstance(v, VNone):
                self.write_field(st, ref, field + ".#none", VBool(z3.BoolVal(True)))
                return
            if not isinstance(v, VDict) or set(v.d) != set(t.fields):
                raise Unsupported(f"store into record field {field}: keys {sorted(getattr(v, 'd', {}))} vs {sorted(t.fields)}")
            self.write_field(st, ref, field + ".#none", VBool(z3.BoolVal(False)))
            for key, val in v.d.items():
                self.write_field(st, ref, field + "." + key, val)
            return
        if k in ("num", "int"):
            st.set_h(field, k, "", z3.Store(st.h(field, k), ref.e, v.e if k == "int" else v.real()))
        elif k == "optseq":
            if isinstance(v, VNone):
                st.set_h(field, k, "none", z3.Store(st.h(field, k, "none"), ref.e, z3.BoolVal(True)))
            else:
                st.set_h(field, k, "", z3.Store(st.h(field, k), ref.e, materialise(v.arr, field)))
                st.set_h(field, k, "len", z3.Store(st.h(field, k, "len"), ref.e, v.len))
                st.set_h(field, k, "none", z3.Store(st.h(field, k, "none"), ref.e, v.none if isinstance(v, VOptSeq) else z3.BoolVal(False)))
        elif k == "callref":
            if isinstance(v, VNone):
                st.set_h(field, k, "kind", z3.Store(st.h(field, k, "kind"), ref.e, z3.IntVal(0)))
            elif isinstance(v, VSeq):
                st.set_h(field, k, "kind", z3.Store(st.h(field, k, "kind"), ref.e, z3.IntVal(1)))
                st.set_h(field, k, "", z3.Store(st.h(field, k), ref.e, materialise(v.arr, field)))
                st.set_h(field, k, "len", z3.Store(st.h(field, k, "len"), ref.e, v.len))
            elif isinstance(v, VCallRef):
                for part, val in (("kind", v.kind), ("", materialise(v.arr, field)), ("len", v.len), ("owner", v.owner)):
                    st.set_h(field, k, part, z3.Store(st.h(field, k, part), ref.e, val))
            else:
                raise Unsupported("store into callref field: " + type(v).__name__)
        elif k == "optnum":
            if isinstance(v, VNone):
                st.set_h(field, k, "none", z3.Store(st.h(field, k, "none"), ref.e, z3.BoolVal(True)))
            else:
                st.set_h(field, k, "", z3.Store(st.h(field, k), ref.e, v.real() if isinstance(v, VNum) else v.e))
                st.set_h(field, k, "none", z3.Store(st.h(field, k, "none"), ref.e, v.none if isinstance(v, VOptNum) else z3.BoolVal(False)))
        elif k == "bool":
            st.set_h(field, k, "", z3.Store(st.h(field, k), ref.e, v.e))
        elif k == "ref":
            st.set_h(field, k, "", z3.Store(st.h(field, k), ref.e, NULL if isinstance(v, VNone) else v.e))
        elif k == "seq":
            st.set_h(field, k, "", z3.Store(st.h(field, k), ref.e, materialise(v.arr, field)))
            st.set_h(field, k, "len", z3.Store(st.h(field, k, "len"), ref.e, v.len))
        elif k == "mat":
            st.set_h(field, k, "", z3.Store(st.h(field, k), ref.e, materialise(v.arr, field)))
            st.set_h(field, k, "rows", z3.Store(st.h(field, k, "rows"), ref.e, v.rows))
            st.set_h(field, k, "cols", z3.Store(st.h(field, k, "cols"), ref.e, v.cols))
        elif k == "pyobj":
            st.heap[("pyobj", field, str(ref.e))] = v
        elif k == "namemap":
            st.set_h(field, k, "", z3.Store(st.h(field, k), ref.e, v.arr))
            st.set_h(field, k, "len", z3.Store(st.h(field, k, "len"), ref.e, v.len))
            st.set_h(field, k, "names", z3.Store(st.h(field, k, "names"), ref.e, v.names))
        elif k == "optmat":
            if isinstance(v, VNone):
                st.set_h(field, k, "none", z3.Store(st.h(field, k, "none"), ref.e, z3.BoolVal(True)))
            else:
                st.set_h(field, k, "", z3.Store(st.h(field, k), ref.e, materialise(v.arr, field)))
                st.set_h(field, k, "rows", z3.Store(st.h(field, k, "rows"), ref.e, v.rows))
                st.set_h(field, k, "cols", z3.Store(st.h(field, k, "cols"), ref.e, v.cols))
                st.set_h(field, k, "none", z3.Store(st.h(field, k, "none"), ref.e, v.none if v.none is not None else z3.BoolVal(False)))
        elif k == "optrefseq":
            if isinstance(v, VNone):
                st.set_h(field, k, "none", z3.Store(st.h(field, k, "none"), ref.e, z3.BoolVal(True)))
            else:
                if isinstance(v, VTuple):
                    a_ = z3.K(I, NULL)
                    for q_, it_ in enumerate(v.items):
                        a_ = z3.Store(a_, q_, it_.e)
                    v = VRefSeq(a_, z3.IntVal(len(v.items)))
                st.set_h(field, k, "", z3.Store(st.h(field, k), ref.e, v.arr))
                st.set_h(field, k, "len", z3.Store(st.h(field, k, "len"), ref.e, v.len))
                st.set_h(field, k, "none", z3.Store(st.h(field, k, "none"), ref.e, z3.BoolVal(False)))
        elif k == "refseq":
            st.set_h(field, k, "", z3.Store(st.h(field, k), ref.e, materialise(v.arr, field) if isinstance(v.arr, FnArr) else v.arr))
            st.set_h(field, k, "len", z3.Store(st.h(field, k, "len"), ref.e, v.len))
        else:
            raise Unsupported("write field kind " + k)

    # ---- obligations
    def oblige(self, name, st, goal):
        self.obligations.append((getattr(self, "_prefix", "") + name, list(st.pc), goal))

    def lemma(self, name, hyps, goal):
        """a stand-alone lemma obligation (no program path): hyps |- goal under the engine's axioms"""
        self.obligations.append(("lemma/" + name, list(hyps), goal))

    def feasible(self, st):
        """path pruning (sound: a path is dropped only when its condition is proved unsatisfiable).
        Stage 1: the quantifier-free part of the path condition alone; stage 2: everything, short timeout."""
        from .solve import cone_defs
        qf = [f for f in st.pc if not _has_quantifier(f)]
        qf = [d for d in cone_defs(DEFS, qf) if not _has_quantifier(d)] + qf
        s = z3.Solver()
        s.set("timeout", 1000)
        s.add(qf)
        if s.check() == z3.unsat:
            return False
        s = z3.Solver()
        s.set("timeout", 500)
        s.set("smt.mbqi", False)
        s.set("smt.auto_config", False)
        s.add(self.axioms)
        s.add(cone_defs(DEFS, st.pc))
        s.add(st.pc)
        return s.check() != z3.unsat

    def unfold_hints(self, fmls):
        """auto-unfold registered recursive spec functions one step at index terms of the form u+1
        (arithmetic inside E-matching patterns is fragile: `ei+1` did not match the pattern `m+1`)"""
        hints, seen = [], set()

        def walk(e):
            if e.get_id() in seen:
                return
            seen.add(e.get_id())
            if z3.is_quantifier(e):
                walk(e.body())
                return
            if z3.is_app(e):
                d = e.decl().name()
                if d in self.recdefs and e.num_args() > self.recdefs[d][0]:
                    pos, mk = self.recdefs[d]
                    t = e.arg(pos)
                    if not any(z3.is_var(x) for x in self._subterms(t)):
                        u = z3.simplify(t - 1)
                        bound = [q_ for q_ in range(e.num_args()) if q_ != pos and any(z3.is_var(x) for x in self._subterms(e.arg(q_)))]
                        if not bound:
                            hints.append(mk(e, u))
                        else:       # the occurrence sits under a quantifier: unfold for ALL values of the arguments that mention bound variables
                            key = (d, t.get_id(), tuple((q_, e.arg(q_).get_id()) for q_ in range(e.num_args()) if q_ != pos and q_ not in bound), tuple(bound))
                            if key not in seen:
                                seen.add(key)
                                xs = {q_: z3.Const(f"x!unf{q_}", e.arg(q_).sort()) for q_ in bound}
                                e2 = e.decl()(*[xs[q_] if q_ in xs else e.arg(q_) for q_ in range(e.num_args())])
                                hints.append(z3.ForAll(list(xs.values()), mk(e2, u), patterns=[e2]))
                for c in e.children():
                    walk(c)

        for f in fmls:
            walk(f)
        return hints

    def _subterms(self, t):
        out, todo = [], [t]
        while todo:
            x = todo.pop()
            out.append(x)
            todo.extend(x.children())
        return out

    recdefs = {}

    def apply_uf(self, name, args, st):
        """application of an opaque callable (user cost handle etc.): uninterpreted function of its argument values"""
        zs = []
        for a in args:
            if isinstance(a, VSeq):
                zs += [materialise(a.arr, "arg"), a.len]
            elif isinstance(a, VMat):
                zs += [materialise(a.arr, "arg"), a.rows, a.cols]
            elif isinstance(a, (VNum, VOptNum)):
                zs.append(a.real() if isinstance(a, VNum) else a.e)
            elif isinstance(a, VRef):
                zs.append(a.e)
            elif isinstance(a, VOpaque) and isinstance(a.tag, tuple) and a.tag[0] == "term":
                zs.append(a.tag[1])
            else:
                raise Unsupported("uf arg " + type(a).__name__)
        f = z3.Function(f"uf_{name}_{len(zs)}", *[z.sort() for z in zs], R)
        return VNum(f(*zs))
    callref_owner_cls, callref_owner_field = "IndexedContainer", "_data"

    def discharge(self, only=None, both=False, budget=1.0, stages=("z3-ematch", "z3-default", "cvc5"), indices=None):
        """discharge collected obligations; one query each (see solve.check). `indices`: only these positions."""
        from . import solve
        res = []
        if indices is None and self.axioms:
            # axiom canary: the unit's axiom set must not be provably inconsistent (axioms are attached to VCs by cone of influence)
            r = solve.check([], [], list(self.axioms), z3.BoolVal(False), canary=True)
            r["id"] = "axioms.CANARY"
            r["idx"] = -1
            res.append(r)
        for idx, (name, pc, goal) in enumerate(self.obligations):
            if only and only not in name:
                continue
            if indices is not None and idx not in indices:
                continue
            hints = self.unfold_hints(list(pc) + [goal])
            r = solve.check(self.axioms, DEFS, pc, goal, hints, canary="CANARY" in name, both=both, budget=budget, stages=stages)
            r["id"] = name
            r["idx"] = idx
            res.append(r)
        return res

    # ================================================================ expressions
    def ev(self, n, st):
        m = getattr(self, "ev_" + type(n).__name__, None)
        if m is None:
            raise Unsupported("expr " + type(n).__name__ + ": " + ast.unparse(n))
        return m(n, st)

    def ev_Constant(self, n, st):
        v = n.value
        if isinstance(v, bool):
            return VBool(z3.BoolVal(v))
        if isinstance(v, int):
            return VNum(z3.IntVal(v))
        if isinstance(v, float):
            return VNum(z3.RealVal(repr(v)))
        if isinstance(v, str):
            return VStr(v)
        if v is None:
            return VNone()
        raise Unsupported("const")

    def ev_Name(self, n, st):
        if n.id in st.locals:
            return st.locals[n.id]
        if n.id in getattr(self, "consts", {}):
            return self.consts[n.id]
        if n.id in ("True", "False"):
            return VBool(z3.BoolVal(n.id == "True"))
        if n.id in ("np", "warnings", "integrate", "six"):
            return VLib(n.id)
        if n.id == "super":
            return VLib("super")
        import builtins as _b
        if isinstance(getattr(_b, n.id, None), type) and issubclass(getattr(_b, n.id), BaseException):
            return VLib("exc:" + n.id)
        if n.id in ("len", "list", "float", "int", "zip", "enumerate", "range", "abs", "isinstance", "tuple", "max", "min", "dict", "str", "bool", "object", "set", "callable", "any", "all"):
            return VLib(n.id)
        if n.id in self.repo.classes:
            return VLib("class:" + n.id)
        if n.id in self.lib or any(k_.startswith(n.id + ".") for k_ in self.lib):
            return VLib(n.id)
        # module-level constant (a literal table etc.) of the file the verified function lives in, then of any loaded file
        owner = self._owner_stack[-1] if getattr(self, "_owner_stack", None) else None
        paths = ([self.repo.classes[owner][0]] if owner in self.repo.classes else []) + list(self.repo.files)
        for path in paths:
            for stmt in self.repo.files[path][1].body:
                if isinstance(stmt, ast.Assign) and any(isinstance(t, ast.Name) and t.id == n.id for t in stmt.targets) and isinstance(stmt.value, (ast.Dict, ast.Constant, ast.Tuple, ast.List, ast.Set)):
                    return self.ev(stmt.value, st)
        raise Unsupported("unbound name " + n.id)

    def ev_Lambda(self, n, st):
        return VLambda(n, dict(st.locals))

    def call_lambda(self, lam, args, kw, st):
        nm_ = getattr(lam.node, "name", None)
        if nm_ is not None and nm_ in getattr(self, "nested_models", {}):       # a closure called by its contract (its body is verified as a nested function of its own)
            return self.nested_models[nm_](self, st, args, kw)
        sub = State()
        sub.heap, sub.pc, sub.ghost, sub.decisions = st.heap, st.pc, st.ghost, st.decisions
        sub.locals = dict(lam.env)
        a = lam.node.args
        names = [x.arg for x in a.args]
        for p_, v_ in zip(names, args):
            sub.locals[p_] = v_
        sub.locals.update(kw)
        for p_, d in zip(names[len(names) - len(a.defaults):], a.defaults):
            if p_ not in sub.locals or (p_ not in kw and names.index(p_) >= len(args)):
                sub.locals[p_] = self.ev(d, sub)
        if a.vararg:
            sub.locals[a.vararg.arg] = VTuple(list(args[len(names):]))
        if isinstance(lam.node, ast.Lambda):
            r = self.ev(lam.node.body, sub)
            st.heap, st.pc = sub.heap, sub.pc
            return r
        outs = self.run(lam.node.body, sub)
        normal = [(s_, fl, v_) for s_, fl, v_ in outs if fl in ("next", "return")]
        if len(outs) != 1 or len(normal) != 1:
            raise Unsupported(f"nested function {lam.node.name} forks ({len(outs)} paths)")
        s_, fl, v_ = normal[0]
        st.heap, st.pc, st.ghost = s_.heap, s_.pc, s_.ghost
        return v_ if fl == "return" and v_ is not None else VNone()

    def st_FunctionDef(self, n, st):
        st.locals[n.name] = VLambda(n, st.locals)      # closure shares the defining scope (late binding, as in Python)
        return [(st, "next", None)]

    def ev_JoinedStr(self, n, st):
        if getattr(self, "fstring_model", None) is not None:
            r_ = self.fstring_model(self, st, n)
            if r_ is not None:
                return r_
        return VStr("<f-string>")

    def ev_GeneratorExp(self, n, st):
        """a generator expression consumed at once by its caller (set(...), list(...), join): evaluated like the list comprehension of the same shape"""
        return self.ev_ListComp(n, st)

    def ev_ListComp(self, n, st):
        if ast.unparse(n) in getattr(self, "comp_models", {}):       # table-driven model of one specific comprehension (listed as trusted)
            return self.comp_models[ast.unparse(n)](self, st, n)
        if len(n.generators) != 1:
            raise Unsupported("comprehension " + ast.unparse(n))
        g = n.generators[0]
        it = self.ev(g.iter, st)
        if g.ifs:
            if not isinstance(it, VTuple):
                raise Unsupported("filtered comprehension over a non-concrete iterable " + ast.unparse(n))
            out = []
            saved = dict(st.locals)
            for item in it.items:
                self.store(g.target, item, st)
                keep = True
                for cond in g.ifs:
                    c_ = z3.simplify(self.truth(self.ev(cond, st)))
                    if not (z3.is_true(c_) or z3.is_false(c_)):
                        raise Unsupported("comprehension filter is not decided: " + ast.unparse(cond))
                    keep = keep and z3.is_true(c_)
                if keep:
                    out.append(self.ev(n.elt, st))
            st.locals = saved
            return VTuple(out)
        if isinstance(it, (VSeq, VRefSeq, VSeqOf)):
            # [elt for x in seq] over a sequence of symbolic length, elt numeric and effect-free: evaluated once at an arbitrary position kk
            # (its obligations then hold for every position), the result is the array k -> elt[kk := k]
            kk = fresh("kk!comp", I)
            s2 = st.copy().assume(z3.And(0 <= kk, kk < self.iter_len(it)))
            self.store(g.target, self.iter_item(it, kk), s2)
            saved_cur = self._cur
            self._cur = s2
            elt = self.ev(n.elt, s2)
            self._cur = saved_cur
            if not isinstance(elt, (VNum, VBool)):
                raise Unsupported("comprehension element is not a number: " + ast.unparse(n))
            for a_ in s2.pc[len(st.pc):][1:]:          # facts learned about the element (e.g. what list.index returned): hold for every position
                q_ = z3.Int("q!comp")
                st.assume(z3.ForAll([q_], z3.Implies(z3.And(0 <= q_, q_ < self.iter_len(it)), z3.substitute(a_, (kk, q_)))))
            if isinstance(elt, VBool):
                bterm = elt.e
                return VBoolSeq(lambda k_: z3.substitute(bterm, (kk, k_ if k_.sort() == I else z3.ToInt(k_))), self.iter_len(it))
            term = elt.real()
            return VSeq(FnArr(lambda k_: z3.substitute(term, (kk, k_ if k_.sort() == I else z3.ToInt(k_)))), self.iter_len(it))
        if not isinstance(it, VTuple):
            raise Unsupported("comprehension over non-concrete iterable " + ast.unparse(n))
        out = []
        saved = dict(st.locals)
        for item in it.items:
            self.store(g.target, item, st)
            out.append(self.ev(n.elt, st))
        st.locals = saved
        return VTuple(out)

    def ev_DictComp(self, n, st):
        if len(n.generators) != 1 or n.generators[0].ifs:
            raise Unsupported("dict comprehension " + ast.unparse(n))
        g = n.generators[0]
        it = self.ev(g.iter, st)
        if not isinstance(it, VTuple):
            raise Unsupported("dict comprehension over a non-concrete iterable " + ast.unparse(n))
        out = {}
        saved = dict(st.locals)
        for item in it.items:
            self.store(g.target, item, st)
            out[self.key_of(self.ev(n.key, st))] = self.ev(n.value, st)
        st.locals = saved
        return VDict(out)

    def ev_List(self, n, st):
        if n.elts:
            return VTuple([self.ev(e, st) for e in n.elts])
        k = z3.Int("k!empty")
        return VSeq(FnArr(lambda k_: z3.RealVal(0)), z3.IntVal(0))

    def key_of(self, v):
        if isinstance(v, VStr):
            return v.s
        if isinstance(v, VNum) and z3.is_int_value(z3.simplify(v.e)):
            return z3.simplify(v.e).as_long()
        if isinstance(v, VNone):
            return None
        if isinstance(v, VLib) and v.name.startswith("class:"):
            return v.name
        raise Unsupported("dict key must be concrete: " + type(v).__name__)

    def ev_Dict(self, n, st):
        return VDict({self.key_of(self.ev(k, st)): self.ev(v, st) for k, v in zip(n.keys, n.values)})

    def ev_Set(self, n, st):
        return VPySet(self.key_of(self.ev(e, st)) for e in n.elts)

    def ev_Tuple(self, n, st):
        return VTuple([self.ev(e, st) for e in n.elts])

    def ev_Attribute(self, n, st):
        base = self.ev(n.value, st)
        if hasattr(base, "vattr"):                 # small value classes defined by contract modules (duck protocol: vattr / vcall / vsub)
            r_ = base.vattr(self, st, n.attr)
            if r_ is not None:
                return r_
        if isinstance(base, VLib) and base.name.startswith("class:"):
            cname = base.name[6:]
            for c in self.repo.mro(cname):           # class-level attribute (e.g. lookup tables) through the real MRO
                for stmt in self.repo.classes[c][1].body:
                    if isinstance(stmt, ast.Assign) and any(isinstance(t, ast.Name) and t.id == n.attr for t in stmt.targets):
                        return self.ev(stmt.value, st)
            if self.repo.find(cname, n.attr)[1] is not None:
                return VBound(base, n.attr)
            raise Unsupported("class attribute " + ast.unparse(n))
        if isinstance(base, VDict) and n.attr in ("get", "pop", "setdefault", "keys", "values", "items", "copy", "update"):
            return VBound(base, n.attr)
        if isinstance(base, VStr) and n.attr in ("format", "join", "lower", "upper", "strip", "startswith", "endswith", "split", "replace"):
            return VBound(base, n.attr)
        if isinstance(base, VNum) and n.attr in ("lower", "upper", "strip"):
            raise PyRaise("AttributeError")
        if type(base).__name__ in ("VExternalResult", "VOptResult") and hasattr(base, n.attr):     # result records of external calls defined by contract modules
            val_ = getattr(base, n.attr)
            return val_ if isinstance(val_, V) else VNum(val_)
        if isinstance(base, VExternal):
            return VBound(base, n.attr)
        if isinstance(base, VNode):
            if n.attr == "value":
                nv = getattr(self, "node_values", {})
                if base.name not in nv:
                    raise Unsupported("value of nexus node '%s' not modelled" % base.name)
                v_ = nv[base.name]
                return v_(st, base) if callable(v_) else v_
            if n.attr == "name":
                return VStr(base.name)
            return VBound(base, n.attr)
        if isinstance(base, VRef) and n.attr == "__class__":
            return VLib("class:" + base.cls)
        if isinstance(base, VLib):
            if base.name == "np" and n.attr == "inf":
                return VOpaque("inf")
            return VLib(base.name + "." + n.attr)
        if isinstance(base, VSuper):
            if self.repo.find(base.recv.cls, n.attr, "getter", after=base.after)[1] is not None:
                return self.call_method(st, base.recv, n.attr, [], {}, kind="getter", node=n, after=base.after)
            if self.repo.find(base.recv.cls, n.attr, None, after=base.after)[1] is not None:
                b_ = VBound(base.recv, n.attr)
                b_.after = base.after
                return b_
            raise Unsupported(f"super attribute {n.attr}")
        if isinstance(base, VRef):
            if self.ftype(base.cls, n.attr) is not None:
                return self.read_field(st, base, n.attr)
            if self.repo.is_property(base.cls, n.attr):
                return self.call_method(st, base, n.attr, [], {}, kind="getter", node=n)
            if self.repo.find(base.cls, n.attr)[1] is not None:
                return VBound(base, n.attr)
            for c in self.repo.mro(base.cls):           # class-level constant read through the instance
                for stmt in self.repo.classes[c][1].body:
                    if isinstance(stmt, ast.Assign) and any(isinstance(t, ast.Name) and t.id == n.attr for t in stmt.targets):
                        return self.ev(stmt.value, st)
            if getattr(self, "missing_attr_raises", False):          # closed world of the loaded classes: the class has no such attribute
                raise PyRaise("AttributeError")
            raise Unsupported(f"attribute {base.cls}.{n.attr}")
        if isinstance(base, VOpaque) and isinstance(base.tag, tuple) and base.tag[0] == "map" and n.attr in ("keys", "values", "items", "copy"):
            return VBound(base, n.attr)
        if isinstance(base, VPySet) and n.attr in ("issubset", "issuperset", "union", "intersection", "difference", "discard", "add", "clear"):
            return VBound(base, n.attr)
        if isinstance(base, VTuple) and n.attr in ("index", "append", "copy", "count", "insert"):
            return VBound(base, n.attr)
        if isinstance(base, VSeqOf) and n.attr in ("values", "index"):
            return VBound(base, n.attr)
        if n.attr == "dot" and getattr(self, "dot_model", None) is not None and not isinstance(base, (VRef, VLib)):
            return VBound(base, "dot")
        if isinstance(base, VSeq) and n.attr == "append":
            return VBound(base, "append")
        if isinstance(base, VBoolMat) and n.attr in ("all", "any"):
            return VBound(base, n.attr)
        if isinstance(base, (VSeq, VMat)) and n.attr in ("copy", "astype"):
            return VBound(base, n.attr)
        if isinstance(base, VOptSeq) and n.attr == "copy":
            self.oblige("pre@not-None:" + ast.unparse(n)[:50], st, z3.Not(base.none))
            return VBound(VSeq(base.arr, base.len), "copy")
        if isinstance(base, VNum) and n.attr in ("ndim", "shape") and getattr(base, "python_number", False):
            raise PyRaise("AttributeError")          # a plain python number (not a numpy scalar)
        if isinstance(base, (VSeq, VNum, VMat)) and n.attr == "ndim":
            return VNum(getattr(base, "ndim", z3.IntVal(1 if isinstance(base, VSeq) else 0 if isinstance(base, VNum) else 2)))
        if isinstance(base, VBoolSeq) and n.attr in ("all", "any"):
            return VBound(base, n.attr)
        if isinstance(base, VSeq) and n.attr == "size":
            return VNum(base.len)
        if isinstance(base, VSeq) and n.attr == "shape":
            return VTuple([VNum(base.len)])
        if isinstance(base, VMat) and n.attr == "shape":
            return VTuple([VNum(base.rows), VNum(base.cols)])
        if isinstance(base, VMat) and n.attr == "T":
            return VMat(FnArr(lambda i_: FnArr(lambda j_: base.arr[j_][i_])), base.cols, base.rows)
        if isinstance(base, VRefSeq) and n.attr == "values":
            return VBound(base, "values")
        if isinstance(base, VNameMap) and n.attr in ("values", "get", "items", "keys"):
            return VBound(base, n.attr)
        raise Unsupported("attr " + ast.unparse(n))

    def ev_UnaryOp(self, n, st):
        v = self.ev(n.operand, st)
        if isinstance(n.op, ast.Not):
            return VBool(z3.Not(self.truth(v)))
        if isinstance(n.op, ast.USub):
            if isinstance(v, VOpaque):
                return VOpaque("-" + str(v.tag))
            if isinstance(v, VSeq):
                return VSeq(FnArr(lambda k_: -v.arr[k_]), v.len)
            return VNum(-v.e)
        raise Unsupported("unary")

    def truth(self, v):
        if hasattr(v, "vtruth"):
            return v.vtruth(self)
        if isinstance(v, VBool):
            return v.e
        if isinstance(v, VOptNum):
            return z3.And(z3.Not(v.none), v.e != 0)
        if isinstance(v, VStr):
            return z3.BoolVal(bool(v.s))
        if isinstance(v, VDict):
            return z3.BoolVal(bool(v.d))
        if isinstance(v, VPySet):
            return z3.BoolVal(bool(v.items))
        if isinstance(v, VNameMap):
            return v.len > 0
        if isinstance(v, VTuple):
            return z3.BoolVal(bool(v.items))
        if isinstance(v, (VSeq, VRefSeq)):
            return v.len > 0
        if isinstance(v, VNum):
            return v.e != 0
        if isinstance(v, VNone):
            return z3.BoolVal(False)
        if isinstance(v, VRef):
            return v.e != NULL
        if isinstance(v, VRange):
            return (v.hi.e if isinstance(v.hi, V) else v.hi) > (v.lo.e if isinstance(v.lo, V) else v.lo)
        raise Unsupported("truth of " + type(v).__name__)

    def ev_BoolOp(self, n, st):
        """short-circuit evaluation: operands after a decided one are not evaluated; when a later operand contains a call
        (may raise / have effects) and the earlier ones are symbolic, the path forks on them"""
        is_and = isinstance(n.op, ast.And)
        acc = []
        for idx, v in enumerate(n.values):
            val_ = self.ev(v, st)
            t = z3.simplify(self.truth(val_))
            if not isinstance(val_, VBool) and not acc and (z3.is_true(t) or z3.is_false(t)):
                # python's and / or return an OPERAND: with all earlier operands decided, a decided non-boolean operand is the result (or is skipped)
                if (is_and and z3.is_false(t)) or (not is_and and z3.is_true(t)) or idx == len(n.values) - 1:
                    return val_
                continue
            if not isinstance(val_, VBool) and not acc and idx == len(n.values) - 1:
                return val_
            if (is_and and z3.is_false(t)) or (not is_and and z3.is_true(t)):
                return VBool(z3.BoolVal(not is_and))
            if (is_and and z3.is_true(t)) or (not is_and and z3.is_false(t)):
                continue
            rest_impure = any(isinstance(x, ast.Call) for w in n.values[idx + 1:] for x in ast.walk(w))
            if rest_impure:
                dec = self.decide(st, ("boolop", getattr(self, "_ctx", ()), id(n), idx), t)
                if dec != is_and:              # and: operand false -> False ; or: operand true -> True
                    return VBool(z3.BoolVal(not is_and))
                continue
            acc.append(t)
        if not acc:
            return VBool(z3.BoolVal(is_and))
        return VBool(z3.And(acc) if is_and else z3.Or(acc))

    def num(self, v, st, what=""):
        if isinstance(v, VOptNum):
            self.oblige("pre@not-None:" + what[:50], st, z3.Not(v.none))
            return VNum(v.e)
        if isinstance(v, VOptSeq):
            self.oblige("pre@not-None:" + what[:50], st, z3.Not(v.none))
            return VSeq(v.arr, v.len)
        if isinstance(v, VCallRef):
            self.oblige("pre@is-array:" + what[:50], st, v.kind == 1)
            return VSeq(v.arr, v.len)
        return v

    def ev_BinOp(self, n, st):
        a, b = self.num(self.ev(n.left, st), st, ast.unparse(n)), self.num(self.ev(n.right, st), st, ast.unparse(n))
        return self.binop(n.op, a, b, n)

    def concat(self, a, b):
        return VSeq(FnArr(lambda k_: z3.If(k_ < a.len, a.arr[k_], b.arr[k_ - a.len])), a.len + b.len, pylist=True)

    def binop(self, op, a, b, n=None):
        if getattr(a, "absorbing", False) or getattr(b, "absorbing", False):
            return (a if getattr(a, "absorbing", False) else b).absorb(type(op).__name__)
        if isinstance(op, ast.Mod) and getattr(self, "mod_model", None) is not None:
            return self.mod_model(self, a, b)
        if (isinstance(a, VNone) and isinstance(b, (VNum, VSeq, VMat))) or (isinstance(b, VNone) and isinstance(a, (VNum, VSeq, VMat))):
            raise PyRaise("TypeError")           # arithmetic between a number / array and None
        if isinstance(a, VStr) and isinstance(b, VStr) and isinstance(op, ast.Add) and not (a.s.startswith("<") or b.s.startswith("<")):
            return VStr(a.s + b.s)               # concatenation of two concrete strings
        if isinstance(a, VStr) and isinstance(op, (ast.Mod, ast.Add)):
            return VStr("<formatted>")
        if isinstance(op, ast.Add) and isinstance(a, VTuple) and isinstance(b, VTuple):
            return VTuple(a.items + b.items)
        is_empty_list = lambda v_: isinstance(v_, VSeq) and z3.is_int_value(z3.simplify(v_.len)) and z3.simplify(v_.len).as_long() == 0
        if isinstance(op, ast.Add) and ((isinstance(a, VTuple) and is_empty_list(b)) or (is_empty_list(a) and isinstance(b, VTuple))):      # [] + python list
            return VTuple(list(a.items if isinstance(a, VTuple) else b.items))
        if isinstance(op, ast.Add) and is_empty_list(a) and is_empty_list(b):
            return VTuple([])
        if isinstance(a, VPySet) and isinstance(b, VPySet) and isinstance(op, (ast.Sub, ast.BitOr, ast.BitAnd)):
            return VPySet(a.items - b.items if isinstance(op, ast.Sub) else a.items | b.items if isinstance(op, ast.BitOr) else a.items & b.items)
        if isinstance(op, ast.Add) and isinstance(a, VTuple) and isinstance(b, VRefSeq) and all(isinstance(x, VRef) for x in a.items):
            items = list(a.items)
            def fn(k_, items=items, b=b):
                r = b.arr[k_ - len(items)]
                for idx in reversed(range(len(items))):
                    r = z3.If(k_ == idx, items[idx].e, r)
                return r
            return VRefSeq(FnArr(fn), b.len + len(items), b.cls)
        if isinstance(op, ast.Add) and isinstance(a, VSeq) and isinstance(b, VSeq) and a.pylist and b.pylist:
            return self.concat(a, b)
        if isinstance(a, VNum) and isinstance(b, VNum):
            x, y = num_pair(a, b)
            if isinstance(op, ast.Add):
                return VNum(x + y)
            if isinstance(op, ast.Sub):
                return VNum(x - y)
            if isinstance(op, ast.Mult):
                return VNum(x * y)
            if isinstance(op, ast.Div):
                return VNum(a.real() / b.real())
            if isinstance(op, ast.Pow) and (z3.is_int_value(z3.simplify(b.e)) or (z3.is_rational_value(z3.simplify(b.e)) and z3.simplify(b.e).denominator_as_long() == 1)):
                k = z3.simplify(b.e).as_long() if z3.is_int_value(z3.simplify(b.e)) else z3.simplify(b.e).numerator_as_long()
                r = a.e
                for _ in range(k - 1):
                    r = r * a.e
                return VNum(r)
        if isinstance(op, ast.Mult) and isinstance(a, VTuple) and isinstance(b, VNum) and z3.is_int_value(z3.simplify(b.e)):      # python tuple repetition
            return VTuple(list(a.items) * z3.simplify(b.e).as_long())
        # elementwise on sequences (numpy broadcasting: seq (op) seq of equal length, seq (op) scalar)
        if isinstance(a, VSeq) or isinstance(b, VSeq):
            ln = a.len if isinstance(a, VSeq) else b.len
            if isinstance(a, VSeq) and isinstance(b, VSeq) and n is not None:
                self.oblige("pre@broadcast:" + ast.unparse(n)[:60], self._cur, a.len == b.len)
            return VSeq(FnArr(lambda k_: self.binop(op, VNum(a.arr[k_]) if isinstance(a, VSeq) else a, VNum(b.arr[k_]) if isinstance(b, VSeq) else b).real()), ln)
        if isinstance(a, VMat) or isinstance(b, VMat):
            m = a if isinstance(a, VMat) else b
            if isinstance(a, VMat) and isinstance(b, VMat) and n is not None:
                self.oblige("pre@broadcast2d:" + ast.unparse(n)[:60], self._cur, z3.And(a.rows == b.rows, a.cols == b.cols))
            return VMat(FnArr(lambda i_: FnArr(lambda j_: self.binop(op, VNum(a.arr[i_][j_]) if isinstance(a, VMat) else a, VNum(b.arr[i_][j_]) if isinstance(b, VMat) else b).real())), m.rows, m.cols)
        raise Unsupported("binop " + (ast.unparse(n) if n else str(op)))

    def ev_Compare(self, n, st):
        left = self.ev(n.left, st)
        conj = []
        for op, rn in zip(n.ops, n.comparators):
            right = self.ev(rn, st)
            if (getattr(left, "absorbing", False) or getattr(right, "absorbing", False)) and not isinstance(op, (ast.Is, ast.IsNot)):
                conj.append(z3.FreshConst(z3.BoolSort(), "opaque_compare"))       # comparison involving an opaque value: undetermined
                left = right
                continue
            if isinstance(op, (ast.In, ast.NotIn)) and isinstance(right, VTuple) and isinstance(left, VBound) and all(isinstance(q_, VBound) for q_ in right.items):
                c = z3.Or([z3.BoolVal(False)] + [left.recv.e == q_.recv.e for q_ in right.items if q_.name == left.name])
                conj.append(c if isinstance(op, ast.In) else z3.Not(c))
                left = right
                continue
            if isinstance(op, (ast.In, ast.NotIn)) and isinstance(right, VTuple) and isinstance(left, VStr) and all(isinstance(q_, VStr) for q_ in right.items):
                c = z3.BoolVal(any(q_.s == left.s for q_ in right.items))
                conj.append(c if isinstance(op, ast.In) else z3.Not(c))
                left = right
                continue
            if isinstance(op, (ast.In, ast.NotIn)) and isinstance(right, VTuple) and isinstance(left, (VOptNum, VNum)) and all(isinstance(q_, (VNum, VNone)) for q_ in right.items) and any(isinstance(q_, VNone) for q_ in right.items):
                is_none = left.none if isinstance(left, VOptNum) else z3.BoolVal(False)
                val = left.e if isinstance(left, VOptNum) else left.real()
                alts = [z3.And(z3.Not(is_none), val == q_.real()) for q_ in right.items if isinstance(q_, VNum)]
                c = z3.Or([is_none] + alts)         # x in (None, 0, ...): None, or one of the numbers
                conj.append(c if isinstance(op, ast.In) else z3.Not(c))
                left = right
                continue
            if isinstance(op, (ast.In, ast.NotIn)) and isinstance(right, VTuple) and isinstance(left, VNum) and all(isinstance(q_, VNum) for q_ in right.items):
                c = z3.Or([z3.BoolVal(False)] + [num_pair(left, q_)[0] == num_pair(left, q_)[1] for q_ in right.items])
                conj.append(c if isinstance(op, ast.In) else z3.Not(c))
                left = right
                continue
            if isinstance(op, (ast.In, ast.NotIn)) and isinstance(right, VTuple) and hasattr(left, "vattr") and all(hasattr(q_, "vattr") for q_ in right.items):
                c = z3.BoolVal(any(q_ is left for q_ in right.items))          # contract-defined objects: membership by identity
                conj.append(c if isinstance(op, ast.In) else z3.Not(c))
                left = right
                continue
            if isinstance(op, (ast.In, ast.NotIn)) and isinstance(right, VPySet) and isinstance(left, (VStr, VNum)):
                c = z3.BoolVal(self.key_of(left) in right.items)
                conj.append(c if isinstance(op, ast.In) else z3.Not(c))
                left = right
                continue
            if isinstance(op, (ast.In, ast.NotIn)) and isinstance(right, VDict) and isinstance(left, (VStr, VNum, VNone)):
                c = z3.BoolVal(self.key_of(left) in right.d)
                conj.append(c if isinstance(op, ast.In) else z3.Not(c))
                left = right
                continue
            if isinstance(op, (ast.In, ast.NotIn)) and isinstance(right, VSeqOf) and isinstance(left, VName):
                q_ = z3.Int("q!in")
                c = z3.Exists([q_], z3.And(0 <= q_, q_ < right.len, right.fn(q_).e == left.e))
                conj.append(c if isinstance(op, ast.In) else z3.Not(c))
                left = right
                continue
            if isinstance(op, (ast.In, ast.NotIn)) and isinstance(right, VNameMap) and isinstance(left, VName):
                c = right.has(left.e)
                conj.append(c if isinstance(op, ast.In) else z3.Not(c))
                left = right
                continue
            if isinstance(op, (ast.Is, ast.IsNot)):
                if isinstance(right, VNone) and isinstance(left, VName):
                    c = left.e == NAME_NONE
                    conj.append(c if isinstance(op, ast.Is) else z3.Not(c))
                    left = right
                    continue
                if isinstance(right, VNone) and isinstance(left, (VStr, VLib)):
                    c = z3.BoolVal(False)
                elif isinstance(right, VNone):
                    if isinstance(left, VNode):
                        c = z3.BoolVal(False)
                    elif isinstance(left, VRef):
                        c = left.e == NULL
                    elif isinstance(left, (VOptNum, VOptSeq)):
                        c = left.none
                    elif isinstance(left, VRefSeq):
                        c = left.none
                    elif isinstance(left, VMat) and left.none is not None:
                        c = left.none
                    elif type(left).__name__ == "VOptTerm":
                        c = left.none
                    elif isinstance(left, VRecord):
                        c = self.read_field(st, left.ref, left.field + ".#none").e
                    elif isinstance(left, (VNum, VTuple, VSeq, VMat, VBool, VDict)):
                        c = z3.BoolVal(False)
                    elif isinstance(left, VCallRef):
                        c = left.kind == 0
                    else:
                        c = z3.BoolVal(isinstance(left, VNone))
                elif isinstance(left, VRef) and isinstance(right, VRef):
                    c = left.e == right.e
                elif isinstance(left, (VLib, VNone, VStr)) and isinstance(right, (VLib, VNone, VStr)):
                    c = z3.BoolVal(type(left) is type(right) and getattr(left, "name", getattr(left, "s", None)) == getattr(right, "name", getattr(right, "s", None)))
                elif all(isinstance(x_, (VNum, VSeq, VMat, VTuple, VOpaque, VOptNum, VOptSeq)) or type(x_).__name__ == "VVal" for x_ in (left, right)):
                    c = fresh("same_object?", z3.BoolSort())          # identity of value objects is not tracked (values are terms): either answer is possible, both are explored
                else:
                    raise Unsupported("is " + ast.unparse(n) + " [" + type(left).__name__ + " / " + type(right).__name__ + "]")
                conj.append(c if isinstance(op, ast.Is) else z3.Not(c))
            elif isinstance(left, (VNum, VOptNum)) and isinstance(right, (VNum, VOptNum)):
                x, y = num_pair(self.num(left, st, ast.unparse(n)), self.num(right, st, ast.unparse(n)))
                conj.append({ast.Lt: x < y, ast.LtE: x <= y, ast.Gt: x > y, ast.GtE: x >= y, ast.Eq: x == y, ast.NotEq: x != y}[type(op)])
            elif isinstance(left, VPySet) and isinstance(right, VPySet) and isinstance(op, (ast.Eq, ast.NotEq)):
                conj.append(z3.BoolVal((left.items == right.items) == isinstance(op, ast.Eq)))
            elif isinstance(left, VStr) and isinstance(right, VStr):
                conj.append(z3.BoolVal({ast.Eq: left.s == right.s, ast.NotEq: left.s != right.s}[type(op)]))
            elif isinstance(op, (ast.Eq, ast.NotEq)) and ((isinstance(left, VTuple) and isinstance(right, VStr)) or (isinstance(left, VStr) and isinstance(right, VTuple))):
                conj.append(z3.BoolVal(isinstance(op, ast.NotEq)))       # a list / tuple never equals a string
            elif isinstance(left, VBound) and isinstance(right, VBound) and isinstance(op, (ast.Eq, ast.NotEq)) and isinstance(left.recv, VRef) and isinstance(right.recv, VRef):
                same_ = z3.And(left.recv.e == right.recv.e, z3.BoolVal(left.name == right.name))       # bound methods are equal iff same object and same function
                conj.append(same_ if isinstance(op, ast.Eq) else z3.Not(same_))
            elif isinstance(left, VName) and isinstance(right, VName) and isinstance(op, (ast.Eq, ast.NotEq)):
                conj.append(left.e == right.e if isinstance(op, ast.Eq) else left.e != right.e)
            elif isinstance(left, VTuple) and isinstance(right, VTuple) and isinstance(op, (ast.Eq, ast.NotEq)) and all(isinstance(q_, (VNum, VNone)) for q_ in left.items + right.items) and any(isinstance(q_, VNone) for q_ in left.items + right.items):
                parts = [z3.BoolVal(len(left.items) == len(right.items))]
                for a_, b_ in zip(left.items, right.items):
                    if isinstance(a_, VNone) or isinstance(b_, VNone):
                        parts.append(z3.BoolVal(isinstance(a_, VNone) and isinstance(b_, VNone)))
                    else:
                        parts.append(num_pair(a_, b_)[0] == num_pair(a_, b_)[1])
                eq_ = z3.And(parts)
                conj.append(eq_ if isinstance(op, ast.Eq) else z3.Not(eq_))
            elif isinstance(left, VTuple) and isinstance(right, VTuple) and isinstance(op, (ast.Eq, ast.NotEq)) and all(isinstance(q_, VNum) for q_ in left.items + right.items):
                eq_ = z3.And([z3.BoolVal(len(left.items) == len(right.items))] + [num_pair(a_, b_)[0] == num_pair(a_, b_)[1] for a_, b_ in zip(left.items, right.items)])
                conj.append(eq_ if isinstance(op, ast.Eq) else z3.Not(eq_))
            elif any(isinstance(x_, VLib) and x_.name.startswith("logging.") for x_ in (left, right)):
                conj.append(fresh("log_level_test", B))          # the log level is environment: either outcome
            elif isinstance(left, VMat) and isinstance(right, VNum) and len(n.ops) == 1:
                cmpm = {ast.Lt: lambda x, y: x < y, ast.LtE: lambda x, y: x <= y, ast.Gt: lambda x, y: x > y, ast.GtE: lambda x, y: x >= y, ast.Eq: lambda x, y: x == y, ast.NotEq: lambda x, y: x != y}[type(op)]
                return VBoolMat(lambda i_, j_, left=left, right=right: cmpm(left.arr[i_][j_], right.real()), left.rows, left.cols)
            elif isinstance(left, VMat) and isinstance(right, VMat) and len(n.ops) == 1 and isinstance(op, (ast.Eq, ast.NotEq)):
                return VBoolMat(lambda i_, j_, left=left, right=right, op=op: (left.arr[i_][j_] == right.arr[i_][j_]) if isinstance(op, ast.Eq) else (left.arr[i_][j_] != right.arr[i_][j_]), left.rows, left.cols)
            elif (isinstance(left, VSeq) or isinstance(right, VSeq)) and len(n.ops) == 1 and isinstance(left, (VSeq, VNum)) and isinstance(right, (VSeq, VNum)):
                cmpf = {ast.Lt: lambda x, y: x < y, ast.LtE: lambda x, y: x <= y, ast.Gt: lambda x, y: x > y, ast.GtE: lambda x, y: x >= y, ast.Eq: lambda x, y: x == y, ast.NotEq: lambda x, y: x != y}[type(op)]
                ln = left.len if isinstance(left, VSeq) else right.len
                if isinstance(left, VSeq) and isinstance(right, VSeq):
                    self.oblige("pre@broadcast:" + ast.unparse(n)[:60], st, left.len == right.len)
                return VBoolSeq(lambda k_, left=left, right=right: cmpf(left.arr[k_] if isinstance(left, VSeq) else left.real(), right.arr[k_] if isinstance(right, VSeq) else right.real()), ln)
            else:
                raise Unsupported("compare " + ast.unparse(n))
            left = right
        return VBool(z3.And(conj))

    def norm_index(self, i, length):
        i = z3.simplify(i)
        if z3.is_int_value(i) and i.as_long() < 0:
            return length + i
        return i

    def slice_bounds(self, sl, length, st):
        if sl.step is not None:
            raise Unsupported("slice step")
        def ix(node):
            v_ = self.ev(node, st)
            return self.norm_index(v_.e if v_.is_int else z3.ToInt(v_.e), length)
        return (ix(sl.lower) if sl.lower is not None else z3.IntVal(0)), (ix(sl.upper) if sl.upper is not None else length)

    def ev_Subscript(self, n, st):
        base = self.ev(n.value, st)
        if hasattr(base, "vsub"):
            r_ = base.vsub(self, st, n)
            if r_ is not None:
                return r_
        if getattr(self, "subscript_hook", None) is not None:       # contract-module model for an indexing form the core does not know (listed as trusted)
            r_ = self.subscript_hook(self, st, n, base)
            if r_ is not None:
                return r_
        if isinstance(base, VDict):
            k = self.key_of(self.ev(n.slice, st))
            if k not in base.d:
                raise PyRaise("KeyError")
            return base.d[k]
        if isinstance(base, VRecord) and isinstance(n.slice, ast.Constant) and isinstance(n.slice.value, str):
            self.oblige("pre@not-None:" + ast.unparse(n)[:50], st, z3.Not(self.read_field(st, base.ref, base.field + ".#none").e))
            return self.read_field(st, base.ref, base.field + "." + n.slice.value)
        if isinstance(base, VRef) and isinstance(n.slice, ast.Constant) and isinstance(n.slice.value, str):
            return self.read_field(st, base, n.slice.value)  # dict-with-fixed-keys entry modelled as a record
        if isinstance(base, VTuple):
            if isinstance(n.slice, ast.Slice):
                lo = z3.simplify(self.ev(n.slice.lower, st).e).as_long() if n.slice.lower is not None else None
                hi = z3.simplify(self.ev(n.slice.upper, st).e).as_long() if n.slice.upper is not None else None
                return VTuple(base.items[lo:hi])
            i = z3.simplify(self.ev(n.slice, st).e).as_long()
            return base.items[i]
        if isinstance(base, VMat) and isinstance(n.slice, ast.Tuple) and len(n.slice.elts) == 2 and not any(isinstance(q_, ast.Slice) for q_ in n.slice.elts):
            ia, ja = self.ev(n.slice.elts[0], st), self.ev(n.slice.elts[1], st)
            if isinstance(ia, VSeq) and isinstance(ja, VSeq):      # M[row_index_array, col_index_array]: pairwise fancy indexing
                self.oblige("pre@fancy2d-shape:" + ast.unparse(n)[:50], st, ia.len == ja.len)
                q_ = z3.Int("q!f2")
                self.oblige("pre@fancy2d-range:" + ast.unparse(n)[:50], st, z3.ForAll([q_], z3.Implies(z3.And(0 <= q_, q_ < ia.len), z3.And(0 <= z3.ToInt(ia.arr[q_]), z3.ToInt(ia.arr[q_]) < base.rows, 0 <= z3.ToInt(ja.arr[q_]), z3.ToInt(ja.arr[q_]) < base.cols))))
                return VSeq(FnArr(lambda k_: base.arr[z3.ToInt(ia.arr[k_])][z3.ToInt(ja.arr[k_])]), ia.len)
            if isinstance(ia, VNum) and isinstance(ja, VNum):
                return VNum(base.arr[ia.e if ia.is_int else z3.ToInt(ia.e)][ja.e if ja.is_int else z3.ToInt(ja.e)])
        if isinstance(base, VIntMap):
            k_ = self.ev(n.slice, st)
            ke = k_.e if k_.is_int else z3.ToInt(k_.e)
            self.oblige("pre@key:" + ast.unparse(n), st, base.dom[ke])
            return VNum(base.arr[ke])
        if isinstance(base, VSeqOf) and not isinstance(n.slice, (ast.Slice, ast.Tuple)):
            idx = self.ev(n.slice, st)
            i_ = self.norm_index(idx.e if idx.is_int else z3.ToInt(idx.e), base.len)
            self.oblige("pre@index:" + ast.unparse(n), st, z3.And(i_ >= 0, i_ < base.len))
            return base.fn(i_)
        if isinstance(base, VMat) and isinstance(n.slice, ast.Tuple) and len(n.slice.elts) == 2 and all(isinstance(q_, ast.Slice) for q_ in n.slice.elts):
            (r0, r1), (c0, c1) = self.slice_bounds(n.slice.elts[0], base.rows, st), self.slice_bounds(n.slice.elts[1], base.cols, st)      # M[r0:r1, c0:c1]
            self.oblige("pre@block:" + ast.unparse(n), st, z3.And(0 <= r0, r0 <= r1, r1 <= base.rows, 0 <= c0, c0 <= c1, c1 <= base.cols))
            return VMat(FnArr(lambda i_: FnArr(lambda j_: base.arr[i_ + r0][j_ + c0])), r1 - r0, c1 - c0)
        if isinstance(base, VMat) and isinstance(n.slice, ast.Tuple) and len(n.slice.elts) == 2 and isinstance(n.slice.elts[0], ast.Slice) and not isinstance(n.slice.elts[1], ast.Slice) \
                and n.slice.elts[0].lower is None and n.slice.elts[0].upper is None and n.slice.elts[0].step is None:
            ix_ = self.ev(n.slice.elts[1], st)
            if isinstance(ix_, VSeq):          # M[:, index_array]: column selection
                q_ = z3.Int("q!colsel")
                self.oblige("pre@fancy-cols:" + ast.unparse(n)[:60], st, z3.ForAll([q_], z3.Implies(z3.And(0 <= q_, q_ < ix_.len), z3.And(0 <= z3.ToInt(ix_.arr[q_]), z3.ToInt(ix_.arr[q_]) < base.cols))))
                return VMat(FnArr(lambda i_: FnArr(lambda j_: base.arr[i_][z3.ToInt(ix_.arr[j_])])), base.rows, ix_.len)
        if isinstance(base, VMat) and not isinstance(n.slice, (ast.Slice, ast.Tuple)):
            ix_ = self.ev(n.slice, st)
            if isinstance(ix_, VSeq):          # M[index_array]: row selection
                q_ = z3.Int("q!rowsel")
                self.oblige("pre@fancy-rows:" + ast.unparse(n)[:60], st, z3.ForAll([q_], z3.Implies(z3.And(0 <= q_, q_ < ix_.len), z3.And(0 <= z3.ToInt(ix_.arr[q_]), z3.ToInt(ix_.arr[q_]) < base.rows))))
                return VMat(FnArr(lambda i_: FnArr(lambda j_: base.arr[z3.ToInt(ix_.arr[i_])][j_])), ix_.len, base.cols)
            r_ = ix_.e
            self.oblige("pre@row-index:" + ast.unparse(n), st, z3.And(0 <= r_, r_ < base.rows))
            return VSeq(FnArr(lambda k_: base.arr[r_][k_]), base.cols)
        if isinstance(base, (VSeq, VRefSeq)):
            if isinstance(n.slice, ast.Slice):
                if n.slice.step is not None:
                    raise Unsupported("slice step")
                lo = self.norm_index(self.ev(n.slice.lower, st).e, base.len) if n.slice.lower is not None else z3.IntVal(0)
                hi = self.norm_index(self.ev(n.slice.upper, st).e, base.len) if n.slice.upper is not None else base.len
                self.oblige("pre@slice:" + ast.unparse(n), st, z3.And(0 <= lo, lo <= hi, hi <= base.len))
                return VSeq(FnArr(lambda k_: base.arr[k_ + lo]), hi - lo)
            idx = self.ev(n.slice, st)
            if isinstance(idx, VSeq) and isinstance(base, VSeq):      # fancy indexing by an array of indices
                q_ = z3.Int("q!fancy")
                self.oblige("pre@fancy-index:" + ast.unparse(n)[:60], st, z3.ForAll([q_], z3.Implies(z3.And(0 <= q_, q_ < idx.len), z3.And(0 <= z3.ToInt(idx.arr[q_]), z3.ToInt(idx.arr[q_]) < base.len))))
                return VSeq(FnArr(lambda k_: base.arr[z3.ToInt(idx.arr[k_])]), idx.len)
            i = self.norm_index(idx.e, base.len)
            self.oblige("pre@index:" + ast.unparse(n), st, z3.And(i >= 0, i < base.len))
            return VNum(base.arr[i]) if isinstance(base, VSeq) else VRef(base.arr[i], base.cls)
        raise Unsupported("subscript " + ast.unparse(n))

    def ev_Call(self, n, st):
        if getattr(self, "call_hook", None) is not None:        # contract-module model of one specific call form (listed as trusted)
            r_ = self.call_hook(self, st, n)
            if r_ is not None:
                return r_
        if isinstance(n.func, ast.Attribute) and n.func.attr == "format" and isinstance(n.func.value, (ast.Constant, ast.JoinedStr)):
            return VStr("<formatted>")       # message text: arguments are not evaluated (dropped, see DESIGN 2.1)
        if isinstance(n.func, ast.Name) and n.func.id == "type" and n.func.id not in st.locals and len(n.args) == 1:
            v_ = self.ev(n.args[0], st)
            if isinstance(v_, VRef) and v_.cls is not None:
                return VLib("class:" + v_.cls)          # type(obj): the class the object is verified as (closed world: no subclass)
        if isinstance(n.func, ast.Name) and n.func.id in ("repr", "str", "type") and n.func.id not in st.locals:
            return VStr("<text>")
        f = self.ev(n.func, st)
        args = []
        for a in n.args:
            if isinstance(a, ast.Starred):
                sv = self.ev(a.value, st)
                if isinstance(sv, VTuple):
                    args.extend(sv.items)
                else:
                    args.append(VStar(sv))
            else:
                args.append(self.ev(a, st))
        kw = {}
        for k in n.keywords:
            if k.arg is None:                    # **mapping with concrete keys
                o = self.ev(k.value, st)
                if isinstance(o, VDict) and not (isinstance(f, VLib) and f.name == "dict"):
                    kw.update(o.d)
                continue
            kw[k.arg] = self.ev(k.value, st)
        if isinstance(f, VLib) and f.name.startswith("exc:"):
            return VOpaque(("exc", f.name[4:]))
        if isinstance(f, VLib) and f.name == "six.raise_from":
            raise PyRaise(args[0].tag[1] if isinstance(args[0], VOpaque) and isinstance(args[0].tag, tuple) else "Exception")
        if isinstance(f, VLib) and f.name == "super":
            if args:
                return VSuper(args[1], args[0].name[6:])
            return VSuper(st.locals["self"], self._owner_stack[-1])
        if isinstance(f, VLib):
            ab_ = [a_ for a_ in list(args) + list(kw.values()) if getattr(a_, "absorbing", False)]
            if f.name in self.lib:
                if ab_:
                    try:
                        return self.lib[f.name](self, st, args, kw, n)
                    except (AttributeError, TypeError, KeyError, Unsupported):
                        return ab_[0].absorb(f.name)          # the model does not know opaque values: a library function of an opaque value is an opaque value
                return self.lib[f.name](self, st, args, kw, n)
            if ab_:
                return ab_[0].absorb(f.name)
            raise Unsupported("library call " + f.name)
        if hasattr(f, "vcall"):
            return f.vcall(self, st, args, kw)
        if isinstance(f, VLambda):
            return self.call_lambda(f, args, kw, st)
        if isinstance(f, VRef):
            return self.call_method(st, f, "__call__", args, kw, node=n)
        if isinstance(f, VOpaque) and isinstance(f.tag, tuple) and f.tag[0] == "fun":
            if f.tag[1] in getattr(self, "fun_models", {}):
                return self.fun_models[f.tag[1]](self, st, args, kw, n)
            return self.apply_uf(f.tag[1], args, st)
        if isinstance(f, VCallRef):
            self.oblige("pre@callable:" + ast.unparse(n)[:40], st, f.kind == 2)
            return self.read_field(st, VRef(f.owner, self.callref_owner_cls), self.callref_owner_field)
        if isinstance(f, VBound) and isinstance(f.recv, VSeqOf) and f.name == "index" and isinstance(args[0], VName):
            sq = f.recv                          # list.index(x): first position holding x, ValueError if absent
            if sq.key is None:
                raise Unsupported("index() on a sequence without identity")
            fi = z3.Function("first_index!" + str(sq.key), Name, I)
            q_ = z3.Int("q!idx")
            present = z3.Exists([q_], z3.And(0 <= q_, q_ < sq.len, sq.fn(q_).e == args[0].e))
            self.oblige("pre@present(ValueError otherwise):" + ast.unparse(n)[:50], st, present)
            p_ = fi(args[0].e)
            st.assume(z3.And(0 <= p_, p_ < sq.len, sq.fn(p_).e == args[0].e, z3.ForAll([q_], z3.Implies(z3.And(0 <= q_, q_ < p_), sq.fn(q_).e != args[0].e))))
            return VNum(p_)
        if isinstance(f, VBound) and isinstance(f.recv, VSeqOf) and f.name == "values":       # dict whose keys play no role: its values in order
            return f.recv
        if isinstance(f, VBound) and isinstance(f.recv, VNameMap):
            m_ = f.recv
            if f.name == "values":
                return VRefSeq(m_.arr, m_.len, m_.cls)
            if f.name == "get":
                nm = args[0]
                q = fresh("pos", I)
                st.assume(z3.Implies(m_.has(nm.e), z3.And(0 <= q, q < m_.len, m_.names[q] == nm.e)))
                return VRef(z3.If(m_.has(nm.e), m_.arr[q], NULL), m_.cls)
            raise Unsupported("dict method " + f.name)
        if isinstance(f, VBound) and isinstance(f.recv, VStr) and f.name == "join" and isinstance(args[0], VTuple) and all(isinstance(q_, VStr) for q_ in args[0].items):
            return VStr(f.recv.s.join(q_.s for q_ in args[0].items))
        if isinstance(f, VBound) and isinstance(f.recv, VStr) and f.name in ("lower", "upper", "strip"):
            return VStr(getattr(f.recv.s, f.name)())
        if isinstance(f, VBound) and isinstance(f.recv, VStr) and f.name in ("split", "replace") and args and all(isinstance(a_, VStr) for a_ in args) and not f.recv.s.startswith("<"):
            r_ = getattr(f.recv.s, f.name)(*[a_.s for a_ in args])          # concrete string operation
            return VTuple([VStr(x_) for x_ in r_]) if f.name == "split" else VStr(r_)
        if isinstance(f, VBound) and isinstance(f.recv, VStr) and f.name in ("startswith", "endswith") and len(args) == 1 and isinstance(args[0], VStr) and not f.recv.s.startswith("<"):
            return VBool(z3.BoolVal(getattr(f.recv.s, f.name)(args[0].s)))
        if isinstance(f, VBound) and isinstance(f.recv, VStr) and f.name == "format" and getattr(self, "concrete_format", False) and not args and all(isinstance(v_, VStr) for v_ in kw.values()):
            return VStr(f.recv.s.format(**{k_: v_.s for k_, v_ in kw.items()}))       # real str.format on concrete pieces (KeyError for a missing field is python's)
        if isinstance(f, VBound) and isinstance(f.recv, VStr):
            return VStr("<formatted>")
        if isinstance(f, VBound) and isinstance(f.recv, VOpaque):
            return f.recv          # keys()/values()/copy() of an abstract finite map: same size
        if isinstance(f, VBound) and isinstance(f.recv, VPySet) and f.name in ("discard", "add", "clear"):      # in-place mutation of a python set with concrete members
            if f.name == "clear":
                f.recv.items = frozenset()
            else:
                k_ = self.key_of(args[0])
                f.recv.items = (f.recv.items - {k_}) if f.name == "discard" else (f.recv.items | {k_})
            return VNone()
        if isinstance(f, VBound) and isinstance(f.recv, VPySet):
            o = args[0].items if isinstance(args[0], VPySet) else frozenset(self.key_of(x_) for x_ in args[0].items)
            if f.name == "issubset":
                return VBool(z3.BoolVal(f.recv.items <= o))
            if f.name == "issuperset":
                return VBool(z3.BoolVal(f.recv.items >= o))
            return VPySet({"union": f.recv.items | o, "intersection": f.recv.items & o, "difference": f.recv.items - o}[f.name])
        if isinstance(f, VBound) and isinstance(f.recv, VTuple):
            if f.name == "append":
                f.recv.items.append(args[0])
                return VNone()
            if f.name == "copy":
                return VTuple(list(f.recv.items))
            if f.name == "index":
                for q_, it_ in enumerate(f.recv.items):
                    if isinstance(it_, VStr) and isinstance(args[0], VStr) and it_.s == args[0].s:
                        return VNum(z3.IntVal(q_))
                    if it_ is args[0]:
                        return VNum(z3.IntVal(q_))
                if all(isinstance(it_, VStr) for it_ in f.recv.items) and isinstance(args[0], VStr):
                    raise PyRaise("ValueError")
                if all(isinstance(it_, (VStr, VOpaque)) for it_ in f.recv.items) and isinstance(args[0], (VStr, VOpaque, VNone, VTuple)):
                    raise PyRaise("ValueError")        # opaque handles are compared by identity: not in the list
                raise Unsupported("list.index on non-concrete list")
            if f.name == "insert" and isinstance(args[0], VNum) and z3.is_int_value(z3.simplify(args[0].e)):
                f.recv.items.insert(z3.simplify(args[0].e).as_long(), args[1])
                return VNone()
        if isinstance(f, VBound) and isinstance(f.recv, VNode):
            st.ghost = dict(st.ghost)
            st.ghost["node_calls"] = st.ghost.get("node_calls", ()) + ((f.recv.name, f.name),)
            return VNone()
        if isinstance(f, VBound) and isinstance(f.recv, VExternal):
            f.recv.rec["calls"].append((f.name, list(args), dict(kw)))
            st.ghost = dict(st.ghost)        # per-path trace (rec['calls'] is shared by all paths)
            st.ghost["ext_calls"] = st.ghost.get("ext_calls", ()) + ((f.recv.name, f.name, tuple(args), dict(kw)),)
            if f.name in getattr(self, "ext_results", {}):
                return self.ext_results[f.name](self, st, args, kw)
            return VOpaque(("ext", f.recv.name, f.name, len(f.recv.rec["calls"])))
        if isinstance(f, VBound) and isinstance(f.recv, VDict) and f.name in ("keys", "values", "items"):
            kv_ = lambda k_: VStr(k_) if isinstance(k_, str) else VNum(z3.IntVal(k_)) if isinstance(k_, int) and not isinstance(k_, bool) else VOpaque(k_)
            return VTuple([kv_(k_) for k_ in f.recv.d] if f.name == "keys" else list(f.recv.d.values()) if f.name == "values" else [VTuple([kv_(k_), v_]) for k_, v_ in f.recv.d.items()])
        if isinstance(f, VBound) and isinstance(f.recv, VDict) and f.name == "copy":
            return VDict(dict(f.recv.d))         # shallow copy
        if isinstance(f, VBound) and isinstance(f.recv, VDict) and f.name == "update":
            for a_ in args:
                if not isinstance(a_, VDict):
                    raise Unsupported("dict.update with a non-concrete mapping")
                f.recv.d.update(a_.d)
            f.recv.d.update(kw)
            return VNone()
        if isinstance(f, VBound) and isinstance(f.recv, VDict):
            k = self.key_of(args[0])
            dflt = args[1] if len(args) > 1 else VNone()
            if f.name == "get":
                return f.recv.d.get(k, dflt)
            if f.name == "setdefault":
                return f.recv.d.setdefault(k, dflt)
            if f.name == "pop":
                if k not in f.recv.d and len(args) < 2:
                    raise Unsupported("KeyError path: pop of missing key " + str(k))
                return f.recv.d.pop(k, dflt)
        if isinstance(f, VBound) and isinstance(f.recv, VLib) and f.recv.name.startswith("class:") and args and isinstance(args[0], VRef):
            base_cls = f.recv.name[6:]
            mro_ = self.repo.mro(args[0].cls)
            if base_cls in mro_:
                prev = mro_[mro_.index(base_cls) - 1] if mro_.index(base_cls) > 0 else None
                return self.call_method(st, args[0], f.name, args[1:], kw, node=n, after=prev)
        if isinstance(f, VBound) and f.name == "dot" and getattr(self, "dot_model", None) is not None and not isinstance(f.recv, (VRef, VLib)):
            return self.dot_model(f.recv, args[0])
        if isinstance(f, VBound) and isinstance(f.recv, (VBoolSeq, VBoolMat)):
            return self.bool_reduce(f.recv, f.name)
        if isinstance(f, VBound):
            if f.name == "astype" and isinstance(f.recv, (VSeq, VMat)) and len(args) == 1 and isinstance(n.args[0], ast.Name) and n.args[0].id == "float":
                return f.recv  # ndarray.astype(float) of a numeric array: same values (reals here)
            if f.name in ("copy", "values") and not isinstance(f.recv, VRef):
                return f.recv  # ndarray.copy(): same value, fresh identity (values are immutable terms here); dict.values(): the entry sequence
            if isinstance(f.recv, VSeq) and f.name == "append":
                if isinstance(n.func.value, ast.Name) and f.recv.pylist and isinstance(args[0], VNum):       # local python list of numbers
                    old = f.recv
                    new = VSeq(z3.Store(materialise(old.arr), old.len, args[0].real()), old.len + 1)
                    new.pylist = True
                    st.locals[n.func.value.id] = new
                    return VNone()
                raise Unsupported("append on non-field list")
            return self.call_method(st, f.recv, f.name, args, kw, node=n, after=getattr(f, "after", None))
        raise Unsupported("call " + ast.unparse(n.func))

    def bool_reduce(self, bs, how):
        if isinstance(bs, VBoolMat):
            q1, q2 = z3.Ints("q1!red q2!red")
            rng = z3.And(0 <= q1, q1 < bs.rows, 0 <= q2, q2 < bs.cols)
            return VBool(z3.ForAll([q1, q2], z3.Implies(rng, bs.fn(q1, q2))) if how == "all" else z3.Exists([q1, q2], z3.And(rng, bs.fn(q1, q2))))
        q = z3.Int("q!red")
        rng = z3.And(0 <= q, q < bs.len)
        return VBool(z3.ForAll([q], z3.Implies(rng, bs.fn(q))) if how == "all" else z3.Exists([q], z3.And(rng, bs.fn(q))))

    # ---- method calls: contract, else inline the REAL body (no recursion without contract)
    def call_method(self, st, recv, name, args, kw, kind=None, node=None, after=None):
        owner, fdef = self.repo.find(recv.cls, name, kind, after=after)
        if fdef is None:
            raise Unsupported(f"method {recv.cls}.{name}")
        c = self.contracts.get((owner, name, kind)) or (self.contracts.get((recv.cls, name, kind)) if after is None else None)
        if c is None:
            mro_ = self.repo.mro(recv.cls)
            for anc in mro_[mro_.index(owner):]:
                if (anc, name, kind) in self.contracts:
                    c = self.contracts[(anc, name, kind)]
                    break
        if c is not None and not c.inline:
            return self.apply_contract(st, c, recv, args, kw, fdef, node)
        # inline
        sub = State()
        sub.heap, sub.pc, sub.ghost, sub.decisions = st.heap, st.pc, st.ghost, st.decisions  # shared (mutated in place by single-path inlining)
        params = [a.arg for a in fdef.args.args]
        sub.locals = {params[0]: recv}
        for p, a in zip(params[1:], args):
            sub.locals[p] = a
        sub.locals.update(kw)
        defaults = fdef.args.defaults
        for p, d in zip(params[len(params) - len(defaults):], defaults):
            if p not in sub.locals:
                sub.locals[p] = self.ev(d, sub)
        self._ctx = getattr(self, "_ctx", ()) + (id(node),)
        self._owner_stack.append(owner)
        self._inline_depth = getattr(self, "_inline_depth", 0) + 1
        try:
            outs = self.run(fdef.body, sub)
        finally:
            self._ctx = self._ctx[:-1]
            self._owner_stack.pop()
            self._inline_depth -= 1
        raises = [(s_, fl, v_) for s_, fl, v_ in outs if fl == "raise"]
        if len(outs) == 1 and len(raises) == 1:
            st.heap, st.pc, st.ghost = raises[0][0].heap, raises[0][0].pc, raises[0][0].ghost
            raise PyRaise(raises[0][2])
        normal = [(s, fl, v) for s, fl, v in outs if fl in ("next", "return")]
        if len(outs) != 1 or len(normal) != 1:
            raise Unsupported(f"inlined {recv.cls}.{name} forks ({len(outs)} paths): give it a contract")
        s, fl, v = normal[0]
        st.heap, st.pc, st.ghost = s.heap, s.pc, s.ghost
        return v if fl == "return" and v is not None else VNone()

    def apply_contract(self, st, c, recv, args, kw, fdef, node=None):
        static = any(ast.unparse(d) == "staticmethod" for d in fdef.decorator_list)
        params = [a.arg for a in fdef.args.args][0 if static else 1:]
        amap = dict(zip(params, args))
        if fdef.args.vararg is not None:
            amap[fdef.args.vararg.arg] = VTuple(list(args[len(params):]))
        amap.update(kw)
        pre = st.copy()
        view = View(self, pre, None, recv, amap)
        for i, r in enumerate(c.requires):
            self.oblige(f"pre@call:{c.cls}.{c.name}#{i}", st, r(view))
        if getattr(c, "raises", None) is not None:
            exc, cond = c.raises(view)
            if self.decide(st, ("raises", getattr(self, "_ctx", ()), id(node), c.name), cond):
                if getattr(c, "exc_ensures", None):        # a raising callee may have changed state: havoc its frame, assume its exceptional postcondition
                    for m_ in c.modifies:
                        field, kind, part = m_[:3]
                        old = st.h(field, kind, part)
                        whole = recv is None or (len(m_) == 4 and m_[3] == "all")
                        st.set_h(field, kind, part, fresh(f"H_{field}", old.sort()) if whole else z3.Store(old, recv.e, fresh(f"{field}_post", old.sort().range())))
                    vx = View(self, pre, st, recv, amap, None)
                    for e in c.exc_ensures:
                        g = e(vx)
                        for gg in g if isinstance(g, (list, tuple)) else [g]:
                            if gg is not None:
                                st.assume(gg)
                raise PyRaise(exc)
        for m_ in c.modifies:
            field, kind, part = m_[:3]
            old = st.h(field, kind, part)
            whole = recv is None or (len(m_) == 4 and m_[3] == "all")     # "all": the callee may modify this field of OTHER objects too
            st.set_h(field, kind, part, fresh(f"H_{field}", old.sort()) if whole else z3.Store(old, recv.e, fresh(f"{field}_post", old.sort().range())))
        res = c.result(View(self, pre, st, recv, amap)) if c.result else VNone()
        view2 = View(self, pre, st, recv, amap, res)
        for e in c.ensures:
            g = e(view2)
            for gg in g if isinstance(g, (list, tuple)) else [g]:
                if gg is not None:
                    st.assume(gg)
        return res

    # ================================================================ statements
    def run(self, body, st):
        outs = [(st, "next", None)]
        for stmt in body:
            nxt = []
            for s, flow, val in outs:
                if flow != "next":
                    nxt.append((s, flow, val))
                    continue
                nxt.extend(self.exec_stmt(stmt, s))
            outs = nxt
        return outs

    def exec_stmt(self, stmt, s):
        snap = s.copy()
        mark = len(self.obligations)
        c0 = _ctr[0]
        self._cur = s
        try:
            return self.st(stmt, s)
        except PyRaise as r:
            return [(s, "raise", r.exc)]
        except ForkRequest as fr:
            if getattr(self, "_inline_depth", 0) > 0:
                raise                      # inside an inlined callee: the fork is taken at the caller's statement
            del self.obligations[mark:]
            outs, hi = [], _ctr[0]
            for choice in (True, False):
                s2 = snap.copy()
                s2.assume(fr.cond if choice else z3.Not(fr.cond))
                s2.decisions[fr.key] = choice
                _ctr[0] = c0          # regenerate the same fresh constants as the aborted run (the decision condition mentions them)
                if self.feasible(s2):
                    outs.extend(self.exec_stmt(stmt, s2))
                hi = max(hi, _ctr[0])
            _ctr[0] = hi
            return outs

    def st(self, n, st):
        m = getattr(self, "st_" + type(n).__name__, None)
        if m is None:
            raise Unsupported("stmt " + type(n).__name__)
        return m(n, st)

    def st_ImportFrom(self, n, st):
        """`from m import A, B` inside a function: the names become class / function references (resolved through the loaded files or lib models)"""
        for al in n.names:
            nm = al.asname or al.name
            st.locals[nm] = VLib(("class:" + al.name) if (al.name in self.repo.classes or ("class:" + al.name) in self.lib) else al.name)
        return [(st, "next", None)]

    def st_Import(self, n, st):
        return [(st, "next", None)]

    def st_With(self, n, st):
        """`with cm as x: body` for external context managers (files, handles, warnings filters): __enter__ / __exit__ are recorded calls on the
        external object, x is bound to what __enter__ returns (the object itself unless ext_results says otherwise); exceptions inside the body
        propagate after __exit__ (no suppression modelled)"""
        for item in n.items:
            cm = self.ev(item.context_expr, st)
            if isinstance(cm, VExternal):
                st.ghost = dict(st.ghost)
                st.ghost["ext_calls"] = st.ghost.get("ext_calls", ()) + ((cm.name, "__enter__", (), {}),)
                entered = self.ext_results["__enter__"](self, st, [cm], {}) if "__enter__" in getattr(self, "ext_results", {}) else cm
            elif isinstance(cm, VOpaque):
                entered = cm
            else:
                raise Unsupported("with over " + type(cm).__name__)
            if item.optional_vars is not None:
                self.store(item.optional_vars, entered, st)
        outs = []
        for s_, flow, val in self.run(n.body, st):
            for item in n.items:
                cm = self.ev(item.context_expr, s_) if not isinstance(item.context_expr, ast.Call) else None
                if isinstance(cm, VExternal):
                    s_.ghost = dict(s_.ghost)
                    s_.ghost["ext_calls"] = s_.ghost.get("ext_calls", ()) + ((cm.name, "__exit__", (), {}),)
            outs.append((s_, flow, val))
        return outs

    def st_Try(self, n, st):
        outs = []
        for s, flow, val in self.run(n.body, st):
            if flow == "raise":
                for h in n.handlers:
                    names = [] if h.type is None else [ast.unparse(t).split(".")[-1] for t in (h.type.elts if isinstance(h.type, ast.Tuple) else [h.type])]
                    if h.type is None or exc_matches(val, names):
                        if h.name:
                            s.locals[h.name] = VOpaque(("exc", val))
                        s.locals["#handling"] = val
                        outs.extend(self.run(h.body, s))
                        break
                else:
                    outs.append((s, flow, val))
            elif flow == "next" and n.orelse:
                outs.extend(self.run(n.orelse, s))
            else:
                outs.append((s, flow, val))
        if n.finalbody:
            fin = []
            for s, flow, val in outs:
                for s2, f2, v2 in self.run(n.finalbody, s):
                    fin.append((s2, flow, val) if f2 == "next" else (s2, f2, v2))
            outs = fin
        return outs

    def st_Assert(self, n, st):
        c = self.truth(self.ev(n.test, st))
        ok, bad = st.copy().assume(c), st.copy().assume(z3.Not(c))
        outs = []
        if self.feasible(ok):
            outs.append((ok, "next", None))
        if self.feasible(bad):
            outs.append((bad, "raise", "AssertionError"))
        return outs

    def ev_IfExp(self, n, st):
        c = self.truth(self.ev(n.test, st))
        return self.ev(n.body, st) if self.decide(st, ("ifexp", getattr(self, "_ctx", ()), id(n)), c) else self.ev(n.orelse, st)

    def st_Pass(self, n, st):
        return [(st, "next", None)]

    def st_Expr(self, n, st):
        if isinstance(n.value, ast.Constant):
            return [(st, "next", None)]
        if isinstance(n.value, ast.Call):
            f = ast.unparse(n.value.func)
            if f in ("warnings.warn", "print"):
                self.dropped.append(f)
                return [(st, "next", None)]
            if f.endswith(".append") and isinstance(n.value.func.value, ast.Name) and isinstance(st.locals.get(n.value.func.value.id), VSeq):
                seq = st.locals[n.value.func.value.id]
                v = self.ev(n.value.args[0], st)
                if not isinstance(v, VNum) and z3.is_int_value(z3.simplify(seq.len)) and z3.simplify(seq.len).as_long() == 0:
                    # an empty list literal that turns out to hold non-numbers: a python list; every alias of it (e.g. a dict entry created by setdefault) follows
                    new_ = VTuple([v])

                    def swap(val):
                        if isinstance(val, VDict):
                            for k_, x_ in list(val.d.items()):
                                if x_ is seq:
                                    val.d[k_] = new_
                                else:
                                    swap(x_)
                        elif isinstance(val, VTuple):
                            for q_, x_ in enumerate(val.items):
                                if x_ is seq:
                                    val.items[q_] = new_
                                else:
                                    swap(x_)
                    for k_, x_ in list(st.locals.items()):
                        if x_ is seq:
                            st.locals[k_] = new_
                        else:
                            swap(x_)
                    return [(st, "next", None)]
                st.locals[n.value.func.value.id] = VSeq(z3.Store(materialise(seq.arr), seq.len, v.real()), seq.len + 1, pylist=True)
                return [(st, "next", None)]
            if f.endswith(".append") and isinstance(n.value.func.value, ast.Attribute):
                tgt = n.value.func.value
                seq = self.ev(tgt, st)
                v = self.ev(n.value.args[0], st)
                if isinstance(seq, VTuple):
                    seq.items.append(v)
                    return [(st, "next", None)]
                new = VSeq(z3.Store(materialise(seq.arr), seq.len, v.real()), seq.len + 1)
                self.store(tgt, new, st)
                return [(st, "next", None)]
            self.ev(n.value, st)
            return [(st, "next", None)]
        if isinstance(n.value, ast.Attribute) and n.value.attr == "ndim":       # `x.ndim` as a probe: a plain python number has no such attribute
            v_ = self.ev(n.value.value, st)
            if isinstance(v_, VNum) and getattr(v_, "python_number", False):
                raise PyRaise("AttributeError")
            self.ev(n.value, st)
            return [(st, "next", None)]
        if isinstance(n.value, ast.Attribute):       # a property read for its effect (e.g. to trigger a lazy computation)
            self.ev(n.value, st)
            return [(st, "next", None)]
        raise Unsupported("expr stmt " + ast.unparse(n))

    def st_Raise(self, n, st):
        if n.exc is None:          # bare `raise` inside a handler: the exception being handled
            return [(st, "raise", st.locals.get("#handling", "Exception"))]
        return [(st, "raise", ast.unparse(n.exc.func) if isinstance(n.exc, ast.Call) else ast.unparse(n.exc))]

    def st_Return(self, n, st):
        return [(st, "return", self.ev(n.value, st) if n.value else VNone())]

    def st_Break(self, n, st):
        return [(st, "break", None)]

    def st_Continue(self, n, st):
        return [(st, "continue", None)]

    def st_Assign(self, n, st):
        v = self.ev(n.value, st)
        for t in n.targets:
            self.store(t, v, st)
        return [(st, "next", None)]

    def store(self, t, v, st):
        if isinstance(t, ast.Name):
            lm = getattr(self, "local_models", {}).get(t.id)        # sidecar note: this local list / dict grows inside a loop -> symbolic representation
            if lm == "seq" and isinstance(v, VTuple) and all(isinstance(q_, VNum) for q_ in v.items):
                a_ = z3.K(I, z3.RealVal(0))
                for q_, it_ in enumerate(v.items):
                    a_ = z3.Store(a_, q_, it_.real())
                v = VSeq(a_, z3.IntVal(len(v.items)))
                v.pylist = True
            elif lm == "intmap" and isinstance(v, VDict) and not v.d:
                v = VIntMap(z3.K(I, z3.IntVal(0)), z3.K(I, z3.BoolVal(False)))
            st.locals[t.id] = v
        elif isinstance(t, (ast.Tuple, ast.List)):
            if not isinstance(v, VTuple) or len(v.items) != len(t.elts):
                raise Unsupported("unpacking " + ast.unparse(t))
            for tt, vv in zip(t.elts, v.items):
                self.store(tt, vv, st)
        elif isinstance(t, ast.Attribute) and hasattr(self.ev(t.value, st), "vsetattr"):
            self.ev(t.value, st).vsetattr(self, st, t.attr, v)          # duck protocol: attribute assignment on a contract-defined value
        elif isinstance(t, ast.Attribute) and isinstance(self.ev(t.value, st), VNode):
            nd_ = self.ev(t.value, st)
            st.ghost = dict(st.ghost)
            st.ghost["node_calls"] = st.ghost.get("node_calls", ()) + ((nd_.name, "set:" + t.attr, v),)
        elif isinstance(t, ast.Attribute) and isinstance(self.ev(t.value, st), VExternal):
            ex_ = self.ev(t.value, st)
            ex_.rec["calls"].append(("set:" + t.attr, [v], {}))
            st.ghost = dict(st.ghost)
            st.ghost["ext_calls"] = st.ghost.get("ext_calls", ()) + ((ex_.name, "set:" + t.attr, (v,), {}),)
        elif isinstance(t, ast.Attribute) and isinstance(self.ev(t.value, st), VOpaque):
            st.ghost = dict(st.ghost)          # attribute set on an opaque value (e.g. a function object): recorded, no other effect
            st.ghost["opaque_sets"] = st.ghost.get("opaque_sets", ()) + ((self.ev(t.value, st).tag, t.attr, v),)
        elif isinstance(t, ast.Attribute):
            base = self.ev(t.value, st)
            if self.ftype(base.cls, t.attr) is not None:
                self.write_field(st, base, t.attr, v)
            elif self.repo.find(base.cls, t.attr, "setter")[1] is not None:
                self.call_method(st, base, t.attr, [v], {}, kind="setter", node=t)
            else:
                raise Unsupported(f"store to {base.cls}.{t.attr}")
        elif isinstance(t, ast.Subscript) and hasattr(self.ev(t.value, st), "vstore"):
            self.ev(t.value, st).vstore(self, st, t, v)          # duck protocol for contract-defined container values
        elif isinstance(t, ast.Subscript) and isinstance(self.ev(t.value, st), VNameMap):
            m_ = self.ev(t.value, st)
            nm = self.ev(t.slice, st)
            if isinstance(v, VDict):       # a dict literal stored as a record object of the map's entry class
                r = self.alloc(st, "entry", m_.cls)
                for k_, val_ in v.d.items():
                    if self.ftype(m_.cls, k_) is not None:
                        self.write_field(st, r, k_, val_)
                v = r
            self.oblige("pre@dict-insert-new-key:" + ast.unparse(t), st, z3.Not(m_.has(nm.e)))       # overwrite of an existing key is not modelled
            new = VNameMap(z3.Store(m_.arr, m_.len, v.e), m_.len + 1, z3.Store(m_.names, m_.len, nm.e), m_.cls)
            self.store(t.value, new, st)
        elif isinstance(t, ast.Subscript) and isinstance(t.slice, ast.Constant) and isinstance(t.slice.value, str) and isinstance(self.ev(t.value, st), VRef):
            self.write_field(st, self.ev(t.value, st), t.slice.value, v)
        elif isinstance(t, ast.Subscript) and isinstance(self.ev(t.value, st), VTuple):
            idx = z3.simplify(self.ev(t.slice, st).e)
            if not z3.is_int_value(idx):
                raise Unsupported("store into python list at symbolic index: " + ast.unparse(t))
            self.ev(t.value, st).items[idx.as_long()] = v
        elif isinstance(t, ast.Subscript) and isinstance(self.ev(t.value, st), VIntMap):
            m_, k_ = self.ev(t.value, st), self.ev(t.slice, st)
            ke = k_.e if k_.is_int else z3.ToInt(k_.e)
            ve = v.e if v.is_int else z3.ToInt(v.e)
            self.store(t.value, VIntMap(z3.Store(m_.arr, ke, ve), z3.Store(m_.dom, ke, z3.BoolVal(True))), st)
        elif isinstance(t, ast.Subscript) and isinstance(self.ev(t.value, st), VDict):
            self.ev(t.value, st).d[self.key_of(self.ev(t.slice, st))] = v
        elif isinstance(t, ast.Subscript) and isinstance(t.slice, ast.Tuple) and len(t.slice.elts) == 2 and isinstance(t.slice.elts[1], ast.Slice) and not isinstance(t.slice.elts[0], ast.Slice) and isinstance(self.ev(t.value, st), VMat):
            M_ = self.ev(t.value, st)      # M[r, lo:hi] = v   (row (slice) assignment)
            r_ = self.ev(t.slice.elts[0], st).e
            if r_.sort() == R:
                r_ = z3.ToInt(r_)
            sl_ = t.slice.elts[1]
            lo_ = self.norm_index(self.ev(sl_.lower, st).e, M_.cols) if sl_.lower is not None else z3.IntVal(0)
            if sl_.upper is not None:
                hi_ = self.ev(sl_.upper, st).e
                up_ = sl_.upper
                hi_ = M_.cols + hi_ if isinstance(up_, ast.UnaryOp) and isinstance(up_.op, ast.USub) else self.norm_index(hi_, M_.cols)
            else:
                hi_ = M_.cols
            self.oblige("pre@row-store:" + ast.unparse(t), st, z3.And(0 <= r_, r_ < M_.rows, 0 <= lo_, lo_ <= hi_, hi_ <= M_.cols))
            if isinstance(v, VSeq):
                self.oblige("pre@row-store-shape:" + ast.unparse(t), st, v.len == hi_ - lo_)
            rowv = (lambda j_: v.arr[j_ - lo_]) if isinstance(v, VSeq) else (lambda j_: v.real())
            self.store(t.value, VMat(FnArr(lambda i_: FnArr(lambda j_: z3.If(z3.And(i_ == r_, lo_ <= j_, j_ < hi_), rowv(j_), M_.arr[i_][j_]))), M_.rows, M_.cols), st)
        elif isinstance(t, ast.Subscript) and isinstance(t.slice, ast.Tuple) and len(t.slice.elts) == 2 and all(isinstance(q_, ast.Slice) for q_ in t.slice.elts) and isinstance(self.ev(t.value, st), VMat):
            M_ = self.ev(t.value, st)      # M[r0:r1, c0:c1] = v   (block assignment; numpy raises unless the shapes agree or v is a scalar)
            (r0, r1), (c0, c1) = self.slice_bounds(t.slice.elts[0], M_.rows, st), self.slice_bounds(t.slice.elts[1], M_.cols, st)
            self.oblige("pre@block-store:" + ast.unparse(t), st, z3.And(0 <= r0, r0 <= r1, r1 <= M_.rows, 0 <= c0, c0 <= c1, c1 <= M_.cols))
            if isinstance(v, VMat):
                self.oblige("pre@block-store-shape:" + ast.unparse(t), st, z3.And(v.rows == r1 - r0, v.cols == c1 - c0))
                val = lambda i_, j_: v.arr[i_ - r0][j_ - c0]
            else:
                val = lambda i_, j_: v.real()
            self.store(t.value, VMat(FnArr(lambda i_: FnArr(lambda j_: z3.If(z3.And(r0 <= i_, i_ < r1, c0 <= j_, j_ < c1), val(i_, j_), M_.arr[i_][j_]))), M_.rows, M_.cols), st)
        elif isinstance(t, ast.Subscript) and not isinstance(t.slice, (ast.Tuple, ast.Slice)) and isinstance(self.ev(t.value, st), VMat):
            M_ = self.ev(t.value, st)      # M[r] = v
            r_ = self.ev(t.slice, st).e
            if r_.sort() == R:
                r_ = z3.ToInt(r_)
            self.oblige("pre@row-store:" + ast.unparse(t), st, z3.And(0 <= r_, r_ < M_.rows))
            rowv = (lambda j_: v.arr[j_]) if isinstance(v, VSeq) else (lambda j_: v.real())
            self.store(t.value, VMat(FnArr(lambda i_: FnArr(lambda j_: z3.If(i_ == r_, rowv(j_), M_.arr[i_][j_]))), M_.rows, M_.cols), st)
        elif isinstance(t, ast.Subscript) and isinstance(t.slice, ast.Tuple) and len(t.slice.elts) == 2 and not any(isinstance(q_, ast.Slice) for q_ in t.slice.elts) and isinstance(self.ev(t.value, st), VMat):
            M_ = self.ev(t.value, st)      # M[r, c] = v
            r_, c_ = self.ev(t.slice.elts[0], st).e, self.ev(t.slice.elts[1], st).e
            if r_.sort() == R:
                r_ = z3.ToInt(r_)
            if c_.sort() == R:
                c_ = z3.ToInt(c_)
            self.oblige("pre@element-store:" + ast.unparse(t), st, z3.And(0 <= r_, r_ < M_.rows, 0 <= c_, c_ < M_.cols))
            self.store(t.value, VMat(FnArr(lambda i_: FnArr(lambda j_: z3.If(z3.And(i_ == r_, j_ == c_), v.real(), M_.arr[i_][j_]))), M_.rows, M_.cols), st)
        elif isinstance(t, ast.Subscript) and isinstance(t.slice, ast.Slice):
            seq = self.ev(t.value, st)
            lo = self.norm_index(self.ev(t.slice.lower, st).e, seq.len) if t.slice.lower is not None else z3.IntVal(0)
            hi = self.norm_index(self.ev(t.slice.upper, st).e, seq.len) if t.slice.upper is not None else seq.len
            self.oblige("pre@slice-store:" + ast.unparse(t), st, z3.And(0 <= lo, lo <= hi, hi <= seq.len))
            if isinstance(v, VSeq):
                self.oblige("pre@slice-store-shape:" + ast.unparse(t), st, v.len == hi - lo)
                new = VSeq(FnArr(lambda k_: z3.If(z3.And(lo <= k_, k_ < hi), v.arr[k_ - lo], seq.arr[k_])), seq.len)
            else:
                new = VSeq(FnArr(lambda k_: z3.If(z3.And(lo <= k_, k_ < hi), v.real(), seq.arr[k_])), seq.len)
            self.store(t.value, new, st)
        elif isinstance(t, ast.Subscript):
            seq = self.ev(t.value, st)
            i = self.norm_index(self.ev(t.slice, st).e, seq.len)
            self.oblige("pre@store:" + ast.unparse(t), st, z3.And(i >= 0, i < seq.len))
            self.store(t.value, VSeq(z3.Store(materialise(seq.arr), i, v.real()), seq.len), st)
        else:
            raise Unsupported("store " + ast.unparse(t))

    def st_AugAssign(self, n, st):
        cur = self.num(self.ev(n.target, st), st, ast.unparse(n))
        rhs = self.num(self.ev(n.value, st), st, ast.unparse(n))
        if isinstance(n.op, ast.Add) and isinstance(cur, VSeq) and isinstance(rhs, VSeq) and (cur.pylist or self.is_list_target(n.target, st)):
            new = self.concat(cur, rhs)
        else:
            new = self.binop(n.op, cur, rhs, n)
        self.store(n.target, new, st)
        return [(st, "next", None)]

    def is_list_target(self, t, st):
        """python list (+= concatenates) vs numpy array (+= adds): decided by the sidecar schema note 'pylist'"""
        if isinstance(t, ast.Attribute):
            base = self.ev(t.value, st)
            return (base.cls, t.attr) in self.schema.get("__pylists__", set()) or any((c, t.attr) in self.schema.get("__pylists__", set()) for c in self.repo.mro(base.cls))
        return False

    def effect_free(self, body):
        return all(isinstance(x, ast.Expr) and isinstance(x.value, ast.Call) and ast.unparse(x.value.func) in ("warnings.warn", "print") for x in body)

    def st_If(self, n, st):
        if n.body and self.effect_free(n.body) and self.effect_free(n.orelse):
            self.dropped.append("if-guarding-only-dropped-calls: " + ast.unparse(n.test)[:50])
            return [(st, "next", None)]
        c = self.truth(self.ev(n.test, st))
        if getattr(self, "_inline_depth", 0) > 0:
            return self.run(n.body if self.decide(st, ("if", getattr(self, "_ctx", ()), id(n)), c) else n.orelse, st)
        outs = []
        for cond, body in ((c, n.body), (z3.Not(c), n.orelse)):
            s = st.copy().assume(cond)
            if self.feasible(s):
                outs.extend(self.run(body, s))
        return outs

    # ---- loops
    def assigned(self, body):
        loc, fld = set(), set()
        for x in ast.walk(ast.Module(body=body, type_ignores=[])):
            tgts = []
            if isinstance(x, ast.Assign):
                tgts = x.targets
            elif isinstance(x, ast.AugAssign):
                tgts = [x.target]
            elif isinstance(x, ast.Expr) and isinstance(x.value, ast.Call) and ast.unparse(x.value.func).endswith(".append"):
                tgts = [x.value.func.value]
            elif isinstance(x, ast.For):
                tgts = [x.target]
            for t in tgts:
                for tt in t.elts if isinstance(t, ast.Tuple) else [t]:
                    while isinstance(tt, ast.Subscript):
                        tt = tt.value
                    if isinstance(tt, ast.Name):
                        loc.add(tt.id)
                    elif isinstance(tt, ast.Attribute) and ast.unparse(tt.value) == "self":
                        fld.add(tt.attr)
        return loc, fld

    def havoc_like(self, v, name):
        if isinstance(v, VNum):
            return VNum(fresh(name, v.e.sort()))
        if isinstance(v, VSeq):
            r_ = VSeq(fresh(name, arr(I, R)), fresh(name + "_len", I))
            r_.pylist = v.pylist
            return r_
        if isinstance(v, VMat):
            return VMat(fresh(name, arr(I, I, R)), fresh(name + "_rows", I), fresh(name + "_cols", I))      # the shape may change in the loop too (np.insert, np.delete, ...): the invariant has to say what it is
        if isinstance(v, VBool):
            return VBool(fresh(name, B))
        if isinstance(v, VIntMap):
            return VIntMap(fresh(name, arr(I, I)), fresh(name + "_dom", arr(I, B)))
        if type(v).__name__ == "VName":
            return type(v)(fresh(name, v.e.sort()))
        if type(v).__name__ in ("VOpaque", "VNone", "VLib", "VNode", "VExternal", "VLambda", "VBound"):
            return v          # values without content the encoding could constrain (a loop that re-assigns them to something else is outside the subset: the body then fails to type)
        raise Unsupported(f"local '{name}' ({type(v).__name__}) is assigned inside a loop and cannot be havocked: give it a symbolic model (local_models) or restructure the contract")

    def callee_effects(self, body, depth=0, seen=None, self_cls=None):
        """heap fields a loop body may modify through calls: the `modifies` of every registered contract whose method/setter name is
        called or assigned in the body, plus (recursively, by name, over all loaded classes) the fields assigned by inlined callees.
        Over-approximation: all of these are havocked for ALL objects at the loop head."""
        seen = set() if seen is None else seen
        out = set()
        names = set()
        on_self = set()      # (name, kind) pairs only ever used on `self`: resolved through the receiver's MRO instead of all classes
        is_self = lambda v_: isinstance(v_, ast.Name) and v_.id == "self"
        for x in ast.walk(ast.Module(body=list(body), type_ignores=[])):
            if isinstance(x, ast.Call) and isinstance(x.func, ast.Attribute):
                names.add((x.func.attr, None))
                (on_self.add if is_self(x.func.value) else on_self.discard)((x.func.attr, None)) if ((x.func.attr, None) not in names or is_self(x.func.value)) else None
            elif isinstance(x, ast.Attribute) and isinstance(x.ctx, ast.Store):
                names.add((x.attr, "setter"))
                for cls_, flds in self.schema.items():
                    if isinstance(flds, dict) and x.attr in flds and not (isinstance(x.value, ast.Name) and x.value.id == "self"):
                        t = flds[x.attr]
                        out |= {(x.attr, t.kind, part) for part in HEAP_SORTS.get(t.kind, {})}
                        if t.kind == "record":
                            out.add((x.attr + ".#none", "bool", ""))
                            for key_, ft_ in t.fields.items():
                                out |= {(x.attr + "." + key_, ft_.kind, part) for part in HEAP_SORTS.get(ft_.kind, {})}
            elif isinstance(x, ast.Attribute) and isinstance(x.ctx, ast.Load):
                names.add((x.attr, "getter"))
                if not is_self(x.value):
                    on_self.discard((x.attr, "getter"))
                    names.add((x.attr, "getter-any"))
            elif isinstance(x, ast.Subscript) and isinstance(x.ctx, ast.Store) and isinstance(x.slice, ast.Constant) and isinstance(x.slice.value, str):
                for cls_, flds in self.schema.items():
                    if isinstance(flds, dict) and x.slice.value in flds:
                        t = flds[x.slice.value]
                        out |= {(x.slice.value, t.kind, part) for part in HEAP_SORTS.get(t.kind, {})}
        for (cls_, nm, kind), c in list(self.contracts.items()):
            if (nm, kind) in names or (kind is None and (nm, None) in names):
                if not c.inline:
                    out |= {tuple(m_[:3]) for m_ in c.modifies}
        if depth < 3:
            for nm, kind in names:
                if (nm, kind) in seen:
                    continue
                seen.add((nm, kind))
                if kind == "getter-any":
                    continue
                self_only = self_cls is not None and kind == "getter" and (nm, "getter-any") not in names
                for cname in (self.repo.mro(self_cls) if self_only else list(self.repo.classes)):
                    c = self.contracts.get((cname, nm, kind))
                    if c is not None and not c.inline:
                        continue
                    for f in self.repo.classes[cname][1].body:
                        if isinstance(f, ast.FunctionDef) and f.name == nm:
                            is_set = any(ast.unparse(d).endswith(".setter") for d in f.decorator_list)
                            is_get = any(ast.unparse(d) == "property" for d in f.decorator_list)
                            if (kind == "setter") != is_set or (kind == "getter") != is_get:
                                continue
                            loc, fld = self.assigned(f.body)
                            for fl in fld:
                                for cls2, flds in self.schema.items():
                                    if isinstance(flds, dict) and fl in flds:
                                        out |= {(fl, flds[fl].kind, part) for part in HEAP_SORTS.get(flds[fl].kind, {})}
                            out |= self.callee_effects(f.body, depth + 1, seen, self_cls=cname if self_only else None)
        return {m_ for m_ in out if m_[1] in HEAP_SORTS}

    def havoc_for_loop(self, st, body, extra_locals=()):
        loc, fld = self.assigned(body)
        h = st.copy()
        for x in list(loc) + list(extra_locals):
            if x in h.locals:
                h.locals[x] = self.havoc_like(h.locals[x], x)
        me = h.locals.get("self")
        for x in fld:
            t = self.ftype(me.cls, x) if me is not None else None
            if t is None or t.kind not in HEAP_SORTS:
                continue
            for part, srt in HEAP_SORTS[t.kind].items():
                old = h.h(x, t.kind, part)
                h.set_h(x, t.kind, part, z3.Store(old, me.e, fresh(f"self.{x}.{part}", srt.range())))
        for (field, kind, part) in sorted(self.callee_effects(body, self_cls=me.cls if me is not None else None) | set(getattr(self, "loop_havoc", []))):
            old = h.h(field, kind, part)
            h.set_h(field, kind, part, fresh(f"H_{field}", old.sort()))
        return h

    def st_While(self, n, st):
        k = self.cur_loops["ids"][id(n)]
        inv = self.cur_loops["inv"][k]
        self.oblige(f"loop{k}.inv.init", st, inv(self, st))
        h = self.havoc_for_loop(st, n.body)
        h.assume(inv(self, h))
        c = self.truth(self.ev(n.test, h))
        exits = []
        for s, flow, val in self.run(n.body, h.copy().assume(c)):
            if flow in ("next", "continue"):
                self.oblige(f"loop{k}.inv.preserve#{len(self.obligations)}", s, inv(self, s))
            elif flow == "break":
                exits.append((s, "next", None))
            else:
                exits.append((s, flow, val))
        ex = h.copy().assume(z3.Not(c))
        if self.feasible(ex):
            exits.append((ex, "next", None))
        return exits

    def iter_len(self, it):
        if isinstance(it, (VSeq, VRefSeq, VSeqOf)):
            return it.len
        if isinstance(it, VZip):
            r = self.iter_len(it.parts[0])
            for p_ in it.parts[1:]:
                l2 = self.iter_len(p_)
                r = z3.If(r <= l2, r, l2)
            return r
        if isinstance(it, VEnum):
            return self.iter_len(it.inner)
        if isinstance(it, VRange):
            return z3.If(it.hi >= it.lo, it.hi - it.lo, z3.IntVal(0))
        raise Unsupported("iteration over " + type(it).__name__)

    def iter_item(self, it, i):
        if isinstance(it, VSeq):
            return VNum(it.arr[i])
        if isinstance(it, VRefSeq):
            return VRef(it.arr[i], it.cls)
        if isinstance(it, VSeqOf):
            return it.fn(i)
        if isinstance(it, VZip):
            return VTuple([self.iter_item(p_, i) for p_ in it.parts])
        if isinstance(it, VEnum):
            return VTuple([VNum(i), self.iter_item(it.inner, i)])
        if isinstance(it, VRange):
            return VNum(it.lo + i)
        raise Unsupported("iteration over " + type(it).__name__)

    def st_For(self, n, st):
        """for x in <iterable>: body   ==   i=0; while i < len: x = item(i); body; i+=1   (ghost index '#i<k>').
        Concrete python lists/tuples (VTuple) are unrolled."""
        it = self.ev(n.iter, st)

        def concrete_range(r_):
            lo_, hi_ = [z3.simplify(b_.e if isinstance(b_, V) else z3.IntVal(b_) if isinstance(b_, int) else b_) for b_ in (r_.lo, r_.hi)]
            return VTuple([VNum(z3.IntVal(q_)) for q_ in range(lo_.as_long(), hi_.as_long())]) if z3.is_int_value(lo_) and z3.is_int_value(hi_) else r_
        if isinstance(it, VZip) and any(isinstance(p_, VTuple) for p_ in it.parts):
            it = VZip([concrete_range(p_) if isinstance(p_, VRange) else p_ for p_ in it.parts]) if hasattr(it, "parts") else it
        if isinstance(it, VZip) and all(isinstance(p_, VTuple) for p_ in it.parts):       # zip of concrete python lists: unrolled
            it = VTuple([VTuple(list(row)) for row in zip(*[p_.items for p_ in it.parts])])
        if isinstance(it, VEnum) and isinstance(it.inner, VTuple):
            it = VTuple([VTuple([VNum(z3.IntVal(q_)), x_]) for q_, x_ in enumerate(it.inner.items)])
        if isinstance(it, VPySet):
            it = VTuple([VStr(x) if isinstance(x, str) else VNum(z3.IntVal(x)) for x in sorted(it.items, key=str)])
        if isinstance(it, VRange) and self.cur_loops["ids"].get(id(n)) not in self.cur_loops["inv"] and isinstance(concrete_range(it), VTuple) and len(concrete_range(it).items) <= 8:
            it = concrete_range(it)          # range with small concrete bounds and no invariant given: unrolled (the contract module states the bound)
        if isinstance(it, VTuple):
            outs = [(st, "next", None)]
            for item in list(it.items):
                nxt = []
                for s_, flow, val in outs:
                    if flow != "next":
                        nxt.append((s_, flow, val))
                        continue
                    self.store(n.target, item, s_)
                    for s2, f2, v2 in self.run(n.body, s_):
                        nxt.append((s2, "next" if f2 == "continue" else f2, v2))
                outs = nxt
            outs = [(s_, "next" if fl == "break" else fl, v_) for s_, fl, v_ in outs]
            if n.orelse:
                raise Unsupported("for-else")
            return outs
        k = self.cur_loops["ids"][id(n)]
        if k not in self.cur_loops["inv"]:
            raise Unsupported(f"loop {k} has no invariant in the contract")
        inv = self.cur_loops["inv"][k]
        ln = self.iter_len(it)
        gi = f"#i{k}"
        st.locals[gi] = VNum(z3.IntVal(0))
        st.locals[f"#it{k}"] = it
        self.oblige(f"loop{k}.inv.init", st, inv(self, st))
        h = self.havoc_for_loop(st, n.body, extra_locals=[gi])
        h.assume(inv(self, h))
        i = h.locals[gi].e
        exits = []
        b = h.copy().assume(z3.And(0 <= i, i < ln))
        # vacuity guard for the inductive step: the body must be reachable for an iteration AFTER the first one (i >= 1); if that is refutable, the havoc at the
        # loop head or the invariant pins the loop to its first iteration and 'preserve' proves nothing about the others
        ln_s = z3.simplify(ln)
        if not (z3.is_int_value(ln_s) and ln_s.as_long() <= 1):          # (an iterable of concrete length <= 1 has no later iteration by construction)
            self.oblige(f"loop{k}.later-iteration.CANARY", b.copy().assume(i >= 1), z3.BoolVal(False))
        self.store(n.target, self.iter_item(it, i), b)
        for s, flow, val in self.run(n.body, b):
            if flow in ("next", "continue"):
                s.locals[gi] = VNum(s.locals[gi].e + 1)
                self.oblige(f"loop{k}.inv.preserve#{len(self.obligations)}", s, inv(self, s))
            elif flow == "break":
                exits.append((s, "next", None))
            else:
                exits.append((s, flow, val))
        ex = h.copy().assume(z3.Not(z3.And(0 <= i, i < ln)))
        exits.append((ex, "next", None))
        return exits

    # ---- verification entry point
    MUTATORS = {"append", "extend", "pop", "update", "clear", "insert", "remove", "sort", "setdefault", "popitem", "reverse", "add", "discard"}

    def slice_body(self, body, names):
        """program slice of a statement list on a set of LOCAL names: simple statements that do not mention any tracked name are dropped
        (a local can only change through a statement that names it; closures are checked separately), control flow is kept.
        The slice proves: IF the method completes normally THEN ... (exceptions of dropped statements are not modelled)."""
        def mentions(x):
            return any(isinstance(y, ast.Name) and y.id in names for y in ast.walk(x))
        out = []
        for s_ in body:
            if isinstance(s_, (ast.FunctionDef, ast.Import, ast.ImportFrom, ast.Pass)):
                if isinstance(s_, ast.FunctionDef):
                    for y in ast.walk(s_):
                        bad = (isinstance(y, ast.Name) and y.id in names and isinstance(y.ctx, (ast.Store, ast.Del))) or isinstance(y, (ast.Nonlocal, ast.Global)) or \
                              (isinstance(y, ast.Subscript) and isinstance(y.ctx, ast.Store) and mentions(y.value)) or \
                              (isinstance(y, ast.Call) and isinstance(y.func, ast.Attribute) and y.func.attr in self.MUTATORS and mentions(y.func.value))
                        if bad:
                            raise Unsupported(f"slice: nested function {s_.name} may modify a tracked local")
                continue
            if isinstance(s_, ast.If):
                b_, o_ = self.slice_body(s_.body, names), self.slice_body(s_.orelse, names)
                if not b_ and not o_:
                    continue
                out.append(ast.copy_location(ast.If(test=s_.test, body=b_ or [ast.Pass()], orelse=o_), s_))
            elif isinstance(s_, (ast.For, ast.While)):
                b_ = self.slice_body(s_.body, names)
                if not b_ and not s_.orelse:
                    if isinstance(s_, ast.For) and any(isinstance(y, ast.Name) and y.id in names for y in ast.walk(s_.target)):
                        raise Unsupported("slice: loop target is a tracked local")
                    continue
                s_.body = b_ or [ast.Pass()]     # loop nodes keep their identity (loop ordinals refer to them)
                out.append(s_)
            elif isinstance(s_, (ast.Return, ast.Raise, ast.Break, ast.Continue, ast.Try, ast.With, ast.Assert)):
                out.append(s_)
            elif mentions(s_):
                out.append(s_)
        return out

    def verify(self, cls, name, kind=None, init=None, contract=None, tag=None, nested=None, slice_on=None):
        """verify the REAL body of cls.name against `contract` (default: the registered one); obligations are appended
        to self.obligations with ids '<Class>.<name>[<kind>]<tag>/<obligation>'"""
        owner, fdef = self.repo.find(cls, name, kind, include_static=True)
        if fdef is None:
            raise Unsupported(f"function not found: {cls}.{name} [{kind}]")
        outer_params = [a.arg for a in fdef.args.args]
        if nested is not None:          # a function defined inside the method (closure): verified with its free variables supplied by `init`
            inner = [y for y in ast.walk(fdef) if isinstance(y, ast.FunctionDef) and y.name == nested and y is not fdef]
            if len(inner) != 1:
                raise Unsupported(f"nested function {nested} not found (or not unique) in {cls}.{name}")
            fdef = inner[0]
        if slice_on:
            import copy as _copy
            fdef = _copy.deepcopy(fdef)
            kept = self.slice_body(fdef.body, set(slice_on))
            self.extraction_notes = getattr(self, "extraction_notes", []) + [f"{cls}.{name}: sliced on locals {sorted(slice_on)}: {len(kept)} top-level statements kept; statements not naming these locals dropped"]
            fdef.body = kept
        if contract is not None:
            c = contract
        else:
            c = self.contracts[(owner, name, kind)] if (owner, name, kind) in self.contracts else self.contracts[(cls, name, kind)]
        loops = [y for y in ast.walk(fdef) if isinstance(y, (ast.While, ast.For))]
        loops.sort(key=lambda y: (y.lineno, y.col_offset))
        self.cur_loops = {"ids": {id(x): i for i, x in enumerate(loops)}, "inv": c.loops}
        fid = f"{cls}.{name}" + (f".{nested}" if nested else "") + (f"[{kind}]" if kind else "") + (tag or "")
        st = State()
        static = any(ast.unparse(d) == "staticmethod" for d in fdef.decorator_list) or cls.startswith("@")
        params = [a.arg for a in fdef.args.args]
        me = None
        if nested is not None and not cls.startswith("@"):
            me = VRef(z3.Const("self", Ref), cls)
            st.assume(z3.And(me.e != NULL, ALIVE0(me.e)))
            st.locals[outer_params[0]] = me
        elif not static:
            me = VRef(z3.Const("self", Ref), cls)
            st.assume(z3.And(me.e != NULL, ALIVE0(me.e)))
            st.locals[params[0]] = me
        args = {}
        if init:
            args = init(self, st, me)
            st.locals.update(args)
        # default values of parameters not supplied by init
        defaults = fdef.args.defaults
        for p, d in zip(params[len(params) - len(defaults):], defaults):
            if p not in st.locals:
                st.locals[p] = self.ev(d, st)
                args[p] = st.locals[p]
        pre = st.copy()
        v0 = View(self, pre, None, me, args)
        for r in c.requires:
            st.assume(r(v0))
        n0 = len(self.obligations)
        mark = len(self.obligations)
        self._prefix = fid + "/"
        self._inline_depth = 0
        self._owner_stack = [owner]
        outs = self.run(fdef.body, st)
        outs = [(s, "return" if fl == "next" else fl, VNone() if (fl == "next" or v is None) and fl != "raise" else v) for s, fl, v in outs]
        for idx, (s, flow, val) in enumerate(outs):
            self.oblige(f"exit{idx}({flow}).CANARY", s, z3.BoolVal(False))
            view = View(self, pre, s, me, args, val)
            view.flow = flow
            view.exc = val if flow == "raise" else None
            for j, e in enumerate(c.ensures):
                g = e(view)
                if g is None:
                    continue
                for jj, gg in enumerate(g if isinstance(g, (list, tuple)) else [g]):  # one query per clause
                    if gg is None:
                        continue
                    if isinstance(gg, tuple):
                        label, gg = gg
                    else:
                        label = f"post#{j}.{jj}"
                    self.oblige(f"exit{idx}({flow}).{label}", s, gg)
        self._prefix = ""
        path = self.repo.classes[owner][0]
        seg = ast.get_source_segment(self.repo.files[path][0], fdef)
        self.functions.append({"path": path, "qualname": f"{owner}.{name}" + (f".<locals>.{nested}" if nested else "") + (f" [{kind}]" if kind else ""), "verified_as": cls,
                               "sha256": hashlib.sha256(seg.encode()).hexdigest(), "exit_paths": [f for _, f, _ in outs],
                               "obligations": len(self.obligations) - n0})
        return self.repo.sha(owner, fdef), [(f, v if isinstance(v, str) else None) for _, f, v in outs], len(self.obligations) - n0
