"""Relational heap layer on top of pyvc.core for pointer structures (the nexus graph):
python lists / sets of object references are abstracted to relations (order and multiplicity dropped),
cached values live in an uninterpreted sort, iteration over a set is cut by an invariant with a ghost `visited` set.

What this abstraction assumes (listed in evidence): weakref.ref(x)() is x (no garbage collection during an operation);
iteration order over a set/list is arbitrary; a list with repeated members behaves as its set of members for the staleness protocol."""
import ast
import z3
from .core import *
from . import core

Val = z3.DeclareSort("Val")
Fun = z3.DeclareSort("Fun")
SetSort = z3.ArraySort(Ref, B)
core.HEAP_SORTS["refset"] = {"": arr(Ref, Ref, B)}
core.HEAP_SORTS["val"] = {"": arr(Ref, Val)}
core.HEAP_SORTS["funh"] = {"": arr(Ref, Fun)}
VAL, FUNH = FT("val"), FT("funh")
EMPTY = z3.K(Ref, z3.BoolVal(False))
_x = z3.Const("x!rel", Ref)


class VSet(V):
    """finite set of references (abstraction of a python list or set of nodes)"""

    def __init__(self, term, cls=None):
        self.term, self.cls = term, cls

    def has(self, r):
        return z3.Select(self.term, r)


class VVal(V):
    def __init__(self, e):
        self.e = e


class VFunH(V):
    def __init__(self, e):
        self.e = e


def set_add(s, r):
    return z3.Store(s, r, z3.BoolVal(True))


def set_del(s, r):
    return z3.Store(s, r, z3.BoolVal(False))


class RelEngine(Engine):
    def __init__(self, *a, **k):
        super().__init__(*a, **k)
        self.alloc_hooks = []         # called with (state, new_ref, cls) when a node is allocated by a constructor model
        self.comp_models = {}
        self.lib["isinstance"] = self.lib_isinstance
        self.lib["weakref.ref"] = lambda e, st, a, kw, n: a[0]
        self.lib["sorted"] = lambda e, st, a, kw, n: a[0]
        self.lib["list"] = lambda e, st, a, kw, n: a[0]
        self.lib["tuple"] = lambda e, st, a, kw, n: a[0]

    # ---- class tests: static class of the reference (closed world), refined by the contract module's tag predicates
    def lib_isinstance(self, e, st, a, kw, n):
        x, c = a
        names = [c.name[6:]] if isinstance(c, VLib) else [t.name[6:] for t in c.items]
        if not isinstance(x, VRef):
            return VBool(z3.BoolVal(False))
        mro = self.repo.mro(x.cls)
        if any(nm in mro for nm in names):
            return VBool(z3.BoolVal(True))
        tags = getattr(self, "class_tags", {})
        conds = [tags[nm](x.e) for nm in names if nm in tags]
        if conds:
            return VBool(z3.Or(conds))
        return VBool(z3.BoolVal(False))

    # ---- fields
    def read_field(self, st, ref, field):
        t = self.ftype(ref.cls, field)
        if t is not None and t.kind == "refset":
            return VSet(sel(st.h(field, "refset"), ref.e), t.cls)
        if t is not None and t.kind == "val":
            return VVal(sel(st.h(field, "val"), ref.e))
        if t is not None and t.kind == "funh":
            return VFunH(sel(st.h(field, "funh"), ref.e))
        return super().read_field(st, ref, field)

    def write_field(self, st, ref, field, v):
        t = self.ftype(ref.cls, field)
        if t is not None and t.kind == "refset":
            if isinstance(v, VTuple):
                term = EMPTY
                for it in v.items:
                    term = set_add(term, it.e)
                v = VSet(term)
            if not isinstance(v, VSet):
                raise Unsupported(f"store of {type(v).__name__} into set field {field}")
            st.set_h(field, "refset", "", z3.Store(st.h(field, "refset"), ref.e, v.term))
            return
        if t is not None and t.kind == "val":
            if not isinstance(v, VVal):
                v = self.to_val(v, st)
            st.set_h(field, "val", "", z3.Store(st.h(field, "val"), ref.e, v.e))
            return
        if t is not None and t.kind == "funh":
            st.set_h(field, "funh", "", z3.Store(st.h(field, "funh"), ref.e, v.e))
            return
        return super().write_field(st, ref, field, v)

    def to_val(self, v, st):
        if isinstance(v, VVal):
            return v
        if isinstance(v, VNone):
            return VVal(z3.Const("val_None", Val))
        if getattr(self, "to_val_hook", None) is not None:
            return self.to_val_hook(self, v, st)
        raise Unsupported("cannot store " + type(v).__name__ + " as a node value")

    # ---- expressions
    def ev_Compare(self, n, st):
        if len(n.ops) == 1 and isinstance(n.ops[0], (ast.In, ast.NotIn)):
            x = self.ev(n.left, st)
            s = self.ev(n.comparators[0], st)
            if isinstance(s, VSet) and isinstance(x, VRef):
                c = s.has(x.e)
                return VBool(c if isinstance(n.ops[0], ast.In) else z3.Not(c))
            if isinstance(s, VTuple):
                if isinstance(x, VStr) and all(isinstance(i, VStr) for i in s.items):
                    c = z3.BoolVal(any(i.s == x.s for i in s.items))
                elif isinstance(x, VRef):
                    c = z3.Or([x.e == i.e for i in s.items if isinstance(i, VRef)] + [z3.BoolVal(False)])
                else:
                    raise Unsupported("membership " + ast.unparse(n))
                return VBool(c if isinstance(n.ops[0], ast.In) else z3.Not(c))
            raise Unsupported("membership " + ast.unparse(n))
        return super().ev_Compare(n, st)

    def truth(self, v):
        if isinstance(v, VSet):
            return z3.Exists([_x], v.has(_x))
        return super().truth(v)

    def ev_ListComp(self, n, st):
        key = ast.unparse(n)
        if key in self.comp_models:
            return self.comp_models[key](self, st, n)
        g = n.generators[0] if len(n.generators) == 1 else None
        if g is not None and isinstance(g.target, ast.Name):
            src = self.ev(g.iter, st)
            if isinstance(src, VSet):
                tv = g.target.id
                # [c for c in S if c is not X]  ->  S \ {X}
                if isinstance(n.elt, ast.Name) and n.elt.id == tv and len(g.ifs) == 1:
                    t = g.ifs[0]
                    if isinstance(t, ast.Compare) and len(t.ops) == 1 and isinstance(t.ops[0], ast.IsNot) and isinstance(t.left, ast.Name) and t.left.id == tv:
                        X = self.ev(t.comparators[0], st)
                        return VSet(set_del(src.term, X.e), src.cls)
                # [c if c is not X else Y for c in S]  ->  (S \ {X}) u ({Y} if X in S)
                if isinstance(n.elt, ast.IfExp) and not g.ifs:
                    e_ = n.elt
                    if (isinstance(e_.body, ast.Name) and e_.body.id == tv and isinstance(e_.test, ast.Compare) and len(e_.test.ops) == 1 and isinstance(e_.test.ops[0], ast.IsNot)
                            and isinstance(e_.test.left, ast.Name) and e_.test.left.id == tv):
                        X = self.ev(e_.test.comparators[0], st)
                        Y = self.ev(e_.orelse, st)
                        base = set_del(src.term, X.e)
                        return VSet(z3.If(src.has(X.e), set_add(base, Y.e), base), src.cls)
                # general case: [f(c) for c in S] with effects -> a loop over S cut by the invariant registered as loops[("comp", k)]
                comps = self.cur_loops.setdefault("comp_ids", {})
                k = comps.setdefault(id(n), len(comps))
                inv = self.cur_loops["inv"].get(("comp", k))
                if inv is not None and not g.ifs:
                    return self.comp_loop(n, st, src, g, inv, k)
        return super().ev_ListComp(n, st)

    def comp_loop(self, n, st, src, g, inv, k):
        vis = f"#cvis{k}"
        st.locals[vis] = VSet(EMPTY)
        st.locals[f"#centry{k}"] = st.copy()
        self.oblige(f"comp{k}.inv.init", st, inv(self, st))
        h = self.havoc_for_loop(st, [], extra_locals=[])
        h.locals[vis] = VSet(fresh("visited", SetSort))
        h.assume(inv(self, h))
        p = fresh("it", Ref)
        b = h.copy().assume(z3.And(src.has(p), z3.Not(h.locals[vis].has(p))))
        b.locals[g.target.id] = VRef(p, src.cls)
        try:
            self.ev(n.elt, b)
        except PyRaise:
            st.heap, st.pc, st.ghost = b.heap, b.pc, b.ghost       # the element expression raised: the statement raises from that state
            raise
        b.locals[vis] = VSet(set_add(b.locals[vis].term, p))
        self.oblige(f"comp{k}.inv.preserve", b, inv(self, b))
        ex = h.copy().assume(z3.ForAll([_x], z3.Implies(src.has(_x), h.locals[vis].has(_x))))
        st.heap, st.pc, st.ghost = ex.heap, ex.pc, ex.ghost
        st.locals[vis] = ex.locals[vis]
        return VOpaque(("complist", k))

    def ev_Subscript(self, n, st):
        base = self.ev(n.value, st)
        if isinstance(base, VSet):
            idx = self.ev(n.slice, st)
            return self.elem_at(st, base, idx, n)
        return super().ev_Subscript(n, st)

    def elem_at(self, st, base, idx, n):
        """element at an index of an abstracted list: some member of the set (the same one for the same list value and index)"""
        key = (base.term.get_id(), idx.e.get_id() if hasattr(idx, "e") else 0)
        memo = st.ghost.get("elem_at", {})
        if key not in memo:
            r = fresh("elem", Ref)
            st.assume(z3.Implies(z3.Exists([_x], base.has(_x)), base.has(r)))
            self.oblige("pre@index-nonempty:" + ast.unparse(n), st, z3.Exists([_x], base.has(_x)))
            st.ghost = dict(st.ghost)
            st.ghost["elem_at"] = dict(memo)
            st.ghost["elem_at"][key] = r
            memo = st.ghost["elem_at"]
        return VRef(memo[key], base.cls)

    def store(self, t, v, st):
        if isinstance(t, ast.Subscript):
            base = self.ev(t.value, st)
            if isinstance(base, VSet) and isinstance(v, VRef):
                # list item assignment on an abstracted list: the old element at that index leaves the set unless it also occurs elsewhere
                old = self.elem_at(st, base, self.ev(t.slice, st), t)
                dup = fresh("occurs_elsewhere", B)
                new = z3.If(dup, set_add(base.term, v.e), set_add(set_del(base.term, old.e), v.e))
                return self.store(t.value, VSet(new, base.cls), st)
        return super().store(t, v, st)

    def ev_List(self, n, st):
        if not n.elts:
            return VSet(EMPTY, "ValueNode")      # in pointer code an empty list literal is an (empty) collection of nodes
        return super().ev_List(n, st)

    def ev_Attribute(self, n, st):
        if n.attr in ("append", "add", "remove", "discard") and isinstance(n.value, (ast.Attribute, ast.Name)):
            b = self.ev(n.value, st)
            if isinstance(b, VSet):
                vb = VBound(b, n.attr)
                vb.target = n.value
                return vb
        return super().ev_Attribute(n, st)

    def ev_Call(self, n, st):
        if isinstance(n.func, ast.Attribute) and n.func.attr in ("append", "add", "remove", "discard"):
            f = self.ev(n.func, st)
            if isinstance(f, VBound) and isinstance(f.recv, VSet):
                x = self.ev(n.args[0], st)
                if f.name in ("append", "add"):
                    new = VSet(set_add(f.recv.term, x.e), f.recv.cls)
                else:
                    if f.name == "remove" and self.decide(st, ("set.remove", getattr(self, "_ctx", ()), id(n)), z3.Not(f.recv.has(x.e))):
                        raise PyRaise("KeyError")
                    new = VSet(set_del(f.recv.term, x.e), f.recv.cls)
                self.store(f.target, new, st)
                return VNone()
        if isinstance(n.func, ast.Attribute) or isinstance(n.func, ast.Name):
            try_f = None
            if isinstance(n.func, ast.Attribute) and isinstance(n.func.value, ast.Name) and n.func.value.id == "self":
                me_ = st.locals.get("self")
                if isinstance(me_, VRef):
                    t = self.ftype(me_.cls, n.func.attr)
                    if t is not None and t.kind == "funh" and getattr(self, "call_funh", None) is not None:
                        f = self.read_field(st, me_, n.func.attr)
                        args = [self.ev(a.value if isinstance(a, ast.Starred) else a, st) for a in n.args]
                        return self.call_funh(self, st, f, args, n)
        return super().ev_Call(n, st)

    def st_Expr(self, n, st):
        if isinstance(n.value, ast.Call) and isinstance(n.value.func, ast.Attribute) and n.value.func.attr in ("append", "add", "remove", "discard") and isinstance(n.value.func.value, (ast.Attribute, ast.Name)):
            b = self.ev(n.value.func.value, st)
            if isinstance(b, VSet):
                self.ev_Call(n.value, st)
                return [(st, "next", None)]
        return super().st_Expr(n, st)

    # ---- iteration over a set: ghost `visited`
    def st_For(self, n, st):
        it = self.ev(n.iter, st)
        if not isinstance(it, VSet):
            st_locals_it = it
            return self._for_generic(n, st, it)
        k = self.cur_loops["ids"][id(n)]
        if k not in self.cur_loops["inv"]:
            raise Unsupported(f"loop {k} has no invariant in the contract")
        inv = self.cur_loops["inv"][k]
        vis = f"#vis{k}"
        st.locals[vis] = VSet(EMPTY)
        st.locals[f"#it{k}"] = it
        st.locals[f"#entry{k}"] = st.copy()
        self.oblige(f"loop{k}.inv.init", st, inv(self, st))
        h = self.havoc_for_loop(st, n.body, extra_locals=[])
        h.locals[vis] = VSet(fresh("visited", SetSort))
        h.assume(inv(self, h))
        p = fresh("it", Ref)
        b = h.copy().assume(z3.And(it.has(p), z3.Not(h.locals[vis].has(p))))
        self.store(n.target, VRef(p, it.cls), b)
        exits = []
        for s, flow, val in self.run(n.body, b):
            if flow in ("next", "continue"):
                s.locals[vis] = VSet(set_add(s.locals[vis].term, p))
                self.oblige(f"loop{k}.inv.preserve#{len(self.obligations)}", s, inv(self, s))
            elif flow == "break":
                exits.append((s, "next", None))
            else:
                exits.append((s, flow, val))
        ex = h.copy().assume(z3.ForAll([_x], z3.Implies(it.has(_x), h.locals[vis].has(_x))))
        exits.append((ex, "next", None))
        return exits

    def _for_generic(self, n, st, it):
        # re-dispatch to the core implementation (the iterable was already evaluated once; evaluation is pure for our uses)
        return Engine.st_For(self, n, st)

    def havoc_like(self, v, name):
        if isinstance(v, VRef):
            return VRef(fresh(name, Ref), v.cls)
        if isinstance(v, VSet):
            return VSet(fresh(name, SetSort), v.cls)
        if isinstance(v, VVal):
            return VVal(fresh(name, Val))
        return super().havoc_like(v, name)
