"""Check harness: runs the proof units of a property in a process pool, runs the native (replay / cover / refutation)
side under /venv/bin/python, matches known findings, writes evidence and replay files, prints the verdict.

exit 0 HELD (or only KNOWN-FINDING)   exit 1 VIOLATION   exit 2 UNDECIDED   exit 3 CHECKER-ERROR
"""
import json, os, re, subprocess, sys, time, traceback, hashlib, multiprocessing

VERIF = os.path.dirname(os.path.dirname(os.path.abspath(__file__)))
NATIVE_PY = "/venv/bin/python"


class Unit:
    """one proof unit = one function (or lemma group) verified against its contract; build(root) -> Engine"""

    def __init__(self, name, build, budget=1.0, bounded=None):
        # bounded: None for a proof unit; otherwise the stated bound of an INSTANCE check (e.g. "lists of <= 2 sources"): its obligations are
        # discharged by the same back ends but reported under `bounded`, never under obligations / discharged
        self.name, self.build, self.budget, self.bounded = name, build, budget, bounded


def _run_unit(args):
    """phase 1 (obl is None): build, run the fast E-matching stage on every obligation.
    phase 2 (obl = index): rebuild, run the slow stages (z3 default/MBQI, cvc5) on that single obligation."""
    prop, idx, root, tier, obl = args
    mod = __import__(f"contracts.{prop.lower()}", fromlist=["units"])
    unit = mod.units(root)[idx]
    t0 = time.time()
    try:
        from pyvc import core as _core
        _core._ctr[0] = int(os.environ.get('VERIF_CTR_OFFSET', '0'))   # deterministic fresh names per unit: the VC text does not depend on which worker runs the unit
        _core.DEFS.clear()
        _core._MAT_CACHE.clear()
        eng = unit.build(root)
        if obl is None:
            res = eng.discharge(both=(tier == "thorough"), budget=unit.budget, stages=("z3-ematch",))
        else:
            res = eng.discharge(budget=unit.budget, stages=("z3-default", "cvc5"), indices={obl})
        for r in res:
            r["id"] = f"{prop}/{unit.name}/{r['id']}"
            r["unit_idx"] = idx
            r["bounded"] = unit.bounded
        return {"unit": unit.name, "ok": True, "results": res, "functions": eng.functions, "dropped": sorted(set(eng.dropped) | set(getattr(eng, "extraction_notes", []))),
                "trusted": sorted(set(getattr(eng, "trusted", []))), "wall": time.time() - t0}
    except Exception as e:
        return {"unit": unit.name, "ok": False, "error": f"{type(e).__name__}: {e}", "trace": traceback.format_exc()[-2000:], "wall": time.time() - t0}


def safe(s):
    return re.sub(r"[^A-Za-z0-9_.-]+", "_", s)[:150]


def load_known():
    p = os.path.join(VERIF, "known_findings.json")
    if not os.path.exists(p):
        return {"findings": [], "fixed": []}
    return json.load(open(p))


def match_known(known, prop, key, witness_class=None):
    for f in known.get("findings", []):
        if f["property"] != prop or key not in f["keys"]:
            continue
        if f.get("witness_class") is not None and witness_class is not None and f["witness_class"] != witness_class:
            continue
        if f.get("witness_prefix") is not None and witness_class is not None and not str(witness_class).startswith(f["witness_prefix"]):
            continue
        if f.get("witness_contains") is not None and witness_class is not None and f["witness_contains"] not in str(witness_class):
            continue
        return f
    return None


def run_native(prop, root, tier, seed, replay=None):
    script = os.path.join(VERIF, "native", prop.lower() + ".py")
    if not os.path.exists(script):
        return None
    cmd = [NATIVE_PY, script, "--root", root, "--tier", tier, "--seed", str(seed)]
    if replay:
        cmd += ["--replay", replay]
    env = dict(os.environ, PYTHONPATH=os.path.join(VERIF, "native"), PYTHONDONTWRITEBYTECODE="1", MPLBACKEND="Agg", OMP_NUM_THREADS="1", OPENBLAS_NUM_THREADS="1")
    return subprocess.Popen(cmd, stdout=subprocess.PIPE, stderr=subprocess.PIPE, text=True, env=env, cwd="/")


def main(prop, meta):
    """meta: dict(level, trusted_base, assumptions, bounded, explanation?)"""
    import argparse
    ap = argparse.ArgumentParser()
    ap.add_argument("prop")
    ap.add_argument("--tier", default=os.environ.get("VERIF_TIER", "quick"))
    ap.add_argument("--root", default="/repo")
    ap.add_argument("--replay", default=None)
    ap.add_argument("--only", default=None, help="run only units whose name contains this")
    ap.add_argument("--no-native", action="store_true")
    ap.add_argument("--evidence", default=None)
    ap.add_argument("--write-baseline", action="store_true", help="record the ids of the obligations discharged on this (unchanged) tree under baseline/<Cxx>.json")
    a = ap.parse_args()
    tier = a.tier if a.tier in ("quick", "thorough") else "quick"
    seed = int(os.environ.get("VERIF_SEED", "0") or 0)
    t0 = time.time()
    sys.path.insert(0, VERIF)
    if a.replay:
        p = run_native(prop, a.root, tier, seed, replay=a.replay)
        out, err = p.communicate()
        print(out.strip()[-4000:])
        try:
            doc = json.loads(out)
            bad = doc.get("failures", [])
        except Exception:
            print("CHECKER-ERROR replay output not JSON:", err[-500:])
            return 3
        if bad:
            print(f"VIOLATION property={prop} replay={a.replay}")
            return 1
        print(f"REPLAY-PASSED property={prop}")
        return 0

    native_proc = None if a.no_native else run_native(prop, a.root, tier, seed)
    lean_procs = []
    for lf in meta.get("lean", []):        # lemmas proved outside SMT: re-checked by `lean` in the thorough tier, hash recorded in every tier
        lp = os.path.join(VERIF, "lean", lf)
        src = open(lp).read()
        rec = {"file": "lean/" + lf, "sha256": hashlib.sha256(src.encode()).hexdigest(), "sorry_or_axiom_in_source": bool(re.search(r"\b(sorry|axiom|admit)\b", src)), "rechecked": False}
        pr = subprocess.Popen(["lean", lp], stdout=subprocess.PIPE, stderr=subprocess.STDOUT, text=True, cwd=os.path.join(VERIF, "lean")) if tier == "thorough" else None
        lean_procs.append((rec, pr, time.time()))
    mod = __import__(f"contracts.{prop.lower()}", fromlist=["units"])
    units = mod.units(a.root)
    idxs = [i for i, u in enumerate(units) if not a.only or a.only in u.name]
    nproc = max(1, min(int(os.environ.get("VERIF_JOBS", "14")), len(idxs)))
    ctx = multiprocessing.get_context("fork")
    with ctx.Pool(nproc) as pool:
        unit_results = pool.map(_run_unit, [(prop, i, a.root, tier, None) for i in idxs], chunksize=1)
        # phase 2: obligations the fast stage left open, one task each (engine rebuilt in the worker: VCs are deterministic)
        known0 = load_known()
        def _listed(rid):
            return match_known(known0, prop, rid.split("/", 1)[1] if "/" in rid else rid) is not None
        todo = [(prop, r["unit_idx"], a.root, tier, r["idx"]) for ur in unit_results if ur["ok"] for r in ur["results"] if r.get("partial") and not _listed(r["id"])]
        if todo:
            second = pool.map(_run_unit, todo, chunksize=1)
            by = {}
            for t, ur2 in zip(todo, second):
                if ur2["ok"] and ur2["results"]:
                    by[(t[1], t[4])] = ur2["results"][0]
            for ur in unit_results:
                if ur["ok"]:
                    ur["results"] = [by.get((r["unit_idx"], r["idx"]), r) if r.get("partial") else r for r in ur["results"]]

    known = load_known()
    obligations, canaries, errors, functions, dropped, trusted = [], [], [], [], set(), set(meta.get("trusted_base", []))
    for ur in unit_results:
        if not ur["ok"]:
            errors.append(ur)
            continue
        functions += [dict(f, unit=ur["unit"]) for f in ur["functions"]]
        dropped |= set(ur["dropped"])
        trusted |= set(ur["trusted"])
        for r in ur["results"]:
            (canaries if "CANARY" in r["id"] else obligations).append(r)

    native = None
    native_err = None
    if native_proc is not None:
        try:
            out, err = native_proc.communicate(timeout=3600)
            native = json.loads([l_ for l_ in out.splitlines() if l_.startswith("{")][-1])      # the code under test may print warnings to stdout: the report is the last JSON line
        except Exception as e:
            native_err = f"{type(e).__name__}: {e}: " + (locals().get("err") or "")[-1500:]

    os.makedirs(os.path.join(VERIF, "replays", prop), exist_ok=True)
    lines, violations, undecided, known_hits = [], [], [], []

    def write_replay(key, payload):
        path = os.path.join(VERIF, "replays", prop, safe(key) + ".json")
        json.dump(payload, open(path, "w"), indent=1, default=str)
        return path

    bp = os.path.join(VERIF, "baseline", prop + ".json")
    baseline = json.load(open(bp)) if os.path.exists(bp) else {}
    baseline_proved = set(baseline.get("discharged", []))
    native_fail_by_obl = {}
    if native:
        for f in native.get("failures", []):
            kf = match_known(known, prop, f["oracle"], f.get("witness_class"))
            if kf:
                known_hits.append((kf, f))
                continue          # (a listed finding never stands in for an unproved obligation)
            native_fail_by_obl.setdefault(f.get("obligation", ""), []).append(f)
            path = write_replay("native." + f["oracle"] + "." + str(f.get("witness_class", "")), dict(f, property=prop, kind="native", root=a.root))
            violations.append((f["oracle"], path, ""))

    for r in obligations:
        if r["status"] == "proved":
            continue
        # an unproved obligation: is there a native failing input for it (or for its function)?
        linked = [f for k, fs in native_fail_by_obl.items() for f in fs if k and (k in r["id"])]
        kf = match_known(known, prop, r["id"].split("/", 1)[1] if "/" in r["id"] else r["id"])
        if kf:
            known_hits.append((kf, r))
            continue
        if linked:
            continue  # already reported through the native failure (with a real input)
        if r["status"] == "refuted":
            path = write_replay(r["id"], {"property": prop, "obligation": r["id"], "kind": "solver-countermodel", "solver": r["solver"], "model": r.get("model"), "smt2": r.get("smt2", "")[:100000], "note": "no native failing input was found by the small-scope search for this obligation"})
            violations.append((r["id"], path, " no-failing-input-found"))
        elif r["id"] in baseline_proved:
            # discharged on the unchanged tree (committed baseline), not discharged now, and the solvers give neither proof nor model: reported as a
            # violation of that obligation without a failing input; the replay file carries the solvers' answer
            path = write_replay(r["id"], {"property": prop, "obligation": r["id"], "kind": "obligation-no-longer-discharged", "solver": r["solver"], "solver_answer": "unknown (no proof, no counter-model) after %d ms" % r["ms"],
                                           "cvc5": r.get("cvc5"), "smt2": r.get("smt2", "")[:100000], "baseline": baseline.get("repo_commit"),
                                           "note": "this obligation is discharged on the tree the baseline was recorded on; no failing input was found by the native small-scope search"})
            violations.append((r["id"], path, " no-failing-input-found"))
        else:
            undecided.append(r)

    lean_results = []
    for rec, pr, t_ in lean_procs:
        if pr is not None:
            try:
                out_, _ = pr.communicate(timeout=3600)
                rec.update(rechecked=True, ok=(pr.returncode == 0 and "error" not in out_.lower() and "sorry" not in out_.lower()), seconds=round(time.time() - t_, 1), output_tail=out_[-300:])
            except Exception as e_:
                rec.update(rechecked=True, ok=False, output_tail=f"{type(e_).__name__}: {e_}")
            if not rec["ok"]:
                errors.append({"unit": "lean " + rec["file"], "error": "lemma file not accepted by lean: " + rec.get("output_tail", "")[-200:]})
        if rec["sorry_or_axiom_in_source"]:
            errors.append({"unit": "lean " + rec["file"], "error": "lemma file contains sorry / axiom / admit"})
        lean_results.append(rec)
    vacuous = [c for c in canaries if c["status"] == "vacuous"]
    seen_kf = set()
    for kf, _ in known_hits:
        if kf["id"] not in seen_kf:
            seen_kf.add(kf["id"])
            lines.append(f"KNOWN-FINDING: property={prop} {kf['id']} {kf['what']}")
    seen_paths = set()
    for key, path, suffix in violations:
        if path not in seen_paths:
            seen_paths.add(path)
            lines.append(f"VIOLATION property={prop} replay={path}{suffix}")
    for r in undecided:
        lines.append(f"UNDECIDED obligation={r['id']} ({r['solver']}, {r['ms']} ms)")
    for e in errors:
        lines.append(f"CHECKER-ERROR unit={e['unit']} {e['error']}")
    for c in vacuous:
        lines.append(f"CHECKER-ERROR vacuous path (canary proved): {c['id']}")
    if native_err:
        lines.append(f"CHECKER-ERROR native side failed: {native_err}")
    bounded_obl = [r for r in obligations if r.get("bounded")]
    proof_obl = [r for r in obligations if not r.get("bounded")]
    n_obl = len(proof_obl)
    n_proved = sum(r["status"] == "proved" for r in proof_obl)
    if len(obligations) == 0 and not errors:
        lines.append("CHECKER-ERROR zero obligations generated")
    if violations:
        code = 1
    elif errors or vacuous or native_err or len(obligations) == 0:
        code = 3
    elif undecided:
        code = 2
    else:
        code = 0
        lines.append(f"HELD property={prop} obligations={n_obl} discharged={n_proved} native_evaluations={(native or {}).get('evaluations', 0)}" + (f" bounded_instance_obligations={len(bounded_obl)}" if bounded_obl else ""))

    wall = time.time() - t0
    solver_ms = sum(r["ms"] for r in obligations) + sum(c["ms"] for c in canaries)
    by_solver = {}
    for r in proof_obl:
        if r["status"] == "proved":
            by_solver[r["solver"]] = by_solver.get(r["solver"], 0) + 1
    samples = [{"id": r["id"], "status": r["status"], "solver": r["solver"], "ms": r["ms"]} for r in proof_obl[:6]]
    bounded_units = {}
    for r in bounded_obl:
        b_ = bounded_units.setdefault(r["id"].split("/")[1], {"bound": r["bounded"], "instance_obligations": 0, "instance_obligations_discharged": 0})
        b_["instance_obligations"] += 1
        b_["instance_obligations_discharged"] += r["status"] == "proved"
    if native and native.get("samples"):
        samples += native["samples"][:4]
    level = meta.get("level", "proof")
    known_obl = sorted({r["id"] for kf, r in known_hits if "status" in r and not r.get("bounded")})
    known_refuted = len(known_obl)
    # obligations that fail because of a LISTED known finding are reported separately (with the KNOWN-FINDING line); the proof claim
    # of this run is about all the others, and says so
    n_obl_claim, n_proved_claim = n_obl - known_refuted, n_proved
    cov = {
        "obligations": n_obl_claim, "discharged": n_proved_claim,
        "obligations_generated_total": n_obl,
        "obligations_not_discharged_because_of_listed_known_findings": known_obl,
        "checker_cmd": f"python3-vt check.py {prop} --tier {tier}",
        "trusted_base": sorted(trusted),
        "back_ends": by_solver, "solver_ms_total": solver_ms,
        "canaries": len(canaries), "canaries_proved_vacuous": len(vacuous),
        "functions_under_contract": functions,
        "extraction_drops": sorted(dropped) + ["docstrings/comments", "text of exception messages (class kept)", "type annotations"],
        "per_obligation": [{k: r[k] for k in ("id", "status", "solver", "ms")} for r in proof_obl],
        "samples": samples,
        "bounded": meta.get("bounded", []) + [{"what": "instance check of unit '" + u_ + "' by the VC generator and solvers (bounded stand-in: NOT counted in obligations / discharged)", **b_} for u_, b_ in sorted(bounded_units.items())] + ([{"what": "native small-scope enumeration / history search on the real code with the executable contract (replay, covers, refutation mode); never counted as discharged", "evaluations": native.get("evaluations", 0), "scope": native.get("scope", "")}] if native else []),
        "native": {k: native[k] for k in ("evaluations", "covers", "scope", "oracles") if k in native} if native else None,
        "unit_errors": [{"unit": e["unit"], "error": e["error"]} for e in errors],
        "undecided": [r["id"] for r in undecided],
        "known_findings_hit": sorted(seen_kf),
        "lemmas_outside_smt": lean_results,
    }
    if native:
        cov["evaluations"] = int(native.get("evaluations", 0))
        cov["distinct_nontrivial"] = int(native.get("distinct_nontrivial", native.get("evaluations", 0)))
        cov["rule"] = native.get("rule", "")
    if known_refuted:
        cov["explanation"] = meta.get("explanation", "") + f" {known_refuted} generated obligation(s) are refuted on the unchanged tree by genuine defects recorded in known_findings.json ({sorted(seen_kf)}); they are excluded from obligations/discharged above and listed under obligations_not_discharged_because_of_listed_known_findings. The property is therefore NOT proved for the code paths those findings name."
    if level != "proof" or n_proved_claim != n_obl_claim:
        cov["explanation"] = cov.get("explanation", meta.get("explanation", "")) + (f" {n_obl_claim - n_proved_claim} obligation(s) not discharged on this run (undecided or violations): this run is not a complete proof." if n_proved_claim != n_obl_claim else "")
    ev = {"property_id": prop, "tier": tier, "seed": seed, "level": level if n_proved_claim == n_obl_claim else "other", "coverage": cov,
          "assumptions": meta.get("assumptions", []), "wall_s": round(wall, 2), "violations": len(violations)}
    if a.write_baseline:
        if code != 0:
            print("CHECKER-ERROR baseline not written: the run did not end with exit 0")
        else:
            os.makedirs(os.path.join(VERIF, "baseline"), exist_ok=True)
            head = subprocess.run(["git", "-C", a.root, "rev-parse", "--short", "HEAD"], capture_output=True, text=True).stdout.strip()
            json.dump({"property": prop, "repo_commit": head, "discharged": sorted(r["id"] for r in obligations if r["status"] == "proved")}, open(bp, "w"), indent=0)
    evp = a.evidence or os.path.join(VERIF, "evidence", prop + ".json")
    os.makedirs(os.path.dirname(evp), exist_ok=True)
    json.dump(ev, open(evp, "w"), indent=1, default=str)
    print("\n".join(lines))
    print(f"[{prop}] obligations={n_obl} proved={n_proved} canaries={len(canaries)} units={len(idxs)} unit_errors={len(errors)} native={(native or {}).get('evaluations')} wall={wall:.1f}s exit={code}")
    return code
