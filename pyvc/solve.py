"""Discharge of verification conditions: z3 (E-matching only) -> z3 (default, MBQI) -> cvc5.
One SMT query per obligation. `sat` is only ever reported when a solver returns a model; `unknown`/timeouts stay unknown."""
import time
import z3

Z3_CONFIGS = [
    ("z3-ematch", {"smt.mbqi": False, "smt.auto_config": False}, 10000),
    ("z3-default", {}, 30000),
]
CVC5_TIMEOUT_MS = 60000
CANARY_TIMEOUT_MS = 1500


def _consts(e, acc, seen):
    todo = [e]
    while todo:
        x = todo.pop()
        if x.get_id() in seen:
            continue
        seen.add(x.get_id())
        if z3.is_quantifier(x):
            todo.append(x.body())
        elif z3.is_app(x):
            if x.num_args() == 0 and x.decl().kind() == z3.Z3_OP_UNINTERPRETED:
                acc.add(x.decl().name())
            todo.extend(x.children())


def cone_defs(defs, fmls):
    """definitional axioms of materialised arrays are attached only to VCs that mention the array (cone of influence)"""
    if not defs:
        return []
    names, seen = set(), set()
    for f in fmls:
        _consts(f, names, seen)
    out, changed, used = [], True, set()
    while changed:
        changed = False
        for i, (cname, ax) in enumerate(defs):
            if i in used or cname not in names:
                continue
            used.add(i)
            out.append(ax)
            _consts(ax, names, seen)
            changed = True
    return out


def _symbols(e, acc, seen):
    todo = [e]
    while todo:
        x = todo.pop()
        if x.get_id() in seen:
            continue
        seen.add(x.get_id())
        if z3.is_quantifier(x):
            todo.append(x.body())
        elif z3.is_app(x):
            if x.decl().kind() == z3.Z3_OP_UNINTERPRETED:
                acc.add(x.decl().name())
            todo.extend(x.children())


def cone_axioms(axioms, fmls):
    """axioms are attached only if they share an uninterpreted symbol with the VC (closure): an axiom set over a disjoint signature
    cannot turn a satisfiable VC unsatisfiable unless it is inconsistent by itself (checked separately as the unit's axiom canary),
    and leaving it out lets the solver answer `sat` with a model on quantifier-free VCs"""
    if not axioms:
        return []
    syms, seen = set(), set()
    for f in fmls:
        _symbols(f, syms, seen)
    ax_syms = []
    for a in axioms:
        s_, sn = set(), set()
        _symbols(a, s_, sn)
        ax_syms.append(s_)
    used, changed = set(), True
    while changed:
        changed = False
        for i, s_ in enumerate(ax_syms):
            if i not in used and (s_ & syms):
                used.add(i)
                syms |= s_
                changed = True
    return [axioms[i] for i in sorted(used)]


def cvc5_check(smt2, timeout_ms=CVC5_TIMEOUT_MS):
    try:
        import cvc5
    except Exception:
        return "unknown"
    try:
        slv = cvc5.Solver()
        slv.setOption("tlimit-per", str(timeout_ms))
        slv.setLogic("ALL")
        p = cvc5.InputParser(slv)
        p.setStringInput(cvc5.InputLanguage.SMT_LIB_2_6, smt2, "vc")
        sm = p.getSymbolManager()
        res = "unknown"
        while True:
            cmd = p.nextCommand()
            if cmd.isNull():
                break
            out = cmd.invoke(slv, sm).strip()
            if out in ("sat", "unsat", "unknown"):
                res = out
        return res
    except Exception as e:  # parse problems etc.: never a verdict
        return "unknown"


def model_summary(m, limit=40):
    out = {}
    for d in m.decls()[:400]:
        n = d.name()
        if "!" in n and not n.startswith(("H_", "self")):
            pass
        try:
            out[n] = str(m[d])[:200]
        except Exception:
            pass
        if len(out) >= limit:
            break
    return out


def check(axioms, defs, pc, goal, hints=(), canary=False, both=False, budget=1.0, stages=("z3-ematch", "z3-default", "cvc5")):
    """returns dict(status in proved|refuted|unknown|vacuous|canary-ok, solver, ms, model?)"""
    core_f = list(pc) + list(hints) + [z3.Not(goal)]
    core_f = cone_defs(defs, core_f) + core_f
    fmls = cone_axioms(list(axioms), core_f) + core_f
    t0 = time.time()
    if canary:
        s = z3.Solver()
        s.set("timeout", CANARY_TIMEOUT_MS)
        s.set("smt.mbqi", False)
        s.set("smt.auto_config", False)
        s.add(fmls)
        r = s.check()
        return {"status": "vacuous" if r == z3.unsat else "canary-ok", "solver": "z3-ematch", "ms": int(1000 * (time.time() - t0))}
    smt2 = None
    last = ("unknown", "z3")
    # the query is serialised and solved in a FRESH z3 context: the verdict then depends on the VC text only, not on which other
    # terms this process happened to create before (E-matching is sensitive to internal term order)
    s0 = z3.Solver()
    s0.add(fmls)
    text = s0.to_smt2()
    for name, opts, to in Z3_CONFIGS:
        if name not in stages:
            continue
        ctx = z3.Context()
        s = z3.Solver(ctx=ctx)
        s.set("timeout", int(to * budget))
        for k, v in opts.items():
            s.set(k, v)
        s.from_string(text)
        r = s.check()
        if r == z3.unsat:
            res = {"status": "proved", "solver": name, "ms": int(1000 * (time.time() - t0))}
            if both:
                res["cvc5"] = cvc5_check(text, int(CVC5_TIMEOUT_MS * budget))
            return res
        if r == z3.sat:
            return {"status": "refuted", "solver": name, "ms": int(1000 * (time.time() - t0)), "model": model_summary(s.model()), "smt2": text[:200000]}
        smt2 = text
    if "cvc5" not in stages:
        return {"status": "unknown", "solver": "+".join(stages), "ms": int(1000 * (time.time() - t0)), "partial": True}
    if smt2 is None:
        smt2 = text
    r = cvc5_check(smt2, int(CVC5_TIMEOUT_MS * budget))
    if r == "unsat":
        return {"status": "proved", "solver": "cvc5", "ms": int(1000 * (time.time() - t0))}
    return {"status": "unknown", "solver": "z3+cvc5", "ms": int(1000 * (time.time() - t0)), "smt2": (smt2 or "")[:200000], "cvc5": r}
