import Mathlib.LinearAlgebra.Matrix.NonsingularInverse
import Mathlib.Tactic

open Matrix

variable {n : Type} [Fintype n] [DecidableEq n]

/-- Cholesky path: V = L Lᵀ, L x = r  ⇒  x ⬝ x = r ⬝ V⁻¹ r -/
theorem chol_quadform (V L : Matrix n n ℝ) (r x : n → ℝ)
    (hV : V = L * Lᵀ) (hL : IsUnit L.det) (hx : L *ᵥ x = r) :
    x ⬝ᵥ x = r ⬝ᵥ (V⁻¹ *ᵥ r) := by
  have hLT : IsUnit (Lᵀ).det := by rw [det_transpose]; exact hL
  have hxr : x = L⁻¹ *ᵥ r := by
    rw [← hx, mulVec_mulVec, nonsing_inv_mul _ hL, one_mulVec]
  have hVinv : V⁻¹ = (Lᵀ)⁻¹ * L⁻¹ := by
    rw [hV, Matrix.mul_inv_rev]
  rw [hVinv, ← mulVec_mulVec, ← hxr]
  -- goal: x ⬝ᵥ x = r ⬝ᵥ ((Lᵀ)⁻¹ *ᵥ x)
  rw [← hx]
  rw [dotProduct_mulVec, ← transpose_nonsing_inv, vecMul_transpose, mulVec_mulVec, nonsing_inv_mul _ hL, one_mulVec]

/-- QR path: V = Q R symmetric, Q orthogonal, Rᵀ x = r  ⇒  (r ᵥ* Q) ⬝ x = r ⬝ V⁻¹ r -/
theorem qr_quadform (V Q R : Matrix n n ℝ) (r x : n → ℝ)
    (hV : V = Q * R) (hsym : Vᵀ = V) (hQ : Qᵀ * Q = 1) (hR : IsUnit R.det) (hx : Rᵀ *ᵥ x = r) :
    (r ᵥ* Q) ⬝ᵥ x = r ⬝ᵥ (V⁻¹ *ᵥ r) := by
  have hRT : IsUnit (Rᵀ).det := by rw [det_transpose]; exact hR
  have hQdet : IsUnit Q.det := by
    have : IsUnit (Qᵀ * Q).det := by rw [hQ]; simp
    rw [det_mul, det_transpose] at this
    exact (IsUnit.mul_iff.mp this).1
  have hQinv : Q⁻¹ = Qᵀ := inv_eq_left_inv hQ
  have hxr : x = (Rᵀ)⁻¹ *ᵥ r := by
    rw [← hx, mulVec_mulVec, nonsing_inv_mul _ hRT, one_mulVec]
  -- V = Vᵀ = Rᵀ Qᵀ, so V⁻¹ = (Qᵀ)⁻¹ (Rᵀ)⁻¹ = Q (Rᵀ)⁻¹
  have hV2 : V = Rᵀ * Qᵀ := by rw [← hsym, hV, transpose_mul]
  have hQTinv : (Qᵀ)⁻¹ = Q := by
    rw [← hQinv, nonsing_inv_nonsing_inv _ hQdet]
  have hVinv : V⁻¹ = Q * (Rᵀ)⁻¹ := by
    rw [hV2, Matrix.mul_inv_rev, hQTinv]
  rw [hVinv, ← mulVec_mulVec, ← hxr, dotProduct_mulVec]
