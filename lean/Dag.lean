import Mathlib.Tactic

/-- Abstract staleness protocol: if the representation invariant (I ∧ J) holds, every non-stale node's cached
value equals the from-scratch value. -/
theorem cache_correct
    {Node V : Type}
    (child : Node → Node → Prop)                 -- child P N : N is a child (input) of P
    (wf : WellFounded (fun N P => child P N))    -- acyclic
    (stale frozen param : Node → Prop)
    (val : Node → V)
    (defn : Node → (Node → V) → V)
    (frame : ∀ P h1 h2, (∀ N, child P N → h1 N = h2 N) → defn P h1 = defn P h2)
    (sv : Node → V)
    (sv_fp : ∀ n, sv n = val n ∧ (frozen n ∨ param n) ∨ (¬ (frozen n ∨ param n) ∧ sv n = defn n sv))
    (sv_leaf : ∀ n, (frozen n ∨ param n) → sv n = val n)
    (I : ∀ P N, child P N → stale N → ¬ frozen N → (stale P ∨ frozen P))
    (J : ∀ P, ¬ stale P → ¬ param P → ¬ frozen P → val P = defn P val)
    (paramFresh : ∀ n, param n → ¬ stale n) :
    ∀ n, (¬ stale n ∨ frozen n) → sv n = val n := by
  intro n
  induction n using wf.induction with
  | _ n ih =>
    intro hn
    by_cases hl : frozen n ∨ param n
    · exact sv_leaf n hl
    · have hnf : ¬ frozen n := fun h => hl (Or.inl h)
      have hnp : ¬ param n := fun h => hl (Or.inr h)
      have hns : ¬ stale n := by
        rcases hn with h | h
        · exact h
        · exact absurd h hnf
      have hsv : sv n = defn n sv := by
        rcases sv_fp n with h | h
        · exact absurd h.2 hl
        · exact h.2
      rw [hsv, J n hns hnp hnf]
      apply frame
      intro N hc
      apply ih N hc
      by_cases hsN : stale N
      · by_cases hfN : frozen N
        · exact Or.inr hfN
        · rcases I n N hc hsN hfN with h | h
          · exact absurd h hns
          · exact absurd h hnf
      · exact Or.inl hsN
