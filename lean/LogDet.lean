import Mathlib.LinearAlgebra.Matrix.Block
import Mathlib.Analysis.SpecialFunctions.Log.Basic
import Mathlib.Tactic

open Matrix BigOperators

variable {n : Type} [Fintype n] [DecidableEq n] [LinearOrder n]

/-- log det (L Lᵀ) = 2 Σ log Lᵢᵢ for lower-triangular L with positive diagonal -/
theorem logdet_chol (V L : Matrix n n ℝ) (hV : V = L * Lᵀ)
    (hL : L.BlockTriangular OrderDual.toDual) (hpos : ∀ i, 0 < L i i) :
    Real.log V.det = 2 * ∑ i, Real.log (L i i) := by
  have hdet : L.det = ∏ i, L i i := det_of_isLowerTriangular L hL
  rw [hV, det_mul, det_transpose, hdet]
  have hne : (∏ i, L i i) ≠ 0 := Finset.prod_ne_zero_iff.mpr (fun i _ => (hpos i).ne')
  rw [Real.log_mul hne hne, Real.log_prod (s := Finset.univ) (f := fun i => L i i) (fun i _ => (hpos i).ne')]
  ring

/-- log |det (Q R)| = Σ log |Rᵢᵢ| for orthogonal Q and upper-triangular R -/
theorem logdet_qr (V Q R : Matrix n n ℝ) (hV : V = Q * R) (hQ : Qᵀ * Q = 1)
    (hR : R.BlockTriangular id) (hnz : ∀ i, R i i ≠ 0) :
    Real.log |V.det| = ∑ i, Real.log |R i i| := by
  have hdetR : R.det = ∏ i, R i i := det_of_isUpperTriangular hR
  have hQ2 : Q.det * Q.det = 1 := by
    have := congrArg Matrix.det hQ
    rw [det_mul, det_transpose, det_one] at this
    exact this
  have hQabs : |Q.det| = 1 := by
    have h : |Q.det| * |Q.det| = 1 := by rw [← abs_mul, hQ2, abs_one]
    have hnn : 0 ≤ |Q.det| := abs_nonneg _
    nlinarith [h, hnn]
  rw [hV, det_mul, abs_mul, hQabs, one_mul, hdetR, Finset.abs_prod,
      Real.log_prod (s := Finset.univ) (f := fun i => |R i i|) (fun i _ => abs_ne_zero.mpr (hnz i))]
