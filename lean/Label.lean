import Mathlib.LinearAlgebra.Matrix.NonsingularInverse
import Mathlib.LinearAlgebra.Matrix.Permutation
import Mathlib.Analysis.SpecialFunctions.Log.Basic
import Mathlib.Tactic

/-!
C15: the objective kafe2 hands to the minimizer does not depend on labelling.

`quad V r = r ⬝ᵥ (V⁻¹ *ᵥ r)` is the chi2 term and `Real.log V.det` the determinant term of the documented cost (C01 proves that the code
computes exactly these from the declared inputs).  Relabelling the data points by a permutation `σ` turns the residual vector into
`r ∘ σ` and the total covariance matrix into `V.submatrix σ σ`; expressing y in another unit multiplies residuals by `s` and covariances by `s²`.
-/

open Matrix

variable {n : Type} [Fintype n] [DecidableEq n]

/-- the chi2 term is invariant under relabelling of the points -/
theorem quad_relabel (V : Matrix n n ℝ) (r : n → ℝ) (σ : n ≃ n) :
    (r ∘ σ) ⬝ᵥ ((V.submatrix σ σ)⁻¹ *ᵥ (r ∘ σ)) = r ⬝ᵥ (V⁻¹ *ᵥ r) := by
  rw [inv_submatrix_equiv]
  have h1 : (V⁻¹.submatrix σ σ) *ᵥ (r ∘ σ) = (V⁻¹ *ᵥ r) ∘ σ := by
    funext i
    simp only [mulVec, dotProduct, submatrix_apply, Function.comp]
    exact Fintype.sum_equiv σ _ _ (fun j => rfl)
  rw [h1]
  simp only [dotProduct, Function.comp]
  exact Fintype.sum_equiv σ _ _ (fun j => rfl)

/-- the determinant term is invariant under relabelling of the points -/
theorem det_relabel (V : Matrix n n ℝ) (σ : n ≃ n) : (V.submatrix σ σ).det = V.det :=
  det_submatrix_equiv_self σ V

/-- the chi2 term does not depend on the unit of y: residuals scale with s, covariances with s² -/
theorem quad_rescale (V : Matrix n n ℝ) (r : n → ℝ) (s : ℝ) (hs : s ≠ 0) (hV : IsUnit V.det) :
    (s • r) ⬝ᵥ (((s ^ 2) • V)⁻¹ *ᵥ (s • r)) = r ⬝ᵥ (V⁻¹ *ᵥ r) := by
  have hs2 : s ^ 2 ≠ 0 := pow_ne_zero 2 hs
  have hinv : ((s ^ 2) • V)⁻¹ = (s ^ 2)⁻¹ • V⁻¹ := by
    apply inv_eq_right_inv
    rw [smul_mul_smul_comm, mul_nonsing_inv _ hV, mul_inv_cancel₀ hs2, one_smul]
  rw [hinv, Matrix.smul_mulVec, mulVec_smul, smul_dotProduct, dotProduct_smul, dotProduct_smul]
  simp only [smul_eq_mul]
  field_simp

/-- the determinant term changes by a constant (2 N log |s|) that does not depend on the parameters: the minimizer is the same -/
theorem logdet_rescale (V : Matrix n n ℝ) (s : ℝ) (hs : s ≠ 0) (hV : V.det ≠ 0) :
    Real.log (((s ^ 2) • V).det) = (Fintype.card n : ℝ) * Real.log (s ^ 2) + Real.log V.det := by
  rw [det_smul, Real.log_mul (pow_ne_zero _ (pow_ne_zero 2 hs)) hV, Real.log_pow]
