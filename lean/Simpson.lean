import Mathlib.Tactic
theorem simpson_exact (c0 c1 c2 c3 a b : ℝ) :
    (b - a) / 6 * ((c0 + c1*a + c2*a^2 + c3*a^3) + 4 * (c0 + c1*((a+b)/2) + c2*((a+b)/2)^2 + c3*((a+b)/2)^3) + (c0 + c1*b + c2*b^2 + c3*b^3))
    = (c0*b + c1*b^2/2 + c2*b^3/3 + c3*b^4/4) - (c0*a + c1*a^2/2 + c2*a^3/3 + c3*a^4/4) := by
  ring
