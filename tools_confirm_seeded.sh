#!/bin/bash
# tools_confirm_seeded.sh <Cxx> <mK>: confirm a sub-agent's seeded change independently in its scratch worktree /tmp/mut/<Cxx>:
# (a) demo exits 0 on the clean tree, (b) with the change the whole suite gives the baseline result, (c) demo exits 1 with the change.
# On success copies patch, demo and meta.json to /verif/seeded/<Cxx>-<mK>/
P=$1; M=$2; W=${MUTBASE:-/tmp/mut}/$P; O=$W/out
cd $W || exit 9
git checkout -q -- . ; git status --short | grep -v '^?? out' && { echo "dirty tree"; exit 9; }
/venv/bin/python out/demo_$M.py > $O/confirm_${M}_clean.txt 2>&1; rc_clean=$?
git apply out/$M.diff || { echo "patch does not apply"; exit 9; }
/venv/bin/python -m pytest -q -p no:cacheprovider --timeout=900 -q 2>&1 | tail -3 > $O/confirm_${M}_suite.txt
/venv/bin/python -m pytest -q -p no:cacheprovider --timeout=900 2>&1 | grep -E "^[0-9]+ (passed|failed)|passed|failed" | tail -1 >> $O/confirm_${M}_suite.txt
/venv/bin/python out/demo_$M.py > $O/confirm_${M}_mut.txt 2>&1; rc_mut=$?
git checkout -q -- .
suite=$(tail -1 $O/confirm_${M}_suite.txt)
echo "$P $M demo_clean=$rc_clean demo_mutated=$rc_mut suite='$suite'"
if [ $rc_clean -eq 0 ] && [ $rc_mut -eq 1 ] && echo "$suite" | grep -q "1 failed, 841 passed"; then
  D=/verif/seeded/$P-$M; mkdir -p $D; cp out/$M.diff $D/patch.diff; cp out/demo_$M.py $D/demo.py
  echo CONFIRMED > $O/confirm_${M}_ok
fi
