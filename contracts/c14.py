"""C14 - Equivalent specifications of the same problem give identical results.

Each family of equivalent forms is reduced to contracts on the functions that interpret the forms, plus an equivalence lemma over those contracts:
 (a) relative vs absolute simple source, (c) simple source with rho vs its explicit matrix  - lemmas over SimpleGaussianError's covariance contract (proved under C02)
 (b) correlation matrix + pointwise sizes vs covariance matrix; relative vs absolute matrix   - MatrixGaussianError: helpers, getters and every constructor form
 (d) scalar vs constant vector                                                                 - DataContainerBase.add_error, XYContainer.add_error, MultiFit.add_error broadcasting
 (e) forms of a parameter constraint                                                          - GaussianSimple/MatrixParameterConstraint getters; cost is a function of cov_mat
 (f) wrapper functions vs explicit fits                                                       - call traces of _add_error_to_fit_generic, xy_fit's closure, _fit_wrapper_generic
 (g) YAML shorthand vs explicit YAML                                                          - process_error_sources, FitYamlReader._get_subspace_override_dict
 (h) model as library name                                                                    - STRING_TO_FUNCTION table; SymPy strings and source text are external (sympy.lambdify, exec): bounded native run only
"""
import ast
import z3
from .base import *
from . import c02, errlib

FILES = c02.FILES + ["kafe2/core/constraint.py", "kafe2/fit/io/file.py", "kafe2/fit/util/wrapper.py", "kafe2/fit/representation/error/common_error_tools.py", "kafe2/fit/multi/fit.py", "kafe2/fit/util/function_library.py", "kafe2/fit/_base/fit.py"]
META = {
    "level": "proof",
    "trusted_base": [
        "np.outer / elementwise * and / on matrices, np.diag, np.sqrt (uninterpreted with sqrt(x)^2 = x), np.asarray / np.array as identity on numeric arrays, np.ones(n) * s = constant vector",
        "np.allclose(diag, 1.0) modelled by its documented definition; str.lower() on the concrete matrix-type strings",
        "SimpleGaussianError covariance contract cov[a][b] = s_a s_b (1 if a = b else rho), s = rel x current reference (signed) or the absolute size (proved under C02)",
        "cost of a matrix constraint is a function of cov_mat (np.linalg.inv of it; C01), cost of a simple constraint ((p - v) / uncertainty)^2 (C01)",
        "the fit objects handed to the wrappers are abstract: a call trace is compared, not what the fit does with the calls (C02 / C19)",
        "floats as reals; z3/cvc5 soundness",
    ],
    "assumptions": ["machine arithmetic treated as mathematical", "closed world of kafe2 classes",
                    "relative sources with rho > 0 over references of mixed sign: the SIGNED reading is the specification (both relative forms agree on it; the absolute form with |reference| differs in off-diagonal signs - not asserted)",
                    "SymPy strings and Python source text as models go through sympy.lambdify / exec: external, only the bounded native run compares them with the callable"],
    "bounded": [{"what": "pairs of equivalent specifications on real objects: source forms on source objects, containers and fits (references of either sign), constraint forms, 5 wrappers x keyword combinations vs explicit fits "
                         "(covariances, fixed / limited / constrained parameters, fitted values, cost at common points), model forms, YAML shorthand vs explicit", "bound": "native: 310 pairs, 5-6 data points"}],
}
me = z3.Const("self", Ref)
i, j, k = z3.Ints("i j k")
PA, MA = arr(I, R), arr(I, I, R)
usqrt = z3.Function("uf_sqrt", R, R)
x_ = z3.Real("x_")
SQRT_AX = [z3.ForAll([x_], z3.Implies(x_ >= 0, z3.And(usqrt(x_) >= 0, usqrt(x_) * usqrt(x_) == x_)), patterns=[usqrt(x_)])]
absr = lambda t: z3.If(t >= 0, t, -t)


def mge_engine(root):
    eng = c02.mk_engine(root)
    eng.axioms += SQRT_AX
    base_ctor = eng.lib["class:CovMat"]

    def ctor(e, st, a, kw, n):          # CovMat(x): x a matrix or another CovMat (the mat setter unwraps it)
        if isinstance(a[0], VRef):
            return base_ctor(e, st, [e.read_field(st, a[0], "_mat")], kw, n)
        return base_ctor(e, st, a, kw, n)
    eng.lib["class:CovMat"] = ctor
    eng.lib["np.asarray"] = eng.lib["np.array"] = lambda e, st, a, kw, n: a[0]
    eng.lib["np.allclose"] = lambda e, st, a, kw, n: VBool(z3.ForAll([i], z3.Implies(z3.And(0 <= i, i < a[0].len), absr(a[0].arr[i] - a[1].real()) <= z3.Q(1, 10 ** 8) + z3.Q(1, 10 ** 5) * absr(a[1].real()))))
    return eng


# ------------------------------------------------------------------ (b) MatrixGaussianError
def u_matrix_helpers(root):
    eng = mge_engine(root)
    n = z3.Int("n")
    E_, C_, Rf = VSeq(z3.Const("error_array", PA), n), VMat(z3.Const("corr_mat", MA), n, n), VSeq(z3.Const("reference", PA), n)
    E_.ndim = z3.IntVal(1)
    M_ = VMat(z3.Const("matrix", MA), n, n)
    unit_diag = z3.ForAll([i], z3.Implies(z3.And(0 <= i, i < n), absr(C_.arr[i][i] - 1) <= z3.Q(1, 10 ** 8) + z3.Q(1, 10 ** 5)))
    rng = lambda: z3.And(0 <= i, i < n, 0 <= j, j < n)
    mat = lambda vw: vw.eng.read_field(vw.post, vw.result, "_mat")

    c = Contract("MatrixGaussianError", "_calculate_cov_mat_from_cor_mat_and_error_array")
    c.requires.append(lambda vw: n >= 0)

    def post(vw):
        if vw.flow == "raise":
            return [("raises only for a correlation matrix whose diagonal is not 1", z3.Not(unit_diag))]
        return [("accepted only with unit diagonal", unit_diag),
                ("cov[a][b] = e_a e_b cor[a][b]", z3.And(mat(vw).rows == n, mat(vw).cols == n, z3.ForAll([i, j], z3.Implies(rng(), mat(vw).at(i, j) == E_.arr[i] * E_.arr[j] * C_.arr[i][j]))))]
    c.ensures.append(post)
    eng.verify("MatrixGaussianError", "_calculate_cov_mat_from_cor_mat_and_error_array", None, lambda e, st, me_: {"error_array": E_, "corr_mat": C_}, contract=c)

    # the same helper with ONE uncertainty for all points (a 0-d array): the unit-diagonal check applies whatever the shape of the uncertainties
    # (the matrix arithmetic of this case - numpy broadcasting of a 1 x 1 outer product - is left to the native side: only acceptance / rejection is decided here)
    from . import c03 as _c03
    es = VNum(z3.Real("one_uncertainty_for_all_points"))
    es.ndim = z3.IntVal(0)
    saved_lib = {k_: eng.lib.get(k_) for k_ in ("np.outer", "class:CovMat")}
    eng.lib["np.outer"] = lambda e, st, a, kw, node: _c03.Val("outer_product")
    eng.lib["class:CovMat"] = lambda e, st, a, kw, node: e.alloc(st, "covmat", "CovMat")
    c = Contract("MatrixGaussianError", "_calculate_cov_mat_from_cor_mat_and_error_array")
    c.requires.append(lambda vw: n >= 0)
    c.ensures.append(lambda vw: [("raises only for a correlation matrix whose diagonal is not 1", z3.Not(unit_diag))] if vw.flow == "raise" else [("a scalar uncertainty is accepted only with a unit-diagonal correlation matrix, like a vector", unit_diag)])
    eng.verify("MatrixGaussianError", "_calculate_cov_mat_from_cor_mat_and_error_array", None, lambda e, st, me_: {"error_array": es, "corr_mat": C_}, contract=c, tag="[one uncertainty for all points]")
    for k_, v_ in saved_lib.items():
        if v_ is None:
            eng.lib.pop(k_, None)
        else:
            eng.lib[k_] = v_

    c = Contract("MatrixGaussianError", "_calculate_cov_mat_from_cov_rel")
    c.requires.append(lambda vw: n >= 0)
    c.ensures.append(lambda vw: [("cov[a][b] = cov_rel[a][b] ref_a ref_b (signed reference)", z3.And(mat(vw).rows == n, z3.ForAll([i, j], z3.Implies(rng(), mat(vw).at(i, j) == M_.arr[i][j] * (Rf.arr[i] * Rf.arr[j])))))])
    eng.verify("MatrixGaussianError", "_calculate_cov_mat_from_cov_rel", None, lambda e, st, me_: {"cov_mat_rel": M_, "reference": Rf}, contract=c)

    c = Contract("MatrixGaussianError", "_calculate_cov_mat_rel_from_cov")
    c.requires.append(lambda vw: n >= 0)
    c.ensures.append(lambda vw: [("cov_rel[a][b] = cov[a][b] / (ref_a ref_b)", z3.And(mat(vw).rows == n, z3.ForAll([i, j], z3.Implies(rng(), mat(vw).at(i, j) == M_.arr[i][j] / (Rf.arr[i] * Rf.arr[j])))))])
    eng.verify("MatrixGaussianError", "_calculate_cov_mat_rel_from_cov", None, lambda e, st, me_: {"cov_mat": M_, "reference": Rf}, contract=c)
    return eng



def mge_schema(eng):
    eng.schema.setdefault("MatrixGaussianError", {}).update({"_matrix_type_at_construction": PYOBJ, "_fit_indices": PYOBJ})
    eng.schema.setdefault("GaussianErrorBase", {}).update({"_matrix_type_at_construction": PYOBJ, "_fit_indices": PYOBJ})


def M_of(vw, st, field):
    return vw.eng.read_field(st, vw.f(st, vw.self, field), "_mat")


def u_matrix_getters(root):
    """cov_mat / cov_mat_rel of a matrix source: the stored matrix of its own relativity, or the conversion with the CURRENT (signed) reference"""
    eng = mge_engine(root)
    mge_schema(eng)
    F = c02.F
    n = z3.Int("n")
    inline(eng, "MatrixGaussianError", "relative")
    mk(eng, "MatrixGaussianError", "reference", "getter", result=lambda vw: c02.ref_now(vw, vw.pre))
    rng = z3.And(0 <= i, i < n, 0 <= j, j < n)

    def conv(name, mul):
        hc = mk(eng, "MatrixGaussianError", name)
        hc.result = lambda vw: (lambda r: (vw.eng.write_field(vw.post, r, "_mat", VMat(FnArr(lambda a: FnArr(lambda b: (vw.args[list(vw.args)[0]].arr[a][b] * (vw.args["reference"].arr[a] * vw.args["reference"].arr[b])) if mul
                                                                                                    else (vw.args[list(vw.args)[0]].arr[a][b] / (vw.args["reference"].arr[a] * vw.args["reference"].arr[b])))),
                                                                                       vw.args[list(vw.args)[0]].rows, vw.args[list(vw.args)[0]].cols)), r)[1])(vw.eng.alloc(vw.post, "covmat", "CovMat"))
        hc.modifies = [("_mat", "mat", "", "all"), ("_mat", "mat", "rows", "all"), ("_mat", "mat", "cols", "all")]
        return hc
    # the helpers by their contracts (unit 'MatrixGaussianError helpers')
    for nm, mul in (("_calculate_cov_mat_from_cov_rel", True), ("_calculate_cov_mat_rel_from_cov", False)):
        hc = mk(eng, "MatrixGaussianError", nm)
        hc.modifies = []

        def res(vw, mul=mul):
            M0, rf = list(vw.args.values())[0], vw.args["reference"]
            r = vw.eng.alloc(vw.post, "covmat", "CovMat")
            f = (lambda a, b: M0.arr[a][b] * (rf.arr[a] * rf.arr[b])) if mul else (lambda a, b: M0.arr[a][b] / (rf.arr[a] * rf.arr[b]))
            vw.eng.write_field(vw.post, r, "_mat", VMat(FnArr(lambda a: FnArr(lambda b: f(a, b))), M0.rows, M0.cols))
            return r
        hc.result = res
    for rel in (True, False):
        for getter, own, other in (("cov_mat", "_cov_mat", "_cov_mat_rel"), ("cov_mat_rel", "_cov_mat_rel", "_cov_mat")):
            stored = (getter == "cov_mat") != rel          # the matrix of the source's own relativity is the stored one
            src_field = own if stored else other
            c = Contract("MatrixGaussianError", getter, "getter")
            c.requires.append(lambda vw, rel=rel, src_field=src_field: z3.And(F(vw, vw.pre, "_is_relative").e == rel, F(vw, vw.pre, src_field).e != NULL, n >= 0,
                                                                            M_of(vw, vw.pre, src_field).rows == n, M_of(vw, vw.pre, src_field).cols == n,
                                                                            z3.Implies(z3.Not(c02.ref_now(vw, vw.pre).none), c02.ref_now(vw, vw.pre).len == n)))

            def post(vw, stored=stored, src_field=src_field, getter=getter):
                rf = c02.ref_now(vw, vw.pre)
                if vw.flow == "raise":
                    return [("raises only when a conversion is needed and no reference is set", z3.And(z3.BoolVal(not stored), rf.none))]
                M0 = M_of(vw, vw.pre, src_field)
                if stored:
                    return [("the stored matrix, unchanged", z3.And(vw.result.rows == n, z3.ForAll([i, j], z3.Implies(rng, vw.result.at(i, j) == M0.at(i, j)))))]
                if getter == "cov_mat":
                    return [("conversion needs a reference", z3.Not(rf.none)), ("cov[a][b] = cov_rel[a][b] x ref_a ref_b at the CURRENT reference", z3.And(vw.result.rows == n, z3.ForAll([i, j], z3.Implies(rng, vw.result.at(i, j) == M0.at(i, j) * (rf.arr[i] * rf.arr[j])))))]
                return [("conversion needs a reference", z3.Not(rf.none)), ("cov_rel[a][b] = cov[a][b] / (ref_a ref_b)", z3.And(vw.result.rows == n, z3.ForAll([i, j], z3.Implies(rng, vw.result.at(i, j) == M0.at(i, j) / (rf.arr[i] * rf.arr[j])))))]
            c.ensures.append(post)
            # the OTHER getter is used by the conversion path: by its 'stored' contract
            og = "cov_mat_rel" if getter == "cov_mat" else "cov_mat"
            saved = eng.contracts.get(("MatrixGaussianError", og, "getter"))
            mk(eng, "MatrixGaussianError", og, "getter", result=lambda vw, other=other: M_of(vw, vw.pre, other), requires=[lambda vw, other=other: F(vw, vw.pre, other).e != NULL])
            eng.verify("MatrixGaussianError", getter, "getter", None, contract=c, tag=f"[relative={rel}]")
            eng.contracts.pop(("MatrixGaussianError", og, "getter"))
    return eng


def u_matrix_init(root):
    """every constructor form stores the matrix it describes under the source's own relativity"""
    eng = mge_engine(root)
    mge_schema(eng)
    F = c02.F
    n = z3.Int("n")
    Mx, ev = VMat(z3.Const("err_matrix", MA), n, n), VSeq(z3.Const("err_val", PA), n)
    Mx.ndim, ev.ndim = z3.IntVal(2), z3.IntVal(1)
    rng = z3.And(0 <= i, i < n, 0 <= j, j < n)
    errlib.c_reference_setter(eng)
    eng.contracts[("MatrixGaussianError", "reference", "setter")] = eng.contracts[("GaussianErrorBase", "reference", "setter")]
    inline(eng, "MatrixGaussianError", "relative")
    unit_diag = z3.ForAll([i], z3.Implies(z3.And(0 <= i, i < n), absr(Mx.arr[i][i] - 1) <= z3.Q(1, 10 ** 8) + z3.Q(1, 10 ** 5)))
    hc = mk(eng, "MatrixGaussianError", "_calculate_cov_mat_from_cor_mat_and_error_array")

    def res(vw):
        E_, C_ = vw.args["error_array"], vw.args["corr_mat"]
        r = vw.eng.alloc(vw.post, "covmat", "CovMat")
        vw.eng.write_field(vw.post, r, "_mat", VMat(FnArr(lambda a: FnArr(lambda b: E_.arr[a] * E_.arr[b] * C_.arr[a][b])), C_.rows, C_.cols))
        return r
    hc.result = res
    hc.raises = lambda vw: ("ValueError", z3.Not(unit_diag))
    hc.requires.append(lambda vw: vw.args["error_array"].len == vw.args["corr_mat"].rows)
    for mtype in ("cov", "covariance", "COV", "cor", "correlation", "corr", "Correlations", "sigma"):
        for rel in (False, True):
            for with_err in (False, True):
                is_cov, is_cor = mtype.lower() in ("covariance", "cov"), mtype.lower() in ("correlation", "correlations", "cor", "corr")
                c = Contract("MatrixGaussianError", "__init__")
                c.requires.append(lambda vw: n >= 0)

                def post(vw, rel=rel, with_err=with_err, is_cov=is_cov, is_cor=is_cor):
                    if vw.flow == "raise":
                        return [("raises only for: an unknown matrix type, sizes given with a covariance matrix, no sizes with a correlation matrix, or a correlation matrix without unit diagonal",
                                 z3.Or(z3.BoolVal(not (is_cov or is_cor)), z3.BoolVal(is_cov and with_err), z3.BoolVal(is_cor and not with_err), z3.And(z3.BoolVal(is_cor), z3.Not(unit_diag))))]
                    own, other = ("_cov_mat_rel", "_cov_mat") if rel else ("_cov_mat", "_cov_mat_rel")
                    M = M_of(vw, vw.post, own)
                    want = (lambda a, b: Mx.arr[a][b]) if is_cov else (lambda a, b: ev.arr[a] * ev.arr[b] * Mx.arr[a][b])
                    return [("accepted form", z3.BoolVal((is_cov and not with_err) or (is_cor and with_err))),
                            ("relativity recorded", F(vw, vw.post, "_is_relative").e == rel),
                            ("the described matrix is stored under the source's own relativity; the other cache is empty",
                             z3.And(F(vw, vw.post, own).e != NULL, F(vw, vw.post, other).e == NULL, M.rows == n, M.cols == n, z3.ForAll([i, j], z3.Implies(rng, M.at(i, j) == want(i, j)))))]
                c.ensures.append(post)
                init = lambda e, st, me_, mtype=mtype, rel=rel, with_err=with_err: {"err_matrix": Mx, "matrix_type": VStr(mtype), "err_val": ev if with_err else VNone(), "relative": VBool(z3.BoolVal(rel)), "reference": VNone(), "fit_indices": VNone()}
                eng.verify("MatrixGaussianError", "__init__", None, init, contract=c, tag=f"[{mtype},relative={rel},err_val={'given' if with_err else 'None'}]")
    return eng


def u_source_lemmas(root):
    """equivalences over the contracts: pure facts about the specified matrices, for every size, sign and correlation"""
    eng = mge_engine(root)
    n = z3.Int("n")
    r_, v_, e_ = z3.Const("rel_size", PA), z3.Const("reference", PA), z3.Const("abs_size", PA)
    rho = z3.Real("rho")
    Cm = z3.Const("cor", MA)
    one_or = lambda a, b, x: z3.If(a == b, z3.RealVal(1), x)
    simple = lambda s: (lambda a, b: s(a) * s(b) * one_or(a, b, rho))          # C02: covariance of a simple source with pointwise (signed) sizes s
    rng = z3.And(0 <= i, i < n, 0 <= j, j < n)
    # (a) relative r at reference v  ==  absolute r|v|   if rho = 0, or if all references have one sign
    rel_s, abs_s = (lambda a: r_[a] * v_[a]), (lambda a: r_[a] * absr(v_[a]))
    eng.lemma("(a) relative source = absolute source r|v| for rho = 0, any signs", [rho == 0, rng], simple(rel_s)(i, j) == simple(abs_s)(i, j))
    same_sign = z3.Or(z3.ForAll([k], z3.Implies(z3.And(0 <= k, k < n), v_[k] >= 0)), z3.ForAll([k], z3.Implies(z3.And(0 <= k, k < n), v_[k] <= 0)))
    eng.lemma("(a) relative source = absolute source r|v| for rho > 0, references of one sign", [same_sign, rng], simple(rel_s)(i, j) == simple(abs_s)(i, j))
    # (a') the two RELATIVE forms agree for every sign: simple (r, rho) and matrix cov_rel = r r^T o rho, both converted with the signed reference
    eng.lemma("(a') relative simple source = relative matrix source with cov_rel = (r r^T) o rho, any signs", [rng], simple(rel_s)(i, j) == (r_[i] * r_[j] * one_or(i, j, rho)) * (v_[i] * v_[j]))
    # (c) simple (e, rho) = explicit matrix
    eng.lemma("(c) simple source (e, rho) = matrix source with cov = (e e^T) o rho", [rng], simple(lambda a: e_[a])(i, j) == e_[i] * e_[j] * one_or(i, j, rho))
    # (b) cor + sizes = covariance (cor o e e^T): both constructor forms store the same matrix (unit 'MatrixGaussianError.__init__'); relative cor form likewise
    eng.lemma("(b) correlation matrix with sizes e = covariance matrix cor o (e e^T)", [rng], e_[i] * e_[j] * Cm[i][j] == (Cm[i][j] * (e_[i] * e_[j])))
    eng.lemma("(b') relative covariance M_rel at reference v = absolute covariance M_rel o (v v^T)", [rng], (Cm[i][j]) * (v_[i] * v_[j]) == Cm[i][j] * v_[i] * v_[j])
    # the restriction is real: for rho > 0 and mixed signs the absolute form differs (witness exists)
    eng.lemma("(a) scope: without the sign condition the two readings coincide only up to sign (squares agree)", [rng], (simple(rel_s)(i, j)) * (simple(rel_s)(i, j)) == (simple(abs_s)(i, j)) * (simple(abs_s)(i, j)))
    return eng



# ------------------------------------------------------------------ (e) parameter constraints
CON_SCHEMA = {"GaussianMatrixParameterConstraint": {"_indices": SEQ, "_values": SEQ, "_cov_mat_abs": FT("optmat"), "_cov_mat_rel": FT("optmat"), "_cor_mat": FT("optmat"), "_uncertainties_abs": OPTSEQ,
                                                    "_uncertainties_rel": OPTSEQ, "_matrix_type": PYOBJ, "_relative": BOOL, "_cov_mat_inverse": FT("optmat")},
              "GaussianSimpleParameterConstraint": {"_index": INT, "_value": NUM, "_uncertainty_abs": OPTNUM, "_uncertainty_rel": OPTNUM, "_relative": BOOL}}


def con_engine(root):
    eng = engine(root, FILES, CON_SCHEMA, SQRT_AX)
    eng.lib["np.sqrt"] = lambda e, st, a, kw, n: VSeq(FnArr(lambda k_: usqrt(a[0].arr[k_])), a[0].len) if isinstance(a[0], VSeq) else VNum(usqrt(a[0].real()))
    eng.lib["np.array"] = eng.lib["np.asarray"] = lambda e, st, a, kw, n: a[0]
    return eng


def u_constraint_forms(root):
    eng = con_engine(root)
    F = c02.F
    n = z3.Int("n")
    rng = z3.And(0 <= i, i < n, 0 <= j, j < n)
    V = lambda vw, st: F(vw, st, "_values")
    inline(eng, "GaussianMatrixParameterConstraint", "values", "matrix_type", "relative")
    forms = {"cov-abs": ("cov", False), "cov-rel": ("cov", True), "cor-abs": ("cor", False), "cor-rel": ("cor", True)}

    def spec_unc(vw, st, form):
        """pointwise uncertainties of the form (None for the covariance forms, where they are derived)"""
        v = V(vw, st)
        if form == "cor-abs":
            return lambda a: F(vw, st, "_uncertainties_abs").arr[a]
        if form == "cor-rel":
            return lambda a: F(vw, st, "_uncertainties_rel").arr[a] * v.arr[a]
        return None

    def spec_cov(vw, st, form):
        v = V(vw, st)
        if form == "cov-abs":
            return lambda a, b: F(vw, st, "_cov_mat_abs").at(a, b)
        if form == "cov-rel":
            return lambda a, b: F(vw, st, "_cov_mat_rel").at(a, b) * (v.arr[a] * v.arr[b])
        u = spec_unc(vw, st, form)
        return lambda a, b: F(vw, st, "_cor_mat").at(a, b) * (u(a) * u(b))

    def stored(vw, st, form):
        """state right after construction in the given form"""
        g = lambda f: F(vw, st, f)
        dims = lambda M: z3.And(z3.Not(M.none), M.rows == n, M.cols == n)
        base = [n >= 0, V(vw, st).len == n, g("_relative").e == forms[form][1]]
        if form == "cov-abs":
            return z3.And(*base, dims(g("_cov_mat_abs")), g("_cov_mat_rel").none, g("_cor_mat").none, g("_uncertainties_abs").none, g("_uncertainties_rel").none)
        if form == "cov-rel":
            return z3.And(*base, g("_cov_mat_abs").none, dims(g("_cov_mat_rel")), g("_cor_mat").none, g("_uncertainties_abs").none, g("_uncertainties_rel").none)
        if form == "cor-abs":
            return z3.And(*base, g("_cov_mat_abs").none, g("_cov_mat_rel").none, dims(g("_cor_mat")), z3.Not(g("_uncertainties_abs").none), g("_uncertainties_abs").len == n, g("_uncertainties_rel").none)
        return z3.And(*base, g("_cov_mat_abs").none, g("_cov_mat_rel").none, dims(g("_cor_mat")), g("_uncertainties_abs").none, z3.Not(g("_uncertainties_rel").none), g("_uncertainties_rel").len == n)

    for form, (mtype, rel) in forms.items():
        init = lambda e, st, me_, mtype=mtype: (e.write_field(st, me_, "_matrix_type", VStr(mtype)), {})[1]
        # uncertainties getter (used by cov_mat in the correlation forms)
        if form.startswith("cor"):
            c = Contract("GaussianMatrixParameterConstraint", "uncertainties", "getter")
            c.requires.append(lambda vw, form=form: stored(vw, vw.pre, form))
            if form == "cor-rel":
                mk(eng, "GaussianMatrixParameterConstraint", "uncertainties_rel", "getter", result=lambda vw: F(vw, vw.pre, "_uncertainties_rel"))
            c.ensures.append(lambda vw, form=form: [("absolute uncertainties: as given, or relative x value (signed)", z3.And(vw.result.len == n, z3.ForAll([i], z3.Implies(z3.And(0 <= i, i < n), vw.result.arr[i] == spec_unc(vw, vw.pre, form)(i)))))])
            eng.verify("GaussianMatrixParameterConstraint", "uncertainties", "getter", init, contract=c, tag=f"[{form}]")
            eng.contracts.pop(("GaussianMatrixParameterConstraint", "uncertainties_rel", "getter"), None)
            mk(eng, "GaussianMatrixParameterConstraint", "uncertainties", "getter", result=lambda vw, form=form: VSeq(FnArr(lambda a: spec_unc(vw, vw.pre, form)(a)), n))
        if form.startswith("cor"):
            # the reverse direction: relative uncertainties of a correlation form are the SIGNED ratio, so that relative x value gives back the absolute ones
            # (and cor o ((r v)(r v)^T) the same covariance, lemma (e)) for values of either sign
            c = Contract("GaussianMatrixParameterConstraint", "uncertainties_rel", "getter")
            vv = lambda vw: F(vw, vw.pre, "_values")
            c.requires.append(lambda vw, form=form: z3.And(stored(vw, vw.pre, form), z3.ForAll([i], z3.Implies(z3.And(0 <= i, i < n), vv(vw).arr[i] != 0))))
            c.ensures.append(lambda vw, form=form: [("relative uncertainties x values = absolute uncertainties, for values of either sign (as given, or the signed ratio)",
                                                     z3.And(vw.result.len == n, z3.ForAll([i], z3.Implies(z3.And(0 <= i, i < n), vw.result.arr[i] * vv(vw).arr[i] == spec_unc(vw, vw.pre, form)(i)))))])
            eng.verify("GaussianMatrixParameterConstraint", "uncertainties_rel", "getter", init, contract=c, tag=f"[{form}]")
            eng.contracts.pop(("GaussianMatrixParameterConstraint", "uncertainties_rel", "getter"), None)
        c = Contract("GaussianMatrixParameterConstraint", "cov_mat", "getter")
        c.requires.append(lambda vw, form=form: stored(vw, vw.pre, form))
        c.ensures.append(lambda vw, form=form: [("absolute covariance of the form: given | cov_rel o v v^T | cor o u u^T", z3.And(vw.result.rows == n, vw.result.cols == n, z3.ForAll([i, j], z3.Implies(rng, vw.result.at(i, j) == spec_cov(vw, vw.pre, form)(i, j)))))])
        eng.verify("GaussianMatrixParameterConstraint", "cov_mat", "getter", init, contract=c, tag=f"[{form}]")
        eng.contracts.pop(("GaussianMatrixParameterConstraint", "uncertainties", "getter"), None)
    # equivalence lemmas: equal cov_mat (the cost is r^T cov_mat^-1 r, C01), for values of any sign
    v_, r_, u_ = z3.Const("values", PA), z3.Const("rel_unc", PA), z3.Const("abs_unc", PA)
    Cm, Mr = z3.Const("cor", MA), z3.Const("cov_rel", MA)
    eng.lemma("(e) relative covariance form = absolute covariance cov_rel o (v v^T)", [rng], Mr[i][j] * (v_[i] * v_[j]) == (Mr[i][j] * (v_[i] * v_[j])))
    eng.lemma("(e) correlation + uncertainties = covariance cor o (u u^T)", [rng], Cm[i][j] * (u_[i] * u_[j]) == Cm[i][j] * u_[i] * u_[j])
    eng.lemma("(e) correlation + RELATIVE uncertainties = covariance cor o ((r v)(r v)^T), any sign of v", [rng], Cm[i][j] * ((r_[i] * v_[i]) * (r_[j] * v_[j])) == Cm[i][j] * (r_[i] * r_[j]) * (v_[i] * v_[j]))
    # simple constraint: relative and absolute form give the same cost for a value of either sign
    pv, val, rel = z3.Reals("p value rel")
    eng.lemma("(e) simple constraint: ((p - v) / (rel v))^2 = ((p - v) / (rel |v|))^2", [val != 0, rel > 0], ((pv - val) / (rel * val)) * ((pv - val) / (rel * val)) == ((pv - val) / (rel * absr(val))) * ((pv - val) / (rel * absr(val))))
    return eng



def u_constraint_init(root):
    """GaussianMatrixParameterConstraint.__init__: each accepted form ends in the state the getter contracts assume; rejected forms raise"""
    eng = con_engine(root)
    F = c02.F
    n = z3.Int("n")
    Mx, vals, unc = VMat(z3.Const("matrix", MA), n, n), VSeq(z3.Const("values", PA), n), VSeq(z3.Const("uncertainties", PA), n)
    idx = VSeq(z3.Const("indices", PA), n)
    sym = z3.ForAll([i, j], z3.Implies(z3.And(0 <= i, i < n, 0 <= j, j < n), Mx.arr[i][j] == Mx.arr[j][i]))
    cor_ok = z3.And(z3.ForAll([i], z3.Implies(z3.And(0 <= i, i < n), Mx.arr[i][i] == 1)), z3.ForAll([i, j], z3.Implies(z3.And(0 <= i, i < n, 0 <= j, j < n), z3.And(Mx.arr[i][j] <= 1, Mx.arr[i][j] >= -1))))
    eng.lib["np.array_equal"] = lambda e, st, a, kw, node: VBool(z3.And(a[0].rows == a[1].rows, a[0].cols == a[1].cols, z3.ForAll([i, j], z3.Implies(z3.And(0 <= i, i < a[0].rows, 0 <= j, j < a[0].cols), a[0].arr[i][j] == a[1].arr[i][j]))))
    eng.lib["np.any"] = lambda e, st, a, kw, node: e.bool_reduce(a[0], "any")
    mk(eng, "ParameterConstraint", "__init__")
    for mtype in ("cov", "cor", "sigma"):
        for rel in (False, True):
            for with_unc in (False, True):
                c = Contract("GaussianMatrixParameterConstraint", "__init__")
                c.requires.append(lambda vw: n >= 1)

                def post(vw, mtype=mtype, rel=rel, with_unc=with_unc):
                    if vw.flow == "raise":
                        return [("raises only for: asymmetric matrix, unknown type, a correlation matrix with non-unit diagonal or entries outside [-1, 1], uncertainties given with a covariance matrix, none given with a correlation matrix",
                                 z3.Or(z3.Not(sym), z3.BoolVal(mtype not in ("cov", "cor")), z3.And(z3.BoolVal(mtype == "cor"), z3.Not(cor_ok)), z3.BoolVal(mtype == "cov" and with_unc), z3.BoolVal(mtype == "cor" and not with_unc)))]
                    g = lambda f: F(vw, vw.post, f)
                    is_ = lambda M, X: z3.And(z3.Not(M.none), M.rows == n, M.cols == n, z3.ForAll([i, j], z3.Implies(z3.And(0 <= i, i < n, 0 <= j, j < n), M.at(i, j) == X.arr[i][j])))
                    sq = lambda S, X: z3.And(z3.Not(S.none), S.len == n, z3.ForAll([i], z3.Implies(z3.And(0 <= i, i < n), S.arr[i] == X.arr[i])))
                    out = [("accepted: symmetric and of a known, consistent form", z3.And(sym, z3.BoolVal((mtype == "cov" and not with_unc) or (mtype == "cor" and with_unc)), z3.Implies(z3.BoolVal(mtype == "cor"), cor_ok))),
                           ("values and relativity stored", z3.And(g("_values").len == n, z3.ForAll([i], z3.Implies(z3.And(0 <= i, i < n), g("_values").arr[i] == vals.arr[i])), g("_relative").e == rel)),
                           ("derived inverse not cached yet", g("_cov_mat_inverse").none)]
                    if mtype == "cov":
                        own, other = ("_cov_mat_rel", "_cov_mat_abs") if rel else ("_cov_mat_abs", "_cov_mat_rel")
                        out.append(("covariance form: the matrix is stored under the declared relativity, nothing else", z3.And(is_(g(own), Mx), g(other).none, g("_cor_mat").none, g("_uncertainties_abs").none, g("_uncertainties_rel").none)))
                    else:
                        own, other = ("_uncertainties_rel", "_uncertainties_abs") if rel else ("_uncertainties_abs", "_uncertainties_rel")
                        out.append(("correlation form: the matrix is stored as correlation, the uncertainties under the declared relativity, nothing else", z3.And(is_(g("_cor_mat"), Mx), sq(g(own), unc), g(other).none, g("_cov_mat_abs").none, g("_cov_mat_rel").none)))
                    return out
                c.ensures.append(post)
                init = lambda e, st, me_, mtype=mtype, rel=rel, with_unc=with_unc: {"indices": idx, "values": vals, "matrix": Mx, "matrix_type": VStr(mtype), "uncertainties": unc if with_unc else VNone(), "relative": VBool(z3.BoolVal(rel))}
                eng.verify("GaussianMatrixParameterConstraint", "__init__", None, init, contract=c, tag=f"[{mtype},relative={rel},uncertainties={'given' if with_unc else 'None'}]")
    return eng



# ------------------------------------------------------------------ (d) scalar vs constant vector
def u_broadcast(root):
    """add_error of the containers and of MultiFit: a scalar size reaches the source constructor as the constant vector of the data size; a vector as itself"""
    seen = {}

    def ctor(e, st, a, kw, node):
        seen["err_val"] = kw.get("err_val", a[0] if a else None)
        seen["kw"] = dict(kw)
        return e.alloc(st, "source", "SimpleGaussianError")
    size = z3.Int("size")
    sval = z3.Real("scalar_error")

    def scalar(python_number=False):
        x = VNum(sval)
        x.ndim = z3.IntVal(0)
        x.python_number = python_number          # a plain float has no .ndim (the method probes for it), a numpy scalar has ndim 0
        return x

    def vector():
        x = VSeq(z3.Const("err_vector", PA), z3.Int("err_vector_len"))
        x.ndim = z3.IntVal(1)
        return x
    eng = engine(root, FILES, {"IndexedContainer": {"_data": SEQ}, "XYContainer": {"_data": MAT}, "MultiFit": {"_fits": REFSEQ("FitBase")}}, [])
    eng.lib["class:SimpleGaussianError"] = ctor
    def as_array(e, st, a, kw, n):
        if isinstance(a[0], VNum) and getattr(a[0], "python_number", False):      # np.asarray(plain float): a 0-d array (has .ndim == 0)
            x = VNum(a[0].e)
            x.ndim = z3.IntVal(0)
            return x
        return a[0]
    eng.lib["np.asarray"] = eng.lib["np.array"] = as_array
    eng.lib["np.ones"] = lambda e, st, a, kw, n: VSeq(FnArr(lambda k_: z3.RealVal(1)), a[0].e)
    eng.lib["isinstance"] = lambda e, st, a, kw, n: VBool(z3.BoolVal(isinstance(a[0], VNum) and a[0].is_int)) if ast.unparse(n.args[1]) == "int" else (_ for _ in ()).throw(Unsupported("isinstance " + ast.unparse(n)))
    mk(eng, "DataContainerBase", "_add_error_object", result=lambda vw: VStr("name"))
    mk(eng, "MultiFit", "_add_error_object", result=lambda vw: VStr("name"))
    mk(eng, "XYContainer", "_find_axis_raise", result=lambda vw: VNum(z3.Int("axis_index")))
    mk(eng, "FitBase", "data_size", "getter", result=lambda vw: VNum(size))

    def post_for(kind):
        def post(vw):
            if vw.flow == "raise":
                return [("no exception", z3.BoolVal(False))]
            ev = seen.get("err_val")
            if "scalar" in kind:
                return [("the source is built from the constant vector of the data size", z3.And(z3.BoolVal(isinstance(ev, VSeq)), ev.len == size, z3.ForAll([i], z3.Implies(z3.And(0 <= i, i < size), ev.arr[i] == sval))) if isinstance(ev, VSeq) else z3.BoolVal(False))]
            x = vw.args["err_val"]
            return [("a vector is handed on unchanged", z3.And(ev.len == x.len, z3.ForAll([i], z3.Implies(z3.And(0 <= i, i < x.len), ev.arr[i] == x.arr[i]))) if isinstance(ev, VSeq) else z3.BoolVal(False))]
        return post
    for kind, mkv in (("scalar", scalar), ("python-float scalar", lambda: scalar(True)), ("vector", vector)):
        c = Contract("IndexedContainer", "add_error")
        c.requires.append(lambda vw: H("_data", "seq", "len")[me] == size)
        c.ensures.append(post_for(kind))
        eng.verify("IndexedContainer", "add_error", None, lambda e, st, me_, mkv=mkv: {"err_val": mkv()}, contract=c, tag=f"[{kind}]")
        c = Contract("XYContainer", "add_error")
        c.requires.append(lambda vw: H("_data", "mat", "cols")[me] == size)
        c.ensures.append(post_for(kind))
        eng.verify("XYContainer", "add_error", None, lambda e, st, me_, mkv=mkv: {"axis": VStr("y"), "err_val": mkv()}, contract=c, tag=f"[{kind}]")
        c = Contract("MultiFit", "add_error")
        c.requires.append(lambda vw: z3.And(H("_fits", "refseq", "len")[me] >= 2, H("_fits", "refseq")[me][1] != NULL))
        c.ensures.append(post_for(kind))
        eng.verify("MultiFit", "add_error", None, lambda e, st, me_, mkv=mkv: {"err_val": mkv(), "fits": VTuple([VNum(z3.IntVal(1)), VNum(z3.IntVal(0))])}, contract=c, tag=f"[{kind}, shared between fits]")
    return eng



# ------------------------------------------------------------------ (f) wrapper functions: call traces on an abstract fit
WRAP = "@kafe2/fit/util/wrapper.py"


def trace(st, who="fit"):
    return [(m, a, kw) for (w, m, a, kw) in st.ghost.get("ext_calls", ()) if w == who]


def as_py(v):
    if isinstance(v, VStr):
        return v.s
    if isinstance(v, VBool):
        return z3.is_true(z3.simplify(v.e))
    if isinstance(v, VNum) and z3.is_rational_value(z3.simplify(v.real())):
        return float(z3.simplify(v.real()).as_fraction())
    return v


def wrap_engine(root):
    eng = engine(root, FILES, {}, [])
    eng.lib["np.asarray"] = eng.lib["np.array"] = lambda e, st, a, kw, n: a[0]

    def reshape(e, st, a, kw, n):
        r = VSeq(FnArr(lambda k_: a[0].real()), z3.IntVal(1))
        r.ndim = z3.IntVal(1)
        return r
    eng.lib["np.reshape"] = reshape

    def isinst(e, st, a, kw, n):
        spec = ast.unparse(n.args[1])
        if spec == "(list, tuple)":
            return VBool(z3.BoolVal(isinstance(a[0], VTuple)))
        raise Unsupported("isinstance " + ast.unparse(n))
    eng.lib["isinstance"] = isinst
    return eng


def error_values():
    sc = VNum(z3.Real("error_scalar")); sc.ndim = z3.IntVal(0)
    ve = VSeq(z3.Const("error_vector", PA), z3.Int("error_len")); ve.ndim = z3.IntVal(1)
    ma = VMat(z3.Const("error_matrix", MA), z3.Int("error_n"), z3.Int("error_n")); ma.ndim = z3.IntVal(2)
    return {"None": VNone(), "scalar": sc, "vector": ve, "matrix": ma}


def check_error_trace(tr, ev_kind, ev, correlated, relative, reference, axis=None, at_exit=True):
    """the documented meaning of one error keyword as a list of (label, bool-term) over the recorded calls"""
    pre = [axis] if axis is not None else []
    ok = lambda c: z3.BoolVal(bool(c))
    if ev_kind == "None":
        return [("no uncertainty given: nothing is added", ok(len(tr) == 0))]
    if correlated and at_exit:
        return [("fully correlated entries are added by the loop (checked per iteration)", ok(len(tr) == 0))]
    if correlated:
        if ev_kind == "matrix":
            return None
        good = len(tr) == 1 and tr[0][0] == "add_error" and [as_py(x) for x in tr[0][1][:len(pre)]] == pre and as_py(tr[0][2].get("correlation")) == 1.0 and as_py(tr[0][2].get("relative")) == relative and as_py(tr[0][2].get("reference")) == reference
        return [("fully correlated: one add_error(entry, correlation=1.0, relative, reference) per entry (a scalar counts as one entry)", ok(good))]
    if ev_kind == "matrix":
        good = len(tr) == 1 and tr[0][0] == "add_matrix_error" and [as_py(x) for x in tr[0][1][:len(pre)]] == pre and tr[0][1][len(pre)] is ev and as_py(tr[0][1][len(pre) + 1]) == "cov" and as_py(tr[0][2].get("relative")) == relative and as_py(tr[0][2].get("reference")) == reference
        return [("a 2-d value is ONE covariance matrix source", ok(good))]
    good = len(tr) == 1 and tr[0][0] == "add_error" and [as_py(x) for x in tr[0][1][:len(pre)]] == pre and tr[0][1][len(pre)] is ev and as_py(tr[0][2].get("relative")) == relative and as_py(tr[0][2].get("reference")) == reference and "correlation" not in tr[0][2]
    return [("a scalar or 1-d value is ONE uncorrelated simple source of that size", ok(good))]


def loop_inv(e, s, ev_kind, ev, relative, reference, axis):
    """loop over the entries of a fully correlated uncertainty: every iteration adds exactly one source for ITS entry"""
    tr = trace(s)
    if not z3.is_add(s.locals["#i0"].e):       # loop entry / loop head: nothing added yet in this iteration
        return z3.BoolVal(len(tr) == 0)
    r = check_error_trace(tr, ev_kind, ev, True, relative, reference, axis=axis, at_exit=False)
    pre = 1 if axis is not None else 0
    item_ok = len(tr) == 1 and len(tr[0][1]) > pre and isinstance(tr[0][1][pre], VNum)
    return z3.And(r[0][1], z3.BoolVal(item_ok), (tr[0][1][pre].real() == s.locals["#it0"].arr[s.locals["#i0"].e - 1]) if item_ok else z3.BoolVal(False))


def u_wrapper_errors(root):
    eng = wrap_engine(root)
    vals = error_values()
    for ev_kind, ev in vals.items():
        for correlated in (False, True):
            for relative in (False, True):
                for to_model in (False, True):
                    if correlated and ev_kind == "matrix":
                        continue
                    ref = "model" if (to_model and relative) else "data"
                    # generic (indexed / histogram)
                    c = Contract(WRAP, "_add_error_to_fit_generic")
                    c.loops[0] = lambda e, s, ev_kind=ev_kind, ev=ev, relative=relative, ref=ref: loop_inv(e, s, ev_kind, ev, relative, ref, None)
                    c.ensures.append(lambda vw, ev_kind=ev_kind, ev=ev, correlated=correlated, relative=relative, ref=ref: check_error_trace(trace(vw.post), ev_kind, ev, correlated, relative, ref))
                    rec = {}
                    eng.verify(WRAP, "_add_error_to_fit_generic", None,
                               lambda e, st, me_, ev=ev, correlated=correlated, relative=relative, to_model=to_model, rec=rec: {"fit": VExternal("fit", rec), "error": ev, "errors_rel_to_model": VBool(z3.BoolVal(to_model)), "correlated": VBool(z3.BoolVal(correlated)), "relative": VBool(z3.BoolVal(relative))},
                               contract=c, tag=f"[{ev_kind},correlated={correlated},relative={relative},rel_to_model={to_model}]")
                    # xy_fit's closure: only y uncertainties can refer to the model
                    for axis in ("x", "y"):
                        refxy = "model" if (to_model and relative and axis == "y") else "data"
                        c2 = Contract(WRAP, "xy_fit")
                        c2.loops[0] = lambda e, s, ev_kind=ev_kind, ev=ev, relative=relative, refxy=refxy, axis=axis: loop_inv(e, s, ev_kind, ev, relative, refxy, axis)
                        c2.ensures.append(lambda vw, ev_kind=ev_kind, ev=ev, correlated=correlated, relative=relative, refxy=refxy, axis=axis: check_error_trace(trace(vw.post), ev_kind, ev, correlated, relative, refxy, axis=axis))
                        eng.verify(WRAP, "xy_fit", None,
                                   lambda e, st, me_, ev=ev, correlated=correlated, relative=relative, to_model=to_model, axis=axis: {"_fit": VExternal("fit", {}), "errors_rel_to_model": VBool(z3.BoolVal(to_model)), "axis": VStr(axis), "error": ev,
                                                                                                                                    "correlated": VBool(z3.BoolVal(correlated)), "relative": VBool(z3.BoolVal(relative))},
                                   contract=c2, nested="_add_error_to_fit", tag=f"[{axis},{ev_kind},correlated={correlated},relative={relative},rel_to_model={to_model}]")
    return eng



def u_wrapper_generic(root):
    """_fit_wrapper_generic: start values first, then limits, fixed parameters and constraints (a single tuple or a sequence of tuples mean the same calls), then ONE fit"""
    eng = wrap_engine(root)
    eng.ext_results = {"do_fit": lambda e, st, a, kw: VDict({"did_fit": VBool(z3.BoolVal(True))})}
    eng.consts = {"_fit_history": VTuple([])}
    T = lambda *xs: VTuple([VStr(x) if isinstance(x, str) else VNum(z3.RealVal(x)) for x in xs])
    forms = {"None": (VNone(), []), "single": (T("a", 0.5, 1.5), [("a", 0.5, 1.5)]), "list-of-1": (VTuple([T("a", 0.5, 1.5)]), [("a", 0.5, 1.5)]), "list-of-2": (VTuple([T("a", 0.5, 1.5), T("b", -1.0, 2.0)]), [("a", 0.5, 1.5), ("b", -1.0, 2.0)])}
    fixed_forms = {"None": (VNone(), []), "name-only": (T("b"), [("b",)]), "single": (T("b", 0.25), [("b", 0.25)]), "list-of-2": (VTuple([T("b", 0.25), T("a")]), [("b", 0.25), ("a",)])}
    p0v, dp0v = VSeq.fresh("p0"), VSeq.fresh("dp0")
    import itertools
    combos = [("None", "None", "None"), ("single", "single", "single"), ("list-of-2", "list-of-2", "list-of-2"), ("list-of-1", "name-only", "None"), ("None", "list-of-2", "single"), ("single", "None", "list-of-2")]
    for lim, fx, con in combos:
        for start in ("none", "p0", "p0+dp0"):
            for report in (False, True):
                c = Contract(WRAP, "_fit_wrapper_generic")
                exp = []
                if start != "none":
                    exp.append(("set_all_parameter_values", "p0"))
                if start == "p0+dp0":
                    exp.append(("set:parameter_errors", "dp0"))
                exp += [("limit_parameter", l) for l in forms[lim][1]] + [("fix_parameter", f) for f in fixed_forms[fx][1]] + [("add_parameter_constraint", q) for q in forms[con][1]]
                exp.append(("do_fit", "profile"))
                if report:
                    exp.append(("report", "profile"))

                def post(vw, exp=exp):
                    tr = trace(vw.post)
                    ok = len(tr) == len(exp)
                    for (m, a, kw), (em, ea) in zip(tr, exp):
                        ok = ok and m == em
                        if ea == "p0":
                            ok = ok and a[0] is p0v
                        elif ea == "dp0":
                            ok = ok and a[0] is dp0v
                        elif ea == "profile":
                            ok = ok and as_py(kw.get("asymmetric_parameter_errors")) is True and len(a) == 0
                        else:
                            ok = ok and tuple(as_py(x) for x in a) == ea and not kw
                    res = vw.result
                    return [("calls, in order: start values, step sizes, limits, fixed parameters, constraints (one call per tuple, a single tuple = a list of one), ONE do_fit with the profile flag, then the report", z3.BoolVal(bool(ok))),
                            ("the result of do_fit is returned with the fit object added", z3.BoolVal(isinstance(res, VDict) and "fit" in res.d and "did_fit" in res.d and isinstance(res.d["fit"], VExternal)))]
                c.ensures.append(post)
                init = lambda e, st, me_, lim=lim, fx=fx, con=con, start=start, report=report: {
                    "fit": VExternal("fit", {}), "p0": p0v if start != "none" else VNone(), "dp0": dp0v if start == "p0+dp0" else VNone(), "limits": forms[lim][0], "fixed": fixed_forms[fx][0], "constraints": forms[con][0],
                    "report": VBool(z3.BoolVal(report)), "profile": VBool(z3.BoolVal(True)), "save": VBool(z3.BoolVal(False))}
                eng.verify(WRAP, "_fit_wrapper_generic", None, init, contract=c, tag=f"[limits={lim},fixed={fx},constraints={con},start={start},report={report}]")
    return eng



def u_wrapper_toplevel(root):
    """xy_fit / indexed_fit / hist_fit / unbinned_fit / custom_fit: which fit is constructed and how each keyword is forwarded"""
    eng = wrap_engine(root)
    log = []
    K = lambda name: VOpaque(("kw", name))
    name_of = lambda v: v.tag[1] if isinstance(v, VOpaque) and isinstance(v.tag, tuple) and v.tag[0] == "kw" else ("None" if isinstance(v, VNone) else v.name if isinstance(v, VExternal) else as_py(v))

    def ctor(cls):
        def f(e, st, a, kw, n):
            st.ghost = dict(st.ghost)
            st.ghost["top"] = st.ghost.get("top", ()) + ((cls, tuple(tuple(name_of(y) for y in x.items) if isinstance(x, VTuple) else name_of(x) for x in a), {k_: name_of(v) for k_, v in kw.items()}),)
            return VExternal(cls, {})
        return f
    for cls in ("XYFit", "IndexedFit", "HistFit", "UnbinnedFit", "CustomFit", "HistContainer"):
        eng.lib["class:" + cls] = ctor(cls)

    def push(st, entry):
        st.ghost = dict(st.ghost)
        st.ghost["top"] = st.ghost.get("top", ()) + (entry,)

    def lib_run(e, st, a, kw, n):          # _fit_wrapper_generic by its contract (unit '_fit_wrapper_generic')
        push(st, ("run", tuple(x.name if isinstance(x, VExternal) else name_of(x) for x in a), {}))
        return VOpaque("results")

    def lib_generic(e, st, a, kw, n):      # _add_error_to_fit_generic by its contract (unit 'wrapper error keywords')
        ent = [a[0].name, name_of(a[1]), name_of(a[2])]
        cor, rel = as_py(kw.get("correlated", VBool(z3.BoolVal(False)))) is True, as_py(kw.get("relative", VBool(z3.BoolVal(False)))) is True
        push(st, ("generic", tuple(ent + ([True, True] if (cor and rel) else [True] if cor else ["relative-only"] if rel else [])), {}))
        return VNone()
    eng.lib["_fit_wrapper_generic"], eng.lib["_add_error_to_fit_generic"] = lib_run, lib_generic

    def nested(e, st, a, kw):
        full = {"correlated": VBool(z3.BoolVal(False)), "relative": VBool(z3.BoolVal(False))}
        full.update(kw)
        st.ghost = dict(st.ghost)
        st.ghost["top"] = st.ghost.get("top", ()) + (("xy-closure", (name_of(a[0]), name_of(a[1]), as_py(full["correlated"]), as_py(full["relative"])), {}),)
        return VNone()
    eng.nested_models = {"_add_error_to_fit": nested}
    top = lambda st: list(st.ghost.get("top", ()))
    common = ["p0", "dp0", "limits", "fixed", "constraints", "report", "profile", "save"]

    # xy_fit
    for model_given in (True, False):
        for prof in ("given", "None+xerr", "None+yrel", "None+plain"):
            c = Contract(WRAP, "xy_fit")
            given = {"x_error": prof == "None+xerr", "y_error_rel": prof == "None+yrel"}

            def post(vw, model_given=model_given, prof=prof):
                t = top(vw.post)
                exp = [("XYFit", ((("x_data", "y_data"),) + (("model_function",) if model_given else ())), {})]
                for ax_kw, cor, rel in (("x_error", False, False), ("y_error", False, False), ("x_error_rel", False, True), ("y_error_rel", False, True), ("x_error_cor", True, False), ("y_error_cor", True, False),
                                        ("x_error_cor_rel", True, True), ("y_error_cor_rel", True, True)):
                    val = ax_kw if (prof == "given" or ax_kw not in ("x_error", "x_error_rel", "y_error_rel") or (ax_kw == "x_error" and prof == "None+xerr") or (ax_kw == "y_error_rel" and prof == "None+yrel")) else "None"
                    exp.append(("xy-closure", (ax_kw[0], val, cor, rel), {}))
                pexp = "profile" if prof == "given" else (prof != "None+plain")
                exp.append(("run", ("XYFit",) + tuple(x if x != "profile" else pexp for x in common), {}))
                return [("XYFit([x, y][, model]); each keyword forwarded with its axis and flags: x_error..y_error_cor_rel; then the generic pipeline; profile=None means 'x or relative y uncertainties present'", z3.BoolVal(t == exp))]
            c.ensures.append(post)

            def init(e, st, me_, model_given=model_given, prof=prof):
                a = {n_: K(n_) for n_ in ["x_data", "y_data", "x_error", "y_error", "x_error_rel", "y_error_rel", "x_error_cor", "y_error_cor", "x_error_cor_rel", "y_error_cor_rel", "errors_rel_to_model"] + common}
                a["model_function"] = K("model_function") if model_given else VNone()
                if prof != "given":
                    a["profile"] = VNone()
                    for n_ in ("x_error", "x_error_rel", "y_error_rel"):
                        a[n_] = VNone()
                    if prof == "None+xerr":
                        a["x_error"] = K("x_error")
                    if prof == "None+yrel":
                        a["y_error_rel"] = K("y_error_rel")
                return a
            eng.verify(WRAP, "xy_fit", None, init, contract=c, tag=f"[model={'given' if model_given else 'default'},profile={prof}]")

    # indexed_fit / hist_fit
    gen4 = lambda fit: [("generic", (fit, "error", "errors_rel_to_model"), {}), ("generic", (fit, "error_cor", "errors_rel_to_model", True), {}), ("generic", (fit, "error_rel", "errors_rel_to_model", "relative-only"), {}),
                        ("generic", (fit, "error_cor_rel", "errors_rel_to_model", True, True), {})]
    names_idx = ["model_function", "data", "p0", "dp0", "error", "error_rel", "error_cor", "error_cor_rel", "errors_rel_to_model", "limits", "fixed", "constraints", "report", "profile", "save"]
    c = Contract(WRAP, "indexed_fit")
    c.ensures.append(lambda vw: [("IndexedFit(data, model); error / error_cor (correlated) / error_rel (relative) / error_cor_rel (both) forwarded in that meaning; then the generic pipeline",
                                  z3.BoolVal(top(vw.post) == [("IndexedFit", ("data", "model_function"), {})] + gen4("IndexedFit") + [("run", ("IndexedFit",) + tuple(common), {})]))])
    eng.verify(WRAP, "indexed_fit", None, lambda e, st, me_: {n_: K(n_) for n_ in names_idx}, contract=c)
    ERRKW = ("error", "error_rel", "error_cor", "error_cor_rel")
    for ga in ("None+errors", "None+no-errors", "True", "False") + tuple("None+only:" + k_ for k_ in ERRKW) + ("False+binned-data",):
        for model_given in (True, False):
            c = Contract(WRAP, "hist_fit")
            binned = ga.endswith("+binned-data")          # data given as a HistContainer / np.histogram result, no binning arguments: handed to HistFit as it is
            ga = ga.split("+binned-data")[0]

            def post(vw, ga=ga, model_given=model_given, binned=binned):
                cost = "gauss_approximation" if ga in ("None+errors", "True") or ga.startswith("None+only:") else "poisson"          # ANY one uncertainty keyword is enough
                e_or_none = (lambda n_: "None") if ga == "None+no-errors" else (lambda n_: n_ if n_ == ga.split(":")[1] else "None") if ga.startswith("None+only:") else (lambda n_: n_)
                exp = [("HistContainer", ("n_bins", "bin_range", "bin_edges", "data"), {}), ("HistFit", ("HistContainer",) + (("model_function",) if model_given else ()), {"cost_function": cost, "density": "density"})]
                if binned:
                    exp = [("HistFit", ("data",) + (("model_function",) if model_given else ()), {"cost_function": cost, "density": "density"})]
                exp += [(t_, tuple(e_or_none(x) if x in ("error", "error_cor", "error_rel", "error_cor_rel") else x for x in a_), k_) for t_, a_, k_ in gen4("HistFit")]
                exp.append(("run", ("HistFit",) + tuple(common), {}))
                return [("raw data are binned as specified - HistContainer(n_bins, bin_range, bin_edges, data) -, data that come binned (no binning argument) reach HistFit as they are; Gaussian approximation iff asked for or (not said and any uncertainty given), Poisson otherwise; keywords forwarded as for indexed_fit",
                         z3.BoolVal([(a_, tuple("HistContainer" if (isinstance(x, str) and x == "HistContainer") else x for x in b_), c_) for a_, b_, c_ in top(vw.post)] == exp))]
            c.ensures.append(post)

            def init(e, st, me_, ga=ga, model_given=model_given, binned=binned):
                a = {n_: K(n_) for n_ in ["data", "n_bins", "bin_range", "bin_edges", "p0", "dp0", "error", "error_rel", "error_cor", "error_cor_rel", "errors_rel_to_model", "density", "limits", "fixed", "constraints", "report", "profile", "save"]}
                a["model_function"] = K("model_function") if model_given else VNone()
                a["gauss_approximation"] = VNone() if ga.startswith("None") else VBool(z3.BoolVal(ga == "True"))
                if binned:
                    for n_ in ("n_bins", "bin_range", "bin_edges"):
                        a[n_] = VNone()
                if ga == "None+no-errors":
                    for n_ in ("error", "error_rel", "error_cor", "error_cor_rel"):
                        a[n_] = VNone()
                if ga.startswith("None+only:"):
                    for n_ in ERRKW:
                        if n_ != ga.split(":")[1]:
                            a[n_] = VNone()
                return a
            eng.verify(WRAP, "hist_fit", None, init, contract=c, tag=f"[gauss_approximation={ga},model={'given' if model_given else 'default'}{',data already binned' if binned else ''}]")
    # k2Fit (legacy front end): every one of its arguments that describes the fit reaches xy_fit under the right keyword - in particular the reference of the relative uncertainties
    from . import c03 as _c03
    K2 = {"p0": "p0", "dp0": "dp0", "x_error": "sx", "y_error": "sy", "x_error_rel": "srelx", "y_error_rel": "srely", "x_error_cor": "xabscor", "y_error_cor": "yabscor", "x_error_cor_rel": "xrelcor", "y_error_cor_rel": "yrelcor",
          "errors_rel_to_model": "ref_to_model", "limits": "limits", "constraints": "constraints"}

    def lib_xy_fit(e, st, a, kw, n):
        push(st, ("xy_fit", tuple(name_of(x) for x in a), {k_: name_of(v) for k_, v in kw.items()}))
        return VOpaque("results")
    eng.lib["xy_fit"] = lib_xy_fit
    eng.consts = dict(getattr(eng, "consts", {}) or {})
    eng.consts["_fit_history"] = VTuple([VDict({"fit": _c03.Part("last_fit")})])
    c = Contract(WRAP, "k2Fit")

    def post_k2(vw):
        calls = [t for t in top(vw.post) if t[0] == "xy_fit"]
        if vw.flow == "raise" or len(calls) != 1:
            return [("exactly one xy_fit call, no exception", z3.BoolVal(False))]
        _, a_, kw_ = calls[0]
        return [("model function, x and y are handed on in this order", z3.BoolVal(tuple(a_) == ("func", "x", "y"))),
                ("EVERY argument describing the fit reaches xy_fit under its keyword: the four kinds of uncertainties per axis, the reference of relative uncertainties (errors_rel_to_model = ref_to_model), start values, limits, constraints",
                 z3.BoolVal(all(kw_.get(k_) == v_ for k_, v_ in K2.items())))]
    c.ensures.append(post_k2)
    eng.verify(WRAP, "k2Fit", None, lambda e, st, me_: dict({n_: K(n_) for n_ in ["func", "x", "y"] + sorted(set(K2.values()))}, plot=VBool(z3.BoolVal(False)), quiet=VBool(z3.BoolVal(True)), asym_parerrs=VBool(z3.BoolVal(True))), contract=c)
    for w, cls, ctor_args in (("unbinned_fit", "UnbinnedFit", ("data", "model_function")), ("custom_fit", "CustomFit", ("cost_function",))):
        c = Contract(WRAP, w)
        c.ensures.append(lambda vw, cls=cls, ctor_args=ctor_args: [("the fit is constructed from the arguments and run through the generic pipeline", z3.BoolVal(top(vw.post) == [(cls, ctor_args, {}), ("run", (cls,) + tuple(common), {})]))])
        eng.verify(WRAP, w, None, lambda e, st, me_, ctor_args=ctor_args: {n_: K(n_) for n_ in list(ctor_args) + common}, contract=c)
    return eng



# ------------------------------------------------------------------ (g) YAML shorthand: process_error_sources
CET = "@kafe2/fit/representation/error/common_error_tools.py"


class VPct(V):
    """the string '<p>%' with symbolic p"""

    def __init__(self, p):
        self.p = p

    def vattr(self, e, st, name):
        if name == "endswith":
            return VFn(lambda e_, st_, a, kw: VBool(z3.BoolVal(isinstance(a[0], VStr) and a[0].s == "%")))

    def vsub(self, e, st, n):
        if ast.unparse(n.slice) == ":-1":
            return VDigits(self.p)


class VDigits(V):
    """the decimal text of a number (what float() parses back)"""

    def __init__(self, p):
        self.p = p


class VFn(V):
    def __init__(self, fn):
        self.fn = fn

    def vcall(self, e, st, a, kw):
        return self.fn(e, st, a, kw)


class VMixed(V):
    """list entry that is either a percent string (is_str) or a number"""

    def __init__(self, is_str, pct, num):
        self.is_str, self.pct, self.num = is_str, pct, num

    def real(self):
        return self.num

    def vattr(self, e, st, name):
        if name == "endswith":
            return VFn(lambda e_, st_, a, kw: VBool(z3.BoolVal(True)))         # only reached for strings; every string entry is a percent string (others raise ValueError: not modelled)

    def vsub(self, e, st, n):
        if ast.unparse(n.slice) == ":-1":
            return VDigits(self.pct)


def u_yaml_errors(root):
    """process_error_sources: every shorthand adds the sources its explicit form adds (sizes compared entry by entry, for any number of data points)"""
    eng = engine(root, FILES, {}, [])
    n = z3.Int("size")

    def isinst(e, st, a, kw, node):
        x, spec = a[0], ast.unparse(node.args[1])
        is_str = isinstance(x, (VStr, VPct))
        is_num = isinstance(x, VNum)
        is_list = isinstance(x, (VTuple, VSeq, VSeqOf)) and not isinstance(x, VStr)
        if spec == "XYContainer":
            return VBool(z3.BoolVal(x.name == "xy"))
        if isinstance(x, VMixed):
            if spec == "str":
                return VBool(x.is_str)
            if spec in ("(int, float, str)", "(float, int, str)"):
                return VBool(z3.BoolVal(True))
            if spec == "list":
                return VBool(z3.BoolVal(False))
        table = {"(int, float, str)": is_str or is_num, "(float, int, str)": is_str or is_num, "list": is_list, "dict": isinstance(x, VDict), "str": is_str, "float": is_num}
        if spec not in table:
            raise Unsupported("isinstance " + ast.unparse(node))
        return VBool(z3.BoolVal(table[spec]))
    eng.lib["isinstance"] = isinst
    eng.lib["float"] = lambda e, st, a, kw, node: VNum(a[0].p) if isinstance(a[0], VDigits) else VNum(a[0].real())
    base_mul = eng.binop

    def binop(op, a, b, node=None):
        if isinstance(op, ast.Mult) and isinstance(a, VTuple) and len(a.items) == 1 and isinstance(b, VNum) and not z3.is_int_value(z3.simplify(b.e)):      # [x] * size: a list of `size` copies
            x = a.items[0]
            if isinstance(x, VNum):
                r = VSeq(FnArr(lambda k_: x.real()), b.e)
                r.pylist = True
                return r
            return VSeqOf(lambda q: x, b.e)
        empty = lambda v_: (isinstance(v_, VSeq) and z3.is_int_value(z3.simplify(v_.len)) and z3.simplify(v_.len).as_long() == 0) or (isinstance(v_, VTuple) and not v_.items)
        if isinstance(op, ast.Add) and isinstance(b, (VSeqOf, VSeq)) and empty(a):
            return b
        if isinstance(op, ast.Add) and isinstance(a, (VSeqOf, VSeq)) and empty(b):
            return a
        return base_mul(op, a, b, node)
    eng.binop = binop

    def add_to(e, st, a, kw, node):
        st.ghost = dict(st.ghost)
        st.ghost["added"] = st.ghost.get("added", ()) + ((as_py(a[0]), dict(kw)),)
        return a[1]
    eng.lib["add_error_to_container"] = add_to
    added = lambda st: list(st.ghost.get("added", ()))

    class Cont(VExternal):
        pass

    def container(kind):
        c = Cont(kind, {})
        c.vattr = lambda e, st, name: VNum(n) if name == "size" else None
        return c
    rng = lambda a_: z3.And(0 <= a_, a_ < n)

    def sizes(call, rel_expected, fn, axis):
        kind, kw = call
        ev = kw.get("err_val")
        ok = kind == "simple" and isinstance(ev, VSeq) and as_py(kw.get("relative")) is rel_expected and (("axis" not in kw) if axis is None else as_py(kw.get("axis")) == axis)
        return z3.And(z3.BoolVal(bool(ok)), ev.len == n, z3.ForAll([i], z3.Implies(rng(i), ev.arr[i] == fn(i)))) if ok else z3.BoolVal(False)

    sv, pv = z3.Real("scalar_error"), z3.Real("percent")
    vec = VSeq(z3.Const("error_list", PA), n); vec.pylist = True
    isstr, pct, num = z3.Function("entry_is_percent_string", I, B), z3.Function("entry_percent", I, R), z3.Function("entry_number", I, R)
    mixed = VSeqOf(lambda q: VMixed(isstr(q), pct(q), num(q)), n)
    shorthand = {
        "scalar number": (lambda: VNum(sv), lambda a_: z3.RealVal(0), lambda a_: sv),
        "percent string": (lambda: VPct(pv), lambda a_: z3.Q(1, 100) * pv, lambda a_: z3.RealVal(0)),
        "list of numbers": (lambda: vec, lambda a_: z3.RealVal(0), lambda a_: vec.arr[a_]),
        "mixed list of numbers and percent strings": (lambda: mixed, lambda a_: z3.If(isstr(a_), z3.Q(1, 100) * pct(a_), z3.RealVal(0)), lambda a_: z3.If(isstr(a_), z3.RealVal(0), num(a_))),
    }
    for kind, key, axis in (("xy", "y_errors", 1), ("xy", "x_errors", 0), ("indexed", "errors", None)):
        for name, (mkval, relf, absf) in shorthand.items():
            c = Contract(CET, "process_error_sources")
            c.requires.append(lambda vw: n >= 1)
            c.loops[0] = lambda e, s: z3.BoolVal(True)      # (only reached if the shorthand is NOT recognised as one list: the post then fails)
            c.loops[1] = lambda e, s, relf=relf, absf=absf: z3.And(0 <= s.locals["#i1"].e, s.locals["#i1"].e <= n, s.locals["_rel"].len == n, s.locals["_abs"].len == n,
                                                                  z3.ForAll([j], z3.Implies(rng(j), z3.And(s.locals["_rel"].arr[j] == z3.If(j < s.locals["#i1"].e, 100 * relf(j), z3.RealVal(0)),
                                                                                                           s.locals["_abs"].arr[j] == z3.If(j < s.locals["#i1"].e, absf(j), z3.RealVal(0))))))

            def post(vw, relf=relf, absf=absf, axis=axis):
                ad = added(vw.post)
                if len(ad) != 2:
                    return [("the shorthand adds one relative and one absolute simple source", z3.BoolVal(False))]
                return [("relative part: p/100 where the entry is 'p%', 0 elsewhere (a zero-size relative source when there is none)", sizes(ad[0], True, relf, axis)),
                        ("absolute part: the number where the entry is a number, 0 elsewhere", sizes(ad[1], False, absf, axis))]
            c.ensures.append(post)
            eng.verify(CET, "process_error_sources", None, lambda e, st, me_, kind=kind, key=key, mkval=mkval: {"container_obj": container(kind), "yaml_doc": VDict({key: mkval()})}, contract=c, tag=f"[{kind}.{key}: {name}]")
        # explicit forms: a list of error objects, and ONE error object (not wrapped in a list) mean the same calls
        obj = lambda: VDict({"type": VStr("simple"), "error_value": VNum(z3.Real("ev")), "correlation_coefficient": VNum(z3.Real("rho")), "relative": VBool(z3.Bool("is_rel")), "name": VStr("src")})
        mobj = lambda: VDict({"type": VStr("matrix"), "matrix": VOpaque("M"), "matrix_type": VStr("cor"), "error_value": VOpaque("sizes")})
        for form, mk_doc, exp in (("list of two error objects", lambda: VTuple([obj(), mobj()]), ["simple", "matrix"]), ("one error object", obj, ["simple"]), ("one matrix error object", mobj, ["matrix"]), ("defaults", lambda: VTuple([VDict({"error_value": VNum(z3.Real("ev"))})]), ["simple-defaults"])):
            c = Contract(CET, "process_error_sources")
            c.loops[0] = lambda e, s: z3.BoolVal(True)      # (only reached if the error objects end up in a list of symbolic length: the post then fails)
            c.loops[1] = lambda e, s: z3.BoolVal(True)

            def post(vw, exp=exp, axis=axis):
                ad = added(vw.post)
                ok = len(ad) == len(exp)
                for (kind_, kw), want in zip(ad, exp):
                    ax_ok = (("axis" not in kw) if axis is None else as_py(kw.get("axis")) == axis)
                    if want == "simple":
                        ok = ok and kind_ == "simple" and ax_ok and kw["err_val"].real().eq(z3.Real("ev")) and kw["correlation"].real().eq(z3.Real("rho")) and kw["relative"].e.eq(z3.Bool("is_rel")) and as_py(kw["name"]) == "src"
                    elif want == "simple-defaults":
                        ok = ok and kind_ == "simple" and ax_ok and kw["err_val"].real().eq(z3.Real("ev")) and as_py(kw["correlation"]) == 0 and as_py(kw["relative"]) is False and isinstance(kw["name"], VNone)
                    else:
                        ok = ok and kind_ == "matrix" and ax_ok and isinstance(kw["err_matrix"], VOpaque) and kw["err_matrix"].tag == "M" and as_py(kw["matrix_type"]) == "cor" and kw["err_val"].tag == "sizes" and as_py(kw["relative"]) is False
                return [("exactly the described sources, once each, with the described keywords (type defaults to simple, correlation to 0, relative to False)", z3.BoolVal(bool(ok)))]
            c.ensures.append(post)
            eng.verify(CET, "process_error_sources", None, lambda e, st, me_, kind=kind, key=key, mk_doc=mk_doc: {"container_obj": container(kind), "yaml_doc": VDict({key: mk_doc()})}, contract=c, tag=f"[{kind}.{key}: {form}]")
    return eng



# explicit-form namespaces per fit type: which reader consumes which key (DataContainerYamlReader / ParametricModelYamlReader._convert_yaml_doc_to_object)
EXPLICIT_FORM = {
    "XYFit": {"dataset": {"x_data", "y_data", "x_errors", "y_errors", "label", "x_label", "y_label"},
              "parametric_model": {"x_data", "model_function", "model_function_name", "latex_model_function_name", "model_parameters", "arg_formatters", "model_function_formatter", "expression_string", "latex_expression_string", "model_label"}},
    "IndexedFit": {"dataset": {"data", "errors", "label", "x_label", "y_label"},
                   "parametric_model": {"model_function", "model_function_name", "latex_model_function_name", "index_name", "latex_index_name", "model_parameters", "arg_formatters", "model_function_formatter", "expression_string", "latex_expression_string", "model_label"}},
    "HistFit": {"dataset": {"n_bins", "bin_range", "bin_edges", "raw_data", "errors", "label", "x_label", "y_label"},
                "parametric_model": {"n_bins", "bin_range", "bin_edges", "model_density_function", "model_density_function_name", "latex_model_density_function_name", "model_parameters", "arg_formatters", "model_function_formatter", "expression_string", "latex_expression_string", "model_label"}},
    "UnbinnedFit": {"dataset": {"data", "label", "x_label", "y_label"},
                    "parametric_model": {"data", "model_function", "model_function_name", "latex_model_function_name", "model_parameters", "arg_formatters", "model_function_formatter", "expression_string", "latex_expression_string", "model_label"}},
    "CustomFit": {"dataset": {"label", "x_label", "y_label"}, "parametric_model": {"model_parameters", "arg_formatters", "model_function_formatter", "expression_string", "latex_expression_string", "model_label"}},
}


def u_yaml_toplevel(root):
    """top-level keys of a fit document are moved into the namespaces of the explicit form"""
    eng = engine(root, FILES + ["kafe2/fit/representation/fit/yaml_drepr.py", "kafe2/fit/representation/_yaml_base.py"], {}, [])
    for cls in EXPLICIT_FORM:
        eng.lib["class:" + cls] = lambda e, st, a, kw, n: VNone()
    eng.consts = {c_: VLib("class:" + c_) for c_ in EXPLICIT_FORM}
    for cls, spaces in EXPLICIT_FORM.items():
        c = Contract("FitYamlReader", "_get_subspace_override_dict")

        def post(vw, cls=cls, spaces=spaces):
            r = vw.result
            if not isinstance(r, VDict):
                return [("a table", z3.BoolVal(False))]
            got = {}
            for key, tgt in r.d.items():
                got[key] = set([as_py(x) for x in tgt.items] if isinstance(tgt, VTuple) else [as_py(tgt)])
            want = {}
            for ns, keys in spaces.items():
                for k_ in keys:
                    want.setdefault(k_, set()).add(ns)
            return [("every shorthand key goes to exactly the namespaces whose reader consumes it in the explicit form", z3.BoolVal(got == want))]
        c.ensures.append(post)
        eng.verify("FitYamlReader", "_get_subspace_override_dict", None, lambda e, st, me_, cls=cls: {"cls": VLib("class:FitYamlReader"), "fit_class": VLib("class:" + cls)}, contract=c, tag=f"[{cls}]")
    # the mechanism that applies a table: a present (truthy) top-level value is moved into EVERY listed namespace (created when missing), existing namespace content is kept
    table = VDict({"k_one": VStr("ns_a"), "k_two": VTuple([VStr("ns_a"), VStr("ns_b")]), "k_absent": VStr("ns_b")})
    mk(eng, "YamlReaderMixin", "_type_required", result=lambda vw: VBool(z3.BoolVal(False)))
    mk(eng, "YamlReaderMixin", "_modify_yaml_doc", result=lambda vw: vw.args["yaml_doc"])
    mk(eng, "YamlReaderMixin", "_get_subspace_override_dict", result=lambda vw: table)
    mk(eng, "YamlReaderMixin", "_get_required_keywords", result=lambda vw: VTuple([]))
    v1, v2, keep = VStr("value-1"), VStr("value-2"), VStr("kept")
    c = Contract("YamlReaderMixin", "_check_required_keywords_and_override_subspaces")

    def post(vw):
        r = vw.result
        ok = isinstance(r, VDict) and set(r.d) == {"ns_a", "ns_b", "other"} and isinstance(r.d["ns_a"], VDict) and isinstance(r.d["ns_b"], VDict)
        ok = ok and r.d["ns_a"].d.get("k_one") is v1 and r.d["ns_a"].d.get("k_two") is v2 and r.d["ns_a"].d.get("present") is keep and set(r.d["ns_a"].d) == {"k_one", "k_two", "present"}
        ok = ok and r.d["ns_b"].d.get("k_two") is v2 and set(r.d["ns_b"].d) == {"k_two"} and r.d["other"] is keep
        return [("moved into every listed namespace, removed from the top level, other content untouched", z3.BoolVal(bool(ok)))]
    c.ensures.append(post)
    eng.truth_hook = None
    eng.verify("YamlReaderMixin", "_check_required_keywords_and_override_subspaces", None,
               lambda e, st, me_: {"cls": VRef(z3.Const("cls", Ref), "YamlReaderMixin"), "yaml_doc": VDict({"k_one": v1, "k_two": v2, "ns_a": VDict({"present": keep}), "other": keep}), "default_type": VStr("xy"), "modify_kwargs": VNone()}, contract=c)
    return eng


def u_model_names(root):
    """a model given by its library name is the library function itself"""
    eng = engine(root, FILES + ["kafe2/fit/_base/model.py"], {}, [])
    import ast as _ast
    path = "kafe2/fit/util/function_library.py"
    tree = eng.repo.files[path][1] if isinstance(eng.repo.files[path], tuple) and len(eng.repo.files[path]) > 1 else _ast.parse(eng.repo.files[path][0])
    table = None
    for stmt in tree.body:
        if isinstance(stmt, _ast.Assign) and any(isinstance(t, _ast.Name) and t.id == "STRING_TO_FUNCTION" for t in stmt.targets):
            table = {k_.value: _ast.unparse(v) for k_, v in zip(stmt.value.keys, stmt.value.values)}
    defs = {f.name: f for f in tree.body if isinstance(f, _ast.FunctionDef)}
    alias = {t.id: _ast.unparse(stmt.value) for stmt in tree.body if isinstance(stmt, _ast.Assign) and isinstance(stmt.value, _ast.Name) for t in stmt.targets if isinstance(t, _ast.Name)}
    want = {"line": "linear_model", "linear": "linear_model", "linear_model": "linear_model", "quadratic": "quadratic_model", "quadratic_model": "quadratic_model", "cubic": "cubic_model", "cubic_model": "cubic_model",
            "exp": "exponential_model", "exponential": "exponential_model", "exponential_model": "exponential_model", "normal": "normal_distribution", "normal_distribution": "normal_distribution", "normal_distribution_pdf": "normal_distribution"}
    resolved = {k_: alias.get(v, v) for k_, v in (table or {}).items()}
    eng.lemma("library names resolve to the functions they name (table read from the real source)", [], z3.BoolVal(resolved == want and all(v in defs for v in want.values())))
    # the bodies are what their names say (verified from the real source for all x and parameters)
    UTILF = "@" + path
    x, a_, b_, c_, d_ = z3.Reals("x a b c d")
    specs = {"linear_model": (["x", "a", "b"], lambda v: v["a"] * v["x"] + v["b"]), "quadratic_model": (["x", "a", "b", "c"], lambda v: v["a"] * v["x"] * v["x"] + v["b"] * v["x"] + v["c"]),
             "cubic_model": (["x", "a", "b", "c", "d"], lambda v: v["a"] * v["x"] * v["x"] * v["x"] + v["b"] * v["x"] * v["x"] + v["c"] * v["x"] + v["d"])}
    for fn, (names, f) in specs.items():
        vals = {n_: z3.Real(n_) for n_ in names}
        cc = Contract(UTILF, fn)
        cc.ensures.append(lambda vw, f=f, vals=vals: [("the polynomial its name says", vw.result.real() == f(vals))])
        eng.verify(UTILF, fn, None, lambda e, st, me_, vals=vals: {n_: VNum(t) for n_, t in vals.items()}, contract=cc)
    return eng


def units(root):
    return [Unit("SimpleGaussianError._calculate_cov_mat_generic (shared with C02)", c02.u_generic), Unit("SimpleGaussianError caches (shared with C02)", c02.u_source),
            Unit("MatrixGaussianError helpers", u_matrix_helpers), Unit("MatrixGaussianError getters", u_matrix_getters), Unit("MatrixGaussianError.__init__", u_matrix_init), Unit("source equivalence lemmas", u_source_lemmas), Unit("parameter constraint forms", u_constraint_forms), Unit("GaussianMatrixParameterConstraint.__init__", u_constraint_init), Unit("scalar broadcasting", u_broadcast), Unit("wrapper error keywords", u_wrapper_errors), Unit("_fit_wrapper_generic", u_wrapper_generic), Unit("wrapper functions: construction and forwarding", u_wrapper_toplevel), Unit("YAML error shorthand", u_yaml_errors), Unit("YAML top-level keys", u_yaml_toplevel), Unit("model library names", u_model_names)]
