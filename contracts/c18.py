"""C18 - A plot draws exactly the fit's numbers.

The drawing itself is matplotlib's (external, trusted: errorbar / plot / fill_between / bar draw the coordinates they are handed).  What
kafe2 owns - and what is decided here on the real source - is WHAT it hands over: every plot method of the adapters is executed
symbolically against an abstract axes object that records its calls, with an abstract fit whose observables are uninterpreted arrays;
the postcondition of each method is a statement about the recorded call:

  data            errorbar(x_data, y_data, xerr = total x uncertainty, yerr[k] = sqrt(total_y[k]^2 + ga(y[k])^2))      (None iff all are 0)
  histogram data  errorbar(bin centres, counts, xerr = half bin widths, yerr as above)
  model line      plot(X, f(X)),  X = linspace / geomspace(x_range, n_plot_points)
  band            fill_between(X, f(X) - band(X), f(X) + band(X))        (ratio: 1 -+ band/f, residual: -+ band)
  ratio / residual / pull    data/model, data - model, (data - model)/sigma with sigma the same total uncertainty, error bars sigma/model resp. sigma
  legend          one line per parameter formatter with (name, value, errors iff errors are valid, asymmetric iff asked), the goodness-of-fit line from the
                  cost formatter with the fit's gof and ndf, AFTER the formatters were refreshed from the fit (content of the formatters: C17)

ga(.) is the square-root-of-counts term: the three real get_uncertainty_gaussian_approximation bodies are verified to be 0 or sqrt(data) pointwise.
"""
import ast
import z3
from .base import *

FILES = ["kafe2/fit/_base/plot.py", "kafe2/fit/xy/plot.py", "kafe2/fit/indexed/plot.py", "kafe2/fit/histogram/plot.py", "kafe2/fit/unbinned/plot.py", "kafe2/fit/_base/cost.py"]
META = {
    "level": "proof",
    "trusted_base": [
        "matplotlib Axes.errorbar / plot / fill_between / bar / hlines draw exactly the coordinate arrays they are handed (external; the native side inspects the artists)",
        "numpy elementwise arithmetic on equal-length arrays, np.sqrt (uninterpreted, sqrt(x)^2 = x), np.where, np.abs, np.all, np.zeros_like, np.arange; np.linspace / np.geomspace uninterpreted (only their arguments are pinned)",
        "the fit object behind the adapter is abstract: each observable is an uninterpreted array (their correctness: C01, C02, C07, C12)",
        "the parameter / cost formatters are abstract here: get_formatted is an injective token of its keyword arguments (their text: C17)",
    ],
    "assumptions": ["real arithmetic for floating point", "arrays handed to one plot call have the fit's data length (precondition; C10 decides shape agreement)"],
    "bounded": [{"what": "artists of real figures (Agg): data markers, error-bar segments, model line, band polygon, panels, legend numbers; single fits, two fits, multi-fit; linear / log x",
                 "bound": "native: 4 fit types x uncertainty configurations x {plain, ratio, residual, pull} + asymmetric legends; see native/c18.py"}],
}
i, j, k, q = z3.Ints("i j k q")
PA = arr(I, R)
usqrt = z3.Function("uf_sqrt", R, R)
x_ = z3.Real("x_")
SQRT_AX = [z3.ForAll([x_], z3.Implies(x_ >= 0, z3.And(usqrt(x_) >= 0, usqrt(x_) * usqrt(x_) == x_)), patterns=[usqrt(x_)]), usqrt(0) == 0]
N = z3.Int("n_points")
f_model = z3.Function("model_function", R, R)
f_band = z3.Function("error_band_at", R, R)
f_dens = z3.Function("model_density", R, R)
space = {"linear": z3.Function("linspace", R, R, I, PA), "log": z3.Function("geomspace", R, R, I, PA)}


class Fn(V):
    def __init__(self, fn):
        self.fn = fn

    def vcall(self, e, st, a, kw):
        return self.fn(e, st, a, kw)


def fitarr(name):
    return VSeq(z3.Const("fit." + name, PA), N)


class Cost(V):
    """the fit's cost function: only the square-root-of-counts term matters"""

    def __init__(self, poisson):
        self.poisson = poisson

    def vattr(self, e, st, name):
        if name == "get_uncertainty_gaussian_approximation":
            return Fn(lambda e_, st_, a, kw: VSeq(FnArr(lambda k_: usqrt(a[0].arr[k_])), a[0].len) if self.poisson else VNum(z3.IntVal(0)))
        if name in ("needs_errors", "is_chi2", "saturated"):
            return VBool(z3.Bool("cost." + name))
        if name == "formatter":
            return Formatter(self.who)


class Container(V):
    def vattr(self, e, st, name):
        if name in ("bin_centers", "bin_widths"):
            return fitarr("data_container." + name)
        if name in ("low", "high"):
            return VNum(z3.Real("data_container." + name))
        if name in ("size", "n_entries"):
            return VNum(z3.Int("data_container." + name))


class Formatter(V):
    """get_formatted(**kw) -> the token '[who|k=v|...]' (concrete keyword values; symbolic ones by name)"""

    def __init__(self, who):
        self.who = who

    def vattr(self, e, st, name):
        if name == "get_formatted":
            def call(e_, st_, a, kw):
                st_.ghost = dict(st_.ghost)
                st_.ghost["trace"] = st_.ghost.get("trace", ()) + (("format", self.who),)
                return VStr("[" + self.who + "".join("|%s=%s" % (k_, show(v_)) for k_, v_ in sorted(kw.items())) + "]")
            return Fn(call)
        if name == "par_formatters":
            return VTuple([Formatter("par0"), Formatter("par1")])


def show(v):
    if isinstance(v, VBool):
        return "True" if z3.is_true(z3.simplify(v.e)) else "False" if z3.is_false(z3.simplify(v.e)) else str(v.e)
    if isinstance(v, VNum):
        return str(z3.simplify(v.e))
    if isinstance(v, VOptNum):
        return str(v.e)
    if isinstance(v, VStr):
        return v.s
    return type(v).__name__


class Fit(V):
    """abstract fit: observables are uninterpreted arrays / numbers named after the attribute read"""
    ARRAYS = ("x_data", "y_data", "x_total_error", "y_total_error", "x_model", "y_model", "x_model_error", "y_model_error", "data", "model", "total_error")

    def __init__(self, poisson=False, flags=None):
        self.poisson, self.flags = poisson, flags or {}

    def vattr(self, e, st, name):
        if name in self.ARRAYS:
            return fitarr(name)
        if name == "_cost_function":
            return Cost(self.poisson)
        if name in ("data_container", "_param_model"):
            return Container()
        if name == "data_size":
            return VNum(N)
        if name in ("has_errors", "errors_valid", "did_fit", "density"):
            return self.flags[name] if name in self.flags else VBool(z3.Bool("fit." + name))
        if name == "eval_model_function":
            return Fn(lambda e_, st_, a, kw: VSeq(FnArr(lambda k_: f_model(kw["x"].arr[k_])), kw["x"].len))
        if name == "eval_model_function_density":
            return Fn(lambda e_, st_, a, kw: VSeq(FnArr(lambda k_: f_dens(kw["x"].arr[k_])), kw["x"].len))
        if name == "error_band":
            return Fn(lambda e_, st_, a, kw: VSeq(FnArr(lambda k_: f_band(a[0].arr[k_])), a[0].len))
        if name == "ndf":
            return VNum(z3.Int("fit.ndf"))
        if name == "cost_function_value":
            return VNum(z3.Real("fit.cost_function_value"))
        if name == "chi2_probability":
            return VNum(z3.Real("fit.chi2_probability"))
        if name == "goodness_of_fit":
            return self.flags.get("gof", VNum(z3.Real("fit.goodness_of_fit")))
        if name == "_update_parameter_formatters":
            def upd(e_, st_, a, kw):
                st_.ghost = dict(st_.ghost)
                st_.ghost["trace"] = st_.ghost.get("trace", ()) + (("refresh", show(kw.get("update_asymmetric_errors", VBool(z3.BoolVal(False))))),)
                return VNone()
            return Fn(upd)


SCHEMA = {"PlotAdapterBase": {"_fit": PYOBJ, "_x_range": PYOBJ, "_x_scale": PYOBJ, "_from_container": BOOL, "n_plot_points": NUM}}


def base_engine(root, axioms=()):
    eng = engine(root, FILES, SCHEMA, SQRT_AX + list(axioms))
    eng.consts = {"np": VLib("np"), "numpy": VLib("np")}
    eng.lib["np.zeros_like"] = lambda e, st, a, kw, node: VSeq(FnArr(lambda k_: z3.RealVal(0)), a[0].len)
    eng.lib["np.sqrt"] = lambda e, st, a, kw, node: VSeq(FnArr(lambda k_: usqrt(a[0].arr[k_])), a[0].len) if isinstance(a[0], VSeq) else VNum(usqrt(e.num(a[0], st).real()))
    eng.lib["np.all"] = lambda e, st, a, kw, node: a[0] if isinstance(a[0], VBool) else e.bool_reduce(a[0], "all")
    eng.lib["np.arange"] = lambda e, st, a, kw, node: VSeq(FnArr(lambda k_: z3.ToReal(k_)), a[0].e)
    eng.lib["np.sum"] = lambda e, st, a, kw, node: VNum(fresh("sum_of_an_array", R))          # some number determined by the array: nothing else is known about it (not, e.g., that it is the number of all entries)
    eng.lib["np.abs"] = lambda e, st, a, kw, node: VSeq(FnArr(lambda k_: z3.If(a[0].arr[k_] >= 0, a[0].arr[k_], -a[0].arr[k_])), a[0].len)
    for scale, key in (("linear", "np.linspace"), ("log", "np.geomspace")):
        eng.lib[key] = lambda e, st, a, kw, node, scale=scale: VSeq(space[scale](a[0].real(), a[1].real(), a[2].e if a[2].is_int else z3.ToInt(a[2].e)), a[2].e if a[2].is_int else z3.ToInt(a[2].e))
    return eng


def setup(eng, cls, poisson, x_scale="linear", flags=None, extra=None):
    def init(e, st, me_):
        e.write_field(st, me_, "_fit", Fit(poisson, flags))
        e.write_field(st, me_, "_x_range", VTuple([VNum(z3.Real("x_min")), VNum(z3.Real("x_max"))]))
        e.write_field(st, me_, "_x_scale", VStr(x_scale))
        st.assume(N >= 1)
        out = {"target_axes": VExternal("axes", {})}
        out.update(extra(e, st, me_) if extra else {})
        return out
    return init


def calls_of(vw, name=None):
    return [c for c in vw.post.ghost.get("ext_calls", ()) if c[0] == "axes" and (name is None or c[1] == name)]


def seq_eq(a, b, n=N):
    """elementwise equality of two array values over 0..n-1 (None-ness must be handled by the caller)"""
    if not isinstance(a, VSeq) or not isinstance(b, VSeq):
        return z3.BoolVal(False)
    return z3.And(a.len == b.len, z3.ForAll([i], z3.Implies(z3.And(0 <= i, i < n), a.arr[i] == b.arr[i])))


def sq(t):
    return t * t


# ------------------------------------------------------------------ square-root-of-counts term
def u_ga(root):
    eng = base_engine(root)
    eng.schema["CostFunction"] = {"_cost_function_handle": PYOBJ}
    data = VSeq.fresh("data")
    for cls, spec in (("CostFunction", "zero"), ("CostFunction_Chi2", "zero"), ("CostFunction_GaussApproximation", "sqrt")):
        c = Contract(cls, "get_uncertainty_gaussian_approximation")
        c.ensures.append(lambda vw, spec=spec: [("0 (no counting statistics)", z3.And(isinstance(vw.result, VNum), vw.result.real() == 0) if isinstance(vw.result, VNum) else z3.BoolVal(False))] if spec == "zero" else
                         [("sqrt(data) pointwise", seq_eq(vw.result, VSeq(FnArr(lambda k_: usqrt(data.arr[k_])), data.len), data.len))])
        eng.verify(cls, "get_uncertainty_gaussian_approximation", None, lambda e, st, me_: {"data": data}, contract=c)
    for handle in ("nll_poisson", "nllr_poisson", "nll_gaussian", "nllr_gaussian", "nll", "nllr"):
        c = Contract("CostFunction_NegLogLikelihood", "get_uncertainty_gaussian_approximation")
        poisson = "poisson" in handle
        c.ensures.append(lambda vw, poisson=poisson: [("sqrt(data) pointwise iff the likelihood is Poisson", seq_eq(vw.result, VSeq(FnArr(lambda k_: usqrt(data.arr[k_])), data.len), data.len) if poisson else
                                                      (vw.result.real() == 0 if isinstance(vw.result, VNum) else z3.BoolVal(False)))])

        def init(e, st, me_, handle=handle):
            e.write_field(st, me_, "_cost_function_handle", VBound(me_, handle))
            return {"data": data}
        eng.verify("CostFunction_NegLogLikelihood", "get_uncertainty_gaussian_approximation", None, init, contract=c, tag=f"({handle})")
    return eng


# ------------------------------------------------------------------ total uncertainty used by the panels and the xy data
GETTERS = {
    "XYPlotAdapter": {"data_x": "x_data", "data_y": "y_data", "data_xerr": "x_total_error", "data_yerr": "y_total_error", "model_x": "x_model", "model_y": "y_model", "model_xerr": "x_model_error", "model_yerr": "y_model_error"},
    "IndexedPlotAdapter": {"data_x": "#arange", "data_y": "data", "data_xerr": None, "data_yerr": "total_error", "model_x": "#arange", "model_y": "model", "model_xerr": 0.5, "model_yerr": None},
    "HistPlotAdapter": {"data_x": "data_container.bin_centers", "data_y": "data", "data_xerr": "#half:data_container.bin_widths", "data_yerr": "total_error", "model_x": "data_container.bin_centers", "model_y": "model",
                        "model_xerr": "#half:data_container.bin_widths", "model_yerr": None},
}


def spec_value(cls, getter):
    s = GETTERS[cls][getter]
    if s is None:
        return VNone()
    if s == "#arange":
        return VSeq(FnArr(lambda k_: z3.ToReal(k_)), N)
    if isinstance(s, float):
        return VNum(z3.RealVal(s))
    if s.startswith("#half:"):
        b = fitarr(s[6:])
        return VSeq(FnArr(lambda k_: b.arr[k_] * z3.RealVal("1/2")), N)
    return fitarr(s)


def same(a, b):
    if isinstance(b, VNone):
        return z3.BoolVal(isinstance(a, VNone))
    if isinstance(b, VNum):
        return a.real() == b.real() if isinstance(a, VNum) else z3.BoolVal(False)
    return seq_eq(a, b)


def total_spec(cls, contributions, poisson):
    """sqrt(sum over contributions of yerr^2 + ga(y)^2), pointwise"""
    def at(k_):
        s = z3.RealVal(0)
        for c in contributions:
            s = s + sq(spec_value(cls, c + "_yerr").arr[k_])
            if poisson:
                s = s + sq(usqrt(spec_value(cls, c + "_y").arr[k_]))
        return usqrt(s)
    return VSeq(FnArr(at), N)


def all_zero(seq):
    return z3.ForAll([q], z3.Implies(z3.And(0 <= q, q < N), seq.arr[q] == 0))


def inline_getters(eng):
    for cls in GETTERS:
        inline(eng, cls, *GETTERS[cls])
    inline(eng, "PlotAdapterBase", "x_range", "x_scale")
    inline(eng, "XYPlotAdapter", "model_line_x", "model_line_y", "y_error_band")
    inline(eng, "HistPlotAdapter", "model_density_x", "model_density_y")


def u_getters(root):
    eng = base_engine(root)
    for cls in GETTERS:
        for g in GETTERS[cls]:
            c = Contract(cls, g, "getter")
            c.ensures.append(lambda vw, cls=cls, g=g: [(f"{g} is the fit's {GETTERS[cls][g]}", same(vw.result, spec_value(cls, g)))])
            eng.verify(cls, g, "getter", setup(eng, cls, False), contract=c)
    return eng


def u_total_error(root):
    eng = base_engine(root)
    inline_getters(eng)
    for cls, contribs in (("XYPlotAdapter", (("data",), ("model",), ("data", "model"), ("Data",))), ("IndexedPlotAdapter", (("data",),)), ("HistPlotAdapter", (("data",),))):
        for contributions in contribs:
            for poisson in (False, True):
                c = Contract(cls, "_get_total_error")
                low = tuple(s.lower() for s in contributions)

                def post(vw, cls=cls, low=low, poisson=poisson):
                    if vw.flow == "raise":
                        return [("no exception for 'data' / 'model'", z3.BoolVal(False))]
                    spec = total_spec(cls, low, poisson)
                    if isinstance(vw.result, VNone):
                        return [("None only when EVERY point has zero total uncertainty", all_zero(spec))]
                    return [("an array is returned unless every point has zero total uncertainty", z3.Not(all_zero(spec))),
                            ("sigma[k] = sqrt(sum of yerr[k]^2 + sqrt-of-counts[k]^2 over the contributions)", seq_eq(vw.result, spec))]
                c.ensures.append(post)
                eng.verify(cls, "_get_total_error", None, setup(eng, cls, poisson, extra=lambda e, st, me_, contributions=contributions: {"error_contributions": VTuple([VStr(s) for s in contributions])}),
                           contract=c, tag=f"({'+'.join(contributions)},{'poisson' if poisson else 'gauss'})")
    return eng




# ------------------------------------------------------------------ ratio / residual / pull panels
def drawn(vw, method, n_expected=1):
    cs = calls_of(vw, method)
    return cs, ("exactly %d %s call(s) on the target axes" % (n_expected, method), z3.BoolVal(len(cs) == n_expected and len([c for c in calls_of(vw) if c[1] not in (method, "hlines", "get_ylim")]) == 0))


def kwargs_forwarded(call, extra):
    """the style keywords handed to the plot method reach matplotlib unchanged"""
    return ("style keywords are forwarded unchanged", z3.BoolVal(all(k_ in call[3] and call[3][k_] is v_ for k_, v_ in extra.items())))


STYLE = {"color": VStr("C0"), "label": VStr("data %d"), "zorder": VNum(z3.IntVal(3))}


def u_panels(root):
    eng = base_engine(root)
    inline_getters(eng)
    inline(eng, "PlotAdapterBase", "_get_total_error", kind=None)
    eng.lib["np.where"] = lambda e, st, a, kw, node: VSeq(FnArr(lambda k_: z3.If(a[0].fn(k_), e.num(a[1], st).real() if not isinstance(a[1], VSeq) else a[1].arr[k_], e.num(a[2], st).real() if not isinstance(a[2], VSeq) else a[2].arr[k_])), a[0].len)
    eng.lib["np.array"] = lambda e, st, a, kw, node: a[0]
    eng.ext_results = {"get_ylim": lambda e, st, a, kw: VTuple([VNum(z3.Real("ylim0")), VNum(z3.Real("ylim1"))]), "hlines": lambda e, st, a, kw: VNone()}
    for cls in GETTERS:
        for poisson in (False, True):
            for panel in ("ratio", "residual", "pull"):
                c = Contract(cls, "plot_" + panel)
                c.requires.append(lambda vw, cls=cls: z3.ForAll([q], z3.Implies(z3.And(0 <= q, q < N), spec_value(cls, "model_y").arr[q] != 0)) if True else None)

                def post(vw, cls=cls, poisson=poisson, panel=panel):
                    tot = total_spec(cls, ("data",), poisson)
                    dy, my = spec_value(cls, "data_y"), spec_value(cls, "model_y")
                    if vw.flow == "raise":
                        return [("raises only for a pull without any uncertainty", z3.And(z3.BoolVal(panel == "pull"), all_zero(tot)))]
                    cs, one = drawn(vw, "errorbar")
                    out = [one]
                    if len(cs) != 1:
                        return out
                    _, _, a, kw = cs[0]
                    out.append(kwargs_forwarded(cs[0], {k_: v_ for k_, v_ in STYLE.items()}))
                    out.append(("x coordinates are the data x", same(a[0], spec_value(cls, "data_x")) if len(a) >= 1 else z3.BoolVal(False)))
                    val = {"ratio": lambda k_: dy.arr[k_] / my.arr[k_], "residual": lambda k_: dy.arr[k_] - my.arr[k_], "pull": lambda k_: (dy.arr[k_] - my.arr[k_]) / tot.arr[k_]}[panel]
                    out.append(({"ratio": "y = data / model", "residual": "y = data - model", "pull": "y = (data - model) / sigma"}[panel], seq_eq(a[1], VSeq(FnArr(val), N)) if len(a) >= 2 else z3.BoolVal(False)))
                    ye = kw.get("yerr")
                    if panel == "pull":
                        pull = VSeq(FnArr(val), N)
                        ab = lambda t: z3.If(t >= 0, t, -t)
                        ok = isinstance(ye, VTuple) and len(ye.items) == 2 and all(isinstance(r_, VSeq) for r_ in ye.items)
                        out.append(("the pull is drawn as a bar between 0 and the pull: (lower, upper) extent = (|p|, 0) for p > 0 and (0, |p|) for p < 0",
                                    z3.And(seq_eq(ye.items[0], VSeq(FnArr(lambda k_: z3.If(pull.arr[k_] < 0, 0, ab(pull.arr[k_]))), N)), seq_eq(ye.items[1], VSeq(FnArr(lambda k_: z3.If(pull.arr[k_] > 0, 0, ab(pull.arr[k_]))), N))) if ok else z3.BoolVal(False)))
                        out.append(("no marker on pull bars", z3.BoolVal(isinstance(kw.get("marker"), VNone))))
                        return out
                    out.append(("horizontal bars are the data x uncertainty", same(kw.get("xerr"), spec_value(cls, "data_xerr"))))
                    if isinstance(ye, VNone):
                        out.append(("no vertical bars only when EVERY point has zero total uncertainty", all_zero(tot)))
                    else:
                        out.append(("vertical bars are drawn unless every point has zero total uncertainty", z3.Not(all_zero(tot))))
                        out.append(("vertical bars: sigma / model" if panel == "ratio" else "vertical bars: sigma", seq_eq(ye, VSeq(FnArr(lambda k_: tot.arr[k_] / my.arr[k_] if panel == "ratio" else tot.arr[k_]), N))))
                    return out
                c.ensures.append(post)
                eng.verify(cls, "plot_" + panel, None, setup(eng, cls, poisson, extra=lambda e, st, me_: {"kwargs": VDict(dict(STYLE))}), contract=c, tag=f"({'poisson' if poisson else 'gauss'})")
    return eng



# ------------------------------------------------------------------ main panel: xy
def x_support(scale):
    return VSeq(space[scale](z3.Real("x_min"), z3.Real("x_max"), z3.Int("n_plot_points")), z3.Int("n_plot_points"))


def with_points(e, st, me_):
    e.write_field(st, me_, "n_plot_points", VNum(z3.Int("n_plot_points")))
    st.assume(z3.Int("n_plot_points") >= 2)
    return {"kwargs": VDict(dict(STYLE))}


def u_xy_main(root):
    eng = base_engine(root)
    inline_getters(eng)
    inline(eng, "PlotAdapterBase", "_get_total_error", kind=None)
    pt = lambda fn, xs: VSeq(FnArr(lambda k_: fn(xs.arr[k_])), xs.len)
    M = z3.Int("n_plot_points")

    def eq_m(a, b):
        return seq_eq(a, b, M)
    for poisson in (False, True):
        for method, xs, ys, es in (("plot_data", "data_x", "data_y", "data"), ("plot_model", "model_x", "model_y", "model")):
            c = Contract("XYPlotAdapter", method)

            def post(vw, poisson=poisson, xs=xs, ys=ys, es=es):
                tot = total_spec("XYPlotAdapter", (es,), poisson)
                cs, one = drawn(vw, "errorbar")
                out = [one]
                if len(cs) != 1 or vw.flow == "raise":
                    return out + [("no exception", z3.BoolVal(vw.flow != "raise"))]
                _, _, a, kw = cs[0]
                out += [kwargs_forwarded(cs[0], STYLE), (f"x = {xs}", same(a[0], spec_value("XYPlotAdapter", xs))), (f"y = {ys}", same(a[1], spec_value("XYPlotAdapter", ys))),
                        ("horizontal bars: total x uncertainty of the data", same(kw.get("xerr"), spec_value("XYPlotAdapter", "data_xerr")))]
                ye = kw.get("yerr")
                if isinstance(ye, VNone):
                    out.append(("no vertical bars only when EVERY point has zero total uncertainty", all_zero(tot)))
                else:
                    out += [("vertical bars are drawn unless every point has zero total uncertainty", z3.Not(all_zero(tot))), ("vertical bars: sqrt(total y uncertainty^2 + sqrt-of-counts^2)", seq_eq(ye, tot))]
                return out
            c.ensures.append(post)
            eng.verify("XYPlotAdapter", method, None, setup(eng, "XYPlotAdapter", poisson, extra=lambda e, st, me_: {"kwargs": VDict(dict(STYLE))}), contract=c, tag=f"({'poisson' if poisson else 'gauss'})")
    for scale in ("linear", "log"):
        X = x_support(scale)
        c = Contract("XYPlotAdapter", "model_line_x", "getter")
        c.ensures.append(lambda vw, X=X, scale=scale: [(f"support points: {'linspace' if scale == 'linear' else 'geomspace'}(x_range, n_plot_points)", eq_m(vw.result, X))])
        eng.verify("XYPlotAdapter", "model_line_x", "getter", setup(eng, "XYPlotAdapter", False, scale, extra=with_points), contract=c, tag=f"({scale})")
        c = Contract("XYPlotAdapter", "plot_model_line")

        def post_line(vw, X=X):
            cs, one = drawn(vw, "plot")
            if len(cs) != 1:
                return [one]
            a = cs[0][2]
            return [one, kwargs_forwarded(cs[0], STYLE), ("x = the support points over the plotted range", eq_m(a[0], X)), ("y = model function at the current parameters at these points", eq_m(a[1], pt(f_model, X)))]
        c.ensures.append(post_line)
        eng.verify("XYPlotAdapter", "plot_model_line", None, setup(eng, "XYPlotAdapter", False, scale, extra=with_points), contract=c, tag=f"({scale})")
        for method, lo, hi in (("plot_model_error_band", lambda x: f_model(x) - f_band(x), lambda x: f_model(x) + f_band(x)), ("plot_ratio_error_band", lambda x: 1 - f_band(x) / f_model(x), lambda x: 1 + f_band(x) / f_model(x)),
                               ("plot_residual_error_band", lambda x: -f_band(x), lambda x: f_band(x))):
            c = Contract("XYPlotAdapter", method)
            shown = z3.Bool("fit.errors_valid") if method == "plot_model_error_band" else z3.And(z3.Bool("fit.did_fit"), z3.Or(z3.Bool("fit.has_errors"), z3.Not(z3.Bool("cost.needs_errors"))))

            def post_band(vw, X=X, lo=lo, hi=hi, shown=shown):
                cs = calls_of(vw, "fill_between")
                if isinstance(vw.result, VNone) and not cs:
                    return [("no band only without valid uncertainties", z3.Not(shown))]
                if len(cs) != 1:
                    return [("exactly one fill_between call", z3.BoolVal(False))]
                a = cs[0][2]
                return [("a band is drawn only with valid uncertainties", shown), kwargs_forwarded(cs[0], STYLE), ("x = the support points", eq_m(a[0], X)),
                        ("lower edge = model - propagated parameter uncertainty (ratio: 1 - band/model, residual: -band)", eq_m(a[1], pt(lo, X))),
                        ("upper edge = model + propagated parameter uncertainty (ratio: 1 + band/model, residual: +band)", eq_m(a[2], pt(hi, X)))]
            c.ensures.append(post_band)
            eng.verify("XYPlotAdapter", method, None, setup(eng, "XYPlotAdapter", False, scale, extra=with_points), contract=c, tag=f"({scale})")
    return eng


# ------------------------------------------------------------------ main panel: histogram and indexed
def u_hist_indexed_main(root):
    eng = base_engine(root)
    inline_getters(eng)
    eng.consts["mpl"] = Mpl()
    M = z3.Int("n_plot_points")
    for cls in ("HistPlotAdapter", "IndexedPlotAdapter"):
        for poisson in (False, True):
            for has_errors in ((True, False) if cls == "IndexedPlotAdapter" else (True,)):
                c = Contract(cls, "plot_data")

                def post(vw, cls=cls, poisson=poisson, has_errors=has_errors):
                    counts = VSeq(FnArr(lambda k_: usqrt(spec_value(cls, "data_y").arr[k_]) if poisson else z3.RealVal(0)), N)
                    tot = VSeq(FnArr(lambda k_: usqrt(sq(spec_value(cls, "data_yerr").arr[k_]) + (sq(counts.arr[k_]) if poisson else 0))), N) if has_errors else counts
                    eb, pl = calls_of(vw, "errorbar"), calls_of(vw, "plot")
                    if not has_errors and not eb:
                        return [("plain markers only when no point has any uncertainty", all_zero(tot)), ("exactly one plot call", z3.BoolVal(len(pl) == 1)),
                                ("markers at (index, data)", z3.And(same(pl[0][2][0], spec_value(cls, "data_x")), same(pl[0][2][1], spec_value(cls, "data_y"))) if pl else z3.BoolVal(False))]
                    if len(eb) != 1 or pl:
                        return [("exactly one errorbar call", z3.BoolVal(False))]
                    _, _, a, kw = eb[0]
                    out = [("error bars are drawn as soon as one point has an uncertainty", z3.BoolVal(True) if has_errors else z3.Not(all_zero(tot))), kwargs_forwarded(eb[0], STYLE), ("x = bin centres" if cls == "HistPlotAdapter" else "x = index", same(a[0], spec_value(cls, "data_x"))), ("y = the data", same(a[1], spec_value(cls, "data_y"))),
                           ("vertical bars: sqrt(total uncertainty^2 + sqrt-of-counts^2)", seq_eq(kw.get("yerr"), tot))]
                    if cls == "HistPlotAdapter":
                        out.append(("horizontal bar spans the bin: half the bin width to either side", same(kw.get("xerr"), spec_value(cls, "data_xerr"))))
                    else:
                        out.append(("no horizontal bar", z3.BoolVal(kw.get("xerr") is None or isinstance(kw.get("xerr"), VNone))))
                    return out
                c.ensures.append(post)
                eng.verify(cls, "plot_data", None, setup(eng, cls, poisson, flags={"has_errors": VBool(z3.BoolVal(has_errors))}, extra=lambda e, st, me_: {"kwargs": VDict(dict(STYLE))}), contract=c,
                           tag=f"({'poisson' if poisson else 'gauss'},has_errors={has_errors})")
    # histogram model: bars of the bin contents, density curve
    c = Contract("HistPlotAdapter", "plot_model")

    def post_bar(vw):
        cs, one = drawn(vw, "bar")
        if len(cs) != 1:
            return [one]
        kw = cs[0][3]
        w = spec_value("HistPlotAdapter", "model_xerr")
        return [one, kwargs_forwarded(cs[0], STYLE), ("bars centred at the bin centres", z3.And(same(kw.get("x"), spec_value("HistPlotAdapter", "model_x")), z3.BoolVal(isinstance(kw.get("align"), VStr) and kw["align"].s == "center"))),
                ("bar height = model bin content, from 0", z3.And(same(kw.get("height"), spec_value("HistPlotAdapter", "model_y")), z3.BoolVal(isinstance(kw.get("bottom"), VNone)))),
                ("bar width = bin width x the style's scale factor", seq_eq(kw.get("width"), VSeq(FnArr(lambda k_: w.arr[k_] * 2 * z3.Real("bar_width_scale_factor")), N))),
                ("the scale factor is not forwarded to matplotlib", z3.BoolVal("bar_width_scale_factor" not in kw))]
    c.ensures.append(post_bar)
    eng.verify("HistPlotAdapter", "plot_model", None, setup(eng, "HistPlotAdapter", False, extra=lambda e, st, me_: {"kwargs": VDict(dict(STYLE, bar_width_scale_factor=VNum(z3.Real("bar_width_scale_factor"))))}), contract=c)
    for scale in ("linear", "log"):
        for density in (True, False):
            X = x_support(scale)
            c = Contract("HistPlotAdapter", "plot_model_density")

            def post_density(vw, X=X, density=density):
                cs, one = drawn(vw, "plot")
                if len(cs) != 1:
                    return [one]
                a = cs[0][2]
                width = (z3.Real("data_container.high") - z3.Real("data_container.low")) / z3.ToReal(z3.Int("data_container.size"))
                factor = width * z3.ToReal(z3.Int("data_container.n_entries")) if density else width
                return [one, kwargs_forwarded(cs[0], STYLE), ("x = support points over the bin range", seq_eq(a[0], X, M)),
                        ("y = model density x mean bin width (x number of entries for a density fit): the curve is on the scale of the bin contents", seq_eq(a[1], VSeq(FnArr(lambda k_: factor * f_dens(X.arr[k_])), M), M))]
            c.ensures.append(post_density)
            c.requires.append(lambda vw: z3.Int("data_container.size") >= 1)
            eng.verify("HistPlotAdapter", "plot_model_density", None, setup(eng, "HistPlotAdapter", False, scale, flags={"density": VBool(z3.BoolVal(density))}, extra=with_points), contract=c, tag=f"({scale},density={density})")
    # indexed model: one horizontal step per index
    got = {}

    def sfb(e, st, a, kw, node):
        got["call"] = (a, kw)
        return VOpaque("artist")
    eng.lib["step_fill_between"] = sfb
    c = Contract("IndexedPlotAdapter", "plot_model")

    def post_step(vw):
        if "call" not in got:
            return [("step_fill_between is called", z3.BoolVal(False))]
        a, kw = got["call"]
        flag = lambda key, want: isinstance(kw.get(key), VBool) and z3.is_true(z3.simplify(kw[key].e)) == want
        return [("drawn on the target axes", z3.BoolVal(isinstance(a[0], VExternal))), kwargs_forwarded((None, None, a, kw), STYLE), ("x = index, y = model", z3.And(same(a[1], spec_value("IndexedPlotAdapter", "model_x")), same(a[2], spec_value("IndexedPlotAdapter", "model_y")))),
                ("each step spans index -+ 0.5, central value only (no model uncertainty), separate segments", z3.And(same(kw.get("xerr"), VNum(z3.RealVal("1/2"))), z3.BoolVal(isinstance(kw.get("yerr"), VNone) and flag("draw_central_value", True) and flag("continuous", False))))]
    c.ensures.append(post_step)
    eng.verify("IndexedPlotAdapter", "plot_model", None, setup(eng, "IndexedPlotAdapter", False, extra=lambda e, st, me_: {"kwargs": VDict(dict(STYLE))}), contract=c)
    return eng


class Mpl(V):
    def vattr(self, e, st, name):
        if name == "__version__":
            return VStr("3.8.0")


def u_step_fill(root):
    """the real step_fill_between for the call shape used by the indexed model: segments (x - 0.5, y) -- (x + 0.5, y)"""
    eng = engine(root, ["kafe2/fit/_aux.py"], {}, [])
    eng.consts = {"np": VLib("np")}
    eng.lib["np.array"] = lambda e, st, a, kw, node: a[0]
    eng.lib["deepcopy"] = lambda e, st, a, kw, node: VDict(dict(a[0].d))
    eng.ext_results = {"plot": lambda e, st, a, kw: VTuple([VOpaque("line-artist")])}
    AUX = "@kafe2/fit/_aux.py"
    x, y = fitarr("x"), fitarr("y")
    half = VNum(z3.RealVal("1/2"))
    half.python_number = True
    c = Contract(AUX, "step_fill_between")

    def post(vw):
        cs = [c_ for c_ in vw.post.ghost.get("ext_calls", ()) if c_[0] == "axes"]
        if len(cs) != 1 or cs[0][1] != "plot":
            return [("exactly one plot call (no band without model uncertainty)", z3.BoolVal(False))]
        a, kw = cs[0][2], cs[0][3]
        ok = all(isinstance(v_, VTuple) and len(v_.items) == 2 and all(isinstance(r_, VSeq) for r_ in v_.items) for v_ in a[:2]) and len(a) >= 2
        if not ok:
            return [("plot((x_lo, x_hi), (y, y))", z3.BoolVal(False))]
        return [("segment k starts at x[k] - 1/2 and ends at x[k] + 1/2", z3.And(seq_eq(a[0].items[0], VSeq(FnArr(lambda k_: x.arr[k_] - z3.RealVal("1/2")), N)), seq_eq(a[0].items[1], VSeq(FnArr(lambda k_: x.arr[k_] + z3.RealVal("1/2")), N)))),
                ("both ends of segment k are at height y[k]", z3.And(seq_eq(a[1].items[0], y), seq_eq(a[1].items[1], y))),
                ("style keywords forwarded except the fill-only ones", z3.BoolVal("color" in kw and "edgecolor" not in kw and "alpha" not in kw))]
    c.ensures.append(post)
    eng.verify(AUX, "step_fill_between", None, lambda e, st, me_: (st.assume(N >= 1), {"axes": VExternal("axes", {}), "x": x, "y": y, "xerr": half, "yerr": VNone(), "draw_central_value": VBool(z3.BoolVal(True)), "continuous": VBool(z3.BoolVal(False)),
                                                                   "kwargs": VDict({"color": VStr("C1"), "edgecolor": VStr("k"), "alpha": VNum(z3.RealVal("1/2"))})})[1], contract=c)
    return eng



# ------------------------------------------------------------------ dispatch: plot type -> adapter method on the right axes
def u_dispatch(root):
    eng = base_engine(root)
    for hide in (None, False, True):
        for container_valid in (None, True):
            for from_container in (False, True):
                got = []
                method = Fn(lambda e_, st_, a, kw, got=got: (got.append((a, kw)), VOpaque("artist"))[1])
                mk(eng, "PlotAdapterBase", "_get_subplots", result=lambda vw, method=method: VDict({"data": VDict({"plot_adapter_method": method, "target_axes": VStr("main")}), "model": VDict({"plot_adapter_method": Fn(lambda *a_: VOpaque("other")), "target_axes": VStr("main")})}))
                eng.lib["callable"] = lambda e, st, a, kw, node: VBool(z3.BoolVal(isinstance(a[0], Fn)))
                kwargs = dict(STYLE)
                if hide is not None:
                    kwargs["hide"] = VBool(z3.BoolVal(hide))
                if container_valid is not None:
                    kwargs["container_valid"] = VBool(z3.BoolVal(container_valid))
                c = Contract("PlotAdapterBase", "call_plot_method")

                def post(vw, got=got, hide=hide, container_valid=container_valid, from_container=from_container):
                    skip = bool(hide) or (from_container and not container_valid)
                    if skip:
                        return [("nothing is drawn for a hidden plot type / a model-side plot type of a bare data container", z3.BoolVal(not got and isinstance(vw.result, VNone)))]
                    if len(got) != 1:
                        return [("the registered method of THIS plot type is called exactly once", z3.BoolVal(False))]
                    a, kw = got[0]
                    return [("the registered method of THIS plot type is called exactly once", z3.BoolVal(True)), ("on the target axes handed in", z3.BoolVal(isinstance(kw.get("target_axes"), VExternal) and not a)),
                            ("with the style keywords, without the control keywords hide / container_valid", z3.BoolVal(all(kw.get(k_) is v_ for k_, v_ in STYLE.items()) and "hide" not in kw and "container_valid" not in kw)),
                            ("its artist is returned", z3.BoolVal(isinstance(vw.result, VOpaque) and vw.result.tag == "artist"))]
                c.ensures.append(post)

                def init(e, st, me_, kwargs=kwargs, from_container=from_container):
                    e.write_field(st, me_, "_from_container", VBool(z3.BoolVal(from_container)))
                    return {"plot_type": VStr("data"), "target_axes": VExternal("axes", {}), "kwargs": VDict(dict(kwargs))}
                eng.verify("PlotAdapterBase", "call_plot_method", None, init, contract=c, tag=f"(hide={hide},container_valid={container_valid},from_container={from_container})")
    return eng


# ------------------------------------------------------------------ legend text
def u_fit_info(root):
    eng = base_engine(root)
    eng.schema["Plot"] = {"_multifit": PYOBJ}
    eng.concrete_format = True
    eng.consts["ParameterFormatter"] = Fn(lambda e_, st_, a, kw: Formatter("chi2prob(" + show(a[1]) + ")"))
    eng.consts["textwrap"] = VLib("textwrap")
    import textwrap as _tw
    eng.lib["textwrap.dedent"] = lambda e, st, a, kw, node: VStr(_tw.dedent(a[0].s))
    for asym in (False, True):
        for latex in (True, False):
            for errors_valid in (True, False):
                for gof_none in (False, True):
                    for kind in ("chi2", "saturated", "other"):
                        flags = {"errors_valid": VBool(z3.BoolVal(errors_valid)), "gof": VNone() if gof_none else VNum(z3.Real("fit.goodness_of_fit"))}
                        adapter = Adapter(Fit(False, flags), kind)
                        c = Contract("Plot", "_get_fit_info")

                        def post(vw, asym=asym, latex=latex, errors_valid=errors_valid, gof_none=gof_none, kind=kind):
                            if vw.flow == "raise" or not isinstance(vw.result, VStr):
                                return [("a text is returned", z3.BoolVal(False))]
                            text, trace = vw.result.s, vw.post.ghost.get("trace", ())
                            lines = text.split("\n")
                            pars = ["    [par%d|asymmetric_error=%s|format_as_latex=%s|with_errors=%s|with_name=True|with_value=True]" % (k_, asym, latex, errors_valid) for k_ in range(2)]
                            out = [("the formatters are refreshed from the fit (asymmetric uncertainties iff asked) BEFORE any text is taken from them", z3.BoolVal(len(trace) >= 1 and trace[0] == ("refresh", str(asym)) and all(t_[0] != "refresh" for t_ in trace[1:]))),
                                   ("one line per model parameter, in order: name, value, uncertainties iff they are valid, asymmetric iff asked", z3.BoolVal(lines[1:3] == pars)),
                                   ("first line: the model function", z3.BoolVal(lines[0].startswith("[model_function|")))]
                            quality = lines[3] if len(lines) > 3 else ""
                            if errors_valid and not gof_none:
                                want = "[cost|format_as_latex=%s|n_degrees_of_freedom=fit.ndf|saturated=True|value=fit.goodness_of_fit|with_name=True|with_value_per_ndf=True]" % latex
                                out.append(("quality line: the cost formatter with the fit's goodness of fit and its ndf", z3.BoolVal(want in quality)))
                                if kind == "chi2":
                                    out.append(("chi2 probability line from the fit's chi2_probability", z3.BoolVal(len(lines) > 4 and "[chi2prob(fit.chi2_probability)|format_as_latex=%s|n_significant_digits=3]" % latex in lines[4])))
                                if kind == "other":
                                    out.append(("unsaturated likelihood: the cost value line precedes the goodness-of-fit line", z3.BoolVal("[cost|format_as_latex=%s|value=fit.cost_function_value|with_name=True]" % latex in lines[3] and want in lines[4])))
                                    out.pop(-2)
                            else:
                                out.append(("without valid uncertainties or goodness of fit: the cost value itself", z3.BoolVal("[cost|format_as_latex=%s|value=fit.cost_function_value|with_name=True]" % latex in quality)))
                            return out
                        c.ensures.append(post)

                        def init(e, st, me_, adapter=adapter, asym=asym, latex=latex):
                            e.write_field(st, me_, "_multifit", VNone())
                            return {"plot_adapter": adapter, "format_as_latex": VBool(z3.BoolVal(latex)), "asymmetric_parameter_errors": VBool(z3.BoolVal(asym))}
                        eng.verify("Plot", "_get_fit_info", None, init, contract=c, tag=f"(asym={asym},latex={latex},errors_valid={errors_valid},gof_none={gof_none},{kind})")
    # the multi-fit: each member's text ends with the GLOBAL quality of the multi-fit (its goodness of fit / ndf, chi2 probability, or cost)
    for asym in (False, True):
        for kind in ("chi2", "saturated", "other"):
            for gof_none in (False, True):
                if gof_none and kind == "chi2":
                    continue
                mf = Part2("multifit", {"ndf": VNum(z3.Int("multi.ndf")), "cost_function_value": VNum(z3.Real("multi.cost_function_value")), "goodness_of_fit": VNone() if gof_none else VNum(z3.Real("multi.goodness_of_fit")),
                                        "chi2_probability": VNum(z3.Real("multi.chi2_probability")), "_cost_function": CostKind(kind, "multicost"), "asymmetric_parameter_errors": VOpaque("multi.asymmetric_parameter_errors")})
                adapter = Adapter(Fit(False, {"errors_valid": VBool(z3.BoolVal(True))}), "chi2")
                c = Contract("Plot", "_get_fit_info")

                def post(vw, asym=asym, kind=kind, gof_none=gof_none):
                    if vw.flow == "raise" or not isinstance(vw.result, VStr):
                        return [("a text is returned", z3.BoolVal(False))]
                    text, trace = vw.result.s, vw.post.ghost.get("trace", ())
                    tail = text.split("probability =}$")[-1] if "probability =}$" in text else text
                    glob = [ln for ln in text.split("\n") if "global" in ln]
                    out = [("the MULTI-fit refreshes the formatters (after computing its asymmetric uncertainties if asked), not the member fit", z3.BoolVal(("multi-refresh", str(asym)) in trace and not any(t_[0] == "refresh" for t_ in trace)))]
                    gof_tok = "[multicost|format_as_latex=True|n_degrees_of_freedom=multi.ndf|value=multi.goodness_of_fit|with_name=%s|with_value_per_ndf=True]" % (kind == "chi2")
                    if kind == "chi2":
                        out.append(("global chi2 / ndf and global chi2 probability of the multi-fit follow the member's own lines", z3.BoolVal(len(glob) == 2 and gof_tok in glob[0] and "[chi2prob(multi.chi2_probability)|format_as_latex=True|n_significant_digits=3]" in glob[1])))
                    elif kind == "saturated":
                        out.append(("global cost / ndf of the multi-fit (absent only if it has no goodness of fit)", z3.BoolVal((len(glob) == 1 and gof_tok in glob[0]) if not gof_none else True)))
                    else:
                        cost_tok = "[multicost|format_as_latex=True|value=multi.cost_function_value|with_name=False]"
                        out.append(("global cost of the multi-fit, and its goodness of fit / ndf when it has one", z3.BoolVal(len(glob) == (1 if gof_none else 2) and cost_tok in glob[0] and (gof_none or gof_tok in glob[1]))))
                    return out
                c.ensures.append(post)

                def init(e, st, me_, adapter=adapter, asym=asym, mf=mf):
                    e.write_field(st, me_, "_multifit", mf)
                    return {"plot_adapter": adapter, "format_as_latex": VBool(z3.BoolVal(True)), "asymmetric_parameter_errors": VBool(z3.BoolVal(asym))}
                if not (gof_none and kind == "saturated"):
                    eng.verify("Plot", "_get_fit_info", None, init, contract=c, tag=f"(multi-fit,asym={asym},{kind},gof_none={gof_none})")
    return eng


class Part2(V):
    """the multi-fit seen from Plot._get_fit_info"""

    def __init__(self, name, attrs):
        self.name, self.attrs = name, attrs

    def vattr(self, e, st, name):
        if name == "_update_parameter_formatters":
            def upd(e_, st_, a, kw):
                st_.ghost = dict(st_.ghost)
                st_.ghost["trace"] = st_.ghost.get("trace", ()) + (("multi-refresh", show(kw.get("update_asymmetric_errors", VBool(z3.BoolVal(False))))),)
                return VNone()
            return Fn(upd)
        return self.attrs.get(name)


class Adapter(V):
    """a plot adapter seen from Plot: its fit and its formatters"""

    def __init__(self, fit, kind="chi2", index=0):
        self.fit, self.kind, self.index = fit, kind, index

    def vattr(self, e, st, name):
        if name == "_fit":
            f = self.fit
            kind = self.kind

            class F2(V):
                def vattr(self_, e_, st_, n_):
                    if n_ == "_cost_function":
                        return CostKind(kind)
                    return f.vattr(e_, st_, n_)
            return F2()
        if name == "get_formatted_model_function":
            return Formatter("model_function").vattr(e, st, "get_formatted")
        if name == "model_function_parameter_formatters":
            return VTuple([Formatter("par0"), Formatter("par1")])
        if name == "from_container":
            return VBool(z3.BoolVal(False))


class CostKind(V):
    def __init__(self, kind, who="cost"):
        self.kind, self.who = kind, who

    def vattr(self, e, st, name):
        if name == "is_chi2":
            return VBool(z3.BoolVal(self.kind == "chi2"))
        if name == "saturated":
            return VBool(z3.BoolVal(self.kind in ("chi2", "saturated")))
        if name == "formatter":
            return Formatter(self.who)



# ------------------------------------------------------------------ several fits on one plot: every fit's every plot type reaches its own axes
class PlotAdapter(V):
    """an adapter seen from Plot._plot_and_get_results: registered plot types, style keywords, ranges; call_plot_method records the call"""

    def __init__(self, index, types):
        self.index, self.types = index, types

    def vattr(self, e, st, name):
        if name == "PLOT_SUBPLOT_TYPES":
            return VDict({t: VDict({"target_axes": VStr(ax)}) for t, ax in self.types})
        if name == "_get_subplot_kwargs":
            return Fn(lambda e_, st_, a, kw: VDict({"color": VStr("fit%s-%s" % (show(a[0]), a[1].s)), "zorder": VNum(z3.Int("zorder_%d_%s" % (self.index, a[1].s)))}))
        if name == "call_plot_method":
            def call(e_, st_, a, kw):
                st_.ghost = dict(st_.ghost)
                st_.ghost["trace"] = st_.ghost.get("trace", ()) + ((self.index, a[0].s, kw.get("target_axes"), kw),)
                return VOpaque(("artist", self.index, a[0].s))
            return Fn(call)
        if name in ("x_range", "y_range"):
            return VNone()
        if name == "from_container":
            return VBool(z3.BoolVal(False))
        if name == "_fit":
            return Fit(False, {"did_fit": VBool(z3.BoolVal(True))})


def u_plot_results(root):
    eng = base_engine(root)
    eng.schema["Plot"] = {"_multifit": PYOBJ, "_fits": PYOBJ, "_current_axes": PYOBJ}
    eng.consts["six"] = VLib("six")
    eng.lib["six.iteritems"] = lambda e, st, a, kw, node: VTuple([VTuple([VStr(k_), v_]) for k_, v_ in a[0].d.items()])
    XY = (("data", "main"), ("model", "main"), ("ratio", "ratio"), ("residual", "residual"), ("pull", "pull"), ("model_line", "main"), ("model_error_band", "main"), ("ratio_error_band", "ratio"), ("residual_error_band", "residual"))
    IDX = (("data", "main"), ("model", "main"), ("ratio", "ratio"), ("residual", "residual"), ("pull", "pull"))
    for axes_keys in (("main",), ("main", "ratio"), ("main", "residual"), ("main", "pull")):
        for name, adapters in (("xy", [PlotAdapter(0, XY)]), ("xy+indexed", [PlotAdapter(0, XY), PlotAdapter(1, IDX)]), ("xy+xy+indexed", [PlotAdapter(0, XY), PlotAdapter(1, XY), PlotAdapter(2, IDX)])):
            mk(eng, "Plot", "_get_plot_adapters", result=lambda vw, adapters=adapters: VTuple(list(adapters)))
            mk(eng, "Plot", "_get_axes", result=lambda vw: VExternal("axes:" + vw.args["axes_key"].s, {}))
            c = Contract("Plot", "_plot_and_get_results")

            def post(vw, axes_keys=axes_keys, adapters=adapters):
                trace = vw.post.ghost.get("trace", ())
                want = [(ad.index, t, ax) for ad in adapters for t, ax in ad.types if ax in axes_keys]
                got = [(t_[0], t_[1], t_[2].name[5:] if isinstance(t_[2], VExternal) else None) for t_ in trace]
                out = [("every plot type of every fit whose axes exist is drawn exactly once, on ITS axes, fit by fit; nothing is drawn for absent axes", z3.BoolVal(got == want)),
                       ("each call gets the style keywords resolved for THIS fit index and THIS plot type", z3.BoolVal(all(isinstance(t_[3].get("color"), VStr) and t_[3]["color"].s == "fit%d-%s" % (t_[0], t_[1]) for t_ in trace)))]
                res = vw.result
                ok = isinstance(res, VDict) and set(res.d) == set(axes_keys)
                out.append(("the result lists the axes that were drawn on", z3.BoolVal(ok)))
                if ok:
                    rec = [(p_.d["fit_index"], p_.d["type"].s, p_.d["artist"].tag, p_.d["adapter"].index) for ax in axes_keys for p_ in res.d[ax].d["plots"].items]
                    want_rec = [(ad.index, t, ("artist", ad.index, t), ad.index) for ax in axes_keys for ad in adapters for t, ax2 in ad.types if ax2 == ax]
                    out.append(("each recorded artist carries the index and the adapter of the fit it was drawn for (the legend groups by these)",
                                z3.BoolVal([(show(r_[0]), r_[1], r_[2], r_[3]) for r_ in rec] == [(str(w_[0]), w_[1], w_[2], w_[3]) for w_ in want_rec])))
                return out
            c.ensures.append(post)

            def init(e, st, me_, axes_keys=axes_keys, adapters=adapters):
                e.write_field(st, me_, "_multifit", VNone())
                e.write_field(st, me_, "_fits", VTuple([VOpaque("fit")] * len(adapters)))
                e.write_field(st, me_, "_current_axes", VDict({k_: VExternal("axes:" + k_, {}) for k_ in axes_keys}))
                return {"plot_indices": VNone()}
            eng.verify("Plot", "_plot_and_get_results", None, init, contract=c, tag=f"({name};{'+'.join(axes_keys)})")
    return eng



# ------------------------------------------------------------------ legend: the result text of fit k follows the entries of fit k
class LegendAdapter(V):
    def __init__(self, index, from_container=False):
        self.index, self.fc = index, from_container

    def vattr(self, e, st, name):
        if name == "from_container":
            return VBool(z3.BoolVal(self.fc))


def u_render_legend(root):
    eng = base_engine(root)
    eng.schema["Plot"] = {"_fits": PYOBJ}
    eng.consts["rcParams"] = VDict({"font.size": VNum(z3.Real("font_size"))})
    eng.consts["DummyLegendHandler"] = Fn(lambda e_, st_, a, kw: VOpaque("handler"))
    fig = {}
    eng.ext_results = {"get_figure": lambda e, st, a, kw: VExternal("figure", fig), "legend": lambda e, st, a, kw: VExternal("legend", {}), "set_zorder": lambda e, st, a, kw: VNone()}

    def sub(e, st, n, base):
        if isinstance(base, VOpaque) and isinstance(base.tag, tuple) and base.tag[0] == "single":
            raise PyRaise("TypeError")          # a single artist (PolyCollection, ...) is not subscriptable
        if isinstance(base, VNone):
            raise PyRaise("TypeError")          # a hidden plot type returned no artist
        if isinstance(base, VOpaque) and isinstance(base.tag, tuple) and base.tag[0] == "handle":
            return VOpaque(("data line of container", base.tag[1]))       # ErrorbarContainer[0]: its Line2D, which is not a legend handle
        return None
    eng.subscript_hook = sub
    mk(eng, "Plot", "_get_axes", result=lambda vw: VExternal("axes:" + vw.args["axes_key"].s, {}))
    mk(eng, "Plot", "_get_fit_info", result=lambda vw: VStr("results of fit %d%s" % (vw.args["plot_adapter"].index, "" if z3.is_false(z3.simplify(vw.args["asymmetric_parameter_errors"].e)) else " (asymmetric)")))
    import itertools
    # plots of one axes, fit by fit: (fit index, plot type, kind of artist, has a legend handle)
    LAYOUTS = {
        "one fit": [(0, "data", "container", True), (0, "model_line", "list", True), (0, "model_error_band", "single", True)],
        "two fits": [(0, "data", "container", True), (0, "model_line", "list", True), (0, "model_error_band", "single", True), (1, "data", "container", True), (1, "model", "single", True)],
        "three fits, hidden pieces": [(0, "data", "container", True), (0, "model_line", "list", False), (1, "data", "container", True), (1, "model_line", "list", True), (1, "model_error_band", "none", False),
                                      (2, "data", "container", True), (2, "model_line", "list", True), (2, "model_error_band", "single", True)],
    }
    for lname, layout in LAYOUTS.items():
        nfits = 1 + max(p_[0] for p_ in layout)
        for flags in [True, False] + [list(f_) for f_ in itertools.product((False, True), repeat=nfits) if nfits > 1]:
            for fc in ((None,) if nfits != 2 else (None, 1)):
                handles, plots = [], []
                for q_, (fi, pt, kind, visible) in enumerate(layout):
                    h = VOpaque(("handle" if kind == "container" else "single", q_))
                    artist = {"container": VTuple([h]) if False else h, "list": VTuple([h]), "single": h, "none": VNone()}[kind]
                    if kind == "container":
                        artist = h          # an ErrorbarContainer is itself the legend handle
                    if visible:
                        handles.append((h, "%s of fit %d" % (pt, fi)))
                    plots.append(VDict({"type": VStr(pt), "fit_index": VNum(z3.IntVal(fi)), "adapter": LegendAdapter(fi, fc == fi), "artist": artist}))
                order = list(reversed(handles))          # matplotlib's own order differs from kafe2's
                eng.ext_results["get_legend_handles_labels"] = lambda e, st, a, kw, order=order: VTuple([VTuple([h_ for h_, _ in order]), VTuple([VStr(l_) for _, l_ in order])])
                c = Contract("Plot", "_render_legend")

                def post(vw, layout=layout, flags=flags, fc=fc, nfits=nfits):
                    calls = [c_ for c_ in vw.post.ghost.get("ext_calls", ()) if c_[0] == "figure" and c_[1] == "legend"]
                    if vw.flow == "raise" or len(calls) != 1:
                        return [("one legend is attached to the figure", z3.BoolVal(False))]
                    hs, ls = calls[0][2][0], calls[0][2][1]
                    fl = [flags] * nfits if isinstance(flags, bool) else flags
                    want = []
                    for k_ in range(nfits):
                        mine = ["%s of fit %d" % (pt, fi) for fi, pt, kind, visible in layout if fi == k_ and visible]
                        want += mine
                        if mine and fl[k_] and fc != k_:
                            want.append("results of fit %d" % k_)
                    got = [x_.s for x_ in ls.items]
                    return [("legend labels: fit by fit its visible entries, directly followed by the results of THAT fit iff asked for (never for a bare data container)", z3.BoolVal(got == want)),
                            ("a result text has the placeholder handle, an entry its own artist", z3.BoolVal(len(hs.items) == len(got) and all((isinstance(h_, VStr) and h_.s == "_nokey_") == g_.startswith("results") for h_, g_ in zip(hs.items, got))))]
                c.ensures.append(post)

                def init(e, st, me_, plots=plots, flags=flags, nfits=nfits):
                    e.write_field(st, me_, "_fits", VTuple([VOpaque("fit")] * nfits))
                    return {"plot_results": VDict({"main": VDict({"plots": VTuple(list(plots))})}), "axes_keys": VTuple([VStr("main")]), "fit_info": VBool(z3.BoolVal(flags)) if isinstance(flags, bool) else VTuple([VBool(z3.BoolVal(b_)) for b_ in flags]),
                            "asymmetric_parameter_errors": VBool(z3.BoolVal(False)), "kwargs": VDict({})}
                eng.verify("Plot", "_render_legend", None, init, contract=c, tag=f"({lname};fit_info={flags};from_container={fc})")
    return eng



# ------------------------------------------------------------------ unbinned: rug of the entries and density curve
class Stack(VMat):
    """np.column_stack([x, y]) of two 1-d arrays: a (len, 2) matrix that can be regrouped into (n, 2, 2) line segments"""

    def vattr(self, e, st, name):
        if name == "reshape":
            return Fn(lambda e_, st_, a, kw: Segments(self, a[0].items[0].e))


class Segments(V):
    """lines[k][p] = (x, y) of end point p of segment k, stored row-major in a (2n, 2) matrix"""

    def __init__(self, mat, n):
        self.mat, self.n = mat, n

    def end(self, k_, p_, c_):
        return self.mat.arr[2 * k_ + p_][c_]


def u_unbinned(root):
    eng = base_engine(root)
    inline(eng, "PlotAdapterBase", "x_range", "x_scale", "y_range", "y_scale")
    eng.schema["PlotAdapterBase"].update({"_y_range": PYOBJ, "_y_scale": PYOBJ})
    data = fitarr("data")
    made = []
    eng.consts["LineCollection"] = Fn(lambda e, st, a, kw: (made.append((a[0], dict(kw))), VOpaque("line_collection"))[1])
    eng.lib["np.repeat"] = lambda e, st, a, kw, node: VSeq(FnArr(lambda j_: a[0].arr[j_ / 2]), a[0].len * 2)
    eng.lib["np.tile"] = lambda e, st, a, kw, node: VSeq(FnArr(lambda j_: z3.If(j_ % 2 == 0, a[0].items[0].real(), a[0].items[1].real())), a[1].e * 2)
    eng.lib["np.column_stack"] = lambda e, st, a, kw, node: Stack(FnArr(lambda r_: FnArr(lambda c_: z3.If(c_ == 0, a[0].items[0].arr[r_], a[0].items[1].arr[r_]))), a[0].items[0].len, z3.IntVal(2))
    for g, spec in (("data_x", "data"), ("model_x", "data"), ("model_y", "model")):
        c = Contract("UnbinnedPlotAdapter", g, "getter")
        c.ensures.append(lambda vw, g=g, spec=spec: [(f"{g} is the fit's {spec}", seq_eq(vw.result, fitarr(spec)))])
        eng.verify("UnbinnedPlotAdapter", g, "getter", setup(eng, "UnbinnedPlotAdapter", False), contract=c)
    inline(eng, "UnbinnedPlotAdapter", "data_x", "model_x", "model_y", "model_line_x", "model_line_y")
    M = z3.Int("n_plot_points")
    for scale in ("linear", "log"):
        X = x_support(scale)
        c = Contract("UnbinnedPlotAdapter", "plot_model_line")

        def post_line(vw, X=X):
            cs, one = drawn(vw, "plot")
            if len(cs) != 1:
                return [one]
            a = cs[0][2]
            return [one, kwargs_forwarded(cs[0], STYLE), ("x = the support points over the plotted range", seq_eq(a[0], X, M)), ("y = the model density at the current parameters at these points", seq_eq(a[1], VSeq(FnArr(lambda k_: f_model(X.arr[k_])), M), M))]
        c.ensures.append(post_line)
        eng.verify("UnbinnedPlotAdapter", "plot_model_line", None, setup(eng, "UnbinnedPlotAdapter", False, scale, extra=with_points), contract=c, tag=f"({scale})")
    y0, y1 = z3.Real("y_range_lo"), z3.Real("y_range_hi")
    for height in ("default", "given"):
        c = Contract("UnbinnedPlotAdapter", "plot_data")

        def post_rug(vw, height=height):
            added = calls_of(vw, "add_collection")
            if len(made) != 1 or len(added) != 1 or not isinstance(made[0][0], Segments):
                return [("one LineCollection is built and added to the target axes", z3.BoolVal(False))]
            sg, kw = made[0]
            top = y1 / 10 if height == "default" else z3.Real("given_height")
            return [("one LineCollection is built and added to the target axes", z3.BoolVal(isinstance(added[0][2][0], VOpaque) and added[0][2][0].tag == "line_collection")),
                    ("one segment per entry", sg.n == N),
                    ("segment k is vertical at x = entry k, from the lower end of the y range up to a tenth of its upper end (or the given height)",
                     z3.ForAll([k], z3.Implies(z3.And(0 <= k, k < N), z3.And(sg.end(k, 0, 0) == data.arr[k], sg.end(k, 1, 0) == data.arr[k], sg.end(k, 0, 1) == y0, sg.end(k, 1, 1) == top)))),
                    ("style keywords forwarded, except the marker (a LineCollection has none)", z3.BoolVal("marker" not in kw and kw.get("color") is STYLE["color"]))]
        c.ensures.append(post_rug)

        def init(e, st, me_, height=height):
            made.clear()
            e.write_field(st, me_, "_y_range", VTuple([VNum(y0), VNum(y1)]))
            e.write_field(st, me_, "_y_scale", VStr("linear"))
            return {"height": VNone() if height == "default" else VNum(z3.Real("given_height")), "kwargs": VDict(dict(STYLE, marker=VStr("o")))}
        eng.verify("UnbinnedPlotAdapter", "plot_data", None, setup(eng, "UnbinnedPlotAdapter", False, extra=init), contract=c, tag=f"(height {height})")
    for panel in ("plot_ratio", "plot_residual"):
        c = Contract("UnbinnedPlotAdapter", panel)
        c.ensures.append(lambda vw: [("an unbinned fit has no data / model ratio or residuals: asking for the panel raises instead of drawing something", z3.BoolVal(vw.flow == "raise" and not calls_of(vw)))])
        eng.verify("UnbinnedPlotAdapter", panel, None, setup(eng, "UnbinnedPlotAdapter", False, extra=lambda e, st, me_: {"kwargs": VDict({})}), contract=c)
    return eng


def units(root):
    return [Unit("get_uncertainty_gaussian_approximation (3 cost classes)", u_ga), Unit("adapter getters", u_getters), Unit("PlotAdapterBase._get_total_error", u_total_error),
            Unit("plot_ratio / plot_residual / plot_pull", u_panels), Unit("XYPlotAdapter main panel (data, model line, bands)", u_xy_main),
            Unit("HistPlotAdapter / IndexedPlotAdapter main panel", u_hist_indexed_main), Unit("step_fill_between (indexed model steps)", u_step_fill), Unit("UnbinnedPlotAdapter (rug, density curve)", u_unbinned),
            Unit("PlotAdapterBase.call_plot_method", u_dispatch), Unit("Plot._get_fit_info (legend text)", u_fit_info, bounded="2 model parameters; every combination of asymmetric / latex / errors valid / goodness of fit present / cost kind (chi2, saturated, other); formatter texts abstract tokens"),
            Unit("Plot._plot_and_get_results (several fits)", u_plot_results, bounded="1 - 3 fits per plot (xy and indexed plot-type tables), 4 axes layouts; style keywords, axes and artists abstract"),
            Unit("Plot._render_legend (results grouped with their fit)", u_render_legend, bounded="1 - 3 fits, every fit_info pattern, artists with / without legend handles, one bare container; handles and texts abstract")]
