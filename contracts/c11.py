"""C11 - A multi-fit is the sum of its parts, or the joint fit if errors are shared.

Decomposition (DESIGN 3, C11):
 (1) MultiCostFunction.cost_sum = sum of its arguments; CostFunction.__call__ in the multi configuration (no determinant, constraints on):
     multi cost = sum_k cost_k + sum of the multi-fit's own constraints                                    [composition shared with C01]
 (2) the block assembly closures of MultiFit._init_shared_error_nodes, verified as nested functions of the real method with their captured
     variables constrained by what the enclosing loop establishes: _combine_1d_property concatenates, _combine_cov_mats puts member block j
     on the diagonal and adds each shared matrix of the axis to BOTH off-diagonal blocks of every pair of sharing members (the diagonal blocks
     carry it through the members' own totals); total_cov_mat_cholesky / _qr and MultiFit.total_cov_mat project the x part with the slopes.
 (3) the enclosing loop: _data_indices are the prefix sums of the Gaussian members' sizes, _fit_index_to_data_index their ranks.
 (4) MultiFit._get_parameter_indices / _update_singular_fits: each member receives the name-indexed sub-blocks of the multi-fit result.
 (5) MultiFit.fix_parameter / release_parameter: mirrored into exactly the members that have the name, with the value the multi-fit fixed.
Node sharing by _init_nexus (one Parameter node per name in every member graph) is exercised by the bounded native run only.
"""
import z3
from .base import *
from . import costlib as CL

FILES = ["kafe2/fit/multi/fit.py", "kafe2/fit/multi/cost.py", "kafe2/fit/_base/cost.py", "kafe2/core/constraint.py", "kafe2/fit/io/file.py", "kafe2/fit/_base/fit.py",
         "kafe2/core/error.py", "kafe2/fit/util/__init__.py", "kafe2/core/fitters/nexus_fitter.py"]
META = {
    "level": "proof",
    "trusted_base": [
        "np.sum of a tuple of numbers is their sum (spec function sumto, recursive); np.zeros, slice / block assignment and in-place block addition as in pyvc (numpy raises unless shapes agree: proved as obligations)",
        "np.outer, elementwise * and + on matrices; cholesky_decomposition / qr_decomposition are functions of the matrix handed to them (C01 proves what they return)",
        "list.index(x) returns the first position holding x (and raises ValueError otherwise)",
        "the values delivered by the member graphs' cost / y_model / y_total_cov_mat nodes are the members' own (C04: Alias nodes forward values; C02: per-member totals)",
        "floats as reals; z3/cvc5 soundness; induction principle for the prefix-sum monotonicity lemma (base + step discharged)",
    ],
    "assumptions": ["machine arithmetic treated as mathematical", "closed world of kafe2 classes", "member fits are distinct objects; every Gaussian member has at least one data point",
                    "node sharing established by MultiFit._init_nexus (same Parameter object in every member graph) is NOT under contract: bounded native run only"],
    "bounded": [{"what": "multi-fits of 1-4 real members: cost = sum of member costs at 8 parameter points set through the multi-fit or a member, common values by name, single-member multi-fit reproduces the fit, "
                         "shared sources on subsets of 3-4 members vs. the closed-form joint covariance (total_cov_mat and cost), sub-blocks after do_fit incl. asymmetric errors, fix / release mirrored",
                 "bound": "native: 204 configurations (quick), 5 data points per member"}],
}
me = z3.Const("self", Ref)
i, j, k, r, c, t = z3.Ints("i j k r c t")
PA, MA = arr(I, R), arr(I, I, R)
IA = arr(I, I)
sumto = z3.Function("sumto", PA, I, R)
S_ = z3.Const("S_", PA)
SUM_AX = [z3.ForAll([S_], sumto(S_, 0) == 0)]


def sum_engine(root):
    eng = CL.cost_engine(root, ["kafe2/fit/multi/cost.py"])
    eng.axioms += SUM_AX
    eng.recdefs = dict(eng.recdefs)
    eng.recdefs["sumto"] = (1, lambda e, u: z3.Implies(u >= 0, sumto(e.arg(0), u + 1) == sumto(e.arg(0), u) + e.arg(0)[u]))
    eng.lib["np.sum"] = lambda e, st, a, kw, n: VNum(sumto(materialise(a[0].arr, "summand"), a[0].len))
    return eng


# ------------------------------------------------------------------ (1) cost_sum and the multi configuration of __call__
def u_cost_sum(root):
    eng = sum_engine(root)
    costs = VSeq.fresh("single_costs")
    c_ = Contract("MultiCostFunction", "cost_sum")
    c_.requires.append(lambda vw: costs.len >= 0)
    c_.ensures.append(lambda vw: [("cost_sum(c_0 .. c_{n-1}) = c_0 + ... + c_{n-1} (every member, nothing else)", vw.result.real() == sumto(costs.arr, costs.len))])
    eng.verify("MultiCostFunction", "cost_sum", None, lambda e, st, me_: {"single_costs": costs}, contract=c_)
    # the composition for 1..4 members: the handle of a MultiCostFunction is cost_sum (proved above), flags as set by MultiCostFunction.__init__ (proved below)
    for nm in (1, 2, 3, 4):
        cfg = CL.Cfg(f"multi[{nm} members]", [], False, True, tag=f"m{nm}")
        cfg.core = [VNum(z3.Real(f"cost{q}")) for q in range(nm)]
        cfg.args = list(cfg.core) + [cfg.pv, cfg.cons]
        eng.fun_models = {"_cost_function_handle": lambda e, st, a, kw, n: VNum(z3.Sum([x.real() for x in a]) if a else z3.RealVal(0))}     # = sumto over the argument tuple (cost_sum's contract)
        cc = Contract("CostFunction", "__call__")
        cc.requires = cfg.requires()
        cc.loops[0] = lambda e, s, cfg=cfg: z3.And(0 <= s.locals["#i0"].e, s.locals["#i0"].e <= cfg.cons.len, s.locals["additional_cost"].real() == CL.csum(cfg.cons.arr, cfg.pv.arr, s.locals["#i0"].e))
        cc.ensures.append(lambda vw, cfg=cfg: [("multi cost = sum of the member costs + the cost of EVERY constraint of the multi-fit itself; no determinant term of its own",
                                                vw.result.real() == z3.Sum([x.real() for x in cfg.core]) + cfg.constraint_sum())])
        eng.verify("CostFunction", "__call__", None, lambda e, st, me_, cfg=cfg: {"args": VTuple(list(cfg.args))}, contract=cc, tag=f"[multi,{nm} members]")
    return eng



def u_multi_cost_init(root):
    """MultiCostFunction.__init__ hands CostFunction.__init__ the handle cost_sum with constraints on and no determinant term (the configuration verified above)"""
    eng = sum_engine(root)
    seen = {}

    def init_pre(vw):
        a_ = vw.args
        seen["args"] = a_
        cf = a_.get("cost_function")
        ok = isinstance(cf, (VBound, VLambda, VOpaque)) and "cost_sum" in (getattr(cf, "name", "") or str(getattr(getattr(cf, "node", None), "name", "")) or str(getattr(cf, "tag", "")))
        flags = isinstance(a_.get("add_constraint_cost"), VBool) and z3.is_true(z3.simplify(a_["add_constraint_cost"].e)) and isinstance(a_.get("add_determinant_cost"), VBool) and z3.is_false(z3.simplify(a_["add_determinant_cost"].e))
        names = a_.get("arg_names") is seen.get("names")
        return z3.BoolVal(bool(ok and flags and names))
    mk(eng, "CostFunction", "__init__", requires=[init_pre])
    flag = {g_: z3.Function("flag_" + g_, Ref, B) for g_ in ("needs_errors", "saturated", "is_chi2")}
    for g_ in ("needs_errors", "saturated", "is_chi2"):
        mk(eng, "CostFunction", g_, "getter", result=lambda vw, g_=g_: VBool(flag[g_](vw.self.e)))
    mk(eng, "CostFunction", "formatter", "getter", result=lambda vw: VExternal("formatter", {}))
    eng.lib["np.any"] = lambda e, st, a_, kw, n: e.bool_reduce(a_[0], "any")
    eng.lib["np.all"] = lambda e, st, a_, kw, n: e.bool_reduce(a_[0], "all")
    eng.schema.setdefault("CostFunction", {}).update({"_needs_errors": BOOL, "_saturated": BOOL})
    c_ = Contract("MultiCostFunction", "__init__")
    c_.ensures.append(lambda vw: [("CostFunction.__init__ was reached with cost_function=MultiCostFunction.cost_sum, arg_names=cost_function_names, add_constraint_cost=True, add_determinant_cost=False", z3.BoolVal("args" in seen))])

    def init(e, st, me_):
        seen["names"] = VTuple([VStr("cost0"), VStr("cost1")])
        return {"singular_cost_functions": VRefSeq(z3.Const("singular_cost_functions", arr(I, Ref)), z3.Int("n_members"), "CostFunction"), "cost_function_names": seen["names"]}
    eng.verify("MultiCostFunction", "__init__", None, init, contract=c_)
    return eng


# ------------------------------------------------------------------ (2) block assembly closures
D = z3.Const("_data_indices", IA)                  # captured list: edges of the blocks, D[0] = 0, len m+1
m = z3.Int("n_gaussian_members")
F2D = z3.Const("_fit_index_to_data_index", IA)     # captured dict: fit index -> block index
P1 = z3.Function("single_fit_property", I, PA)     # j -> vector of member block j
P2 = z3.Function("single_fit_cov_mat", I, MA)      # j -> matrix of member block j


def closure_facts():
    a_, b_ = z3.Ints("a_ b_")
    return z3.And(m >= 0, D[0] == 0,
                  z3.ForAll([a_, b_], z3.Implies(z3.And(0 <= a_, a_ <= b_, b_ <= m), D[a_] <= D[b_]), patterns=[z3.MultiPattern(D[a_], D[b_])]))


def data_indices_value():
    return VSeqOf(lambda q: VNum(D[q]), m + 1)


def block_engine(root, extra_schema=None):
    schema = {"MultiFit": {"_shared_error_dicts": PYOBJ, "_min_x_error": OPTNUM, "_fits": REFSEQ("FitBase")},
              "GaussianErrorBase": {"_fit_indices": PYOBJ}, "MatrixGaussianError": {}, "SimpleGaussianError": {}}
    schema.update(extra_schema or {})
    eng = engine(root, FILES, schema, [])
    return eng


def u_combine_1d(root):
    eng = block_engine(root)
    props = VSeqOf(lambda q: VSeq(P1(q), D[q + 1] - D[q]), m)
    c_ = Contract("MultiFit", "_init_shared_error_nodes")
    c_.requires.append(lambda vw: closure_facts())

    def inv(e, s):
        q, cp = s.locals["#i0"].e, s.locals["_combined_property"]
        return z3.And(0 <= q, q <= m, cp.len == D[m],
                      z3.ForAll([j, t], z3.Implies(z3.And(0 <= j, j < q, 0 <= t, t < D[j + 1] - D[j]), cp.arr[D[j] + t] == P1(j)[t]), patterns=[P1(j)[t]]))
    c_.loops[0] = inv
    c_.ensures.append(lambda vw: [("length = total number of Gaussian data points", vw.result.len == D[m]),
                                  ("concatenation: entry t of member block j sits at D[j] + t, for every member", z3.ForAll([j, t], z3.Implies(z3.And(0 <= j, j < m, 0 <= t, t < D[j + 1] - D[j]), vw.result.arr[D[j] + t] == P1(j)[t]), patterns=[P1(j)[t]]))])
    eng.verify("MultiFit", "_init_shared_error_nodes", None, lambda e, st, me_: {"single_fit_properties": props, "_data_indices": data_indices_value()}, contract=c_, nested="_combine_1d_property")
    return eng



# shared sources captured through self._shared_error_dicts: record e has an axis name and an error object with fit_indices and cov_mat
nE = z3.Int("n_shared_sources")
AXIS = z3.Function("axis_of_source", I, Name)
ERR = z3.Function("error_object_of_source", I, Ref)
FI = z3.Function("fit_indices", Ref, IA)
nFI = z3.Function("n_fit_indices", Ref, I)
COV = z3.Function("shared_cov_mat", Ref, MA)
DIM = z3.Function("shared_dim", Ref, I)
axis_name = z3.Const("axis_name", Name)
NFITS = z3.Int("n_fits")
a, b, u = z3.Ints("a b u")


def dblk(e_, q):          # block index of the q-th sharing member of source e_
    return F2D[FI(ERR(e_))[q]]


def pairterm(e_, jj, kk, a_, b_, t_, u_):
    return z3.If(z3.And(dblk(e_, jj) == a_, dblk(e_, kk) == b_), COV(ERR(e_))[t_][u_], z3.RealVal(0)) + \
        z3.If(z3.And(dblk(e_, kk) == a_, dblk(e_, jj) == b_), COV(ERR(e_))[t_][u_], z3.RealVal(0))


cross3 = z3.Function("cross_k", I, I, I, I, I, I, I, R)      # (e, j, K, a, b, t, u): sum over k < K of the pair (j, k) contributions to entry (t, u) of block (a, b)
cross2 = z3.Function("cross_j", I, I, I, I, I, I, R)         # (e, J, a, b, t, u): sum over j < J, k < j
cross1 = z3.Function("cross_e", I, I, I, I, I, R)            # (E, a, b, t, u): sum over sources e < E on this axis
e_ = z3.Int("e_")
CROSS_AX = [z3.ForAll([e_, j, a, b, t, u], cross3(e_, j, 0, a, b, t, u) == 0), z3.ForAll([e_, a, b, t, u], cross2(e_, 0, a, b, t, u) == 0),
            z3.ForAll([a, b, t, u], cross1(0, a, b, t, u) == 0)]


def cross_recdefs():
    return {
        "cross_k": (2, lambda e, q: z3.Implies(q >= 0, cross3(e.arg(0), e.arg(1), q + 1, e.arg(3), e.arg(4), e.arg(5), e.arg(6)) ==
                                               cross3(e.arg(0), e.arg(1), q, e.arg(3), e.arg(4), e.arg(5), e.arg(6)) + pairterm(e.arg(0), e.arg(1), q, e.arg(3), e.arg(4), e.arg(5), e.arg(6)))),
        "cross_j": (1, lambda e, q: z3.Implies(q >= 0, cross2(e.arg(0), q + 1, e.arg(2), e.arg(3), e.arg(4), e.arg(5)) ==
                                               cross2(e.arg(0), q, e.arg(2), e.arg(3), e.arg(4), e.arg(5)) + cross3(e.arg(0), q, q, e.arg(2), e.arg(3), e.arg(4), e.arg(5)))),
        "cross_e": (0, lambda e, q: z3.Implies(q >= 0, cross1(q + 1, e.arg(1), e.arg(2), e.arg(3), e.arg(4)) ==
                                               cross1(q, e.arg(1), e.arg(2), e.arg(3), e.arg(4)) +
                                               z3.If(AXIS(q) == axis_name, cross2(q, nFI(ERR(q)), e.arg(1), e.arg(2), e.arg(3), e.arg(4)), z3.RealVal(0)))),
    }


def in_block(a_, t_):
    return z3.And(0 <= a_, a_ < m, 0 <= t_, t_ < D[a_ + 1] - D[a_])


def sources_ok():
    """what _add_error_object has checked before a source is recorded: every sharing member is Gaussian (has a block) and all have the size of the matrix"""
    q = z3.Int("q")
    return z3.And(nE >= 0, z3.ForAll([e_], z3.Implies(z3.And(0 <= e_, e_ < nE), z3.And(ERR(e_) != NULL, nFI(ERR(e_)) >= 0, DIM(ERR(e_)) >= 0))),
                  z3.ForAll([e_, q], z3.Implies(z3.And(0 <= e_, e_ < nE, 0 <= q, q < nFI(ERR(e_))),
                                                z3.And(0 <= FI(ERR(e_))[q], FI(ERR(e_))[q] < NFITS,      # a key of the dict (the member is Gaussian)
                                                       0 <= dblk(e_, q), dblk(e_, q) < m, D[dblk(e_, q) + 1] - D[dblk(e_, q)] == DIM(ERR(e_)))), patterns=[FI(ERR(e_))[q]]))


def u_combine_cov(root):
    eng = block_engine(root)
    eng.axioms += CROSS_AX
    eng.recdefs = cross_recdefs()
    props = VSeqOf(lambda q: VMat(P2(q), D[q + 1] - D[q], D[q + 1] - D[q]), m)
    mk(eng, "GaussianErrorBase", "fit_indices", "getter", result=lambda vw: VSeqOf(lambda q: VNum(FI(vw.self.e)[q]), nFI(vw.self.e)))
    for cls in ("GaussianErrorBase", "MatrixGaussianError", "SimpleGaussianError"):
        mk(eng, cls, "cov_mat", "getter", result=lambda vw: VMat(COV(vw.self.e), DIM(vw.self.e), DIM(vw.self.e)))
    dicts = VSeqOf(lambda q: VDict({"axis": VName(AXIS(q)), "err": VRef(ERR(q), "GaussianErrorBase")}), nE)
    c_ = Contract("MultiFit", "_init_shared_error_nodes")
    c_.requires.append(lambda vw: z3.And(closure_facts(), sources_ok()))

    def entry(cp, a_, b_, t_, u_):
        return cp.arr[D[a_] + t_][D[b_] + u_]

    def diag(q, a_, b_, t_, u_):
        return z3.If(z3.And(a_ == b_, a_ < q), P2(a_)[t_][u_], z3.RealVal(0))

    def shape(cp):
        return z3.And(cp.rows == D[m], cp.cols == D[m])

    mark = z3.Function("entry_marker", I, I, I, I, B)      # trigger only: axiomatised true everywhere
    eng.axioms.append(z3.ForAll([a, b, t, u], mark(a, b, t, u), patterns=[mark(a, b, t, u)]))

    def q_all(body):
        return z3.ForAll([a, b, t, u], z3.Implies(z3.And(mark(a, b, t, u), in_block(a, t), in_block(b, u)), body), patterns=[mark(a, b, t, u)])

    def inv0(e, s):
        q, cp = s.locals["#i0"].e, s.locals["_combined_property"]
        return z3.And(0 <= q, q <= m, shape(cp), q_all(entry(cp, a, b, t, u) == diag(q, a, b, t, u)))

    def inv1(e, s):
        q, cp = s.locals["#i1"].e, s.locals["_combined_property"]
        return z3.And(0 <= q, q <= nE, shape(cp), q_all(entry(cp, a, b, t, u) == diag(m, a, b, t, u) + cross1(q, a, b, t, u)))

    def inv2(e, s):
        q, jj, cp = s.locals["#i1"].e, s.locals["#i2"].e, s.locals["_combined_property"]
        return z3.And(0 <= q, q < nE, AXIS(q) == axis_name, s.locals["_error"].e == ERR(q), 0 <= jj, jj <= nFI(ERR(q)), shape(cp),
                      q_all(entry(cp, a, b, t, u) == diag(m, a, b, t, u) + cross1(q, a, b, t, u) + cross2(q, jj, a, b, t, u)))

    def inv3(e, s):
        q, jj, kk, cp = s.locals["#i1"].e, s.locals["#i2"].e, s.locals["#i3"].e, s.locals["_combined_property"]
        dj = s.locals["_data_index_j"].e
        return z3.And(0 <= q, q < nE, AXIS(q) == axis_name, s.locals["_error"].e == ERR(q), 0 <= jj, jj < nFI(ERR(q)), 0 <= kk, kk <= jj, shape(cp),
                      dj == dblk(q, jj), s.locals["_lower_j"].e == D[dj], s.locals["_upper_j"].e == D[dj + 1],
                      q_all(entry(cp, a, b, t, u) == diag(m, a, b, t, u) + cross1(q, a, b, t, u) + cross2(q, jj, a, b, t, u) + cross3(q, jj, kk, a, b, t, u)))
    c_.loops.update({0: inv0, 1: inv1, 2: inv2, 3: inv3})
    c_.ensures.append(lambda vw: [
        ("square, one row per Gaussian data point", shape(vw.result)),
        ("entry (t, u) of block (a, b) = member a's own matrix if a = b, plus, for every shared source of this axis and every pair of its sharing members sitting in blocks a and b (in either order), the shared matrix entry (t, u); nothing else",
         q_all(entry(vw.result, a, b, t, u) == diag(m, a, b, t, u) + cross1(nE, a, b, t, u)))])
    eng.verify("MultiFit", "_init_shared_error_nodes", None,
               lambda e, st, me_: (e.write_field(st, me_, "_shared_error_dicts", dicts), {"single_fit_properties": props, "_data_indices": data_indices_value(), "axis_name": VName(axis_name),
                                                                                         "_fit_index_to_data_index": VSeqOf(lambda q: VNum(F2D[q]), NFITS)})[1],
               contract=c_, nested="_combine_cov_mats")
    return eng



# ------------------------------------------------------------------ (3) the enclosing loop establishes the captured variables
gcount = z3.Function("gaussian_before", I, I)         # number of chi2 members among fits[0 .. q)
SIZE = z3.Function("data_size", Ref, I)


def u_data_indices(root):
    schema = {"MultiFit": {"_fits": REFSEQ("FitBase"), "_shared_error_dicts": PYOBJ, "_min_x_error": OPTNUM}, "FitBase": {"_cost_function": REF("CostFunction")}, "CostFunction": {"_is_chi2": BOOL}}
    eng = engine(root, FILES, schema, [gcount(0) == 0])
    fits = lambda st: eng.read_field(st, VRef(me, "MultiFit"), "_fits")
    chi2 = lambda st, q: H("_is_chi2", "bool")[H("_cost_function", "ref")[H("_fits", "refseq")[me][q]]] if False else eng.read_field(st, eng.read_field(st, VRef(fits(st).arr[q], "FitBase"), "_cost_function"), "_is_chi2").e
    st0 = {}
    eng.recdefs = {"gaussian_before": (0, lambda e, q: z3.Implies(q >= 0, gcount(q + 1) == gcount(q) + z3.If(st0["chi2"](q), 1, 0)))}
    inline(eng, "CostFunction", "is_chi2")
    for cls in ("FitBase",):
        mk(eng, cls, "data_size", "getter", result=lambda vw: VNum(SIZE(vw.self.e)), ensures=[lambda vw: SIZE(vw.self.e) >= 1])
    eng.local_models = {"_data_indices": "seq", "_fit_index_to_data_index": "intmap"}
    c_ = Contract("MultiFit", "_init_shared_error_nodes")
    c_.requires.append(lambda vw: (st0.__setitem__("chi2", lambda q: chi2(vw.pre, q)), fits(vw.pre).len >= 0)[1])

    def facts(s, upto):
        Dv, Fm, F = s.locals["_data_indices"], s.locals["_fit_index_to_data_index"], fits(s)
        q = z3.Int("q")
        return z3.And(Dv.len == 1 + gcount(upto), gcount(upto) >= 0, Dv.arr[0] == 0,
                      z3.ForAll([q], z3.Implies(z3.And(0 <= q, q < gcount(upto)), Dv.arr[q] + 1 <= Dv.arr[q + 1]), patterns=[Dv.arr[q + 1]]),
                      z3.ForAll([q], z3.Implies(z3.And(0 <= q, q < upto, st0["chi2"](q)),
                                                z3.And(Fm.dom[q], Fm.arr[q] == gcount(q), 0 <= gcount(q), gcount(q) < gcount(upto),
                                                       Dv.arr[gcount(q) + 1] - Dv.arr[gcount(q)] == z3.ToReal(SIZE(F.arr[q])))), patterns=[Fm.arr[q]]),
                      z3.ForAll([q], z3.Implies(z3.And(0 <= q, q < upto, z3.Not(st0["chi2"](q))), z3.Not(Fm.dom[q])), patterns=[Fm.dom[q]]),
                      z3.ForAll([q], z3.Implies(z3.Or(q < 0, q >= upto), z3.Not(Fm.dom[q])), patterns=[Fm.dom[q]]))
    c_.loops[0] = lambda e, s: z3.And(0 <= s.locals["#i0"].e, s.locals["#i0"].e <= fits(s).len, facts(s, s.locals["#i0"].e))
    c_.ensures.append(lambda vw: [("captured variables: _data_indices = [0] + running sums of the sizes of the chi2 members (one edge per chi2 member, strictly increasing); "
                                   "_fit_index_to_data_index maps exactly the chi2 members to their rank among them; the block of a member has its data size", facts(vw.post, fits(vw.pre).len))])
    eng.verify("MultiFit", "_init_shared_error_nodes", None, None, contract=c_, slice_on={"_data_indices", "_fit_index_to_data_index"}, tag="[slice: block edges]")
    return eng



def u_lemmas(root):
    """step-wise increasing edges (what the enclosing loop establishes) => the general monotonicity the closures rely on (induction on b)"""
    eng = engine(root, FILES, {}, [])
    a_, n_ = z3.Ints("a_ n_")
    DR = z3.Const("D_edges", arr(I, R))
    step = z3.ForAll([a_], z3.Implies(z3.And(0 <= a_, a_ < m), DR[a_] + 1 <= DR[a_ + 1]), patterns=[DR[a_ + 1]])
    mono = lambda bb: z3.ForAll([a_], z3.Implies(z3.And(0 <= a_, a_ <= bb), DR[a_] <= DR[bb]))
    eng.lemma("edges_monotone/base", [step], mono(z3.IntVal(0)))
    eng.lemma("edges_monotone/step", [step, n_ >= 0, n_ < m, mono(n_), DR[n_] + 1 <= DR[n_ + 1]], mono(n_ + 1))
    eng.trusted.append("induction principle over the naturals (edges_monotone: base + step discharged by z3)")
    return eng



# ------------------------------------------------------------------ (4) member results are name-indexed sub-blocks
MNAME = z3.Function("multi_parameter_name", I, Name)        # names of the multi-fit, position -> name (distinct: they are dictionary keys)
NM = z3.Int("n_multi_parameters")
FNAME = z3.Function("member_parameter_name", Ref, I, Name)  # names of a member fit
NP = z3.Function("n_member_parameters", Ref, I)
IDX = z3.Function("parameter_index", Ref, IA)               # what _get_parameter_indices returns for a member (its contract)
LRD = RECORD(did_fit=BOOL, parameter_errors=SEQ, parameter_cor_mat=FT("optmat"), parameter_cov_mat=FT("optmat"), asymmetric_parameter_errors=FT("optmat"))
SUB_SCHEMA = {"MultiFit": {"_fits": REFSEQ("FitBase"), "_fitter": REF("NexusFitter")}, "FitBase": {"_loaded_result_dict": LRD, "_fitter": REF("NexusFitter")}}


def names_distinct():
    p_, q_ = z3.Ints("p_ q_")
    return z3.And(NM >= 0, z3.ForAll([p_, q_], z3.Implies(z3.And(0 <= p_, p_ < q_, q_ < NM), MNAME(p_) != MNAME(q_))))


def idx_spec(f, idxarr, ln):
    """idx[a] is THE position of member name a in the multi-fit's names"""
    return z3.And(ln == NP(f), z3.ForAll([a], z3.Implies(z3.And(0 <= a, a < NP(f)), z3.And(0 <= idxarr(a), idxarr(a) < NM, MNAME(idxarr(a)) == FNAME(f, a)))))


def u_param_indices(root):
    eng = engine(root, FILES, SUB_SCHEMA, [])
    fit = z3.Const("singular_fit", Ref)
    mk(eng, "FitBase", "parameter_names", "getter", result=lambda vw: (VSeqOf(lambda q: VName(MNAME(q)), NM, key="multi") if vw.self.e.eq(me) else VSeqOf(lambda q: VName(FNAME(vw.self.e, q)), NP(vw.self.e), key="member:" + vw.self.e.sexpr())))
    c_ = Contract("MultiFit", "_get_parameter_indices")
    q_ = z3.Int("q_")
    c_.requires.append(lambda vw: z3.And(names_distinct(), fit != NULL, fit != me, NP(fit) >= 0,
                                         z3.ForAll([a], z3.Implies(z3.And(0 <= a, a < NP(fit)), z3.Exists([q_], z3.And(0 <= q_, q_ < NM, MNAME(q_) == FNAME(fit, a)))))))   # every member name is a multi-fit name (_init_nexus collects them)
    c_.ensures.append(lambda vw: [("one index per member parameter; multi_names[idx[a]] is the a-th member name", idx_spec(fit, lambda x: z3.ToInt(vw.result.arr[x]), vw.result.len))])
    eng.verify("MultiFit", "_get_parameter_indices", None, lambda e, st, me_: {"singular_fit": VRef(fit, "FitBase")}, contract=c_)
    return eng


def u_update_singular(root):
    eng = engine(root, FILES, SUB_SCHEMA, [])
    E_ = VSeq(z3.Const("multi_parameter_errors", PA), NM)
    Cnone, Rnone, Anone = z3.Bool("multi_cov_is_None"), z3.Bool("multi_cor_is_None"), z3.Bool("multi_asymmetric_not_calculated")
    Cm = VMat(z3.Const("multi_parameter_cov_mat", MA), NM, NM, none=Cnone)
    Rm = VMat(z3.Const("multi_parameter_cor_mat", MA), NM, NM, none=Rnone)
    Am = VMat(z3.Const("multi_asymmetric_errors", MA), NM, z3.IntVal(2), none=Anone)
    DF = z3.Bool("multi_did_fit")
    mk(eng, "FitBase", "parameter_name_value_dict", "getter", result=lambda vw: VNone())
    mk(eng, "FitBase", "parameter_errors", "getter", result=lambda vw: E_)
    mk(eng, "FitBase", "parameter_cov_mat", "getter", result=lambda vw: Cm)
    mk(eng, "FitBase", "parameter_cor_mat", "getter", result=lambda vw: Rm)
    mk(eng, "FitBase", "did_fit", "getter", result=lambda vw: VBool(DF))
    mk(eng, "NexusFitter", "asymmetric_fit_parameter_errors_if_calculated", "getter", result=lambda vw: Am)
    mk(eng, "MultiFit", "_update_parameter_formatters", result=lambda vw: VNone())
    gi = mk(eng, "MultiFit", "_get_parameter_indices", result=lambda vw: VSeq(FnArr(lambda q: z3.ToReal(IDX(vw.args["singular_fit"].e)[q])), NP(vw.args["singular_fit"].e)))
    fits = lambda st: eng.read_field(st, VRef(me, "MultiFit"), "_fits")
    NF = lambda st: fits(st).len

    def member_ok(st, f):
        g = lambda key: eng.read_field(st, VRef(f, "FitBase"), "_loaded_result_dict." + key)
        pe, cov, cor, asym = g("parameter_errors"), g("parameter_cov_mat"), g("parameter_cor_mat"), g("asymmetric_parameter_errors")
        ix = lambda x: IDX(f)[x]
        inr = lambda x: z3.And(0 <= x, x < NP(f))
        return z3.And(z3.Not(g("#none").e), g("did_fit").e == DF,
                      pe.len == NP(f), z3.ForAll([a], z3.Implies(inr(a), pe.arr[a] == E_.arr[ix(a)])),
                      cov.none == Cnone, z3.Implies(z3.Not(Cnone), z3.And(cov.rows == NP(f), cov.cols == NP(f), z3.ForAll([a, b], z3.Implies(z3.And(inr(a), inr(b)), cov.at(a, b) == Cm.at(ix(a), ix(b)))))),
                      cor.none == Rnone, z3.Implies(z3.Not(Rnone), z3.And(cor.rows == NP(f), cor.cols == NP(f), z3.ForAll([a, b], z3.Implies(z3.And(inr(a), inr(b)), cor.at(a, b) == Rm.at(ix(a), ix(b)))))),
                      asym.none == Anone, z3.Implies(z3.Not(Anone), z3.And(asym.rows == NP(f), asym.cols == 2, z3.ForAll([a, b], z3.Implies(z3.And(inr(a), 0 <= b, b < 2), asym.at(a, b) == Am.at(ix(a), b))))))

    def pre(vw):
        F = fits(vw.pre)
        return z3.And(F.len >= 0, NM >= 0,
                      z3.ForAll([i, j], z3.Implies(z3.And(0 <= i, i < j, j < F.len), F.arr[i] != F.arr[j])),                 # distinct member objects
                      z3.ForAll([i], z3.Implies(z3.And(0 <= i, i < F.len), z3.And(F.arr[i] != NULL, F.arr[i] != me, NP(F.arr[i]) >= 0))),
                      z3.ForAll([i, a], z3.Implies(z3.And(0 <= i, i < F.len, 0 <= a, a < NP(F.arr[i])), z3.And(0 <= IDX(F.arr[i])[a], IDX(F.arr[i])[a] < NM))))    # _get_parameter_indices' contract
    c_ = Contract("MultiFit", "_update_singular_fits")
    c_.requires.append(pre)
    c_.loops[0] = lambda e, s: z3.And(0 <= s.locals["#i0"].e, s.locals["#i0"].e <= NF(s), z3.ForAll([k], z3.Implies(z3.And(0 <= k, k < s.locals["#i0"].e), member_ok(s, fits(s).arr[k]))))
    c_.ensures.append(lambda vw: [("EVERY member holds: did_fit, errors[a] = E[idx a], cov / cor [a][b] = C[idx a][idx b] (None iff the multi-fit has none), asymmetric errors rows idx a of the multi-fit's FULL array (None iff not calculated)",
                                   z3.ForAll([k], z3.Implies(z3.And(0 <= k, k < NF(vw.pre)), member_ok(vw.post, fits(vw.pre).arr[k]))))])
    eng.verify("MultiFit", "_update_singular_fits", None, None, contract=c_)
    return eng



# ------------------------------------------------------------------ (5) fix / release mirrored into the members that have the name
CELL = z3.Function("fix_cell", Ref, Name, Ref)            # (fitter, parameter name) -> the cell holding its fixed flag / value
FITTER = lambda st, f: H("_fitter", "ref")[f] if False else None
HAS = z3.Function("member_has_parameter", Ref, Name, B)


class VFixedView(V):
    def __init__(self, fitter):
        self.fitter = fitter


def fix_engine(root):
    schema = {"MultiFit": {"_fits": REFSEQ("FitBase"), "_fitter": REF("NexusFitter")}, "FitBase": {"_fitter": REF("NexusFitter")}, "NexusFitter": {}, "FixCell": {"#fixed": BOOL, "#fixval": NUM}}
    f_, g_, x_, y_ = z3.Const("f_", Ref), z3.Const("g_", Ref), z3.Const("x_", Name), z3.Const("y_", Name)
    eng = engine(root, FILES, schema, [z3.ForAll([f_, x_, g_, y_], z3.Implies(CELL(f_, x_) == CELL(g_, y_), z3.And(f_ == g_, x_ == y_)), patterns=[z3.MultiPattern(CELL(f_, x_), CELL(g_, y_))])])
    eng.repo.classes.setdefault("FixCell", eng.repo.classes["FitBase"])
    fx, fv = lambda st: st.h("#fixed", "bool"), lambda st: st.h("#fixval", "num")
    fitter_of = lambda st, f: eng.read_field(st, VRef(f, "FitBase"), "_fitter").e
    allcells = [("#fixed", "bool", "", "all"), ("#fixval", "num", "", "all")]

    def frame(vw, cell):
        c0 = z3.Const("c0", Ref)
        return z3.And(z3.ForAll([c0], z3.Implies(c0 != cell, fx(vw.post)[c0] == fx(vw.pre)[c0]), patterns=[fx(vw.post)[c0]]),
                      z3.ForAll([c0], z3.Implies(c0 != cell, fv(vw.post)[c0] == fv(vw.pre)[c0]), patterns=[fv(vw.post)[c0]]))

    # NexusFitter: fix(name, value) marks (self, name) fixed at `value` (or at its current value), release clears the mark; no other cell changes  [assumed here; fixed values under C15/C19]
    def nf_fix(vw):
        cell = CELL(vw.self.e, vw.args["name"].e)
        v = vw.args.get("value")
        return z3.And(fx(vw.post)[cell], frame(vw, cell), True if (v is None or isinstance(v, VNone)) else fv(vw.post)[cell] == v.real())
    mk(eng, "NexusFitter", "fix_parameter", ensures=[nf_fix], modifies=allcells)
    mk(eng, "NexusFitter", "release_parameter", ensures=[lambda vw: z3.And(z3.Not(fx(vw.post)[CELL(vw.self.e, vw.args["name"].e)]), frame(vw, CELL(vw.self.e, vw.args["name"].e)))], modifies=allcells)
    mk(eng, "NexusFitter", "fixed_parameters", "getter", result=lambda vw: VFixedView(vw.self.e))
    # a member's fix_parameter / release_parameter act on the member's own fitter (FitBase.fix_parameter: self._fitter.fix_parameter(name=name, value=value))
    mk(eng, "FitBase", "fix_parameter", ensures=[lambda vw: z3.And(fx(vw.post)[CELL(fitter_of(vw.pre, vw.self.e), vw.args["name"].e)], (fv(vw.post)[CELL(fitter_of(vw.pre, vw.self.e), vw.args["name"].e)] == vw.args["value"].real()) if isinstance(vw.args.get("value"), VNum) else z3.BoolVal(True),
                                                                  frame(vw, CELL(fitter_of(vw.pre, vw.self.e), vw.args["name"].e)))],
       requires=[lambda vw: HAS(vw.self.e, vw.args["name"].e)], modifies=allcells)
    mk(eng, "FitBase", "release_parameter", ensures=[lambda vw: z3.And(z3.Not(fx(vw.post)[CELL(fitter_of(vw.pre, vw.self.e), vw.args["name"].e)]), frame(vw, CELL(fitter_of(vw.pre, vw.self.e), vw.args["name"].e)))],
       requires=[lambda vw: HAS(vw.self.e, vw.args["name"].e)], modifies=allcells)
    q_ = z3.Int("q_")
    mk(eng, "FitBase", "parameter_names", "getter", result=lambda vw: VSeqOf(lambda q: VName(FNAME(vw.self.e, q)), NP(vw.self.e), key="member:" + vw.self.e.sexpr()))

    def sub(e, st, n, base):
        if isinstance(base, VFixedView):
            nm = e.ev(n.slice, st)
            cell = CELL(base.fitter, nm.e)
            e.oblige("pre@key(KeyError otherwise):" + ast.unparse(n)[:50], st, fx(st)[cell])
            return VNum(fv(st)[cell])
        return None
    eng.subscript_hook = sub
    return eng, fx, fv, fitter_of


def u_fix_release(root):
    import ast as _a
    globals()["ast"] = _a
    eng, fx, fv, fitter_of = fix_engine(root)
    name = z3.Const("name", Name)
    fits = lambda st: eng.read_field(st, VRef(me, "MultiFit"), "_fits")
    mfit = lambda st: eng.read_field(st, VRef(me, "MultiFit"), "_fitter").e
    snap = {}

    def pre(vw):
        F = fits(vw.pre)
        snap["pre"] = vw.pre
        q_ = z3.Int("q_")
        return z3.And(F.len >= 0, mfit(vw.pre) != NULL,
                      z3.ForAll([i], z3.Implies(z3.And(0 <= i, i < F.len), z3.And(F.arr[i] != NULL, F.arr[i] != me, fitter_of(vw.pre, F.arr[i]) != mfit(vw.pre), NP(F.arr[i]) >= 0))),
                      z3.ForAll([i, j], z3.Implies(z3.And(0 <= i, i < j, j < F.len), fitter_of(vw.pre, F.arr[i]) != fitter_of(vw.pre, F.arr[j]))),          # every fit owns its fitter
                      z3.ForAll([i], z3.Implies(z3.And(0 <= i, i < F.len), HAS(F.arr[i], name) == z3.Exists([q_], z3.And(0 <= q_, q_ < NP(F.arr[i]), FNAME(F.arr[i], q_) == name)))))

    def others_untouched(s, lo):
        """members from position lo on, other names, and fitters of no member: exactly as before the call"""
        c0, x_ = z3.Const("c0", Ref), z3.Const("x_", Name)
        P, F = snap["pre"], fits(s)
        touched = lambda c: z3.Or(c == CELL(mfit(P), name), z3.Exists([k], z3.And(0 <= k, k < lo, HAS(F.arr[k], name), c == CELL(fitter_of(P, F.arr[k]), name))))
        return z3.And(z3.ForAll([c0], z3.Implies(z3.Not(touched(c0)), z3.And(fx(s)[c0] == fx(P)[c0], fv(s)[c0] == fv(P)[c0])), patterns=[fx(s)[c0]]),
                      z3.ForAll([c0], z3.Implies(z3.Not(touched(c0)), fv(s)[c0] == fv(P)[c0]), patterns=[fv(s)[c0]]))

    for meth, want_fixed in (("fix_parameter", True), ("release_parameter", False)):
        def mirrored(s, upto, want_fixed=want_fixed):
            P, F = snap["pre"], fits(s)
            mc = CELL(mfit(P), name)
            mem = lambda kk: CELL(fitter_of(P, F.arr[kk]), name)
            if want_fixed:
                return z3.And(fx(s)[mc], z3.ForAll([k], z3.Implies(z3.And(0 <= k, k < upto, HAS(F.arr[k], name)), z3.And(fx(s)[mem(k)], fv(s)[mem(k)] == fv(s)[mc]))))
            return z3.And(z3.Not(fx(s)[mc]), z3.ForAll([k], z3.Implies(z3.And(0 <= k, k < upto, HAS(F.arr[k], name)), z3.Not(fx(s)[mem(k)]))))
        c_ = Contract("MultiFit", meth)
        c_.requires.append(pre)
        c_.loops[0] = lambda e, s, mirrored=mirrored: z3.And(0 <= s.locals["#i0"].e, s.locals["#i0"].e <= fits(s).len, mirrored(s, s.locals["#i0"].e), others_untouched(s, s.locals["#i0"].e),
                                                             *( [s.locals["_val"].real() == fv(s)[CELL(mfit(snap["pre"]), name)]] if "_val" in s.locals else []))
        c_.ensures.append(lambda vw, mirrored=mirrored, want_fixed=want_fixed: [
            (("fixed in the multi-fit and, with the SAME value, in every member that has the name" if want_fixed else "released in the multi-fit and in every member that has the name"), mirrored(vw.post, fits(vw.pre).len)),
            ("members without the name, all other names and everything else about fixing: untouched", others_untouched(vw.post, fits(vw.pre).len))] +
            ([("an explicit value is the value fixed", fv(vw.post)[CELL(mfit(vw.pre), name)] == z3.Real("value"))] if want_fixed else []))
        if want_fixed:
            eng.verify("MultiFit", meth, None, lambda e, st, me_: {"name": VName(name), "value": VNum(z3.Real("value"))}, contract=c_, tag="[value given]")
            c2 = Contract("MultiFit", meth)
            c2.requires, c2.loops = c_.requires, c_.loops
            c2.ensures.append(lambda vw, mirrored=mirrored: [("fixed in the multi-fit and, with the SAME value, in every member that has the name", mirrored(vw.post, fits(vw.pre).len)),
                                                             ("members without the name, all other names and everything else about fixing: untouched", others_untouched(vw.post, fits(vw.pre).len))])
            eng.verify("MultiFit", meth, None, lambda e, st, me_: {"name": VName(name), "value": VNone()}, contract=c2, tag="[value=None]")
        else:
            eng.verify("MultiFit", meth, None, lambda e, st, me_: {"name": VName(name)}, contract=c_)
    return eng



# ------------------------------------------------------------------ (2b) projection of the shared x part with the model slopes
UTIL = "@kafe2/fit/util/__init__.py"


def u_total_cov(root):
    eng = block_engine(root)
    N = z3.Int("N_points")
    X_, Y_ = VMat(z3.Const("x_cov_mat", MA), N, N), VMat(z3.Const("y_cov_mat", MA), N, N)
    dv = VSeq(z3.Const("derivatives", PA), N)
    decomp = {"cholesky_decomposition": z3.Function("cholesky_of", MA, I, z3.DeclareSort("Decomp")), "qr_decomposition": z3.Function("qr_of", MA, I, z3.DeclareSort("Decomp"))}
    for fn, uf in decomp.items():       # kafe2.fit.util functions: a function of the matrix handed over (what they return is C01's subject)
        eng.lib[fn] = lambda e, st, a_, kw, n, uf=uf: VOpaque(("term", uf(materialise(a_[0].arr, "V"), a_[0].rows)))
    spec = lambda: materialise(FnArr(lambda r_: FnArr(lambda c_: Y_.arr[r_][c_] + X_.arr[r_][c_] * (dv.arr[r_] * dv.arr[c_]))), "V")
    for nested, fn in (("total_cov_mat_cholesky", "cholesky_decomposition"), ("total_cov_mat_qr", "qr_decomposition")):
        for has_x in (True, False):
            c_ = Contract("MultiFit", "_init_shared_error_nodes")
            c_.requires.append(lambda vw, has_x=has_x: z3.And(N >= 0, eng.read_field(vw.pre, vw.self, "_min_x_error").none == (not has_x)))
            if has_x:
                c_.ensures.append(lambda vw, fn=fn: [("decomposition of V = V_y + V_x (.) d d^T (every entry of the shared x covariance weighted with the two slopes)", vw.result.tag[1] == decomp[fn](spec(), N))])
            else:
                c_.ensures.append(lambda vw, fn=fn: [("no x uncertainty anywhere: decomposition of V_y", vw.result.tag[1] == decomp[fn](materialise(Y_.arr, "V"), N))])
            eng.verify("MultiFit", "_init_shared_error_nodes", None, lambda e, st, me_: {"x_cov_mat": X_, "derivatives": dv, "y_cov_mat": Y_}, contract=c_, nested=nested, tag="[x errors]" if has_x else "[no x errors]")
    return eng



def u_total_cov_getter(root):
    schema = {"MultiFit": {"_shared_error_dicts": PYOBJ, "_fits": REFSEQ("FitBase"), "_nexus": REF("Nexus")}, "FitBase": {}}
    eng = engine(root, FILES + ["kafe2/core/fitters/nexus.py"], schema, [])
    N = z3.Int("N_points")
    X_, Y_ = VMat(z3.Const("node_x_cov_mat", MA), N, N), VMat(z3.Const("node_y_cov_mat", MA), N, N)
    dv = VSeq(z3.Const("node_derivatives", PA), N)
    mk(eng, "Nexus", "get", result=lambda vw: VNode(vw.args["node_name"].s, vw.self.e))
    eng.node_values = {"x_cov_mat": X_, "y_cov_mat": Y_, "derivatives": dv}
    # shared sources present: the joint matrix of the three combined nodes
    c_ = Contract("MultiFit", "total_cov_mat", "getter")
    c_.requires.append(lambda vw: z3.And(N >= 0, H("_nexus", "ref")[me] != NULL))
    c_.ensures.append(lambda vw: [("joint covariance = V_y + V_x (.) d d^T of the combined nodes", z3.And(vw.result.rows == N, vw.result.cols == N, z3.ForAll([r, c], z3.Implies(z3.And(0 <= r, r < N, 0 <= c, c < N),
                                   vw.result.at(r, c) == Y_.arr[r][c] + X_.arr[r][c] * (dv.arr[r] * dv.arr[c])))))])
    eng.verify("MultiFit", "total_cov_mat", "getter", lambda e, st, me_: (e.write_field(st, me_, "_shared_error_dicts", VDict({"e0": VNone()})), {})[1], contract=c_, tag="[shared sources]")
    # no shared source: block diagonal of the members' own total covariance matrices
    SA = z3.Const("size_prefix_sums", IA)
    TC = z3.Function("member_total_cov_mat", Ref, MA)
    fits = lambda st: eng.read_field(st, VRef(me, "MultiFit"), "_fits")
    mk(eng, "FitBase", "data_size", "getter", result=lambda vw: VNum(SA[fits(vw.pre).len]) if vw.self.e.eq(me) else VNum(SIZE(vw.self.e)))
    mk(eng, "FitBase", "total_cov_mat", "getter", result=lambda vw: VMat(TC(vw.self.e), SIZE(vw.self.e), SIZE(vw.self.e)))
    a_, b_ = z3.Ints("a_ b_")

    def pre(vw):
        F = fits(vw.pre)
        return z3.And(F.len >= 0, SA[0] == 0, z3.ForAll([k], z3.Implies(z3.And(0 <= k, k < F.len), z3.And(F.arr[k] != me, SIZE(F.arr[k]) >= 1, SA[k + 1] == SA[k] + SIZE(F.arr[k]))), patterns=[SA[k + 1]]),
                      z3.ForAll([a_, b_], z3.Implies(z3.And(0 <= a_, a_ <= b_, b_ <= F.len), SA[a_] <= SA[b_]), patterns=[z3.MultiPattern(SA[a_], SA[b_])]))      # lemma edges_monotone
    inb = lambda st, a_, t_: z3.And(0 <= a_, a_ < fits(st).len, 0 <= t_, t_ < SA[a_ + 1] - SA[a_])
    mark = z3.Function("entry_marker", I, I, I, I, B)
    eng.axioms.append(z3.ForAll([a, b, t, u], mark(a, b, t, u), patterns=[mark(a, b, t, u)]))
    want = lambda st, q, M: z3.ForAll([a, b, t, u], z3.Implies(z3.And(mark(a, b, t, u), inb(st, a, t), inb(st, b, u)),
                                                              M.arr[SA[a] + t][SA[b] + u] == z3.If(z3.And(a == b, a < q), TC(fits(st).arr[a])[t][u], z3.RealVal(0))), patterns=[mark(a, b, t, u)])
    c2 = Contract("MultiFit", "total_cov_mat", "getter")
    c2.requires.append(pre)
    c2.loops[0] = lambda e, s: z3.And(0 <= s.locals["#i0"].e, s.locals["#i0"].e <= fits(s).len, s.locals["_lower"].e == SA[s.locals["#i0"].e], s.locals["_total_cov_mat"].rows == SA[fits(s).len],
                                      s.locals["_total_cov_mat"].cols == SA[fits(s).len], want(s, s.locals["#i0"].e, s.locals["_total_cov_mat"]))
    c2.ensures.append(lambda vw: [("block diagonal: member k's own total covariance in block (k, k), zero between different members", z3.And(vw.result.rows == SA[fits(vw.pre).len], want(vw.pre, fits(vw.pre).len, vw.result)))])
    eng.verify("MultiFit", "total_cov_mat", "getter", lambda e, st, me_: (e.write_field(st, me_, "_shared_error_dicts", VDict({})), {})[1], contract=c2, tag="[no shared source]")
    return eng



def u_push_after_results(root):
    """do_fit and the asymmetric-error getter push the (new) results into the members AFTER the base class produced them"""
    schema = {"MultiFit": {"#results_new": BOOL, "#members_current": BOOL}, "FitBase": {"#results_new": BOOL, "#members_current": BOOL}}
    eng = engine(root, FILES, schema, [])
    newr, cur = lambda st: st.h("#results_new", "bool")[me], lambda st: st.h("#members_current", "bool")[me]
    produce = [lambda vw: z3.And(newr(vw.post), z3.Not(cur(vw.post)))]        # new results exist, members not yet updated
    mod = [("#results_new", "bool", ""), ("#members_current", "bool", "")]
    mk(eng, "FitBase", "do_fit", ensures=produce, modifies=mod)
    mk(eng, "FitBase", "asymmetric_parameter_errors", "getter", result=lambda vw: VOpaque("asymmetric errors"), ensures=produce, modifies=mod)
    mk(eng, "MultiFit", "_update_singular_fits", ensures=[lambda vw: z3.And(cur(vw.post), newr(vw.post) == newr(vw.pre))], modifies=mod)      # its own contract: unit _update_singular_fits
    for meth, kind in (("do_fit", None), ("asymmetric_parameter_errors", "getter")):
        c_ = Contract("MultiFit", meth, kind)
        c_.ensures.append(lambda vw: [("results were produced and THEN pushed into every member", z3.And(newr(vw.post), cur(vw.post)))])
        eng.verify("MultiFit", meth, kind, None, contract=c_)
    return eng


def u_init_nexus_order(root):
    """MultiFit._init_nexus: fits that use the same parameter name use ONE parameter node - the node of the last fit that declares the name is installed in EVERY fit using it,
    and only after that does any member build its fitter (a fitter built earlier would keep writing to the member's own, orphaned node).  Instance unit over recording members."""
    from . import c03
    Part, Val, Fn, RecNexus, log = c03.Part, c03.Val, c03.Fn, c03.RecNexus, c03.log
    eng = engine(root, ["kafe2/fit/multi/fit.py", "kafe2/fit/_base/fit.py"], {"MultiFit": {"_fits": PYOBJ, "_nexus": PYOBJ, "_combined_parameter_node_dict": PYOBJ, "_cost_function": PYOBJ}}, [])
    eng.consts = {"np": VLib("np"), "OrderedDict": VLib("dict")}
    mk(eng, "FitBase", "_init_nexus", result=lambda vw: (vw.eng.write_field(vw.post, vw.self, "_nexus", RecNexus()), VNone())[1])
    mk(eng, "FitBase", "_initialize_fitter", result=lambda vw: (log(vw.post, "multi_fitter_built"), VNone())[1])
    mk(eng, "MultiFit", "_initialize_fitter", result=lambda vw: (log(vw.post, "multi_fitter_built"), VNone())[1])
    eng.consts["Alias"] = Fn(lambda e, st, a, kw: Val("Alias:" + kw["name"].s))
    eng.consts["Array"] = Fn(lambda e, st, a, kw: Val("Array:" + kw["name"].s))
    eng.comp_models = {"['cost%s' % _i for _i in range(len(self._fits))]": lambda e, st, n: VTuple([VStr("cost%d" % q_) for q_ in range(len(e.read_field(st, st.locals["self"], "_fits").items))])}
    eng.consts["MultiCostFunction"] = Fn(lambda e, st, a, kw: Part("multi_cost", {"name": VStr("cost_sum"), "arg_names": VTuple([VStr("cost0"), VStr("cost1")])}))

    class MemberNexus(V):
        def __init__(self, who):
            self.who = who

        def vattr(self, e, st, attr):
            if attr == "get":
                def get(e_, st_, a, kw):
                    nm = a[0].s
                    if nm in ("x_data", "y_data", "total_cov_mat_log_determinant", "cost"):
                        return Val(f"{self.who}.node:{nm}")
                    return Part(f"{self.who}.par:{nm}", {"name": VStr(nm)})
                return Fn(get)
            if attr == "add":
                return Fn(lambda e_, st_, a, kw: (log(st_, "member_add", self.who, kw.get("node", a[0] if a else None), kw.get("existing_behavior")), VNone())[1])

    layouts = {"ab|ca": (("a", "b"), ("c", "a")), "ab|bd|a": (("a", "b"), ("b", "d"), ("a",))}
    for lname, layout in layouts.items():
        c = Contract("MultiFit", "_init_nexus")

        def post(vw, layout=layout):
            if vw.flow == "raise":
                return [("no exception", z3.BoolVal(False))]
            tr = list(vw.post.ghost.get("fx", ()))
            built = {x[1]: q_ for q_, x in enumerate(tr) if x[0] == "call" and x[2] == "_initialize_fitter"}
            installs = [(q_, x[1], getattr(x[2], "name", "?"), x[3]) for q_, x in enumerate(tr) if x[0] == "member_add"]
            owner = {}
            for k_, names in enumerate(layout):
                for n_ in names:
                    owner[n_] = "member%d" % k_          # the node of the LAST fit declaring the name is the shared one
            want = {("member%d" % k_, n_): f"{owner[n_]}.par:{n_}" for k_, names in enumerate(layout) for n_ in names}
            got = {(who, node.split(".par:")[1]): node for _, who, node, beh in installs if isinstance(beh, VStr) and beh.s == "replace"}
            last_install = max([q_ for q_, *_ in installs], default=-1)
            return [("EVERY fit that uses a parameter name gets the one shared node of that name installed (replacing its own)", z3.BoolVal(got == want)),
                    ("every member builds its fitter, and only AFTER all shared nodes are installed", z3.BoolVal(set(built) == {"member%d" % k_ for k_ in range(len(layout))} and all(q_ > last_install for q_ in built.values()))),
                    ("the multi-fit builds its own fitter last", z3.BoolVal(bool(tr) and tr[-1][0] == "multi_fitter_built"))]
        c.ensures.append(post)

        def init(e, st, me_, layout=layout):
            members = [Part("member%d" % k_, {"parameter_names": VTuple([VStr(n_) for n_ in names]), "_nexus": MemberNexus("member%d" % k_), "_cost_function": Val("member%d.cost_function" % k_),
                                               "_initialize_fitter": Fn(lambda e_, st_, a, kw: VNone())}) for k_, names in enumerate(layout)]
            e.write_field(st, me_, "_fits", VTuple(members))
            return {}
        eng.verify("MultiFit", "_init_nexus", None, init, contract=c, tag=f"[members {lname}]")
    return eng


def units(root):
    return [Unit("MultiCostFunction.cost_sum / __call__", u_cost_sum), Unit("MultiCostFunction.__init__", u_multi_cost_init), Unit("_combine_1d_property", u_combine_1d), Unit("_combine_cov_mats", u_combine_cov), Unit("_init_shared_error_nodes block edges", u_data_indices), Unit("lemma edges_monotone", u_lemmas), Unit("_get_parameter_indices", u_param_indices), Unit("_update_singular_fits", u_update_singular), Unit("fix_parameter / release_parameter", u_fix_release), Unit("total_cov_mat closures", u_total_cov), Unit("MultiFit.total_cov_mat", u_total_cov_getter), Unit("do_fit / asymmetric_parameter_errors push results", u_push_after_results), Unit("MultiFit._init_nexus: one node per shared parameter name, installed before any member fitter is built", u_init_nexus_order, bounded="two layouts of 2 / 3 recording member fits")]
