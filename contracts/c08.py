"""C08 - Inspecting results never moves the fit.

The fit has two copies of the current point: the minimizer's parameter values and the graph's parameter nodes. The graph is written only by calls of the
cost callback (NexusFitter._fcn_wrapper sets the nodes to the arguments it is called with).  Ghost state on the minimizer: #sync = the argument vector of the
LAST callback call, #sync_valid = no back-end routine has run since (back ends evaluate the callback at points of their own choosing).
Obligation at every normal exit of every method that can run after a fit:   #sync_valid  and  #sync == self.parameter_values   (graph == minimizer).
Callers use callees by these contracts, so a missing write-back anywhere on a path breaks a named obligation.  'Unchanged up to the minimizer tolerance'
after an internal re-minimisation is numerical and only observed by the bounded native histories.
"""
import ast
import z3
from .base import *

FILES = ["kafe2/core/minimizers/minimizer_base.py", "kafe2/core/minimizers/iminuit_minimizer.py", "kafe2/core/minimizers/scipy_optimize_minimizer.py", "kafe2/core/fitters/nexus_fitter.py", "kafe2/core/fitters/nexus.py"]
META = {
    "level": "proof",
    "trusted_base": [
        "back-end routines (iminuit migrad / hesse / minos / mnprofile / mncontour, scipy.optimize.minimize / root_scalar / brentq, numdifftools.Hessian) evaluate the callback at arbitrary points and change only their own state: modelled as havoc of the back-end values and of #sync_valid",
        "NexusFitter._fcn_wrapper is the callback (it writes its arguments into the parameter nodes): proved here; Parameter.value setter stores the value (C04)",
        "np.array / copy / deepcopy keep numeric content",
        "floats as reals; z3/cvc5 soundness",
    ],
    "assumptions": ["closed world: the three adapters in the repository; the ROOT TMinuit adapter is not loadable in this sandbox and not under contract",
                    "numerical closeness of a re-minimised optimum to the original one (minimizer tolerance) is NOT proved",
                    "the scipy adapter's contour routines (heuristic grid, beacon search: ~350 lines of numerical search) are not under contract: bounded native histories only"],
    "bounded": [{"what": "histories of post-fit queries on real fits (11 queries incl. asymmetric errors, profiles, contours, error band, report, result dict, saving), after each query: graph == minimizer values, values / cost / errors / did_fit unchanged within tolerance, same answer twice",
                 "bound": "native: 706 histories of length <= 2 (quick) / <= 3 (thorough), 5 fit types x 2 back ends x {free, fixed, limited, frozen after the fit}"}],
}
me = z3.Const("self", Ref)
i = z3.Int("i")
PA = arr(I, R)
SCHEMA = {"MinimizerBase": {"#sync": SEQ, "#sync_valid": BOOL, "#backend": SEQ, "_par_val": OPTSEQ, "_par_err": OPTSEQ, "_did_fit": BOOL, "_func_handle": FUN, "_save_state_dict": PYOBJ, "_hessian": FT("optmat"), "_hessian_inv": FT("optmat"),
                             "_par_cov_mat": FT("optmat"), "_par_cor_mat": FT("optmat"), "_par_asymm_err": FT("optmat"), "_fval": OPTNUM, "_printed_inf_cost_warning": BOOL, "_fmin_struct": PYOBJ,
                             "_minimizer_param_dict": PYOBJ, "_par_names": PYOBJ, "_par_fixed": PYOBJ, "_par_bounds": PYOBJ, "_opt_result": PYOBJ, "_MinimizerIMinuit__iminuit": PYOBJ, "__iminuit": PYOBJ, "_strategy": PYOBJ}}
N = z3.Int("num_pars")


def F(vw, st, f):
    return vw.f(st, vw.self, f)


def sync_eq(eng, st, ref, vec):
    s = eng.read_field(st, ref, "#sync")
    return z3.And(eng.read_field(st, ref, "#sync_valid").e, s.len == vec.len, z3.ForAll([i], z3.Implies(z3.And(0 <= i, i < vec.len), s.arr[i] == vec.arr[i])))


def c08_engine(root, cls):
    eng = engine(root, FILES, SCHEMA, [N >= 1])
    eng.lib["np.array"] = eng.lib["np.asarray"] = lambda e, st, a, kw, n: a[0]
    eng.lib["deepcopy"] = lambda e, st, a, kw, n: a[0]
    eng.lib["np.isinf"] = lambda e, st, a, kw, n: VBool(z3.BoolVal(False))
    eng.lib["np.isnan"] = lambda e, st, a, kw, n: VBool(z3.BoolVal(False))
    eng.lib["np.exp"] = lambda e, st, a, kw, n: VNum(fresh("exp", R))

    def callback(e, st, args, kw, node):
        """the cost callback: whoever listens (the graph) now holds exactly these arguments"""
        me_ = st.locals["self"]
        if len(args) == 1 and isinstance(args[0], VStar):
            vec = args[0].seq
        else:
            vec = VSeq(FnArr(lambda k_, args=args: z3.Sum([z3.If(k_ == q_, a_.real(), z3.RealVal(0)) for q_, a_ in enumerate(args)])), z3.IntVal(len(args)))
        e.write_field(st, me_, "#sync", vec)
        e.write_field(st, me_, "#sync_valid", VBool(z3.BoolVal(True)))
        return VNum(fresh("fval", R))
    eng.fun_models = {"_func_handle": callback}
    eng.ext_results = {}
    return eng


def backend_call(eng, st, ref):
    """a back-end routine ran: its values are whatever it found, the callback was last evaluated somewhere else"""
    eng.write_field(st, ref, "#backend", VSeq(fresh("backend_values", PA), N))
    eng.write_field(st, ref, "#sync_valid", VBool(z3.BoolVal(False)))


def synced_post(getpv):
    return lambda vw: [("graph == minimizer: the callback was last evaluated at the minimizer's parameter values, after every back-end excursion", sync_eq(vw.eng, vw.post, vw.self, getpv(vw, vw.post)))]


# ------------------------------------------------------------------ MinimizerBase
def u_base(root):
    eng = c08_engine(root, "MinimizerBase")
    pv = lambda vw, st: F(vw, st, "_par_val")          # the adapters keep their values in _par_val (scipy) / return it when cached (iminuit)
    mk(eng, "MinimizerBase", "parameter_values", "getter", result=lambda vw: VSeq(F(vw, vw.pre, "_par_val").arr, N))
    argv = VSeq(z3.Const("args", PA), N)
    # 1. the two wrappers hand their arguments to the callback
    def as_vec(v):
        if isinstance(v, VStar):
            return v.seq
        if isinstance(v, VTuple) and len(v.items) == 1 and isinstance(v.items[0], VStar):
            return v.items[0].seq
        return v
    for name, init in (("_func_wrapper", lambda e, st, me_: {"args": argv}), ("_func_wrapper_unpack_args", lambda e, st, me_: {"args": argv})):
        c = Contract("MinimizerBase", name)
        c.ensures.append(lambda vw: [("the callback is evaluated at exactly these arguments", sync_eq(vw.eng, vw.post, vw.self, argv))])
        eng.verify("MinimizerBase", name, None, init, contract=c)
        cw = mk(eng, "MinimizerBase", name, modifies=[("#sync", "seq", ""), ("#sync", "seq", "len"), ("#sync_valid", "bool", "")], result=lambda vw: VNum(fresh("fval", R)))
        cw.ensures.append(lambda vw: [sync_eq(vw.eng, vw.post, vw.self, as_vec(vw.args["args"]))])
    # 2. _load_state ends with the graph at the restored values
    c = Contract("MinimizerBase", "_load_state")
    c.ensures.append(synced_post(lambda vw, st: VSeq(F(vw, st, "_par_val").arr, N)))

    def init_ls(e, st, me_):
        d = {k_: VNone() for k_ in ("asymmetric_parameter_error", "hessian", "hessian_inv", "par_cov_mat", "par_cor_mat")}
        d["did_fit"] = VBool(z3.Bool("saved_did_fit"))
        e.write_field(st, me_, "_save_state_dict", VDict(d))
        return {}
    eng.verify("MinimizerBase", "_load_state", None, init_ls, contract=c)
    # 3. the numerical Hessian is an excursion: the values are written back afterwards
    class Hess(V):
        def vcall(self, e, st, a, kw):
            backend_call(e, st, st.locals["self"])
            h = VMat(fresh("hessian", arr(I, I, R)), N, N)
            return h
    eng.consts = {"nd": VLib("nd")}
    eng.lib["nd.Hessian"] = lambda e, st, a, kw, n: Hess()
    eng.lib["np.all"] = lambda e, st, a, kw, n: VBool(z3.BoolVal(True))
    mk(eng, "MinimizerBase", "did_fit", "getter", result=lambda vw: VBool(F(vw, vw.pre, "_did_fit").e))
    pvb = lambda vw, st: VSeq(F(vw, st, "_par_val").arr, N)
    none = lambda vw, st, f: F(vw, st, f).none
    sync_same = lambda vw: z3.And(F(vw, vw.post, "#sync_valid").e == F(vw, vw.pre, "#sync_valid").e, F(vw, vw.post, "#sync").arr == F(vw, vw.pre, "#sync").arr, F(vw, vw.post, "#sync").len == F(vw, vw.pre, "#sync").len,
                                  F(vw, vw.post, "_par_val").arr == F(vw, vw.pre, "_par_val").arr)

    def chain_post(fields):
        """a lazily computed result: computing it now ends with the values written back; a cached one touches nothing"""
        def post(vw):
            fresh_now = z3.And(F(vw, vw.pre, "_did_fit").e, *[none(vw, vw.pre, f_) for f_ in fields])
            return [("computed now (no cached value on the way down to the Hessian): the graph ends at the minimizer's values", z3.Implies(fresh_now, sync_eq(vw.eng, vw.post, vw.self, pvb(vw, vw.post)))),
                    ("otherwise the callback history and the values stay as they are, or the graph ends at the minimizer's values", z3.Implies(z3.Not(fresh_now), z3.Or(sync_same(vw), z3.And(F(vw, vw.pre, "_did_fit").e, sync_eq(vw.eng, vw.post, vw.self, pvb(vw, vw.post))))))]
        return post
    eng.lib["np.linalg.inv"] = lambda e, st, a, kw, n: a[0]
    mk(eng, "MinimizerBase", "_remove_zeroes_for_fixed", result=lambda vw: list(vw.args.values())[0])
    mk(eng, "MinimizerBase", "_fill_in_zeroes_for_fixed", result=lambda vw: list(vw.args.values())[0])
    mk(eng, "MinimizerBase", "errordef", "getter", result=lambda vw: VNum(z3.Real("errordef")))
    mods_all = [("#sync", "seq", ""), ("#sync", "seq", "len"), ("#sync_valid", "bool", ""), ("#backend", "seq", "")]
    chain = [("hessian", ["_hessian"]), ("hessian_inv", ["_hessian_inv", "_hessian"]), ("cov_mat", ["_par_cov_mat", "_hessian_inv", "_hessian"])]
    for name, fields in chain:
        c = Contract("MinimizerBase", name, "getter")
        c.ensures.append(chain_post(fields))
        eng.verify("MinimizerBase", name, "getter", None, contract=c)
        g = mk(eng, "MinimizerBase", name, "getter", modifies=mods_all + [(f_, "optmat", p_) for f_ in fields for p_ in ("", "none", "rows", "cols")],
               result=lambda vw: VMat(fresh("matrix", arr(I, I, R)), N, N, none=z3.Not(F(vw, vw.pre, "_did_fit").e)))
        g.ensures.append(lambda vw, fields=fields: [x[1] for x in chain_post(fields)(vw)] + [z3.Implies(F(vw, vw.pre, "_did_fit").e, z3.Not(none(vw, vw.post, fields[0]))), F(vw, vw.post, "_par_val").arr == F(vw, vw.pre, "_par_val").arr,
                                                                                          F(vw, vw.post, "_did_fit").e == F(vw, vw.pre, "_did_fit").e])
    # the cache reset used by the adapters
    c = Contract("MinimizerBase", "_invalidate_cache")
    c.ensures.append(lambda vw: [("every lazily computed result is dropped", z3.And(*[none(vw, vw.post, f_) for f_ in ("_hessian", "_hessian_inv", "_par_cov_mat", "_par_cor_mat", "_par_asymm_err")], F(vw, vw.post, "_fval").none))])
    eng.verify("MinimizerBase", "_invalidate_cache", None, None, contract=c)
    return eng



def callee_contracts(eng, pvget):
    """contracts of the base-class pieces as used by the adapters (each verified in unit 'MinimizerBase')"""
    mods = [("#sync", "seq", ""), ("#sync", "seq", "len"), ("#sync_valid", "bool", "")]

    def as_vec(v):
        if isinstance(v, VStar):
            return v.seq
        if isinstance(v, VTuple) and len(v.items) == 1 and isinstance(v.items[0], VStar):
            return v.items[0].seq
        return v
    for name in ("_func_wrapper", "_func_wrapper_unpack_args"):
        cw = mk(eng, "MinimizerBase", name, modifies=mods, result=lambda vw: VNum(fresh("fval", R)))
        cw.ensures.append(lambda vw: [sync_eq(vw.eng, vw.post, vw.self, as_vec(vw.args["args"]))])
    return mods


# ------------------------------------------------------------------ scipy adapter
def u_scipy(root):
    eng = c08_engine(root, "MinimizerScipyOptimize")
    S = "MinimizerScipyOptimize"
    pv = lambda vw, st: VSeq(F(vw, st, "_par_val").arr, N)
    mods = callee_contracts(eng, pv)
    inline(eng, S, "parameter_values")
    # base-class _load_state by its contract: caches restored, then the callback at self.parameter_values
    bl = mk(eng, "MinimizerBase", "_load_state", modifies=mods + [("_did_fit", "bool", "")])
    bl.ensures.append(lambda vw: [sync_eq(vw.eng, vw.post, vw.self, pv(vw, vw.post))])
    saved = VSeq(z3.Const("saved_parameter_values", PA), N)
    c = Contract(S, "_load_state")
    c.ensures.append(synced_post(pv))
    c.ensures.append(lambda vw: [("the parameter values are the saved ones", z3.And(z3.Not(F(vw, vw.post, "_par_val").none), z3.ForAll([i], z3.Implies(z3.And(0 <= i, i < N), F(vw, vw.post, "_par_val").arr[i] == saved.arr[i]))))])

    def init_ls(e, st, me_):
        e.write_field(st, me_, "_save_state_dict", VDict({"parameter_values": saved, "parameter_errors": VSeq(z3.Const("saved_errors", PA), N), "parameter_bounds": VNone(), "function_value": VNum(z3.Real("saved_fval")),
                                                         "par_fixed": VOpaque("saved_fixed"), "opt_result": VOpaque("saved_result")}))
        return {}
    eng.verify(S, "_load_state", None, init_ls, contract=c)
    # minimize (no fixed parameter: the branch with fixed parameters differs only in the re-packing of the argument vector, C15; both share the tail verified here)
    sl = mk(eng, S, "_load_state", modifies=mods + [("_par_val", "optseq", ""), ("_par_val", "optseq", "none"), ("_par_val", "optseq", "len"), ("_did_fit", "bool", "")])
    sl.ensures.append(lambda vw: [sync_eq(vw.eng, vw.post, vw.self, pv(vw, vw.post)), z3.Not(F(vw, vw.post, "_par_val").none)])
    eng.consts = {"logging": VLib("logging"), "opt": VLib("opt")}
    eng.lib["np.any"] = lambda e, st, a, kw, n: VBool(z3.BoolVal(False))
    eng.lib["np.all"] = lambda e, st, a, kw, n: VBool(z3.BoolVal(False))
    eng.lib["dict"] = lambda e, st, a, kw, n: VDict(kw)
    eng.lib["np.sqrt"] = lambda e, st, a, kw, n: a[0]
    eng.lib["np.diag"] = lambda e, st, a, kw, n: VSeq(FnArr(lambda k_: a[0].arr[k_][k_]), a[0].rows)
    inline(eng, "MinimizerBase", "tolerance")
    eng.schema["MinimizerBase"].update({"_tol": NUM, "_method": PYOBJ, "_par_constraints": PYOBJ})

    class OptResult(V):
        def vattr(self, e, st, name):
            return VSeq(fresh("opt_x", PA), N) if name == "x" else VNum(fresh("opt_" + name, R))

    def opt_minimize(e, st, a, kw, n):
        backend_call(e, st, st.locals["self"])
        return OptResult()
    eng.lib["opt.minimize"] = opt_minimize
    caches = ("_hessian", "_hessian_inv", "_par_cov_mat")
    ic = mk(eng, "MinimizerBase", "_invalidate_cache", modifies=[(f_, "optmat", "none") for f_ in caches])
    ic.ensures.append(lambda vw: [F(vw, vw.post, f_).none for f_ in caches])
    # cov_mat by its contract (unit 'MinimizerBase'): computed now => the numerical Hessian ends with the values written back; cached => nothing changes
    cm = mk(eng, "MinimizerBase", "cov_mat", "getter", modifies=mods + [(f_, "optmat", "none") for f_ in caches], result=lambda vw: VMat(fresh("cov", arr(I, I, R)), N, N))

    def cm_ens(vw):
        fresh_now = z3.And(F(vw, vw.pre, "_did_fit").e, *[F(vw, vw.pre, f_).none for f_ in caches])
        unchanged = z3.And(F(vw, vw.post, "#sync_valid").e == F(vw, vw.pre, "#sync_valid").e, F(vw, vw.post, "#sync").arr == F(vw, vw.pre, "#sync").arr, F(vw, vw.post, "#sync").len == F(vw, vw.pre, "#sync").len)
        return [z3.Implies(fresh_now, sync_eq(vw.eng, vw.post, vw.self, pv(vw, vw.post))), z3.Implies(z3.Not(fresh_now), z3.Or(unchanged, sync_eq(vw.eng, vw.post, vw.self, pv(vw, vw.post))))]
    cm.ensures.append(cm_ens)
    c = Contract(S, "minimize")
    c.requires.append(lambda vw: z3.Not(F(vw, vw.pre, "_par_val").none))
    c.ensures.append(lambda vw: [] if vw.flow == "raise" else synced_post(pv)(vw) + [("a fit has been performed", F(vw, vw.post, "_did_fit").e)])

    def init_min(e, st, me_):
        e.write_field(st, me_, "_par_fixed", VSeq(FnArr(lambda k_: z3.RealVal(0)), N))
        e.write_field(st, me_, "_par_bounds", VNone()); e.write_field(st, me_, "_par_constraints", VTuple([])); e.write_field(st, me_, "_method", VStr("SLSQP"))
        return {"max_calls": VNum(z3.IntVal(6000))}
    eng.verify(S, "minimize", None, init_min, contract=c, tag="[no fixed parameter]")
    # profile: state saved, bounds searched (excursions), state restored; every scan point is an excursion; state restored at the end
    # ghost '#saved': the point the last _save_state stored (its body writes a copy of _par_val into the state dictionary; _load_state - verified above - reads it back)
    eng.schema["MinimizerBase"].update({"#saved": SEQ, "_par_err": OPTSEQ, "_fval": PYOBJ})
    mk(eng, "MinimizerBase", "_save_state")
    cs = Contract(S, "_save_state")

    def post_save(vw):
        d = vw.eng.read_field(vw.post, vw.self, "_save_state_dict")
        v = d.d.get("parameter_values") if isinstance(d, VDict) else None
        p0 = F(vw, vw.pre, "_par_val")
        return [("the state dictionary holds a copy of the current parameter values", z3.And(v.len == p0.len, z3.ForAll([i], z3.Implies(z3.And(0 <= i, i < p0.len), v.arr[i] == p0.arr[i]))) if isinstance(v, (VSeq, VOptSeq)) else z3.BoolVal(False))]
    cs.ensures.append(post_save)
    cs.requires.append(lambda vw: z3.Not(F(vw, vw.pre, "_par_val").none))

    def init_sv(e, st, me_):
        e.write_field(st, me_, "_save_state_dict", VDict({}))
        e.write_field(st, me_, "_par_bounds", VNone()); e.write_field(st, me_, "_fval", VNone()); e.write_field(st, me_, "_opt_result", VNone())
        e.write_field(st, me_, "_par_fixed", VSeq(FnArr(lambda k_: z3.RealVal(0)), N))
        return {}
    eng.verify(S, "_save_state", None, init_sv, contract=cs)
    sv = mk(eng, S, "_save_state", modifies=[("#saved", "seq", ""), ("#saved", "seq", "len")])
    sv.ensures.append(lambda vw: [F(vw, vw.post, "#saved").len == N, z3.ForAll([i], z3.Implies(z3.And(0 <= i, i < N), F(vw, vw.post, "#saved").arr[i] == F(vw, vw.pre, "_par_val").arr[i]))])
    sl.ensures.append(lambda vw: [z3.ForAll([i], z3.Implies(z3.And(0 <= i, i < N), F(vw, vw.post, "_par_val").arr[i] == F(vw, vw.pre, "#saved").arr[i]))])
    mk(eng, S, "did_fit", "getter", result=lambda vw: VBool(F(vw, vw.pre, "_did_fit").e))
    mk(eng, "MinimizerBase", "function_value", "getter", result=lambda vw: VNum(fresh("fval", R)))
    gp = mk(eng, "MinimizerBase", "_get_profile_bound", modifies=mods + [("_par_val", "optseq", ""), ("_par_val", "optseq", "len")], result=lambda vw: VTuple([VNum(fresh("low", R)), VNum(fresh("high", R)), VOpaque("arrows")]))
    gp.raises = lambda vw: ("ValueError", z3.Bool("request_refused_after_the_bounds_were_searched"))          # e.g. a confidence level outside (0, 1) noticed after the first bound was visited
    gp.exc_ensures = [lambda vw: None]                                                                          # ... the point may be anywhere then (frame havocked)
    cf = mk(eng, S, "_calc_fun_with_constraints", modifies=mods, result=lambda vw: VNum(fresh("profiled", R)))
    cf.ensures.append(lambda vw: [z3.Not(F(vw, vw.post, "#sync_valid").e)])
    eng.lib["np.linspace"] = lambda e, st, a, kw, n: VSeq(fresh("grid", PA), kw["num"].e)
    eng.lib["np.zeros"] = lambda e, st, a, kw, n: VSeq(FnArr(lambda k_: z3.RealVal(0)), a[0].e)
    eng.schema["MinimizerBase"].update({"_x0": PYOBJ})
    c = Contract(S, "profile")
    c.requires.append(lambda vw: z3.And(F(vw, vw.pre, "_did_fit").e, z3.Int("size") >= 1))
    entry = VSeq(z3.Const("parameter_values_at_entry", PA), N)
    c.requires.append(lambda vw: z3.And(z3.Not(F(vw, vw.pre, "_par_val").none), F(vw, vw.pre, "_par_val").len == N, z3.ForAll([i], z3.Implies(z3.And(0 <= i, i < N), F(vw, vw.pre, "_par_val").arr[i] == entry.arr[i]))))
    c.loops[0] = lambda e, s: z3.And(0 <= s.locals["#i0"].e, s.locals["_y"].len == z3.Int("size"),
                                     z3.ForAll([i], z3.Implies(z3.And(0 <= i, i < N), e.read_field(s, s.locals["self"], "#saved").arr[i] == entry.arr[i])))
    c.ensures.append(lambda vw: (synced_post(pv)(vw) if vw.flow != "raise" else []) +
                     [("the parameter values are where they were before the query - also when the request is refused half-way (the point saved BEFORE any excursion is the one restored at the end)", z3.ForAll([i], z3.Implies(z3.And(0 <= i, i < N), F(vw, vw.post, "_par_val").arr[i] == entry.arr[i])))])
    eng.verify(S, "profile", None, lambda e, st, me_: (e.write_field(st, me_, "_par_names", VTuple([VStr("a"), VStr("b")])), {"parameter_name": VStr("a"), "size": VNum(z3.Int("size"))})[1], contract=c)
    return eng


# ------------------------------------------------------------------ iminuit adapter
class Bag(V):
    """a dictionary whose content plays no role for the property (book-keeping of start values for a rebuilt back end)"""

    def vstore(self, e, st, t, v):
        return None

    def vsub(self, e, st, n):
        return VOpaque("bag-item")


class Names(VSeq):
    """parameter names abstracted to their positions: names[k] = k, names.index(x) = x"""

    def vattr(self, e, st, name):
        if name == "index":
            return Fn(lambda e_, st_, a, kw: VNum(a[0].e if a[0].is_int else z3.ToInt(a[0].e)))


class Fn(V):
    def __init__(self, fn):
        self.fn = fn

    def vcall(self, e, st, a, kw):
        return self.fn(e, st, a, kw)


class Rec(V):
    """record with numeric attributes / items chosen by the back end"""

    def vattr(self, e, st, name):
        if name == "index":
            return Fn(lambda e_, st_, a, kw: VNum(fresh("free_index", I)))
        return VNum(fresh("backend_" + name, R))

    def vsub(self, e, st, n):
        return Rec()


class Minuit(VExternal):
    """the iminuit.Minuit object: every routine is a back-end excursion; .values are the back end's current values"""


def u_iminuit(root):
    eng = c08_engine(root, "MinimizerIMinuit")
    M = "MinimizerIMinuit"
    eng.consts = {"_IMINUIT_1": VBool(z3.BoolVal(False)), "ContourFactory": VLib("ContourFactory")}
    eng.lib["ContourFactory.create_xy_contour"] = lambda e, st, a, kw, n: VOpaque("contour")
    eng.lib["len"] = lambda e, st, a, kw, n: VNum(fresh("len", I)) if isinstance(a[0], VOpaque) else lib.lib_len(e, st, a, kw, n)
    backend = lambda vw, st: VSeq(F(vw, st, "#backend").arr, N)
    cur = lambda vw, st: VSeq(FnArr(lambda k_: z3.If(F(vw, st, "_par_val").none, F(vw, st, "#backend").arr[k_], F(vw, st, "_par_val").arr[k_])), N)      # what parameter_values returns
    mods = callee_contracts(eng, cur)
    mobj = Minuit("minuit", {})

    def vattr(e, st, name):
        if name == "values":
            return e.read_field(st, st.locals["self"], "#backend")
        if name in ("errors",):
            return VSeq(fresh("minuit_errors", PA), N)
        if name == "merrors":
            return Rec()
        return None
    mobj.vattr = vattr
    gi = mk(eng, M, "_get_iminuit", result=lambda vw: mobj)
    for routine in ("migrad", "hesse", "minos", "mnprofile", "mncontour"):
        eng.ext_results[routine] = (lambda e, st, a, kw, routine=routine: (backend_call(e, st, st.locals["self"]), VTuple([VOpaque(routine + "-1"), VOpaque(routine + "-2"), VOpaque(routine + "-3")]) if routine == "mnprofile" else VOpaque(routine + "-result"))[1])
    # parameter_values getter: cached copy or the back end's values
    wf = lambda vw, st: z3.And(z3.Or(F(vw, st, "_par_val").none, F(vw, st, "_par_val").len == N), F(vw, st, "#backend").len == N)
    c = Contract(M, "parameter_values", "getter")
    c.requires.append(lambda vw: wf(vw, vw.pre))
    c.ensures.append(lambda vw: [("the cached values, else the back end's current values (then cached)", z3.And(vw.result.len == N, z3.ForAll([i], z3.Implies(z3.And(0 <= i, i < N), vw.result.arr[i] == cur(vw, vw.pre).arr[i])))),
                                 ("the callback history is untouched", z3.And(F(vw, vw.post, "#sync_valid").e == F(vw, vw.pre, "#sync_valid").e, F(vw, vw.post, "#sync").arr == F(vw, vw.pre, "#sync").arr))])
    eng.verify(M, "parameter_values", "getter", None, contract=c)
    # parameter_values by this contract from here on
    pvg = mk(eng, M, "parameter_values", "getter", result=lambda vw: cur(vw, vw.pre), requires=[lambda vw: wf(vw, vw.pre)])
    mk(eng, M, "parameter_errors", "getter", result=lambda vw: VSeq(fresh("errors", PA), N))
    mk(eng, M, "parameter_names", "getter", result=lambda vw: Names(FnArr(lambda k_: z3.ToReal(k_)), N))       # names abstracted to positions
    mk(eng, "MinimizerBase", "parameter_names", "getter", result=lambda vw: Names(FnArr(lambda k_: z3.ToReal(k_)), N))
    eng.comp_models = {"[_pn for _pn in self.parameter_names if not self.is_fixed(_pn)]": lambda e, st, n: Rec()}
    mk(eng, M, "is_fixed", result=lambda vw: VBool(fresh("is_fixed", B)))
    mk(eng, "MinimizerBase", "num_pars", "getter", result=lambda vw: VNum(N))
    mk(eng, M, "did_fit", "getter", result=lambda vw: VBool(F(vw, vw.pre, "_did_fit").e))
    mk(eng, "MinimizerBase", "did_fit", "getter", result=lambda vw: VBool(F(vw, vw.pre, "_did_fit").e))
    eng.lib["np.all"] = lambda e, st, a, kw, n: VBool(fresh("all_fixed", B))
    eng.lib["np.zeros"] = lambda e, st, a, kw, n: VMat(FnArr(lambda r_: FnArr(lambda c_: z3.RealVal(0))), N, z3.IntVal(2))
    inv = mk(eng, M, "_invalidate_cache", modifies=[("_par_val", "optseq", "none"), ("_par_err", "optseq", "none")])
    inv.ensures.append(lambda vw: [F(vw, vw.post, "_par_val").none, F(vw, vw.post, "_par_err").none])
    same_backend = lambda vw: z3.And(F(vw, vw.post, "#backend").arr == F(vw, vw.pre, "#backend").arr, F(vw, vw.post, "#backend").len == F(vw, vw.pre, "#backend").len)
    # 1. minimize: MIGRAD, bookkeeping, cache dropped, callback at the minimum
    c = Contract(M, "minimize")
    c.requires.append(lambda vw: wf(vw, vw.pre))
    c.loops[0] = lambda e, s: z3.And(e.read_field(s, s.locals["self"], "#backend").len == N, z3.Or(e.read_field(s, s.locals["self"], "_par_val").none, e.read_field(s, s.locals["self"], "_par_val").len == N))

    def post_min(vw):
        if vw.flow == "raise":
            return [("raises only when every parameter is fixed", z3.BoolVal(True))]
        return synced_post(cur)(vw) + [("a fit has been performed", F(vw, vw.post, "_did_fit").e), ("well-formed", wf(vw, vw.post))]
    c.ensures.append(post_min)
    eng.verify(M, "minimize", None, lambda e, st, me_: (e.write_field(st, me_, "_minimizer_param_dict", Bag()), {})[1], contract=c)
    mn = mk(eng, M, "minimize", modifies=[("#sync", "seq", ""), ("#sync", "seq", "len"), ("#sync_valid", "bool", ""), ("#backend", "seq", ""), ("_par_val", "optseq", "none"), ("_par_val", "optseq", ""), ("_par_val", "optseq", "len"),
                                          ("_par_err", "optseq", "none"), ("_did_fit", "bool", "")], requires=[lambda vw: wf(vw, vw.pre)])
    mn.ensures.append(lambda vw: [sync_eq(vw.eng, vw.post, vw.self, cur(vw, vw.post)), F(vw, vw.post, "_did_fit").e, wf(vw, vw.post), F(vw, vw.post, "#backend").len == N])
    gp = mk(eng, "MinimizerBase", "_get_profile_bound", modifies=[("#sync", "seq", ""), ("#sync_valid", "bool", ""), ("#backend", "seq", ""), ("_par_val", "optseq", "none"), ("_par_val", "optseq", ""), ("_par_val", "optseq", "len")],
            result=lambda vw: VTuple([VNum(fresh("low", R)), VNum(fresh("high", R)), VOpaque("arrows")]))        # a search with excursions of its own (base class): anything may have happened to the point
    gp.ensures.append(lambda vw: [wf(vw, vw.post)])
    gp.raises = lambda vw: ("ValueError", z3.Bool("request_refused_after_the_bounds_were_searched"))
    gp.exc_ensures = [lambda vw: [wf(vw, vw.post)]]
    # 1b. _load_state: back end and caches restored, callback at the restored values (twice: here and in the base class)
    bl = mk(eng, "MinimizerBase", "_load_state", modifies=mods + [("_did_fit", "bool", "")])
    bl.requires.append(lambda vw: wf(vw, vw.pre))
    bl.ensures.append(lambda vw: [sync_eq(vw.eng, vw.post, vw.self, cur(vw, vw.post)), wf(vw, vw.post)])
    rs = mk(eng, M, "reset", modifies=[("_par_val", "optseq", "none"), ("_par_err", "optseq", "none"), ("_did_fit", "bool", "")])
    rs.ensures.append(lambda vw: [F(vw, vw.post, "_par_val").none])
    saved = VSeq(z3.Const("saved_parameter_values", PA), N)
    for have in (True, False):
        c = Contract(M, "_load_state")
        c.requires.append(lambda vw: wf(vw, vw.pre))
        c.ensures.append(synced_post(cur))
        c.ensures.append(lambda vw, have=have: [("the values are the saved ones (or the saved back end's, when none were cached)", z3.ForAll([i], z3.Implies(z3.And(0 <= i, i < N), cur(vw, vw.post).arr[i] == (saved.arr[i] if have else F(vw, vw.post, "#backend").arr[i]))))])

        def init_ls(e, st, me_, have=have):
            e.write_field(st, me_, "_save_state_dict", VDict({"par_val": saved if have else VNone(), "par_err": VNone(), "fmin_struct": VOpaque("fmin"), "minimizer_param_dict": Bag(), "iminuit": mobj}))
            return {}
        eng.verify(M, "_load_state", None, init_ls, contract=c, tag="[values cached when saved]" if have else "[no cached values when saved]")
    # 1c. cov_mat: HESSE is an excursion bracketed by _save_state / _load_state
    ls = mk(eng, M, "_load_state", modifies=mods + [("_par_val", "optseq", ""), ("_par_val", "optseq", "none"), ("_par_val", "optseq", "len"), ("#backend", "seq", ""), ("_did_fit", "bool", "")], requires=[lambda vw: wf(vw, vw.pre)])
    ls.ensures.append(lambda vw: [sync_eq(vw.eng, vw.post, vw.self, cur(vw, vw.post)), wf(vw, vw.post)])
    mk(eng, M, "_save_state")
    eng.schema["MinimizerBase"]["_par_cov_mat"] = FT("optmat")
    c = Contract(M, "cov_mat", "getter")
    c.requires.append(lambda vw: wf(vw, vw.pre))

    def post_cov(vw):
        fresh_now = z3.And(F(vw, vw.pre, "_did_fit").e, F(vw, vw.pre, "_par_cov_mat").none)
        unchanged = z3.And(F(vw, vw.post, "#sync_valid").e == F(vw, vw.pre, "#sync_valid").e, F(vw, vw.post, "#sync").arr == F(vw, vw.pre, "#sync").arr, F(vw, vw.post, "#sync").len == F(vw, vw.pre, "#sync").len)
        return [("computed now: HESSE ran, the state was restored and the graph ends at the minimizer's values", z3.Implies(fresh_now, sync_eq(vw.eng, vw.post, vw.self, cur(vw, vw.post)))),
                ("cached or before a fit: nothing happens", z3.Implies(z3.Not(fresh_now), unchanged))]
    c.ensures.append(post_cov)
    eng.lib["np.asarray"] = lambda e, st, a, kw, n: VMat(fresh("covariance", arr(I, I, R)), N, N) if isinstance(a[0], VOpaque) else a[0]
    mobj_attr = mobj.vattr

    def vattr2(e, st, name):
        if name == "covariance":
            return VOpaque("minuit-covariance")
        return mobj_attr(e, st, name)
    mobj.vattr = vattr2
    eng.verify(M, "cov_mat", "getter", None, contract=c)
    # 2. the queries that end with 'return to minimum'
    for name, init in (("_calculate_asymmetric_parameter_errors", None), ("contour", lambda e, st, me_: {"parameter_name_1": VStr("a"), "parameter_name_2": VStr("b"), "sigma": VNum(z3.Real("sigma")), "minimizer_contour_kwargs": VDict({})}),
                       ("profile", lambda e, st, me_: (e.write_field(st, me_, "__iminuit", mobj), {"parameter_name": VStr("a")})[1])):
        c = Contract(M, name)
        c.requires.append(lambda vw: z3.And(wf(vw, vw.pre), F(vw, vw.pre, "_did_fit").e))
        c.loops[0] = lambda e, s, name=name: z3.And(e.read_field(s, s.locals["self"], "#backend").len == N, z3.Or(e.read_field(s, s.locals["self"], "_par_val").none, e.read_field(s, s.locals["self"], "_par_val").len == N),
                                                    *([s.locals["_asymm_par_errs"].rows == N, s.locals["_asymm_par_errs"].cols == 2] if name == "_calculate_asymmetric_parameter_errors" and "_asymm_par_errs" in s.locals else []))

        def post_q(vw, name=name):
            if vw.flow == "raise" and name == "profile":          # (a fit has been performed: the only refusal left is the one of the bound search, possibly after an excursion)
                return [("a refused request also ends with the return to the minimum: " + l_, f_) for l_, f_ in synced_post(cur)(vw)]
            if vw.flow == "raise":
                return [("raises only before a fit / for unknown options", z3.BoolVal(True))]
            if name == "_calculate_asymmetric_parameter_errors" and isinstance(vw.result, VNone):
                return [("(MINOS failed: no result; the state is whatever MINOS left - reported by the native histories)", z3.BoolVal(True))]
            return synced_post(cur)(vw)
        c.ensures.append(post_q)
        eng.verify(M, name, None, init, contract=c)
    return eng



# ------------------------------------------------------------------ back-end independent asymmetric errors (used by the scipy adapter) and the fitter
def u_base_asymmetric(root):
    eng = c08_engine(root, "MinimizerBase")
    pv = lambda vw, st: VSeq(F(vw, st, "_par_val").arr, N)
    mods = callee_contracts(eng, pv)
    full = mods + [("_par_val", "optseq", ""), ("_par_val", "optseq", "len"), ("_did_fit", "bool", ""), ("#backend", "seq", "")]
    mk(eng, "MinimizerBase", "parameter_values", "getter", result=lambda vw: pv(vw, vw.pre))
    # function_value: computed through the callback AT the current values when not cached
    c = Contract("MinimizerBase", "function_value", "getter")
    c.ensures.append(lambda vw: [("reading the function value never takes the graph away from the minimizer's values", z3.Implies(sync_eq(vw.eng, vw.pre, vw.self, pv(vw, vw.pre)), sync_eq(vw.eng, vw.post, vw.self, pv(vw, vw.post))))])
    eng.verify("MinimizerBase", "function_value", "getter", None, contract=c)
    fv = mk(eng, "MinimizerBase", "function_value", "getter", modifies=mods, result=lambda vw: VNum(fresh("fval", R)))
    fv.ensures.append(lambda vw: [z3.Implies(sync_eq(vw.eng, vw.pre, vw.self, pv(vw, vw.pre)), sync_eq(vw.eng, vw.post, vw.self, pv(vw, vw.post)))])
    mn = mk(eng, "MinimizerBase", "minimize", modifies=full)          # the adapters' minimize (units 'MinimizerScipyOptimize', 'MinimizerIMinuit')
    mn.ensures.append(lambda vw: [sync_eq(vw.eng, vw.post, vw.self, pv(vw, vw.post))])
    mk(eng, "MinimizerBase", "parameter_errors", "getter", result=lambda vw: VSeq(fresh("errors", PA), N))
    mk(eng, "MinimizerBase", "parameter_names", "getter", result=lambda vw: Names(FnArr(lambda k_: z3.ToReal(k_)), N))
    mk(eng, "MinimizerBase", "is_fixed", result=lambda vw: VBool(fresh("is_fixed", B)))
    mk(eng, "MinimizerBase", "_save_state")
    fc = mk(eng, "MinimizerBase", "_find_cost_cut", modifies=full, result=lambda vw: VNum(fresh("cut", R)))        # re-minimises with a parameter pinned: anything may have happened to the point
    ls = mk(eng, "MinimizerBase", "_load_state", modifies=full)
    ls.ensures.append(lambda vw: [sync_eq(vw.eng, vw.post, vw.self, pv(vw, vw.post))])
    eng.lib["np.zeros"] = lambda e, st, a, kw, n: VMat(FnArr(lambda r_: FnArr(lambda c_: z3.RealVal(0))), N, z3.IntVal(2))
    c = Contract("MinimizerBase", "_calculate_asymmetric_parameter_errors")
    c.loops[0] = lambda e, s: z3.And(0 <= s.locals["#i0"].e, s.locals["_asymm_par_errs"].rows == N, s.locals["_asymm_par_errs"].cols == 2,
                                     sync_eq(e, s, s.locals["self"], VSeq(e.read_field(s, s.locals["self"], "_par_val").arr, N)))
    c.ensures.append(synced_post(pv))
    eng.verify("MinimizerBase", "_calculate_asymmetric_parameter_errors", None, None, contract=c)
    return eng


def u_fitter(root):
    """NexusFitter: the callback writes its arguments into the parameter nodes; after minimising the nodes hold the minimizer's values"""
    eng = engine(root, FILES, {"NexusFitter": {"_fit_pars": REFSEQ("Parameter"), "_min_par": REF("Function"), "_minimizer": REF("MinimizerBase"), "_NexusFitter__minimizing": BOOL, "_NexusFitter__state_is_from_minimizer": BOOL,
                                               "__minimizing": BOOL, "__state_is_from_minimizer": BOOL}, "Parameter": {"#value": NUM}, "Function": {"#value": NUM}, "MinimizerBase": {"#values": SEQ}}, [N >= 1])
    VAL = lambda st: st.h("#value", "num")
    vs = mk(eng, "Parameter", "value", "setter", modifies=[("#value", "num", "")])
    vs.ensures.append(lambda vw: [VAL(vw.post)[vw.self.e] == list(vw.args.values())[0].real()])
    mk(eng, "Function", "value", "getter", result=lambda vw: VNum(VAL(vw.pre)[vw.self.e]))
    args = VSeq(z3.Const("fit_par_value_list", PA), N)
    pars = lambda st: eng.read_field(st, VRef(me, "NexusFitter"), "_fit_pars")
    distinct = lambda st: z3.ForAll([i, z3.Int("j")], z3.Implies(z3.And(0 <= i, i < z3.Int("j"), z3.Int("j") < N), pars(st).arr[i] != pars(st).arr[z3.Int("j")]))
    c = Contract("NexusFitter", "_fcn_wrapper")
    c.requires.append(lambda vw: z3.And(pars(vw.pre).len == N, distinct(vw.pre), H("_min_par", "ref")[me] != NULL))
    c.loops[0] = lambda e, s: z3.And(0 <= s.locals["#i0"].e, s.locals["#i0"].e <= N, z3.ForAll([i], z3.Implies(z3.And(0 <= i, i < s.locals["#i0"].e), VAL(s)[pars(s).arr[i]] == args.arr[i])))
    c.ensures.append(lambda vw: [("every parameter node holds the argument it was called with", z3.ForAll([i], z3.Implies(z3.And(0 <= i, i < N), VAL(vw.post)[pars(vw.pre).arr[i]] == args.arr[i])))])
    eng.verify("NexusFitter", "_fcn_wrapper", None, lambda e, st, me_: {"fit_par_value_list": args}, contract=c)
    fw = mk(eng, "NexusFitter", "_fcn_wrapper", modifies=[("#value", "num", "", "all")], result=lambda vw: VNum(fresh("cost", R)))

    def as_vec(v):
        return v.items[0].seq if isinstance(v, VTuple) and len(v.items) == 1 and isinstance(v.items[0], VStar) else (v.seq if isinstance(v, VStar) else v)
    fw.ensures.append(lambda vw: [z3.ForAll([i], z3.Implies(z3.And(0 <= i, i < N), VAL(vw.post)[pars(vw.pre).arr[i]] == as_vec(vw.args["fit_par_value_list"]).arr[i]))])
    mvals = lambda st: eng.read_field(st, eng.read_field(st, VRef(me, "NexusFitter"), "_minimizer"), "#values")
    mm = mk(eng, "MinimizerBase", "minimize", modifies=[("#values", "seq", ""), ("#value", "num", "", "all")])        # the back end moves the nodes around through the callback
    mm.ensures.append(lambda vw: [vw.eng.read_field(vw.post, vw.self, "#values").len == N])
    mk(eng, "MinimizerBase", "parameter_values", "getter", result=lambda vw: vw.eng.read_field(vw.pre, vw.self, "#values"))
    eng.lib["kc"] = lambda e, st, a, kw, n: VNum(z3.IntVal(6000))
    c = Contract("NexusFitter", "_minimize")
    c.requires.append(lambda vw: z3.And(pars(vw.pre).len == N, distinct(vw.pre), H("_minimizer", "ref")[me] != NULL, H("_min_par", "ref")[me] != NULL))
    c.ensures.append(lambda vw: [("after minimising, the parameter nodes hold exactly the minimizer's parameter values", z3.ForAll([i], z3.Implies(z3.And(0 <= i, i < N), VAL(vw.post)[pars(vw.pre).arr[i]] == mvals(vw.post).arr[i]))),
                                 ("the state is marked as coming from the minimizer", vw.f(vw.post, vw.self, "__state_is_from_minimizer").e)])
    eng.verify("NexusFitter", "_minimize", None, None, contract=c)
    return eng


def units(root):
    return [Unit("MinimizerBase: callback wrappers, _load_state, hessian", u_base), Unit("MinimizerScipyOptimize", u_scipy), Unit("MinimizerIMinuit", u_iminuit), Unit("MinimizerBase._calculate_asymmetric_parameter_errors / function_value", u_base_asymmetric), Unit("NexusFitter callback and _minimize", u_fitter)]
