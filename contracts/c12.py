"""C12 - Histogram filling counts every entry exactly once in half-open bins.

Functions under contract (kafe2/fit/histogram/container.py): HistContainer._fill_unprocessed (loop invariant), data, underflow,
overflow, raw_data, n_entries getters, fill, rebin, set_bins.  Spec functions: binof (half-open bins incl. under/overflow, taken
from the property text), cntb (count of entries per bin, recursive).  Lemmas by z3 induction pairs: cnt_ext, cnt_cat, cnt_range_const.
"""
import z3
from .base import *
from . import errlib

FILES = ["kafe2/fit/histogram/container.py", "kafe2/fit/indexed/container.py", "kafe2/fit/_base/container.py"] + errlib.ERR_FILES
SCHEMA = {
    "HistContainer": {"_data": SEQ, "_bin_edges": SEQ, "_processed_entries": SEQ, "_unprocessed_entries": SEQ, "_manual_heights": BOOL,
                      "_error_dicts": NAMEMAP("ErrEntry"), "_total_error": REF("MatrixGaussianError")},
    "__pylists__": {("HistContainer", "_processed_entries"), ("HistContainer", "_unprocessed_entries")},
}
SCHEMA.update(errlib.ERR_SCHEMA)
META = {
    "level": "proof",
    "trusted_base": [
        "np.sort: result is sorted, has the same length and is count-preserving (a permutation) - assumed library contract",
        "np.zeros / np.asarray / np.array / np.insert / np.append / np.diff: elementwise models in pyvc/lib.py",
        "floats treated as reals; entries and edges finite (no NaN: total order)",
        "python list += / append / + : sequence concatenation",
        "z3 4.x/5.x and cvc5 are sound",
    ],
    "assumptions": [
        "machine arithmetic treated as mathematical (counts are exact small integers in float64; no overflow)",
        "closed world: HistContainer is not subclassed with overriding methods; no concurrent mutation",
        "HistContainer.__init__: only the refusal of a descending bin_range (n_bins + bin_range form) is under contract (C19 unit, sliced on low/high); the argument normalisation of the other forms is checked by the bounded native enumeration alone",
    ],
    "bounded": [{"what": "HistContainer.__init__ argument handling, and every observer after arbitrary fill/read/rebin histories", "bound": "native: <= 2 bins over a 4-value ordered set with ties, <= 3 entries in <= 2 batches, all read orders; histories <= 3 ops"}],
}

me = z3.Const("self", Ref)
i, j, k, m, b = z3.Ints("i j k m b")
v = z3.Real("v")
A = z3.Const("A", arr(I, R))
binof = z3.Function("binof", R, I)
cntb = z3.Function("cntb", arr(I, R), I, I, R)

E, nE = H("_bin_edges", "seq")[me], H("_bin_edges", "seq", "len")[me]
n = nE - 1
D0, D0len = H("_data", "seq")[me], H("_data", "seq", "len")[me]
P0, P0len = H("_processed_entries", "seq")[me], H("_processed_entries", "seq", "len")[me]
U0, U0len = H("_unprocessed_entries", "seq")[me], H("_unprocessed_entries", "seq", "len")[me]
MH0 = H("_manual_heights", "bool")[me]


def lower_ok(bb, x):
    return z3.Implies(bb >= 1, x >= E[bb - 1])


def in_bin(bb, x):
    """the property's definition: bin 0 = underflow (x < first edge), bin n+1 = overflow (x >= last edge), bin k = [E[k-1], E[k])"""
    return z3.And(0 <= bb, bb <= n + 1, lower_ok(bb, x), z3.Implies(bb <= n, x < E[bb]))


def one(c):
    return z3.If(c, z3.RealVal(1), z3.RealVal(0))


SPEC_AXIOMS = [
    # binof is *defined* by the half-open interval rule (exists for sorted edges; unique)
    z3.ForAll([v], in_bin(binof(v), v), patterns=[binof(v)]),
    z3.ForAll([b, v], z3.Implies(in_bin(b, v), b == binof(v)), patterns=[z3.MultiPattern(binof(v), E[b])]),
    z3.ForAll([A, k], cntb(A, 0, k) == 0),
    z3.ForAll([A, m, k], z3.Implies(m >= 0, cntb(A, m + 1, k) == cntb(A, m, k) + one(binof(A[m]) == k)), patterns=[cntb(A, m + 1, k)]),
]
SORTED_EDGES = z3.ForAll([i, j], z3.Implies(z3.And(0 <= i, i <= j, j <= n), E[i] <= E[j]))


def _unfold(e, u):
    A_ = e.arg(0)
    kk = z3.Int("k!unf")
    return z3.Implies(u >= 0, z3.ForAll([kk], cntb(A_, u + 1, kk) == cntb(A_, u, kk) + one(binof(A_[u]) == kk)))


def F(vw, st, f):
    return vw.f(st, vw.self, f)


def inv_H(vw, st):
    """class invariant (non-manual mode): _data[k] = number of processed entries whose bin is k"""
    D, P, U = F(vw, st, "_data"), F(vw, st, "_processed_entries"), F(vw, st, "_unprocessed_entries")
    return z3.And(nE >= 1, D.len == n + 2, P.len >= 0, U.len >= 0, SORTED_EDGES,
                  z3.Implies(z3.Not(F(vw, st, "_manual_heights").e), z3.ForAll([k], D.arr[k] == cntb(P.arr, P.len, k), patterns=[D.arr[k]])))


def cntE(st_arrs, kk):
    """count over ALL entries (processed ++ unprocessed), the abstract view"""
    (P, Pl), (U, Ul) = st_arrs
    return cntb(P, Pl, kk) + cntb(U, Ul, kk)


def mk_engine(root):
    eng = engine(root, FILES, SCHEMA, SPEC_AXIOMS)
    eng.recdefs = {"cntb": (1, _unfold)}
    inline(eng, "HistContainer", "low", "high")

    def isclose(e, st, a, kw, n):          # agreement within a tolerance: implied by equality, does not imply it (an edge test written with it cannot be proved to be the half-open rule)
        c_ = fresh("within_tolerance", z3.BoolSort())
        st.assume(z3.Implies(e.num(a[0], st).real() == e.num(a[1], st).real(), c_))
        return VBool(c_)
    eng.lib["np.isclose"] = isclose
    eng.count_preserving = [lambda S, X, N: z3.ForAll([k], cntb(S, N, k) == cntb(X, N, k), patterns=[cntb(S, N, k)])]
    return eng


# ------------------------------------------------------------------ lemmas (z3 induction pairs)
def lemmas(root):
    eng = mk_engine(root)
    B_, C_ = z3.Const("B", arr(I, R)), z3.Const("C", arr(I, R))
    a_, c_ = z3.Ints("a c")
    # cnt_ext(m): arrays that agree below m have the same counts below m
    def ext(mm):
        return z3.Implies(z3.ForAll([i], z3.Implies(z3.And(0 <= i, i < mm), A[i] == B_[i])), cntb(A, mm, k) == cntb(B_, mm, k))
    eng.lemma("cnt_ext/base", [], ext(z3.IntVal(0)))
    eng.lemma("cnt_ext/step", [m >= 0, ext(m)], ext(m + 1))
    # cnt_cat(b): C = A[0:a] ++ B[0:b]  =>  cnt(C, a+b, k) = cnt(A, a, k) + cnt(B, b, k)
    def cat(bb):
        hyp = z3.And(a_ >= 0, z3.ForAll([i], z3.Implies(z3.And(0 <= i, i < a_), C_[i] == A[i])), z3.ForAll([i], z3.Implies(z3.And(0 <= i, i < bb), C_[a_ + i] == B_[i])))
        return z3.Implies(hyp, cntb(C_, a_ + bb, k) == cntb(A, a_, k) + cntb(B_, bb, k))
    ext_inst = z3.Implies(z3.ForAll([i], z3.Implies(z3.And(0 <= i, i < a_), C_[i] == A[i])), cntb(C_, a_, k) == cntb(A, a_, k))  # instance of cnt_ext (A:=C, B:=A, m:=a)
    eng.lemma("cnt_cat/base", [ext_inst], cat(z3.IntVal(0)))
    eng.lemma("cnt_cat/step", [m >= 0, cat(m), z3.Implies(a_ + m >= 0, cntb(C_, a_ + m + 1, k) == cntb(C_, a_ + m, k) + one(binof(C_[a_ + m]) == k))], cat(m + 1))
    # cnt_range_const(b): every entry in [a, b) has bin c  =>  cnt(A, b, k) = cnt(A, a, k) + (b-a if k == c else 0)
    def rc(bb):
        hyp = z3.And(a_ >= 0, a_ <= bb, z3.ForAll([i], z3.Implies(z3.And(a_ <= i, i < bb), binof(A[i]) == c_)))
        return z3.Implies(hyp, cntb(A, bb, k) == cntb(A, a_, k) + z3.If(k == c_, z3.ToReal(bb - a_), z3.RealVal(0)))
    eng.lemma("cnt_range_const/base", [], rc(a_))
    eng.lemma("cnt_range_const/step", [m >= a_, a_ >= 0, rc(m)], rc(m + 1))
    eng.trusted.append("induction principle over the naturals: base + step obligations of cnt_ext, cnt_cat, cnt_range_const are discharged by z3; the universally quantified lemma is then used at explicit instances")
    return eng


def apply_cat(eng, s, A_, a_, B_, b_, C_, Clen, label):
    """explicit application of cnt_cat: hypotheses become obligations, the conclusion an assumption"""
    eng.oblige(f"lemma-call cnt_cat[{label}]: a >= 0, b >= 0, length", s, z3.And(a_ >= 0, b_ >= 0, Clen == a_ + b_))
    eng.oblige(f"lemma-call cnt_cat[{label}]: prefix agrees", s, z3.ForAll([i], z3.Implies(z3.And(0 <= i, i < a_), C_[i] == A_[i])))
    eng.oblige(f"lemma-call cnt_cat[{label}]: suffix agrees", s, z3.ForAll([i], z3.Implies(z3.And(0 <= i, i < b_), C_[a_ + i] == B_[i])))
    s.assume(z3.ForAll([k], cntb(C_, a_ + b_, k) == cntb(A_, a_, k) + cntb(B_, b_, k), patterns=[cntb(C_, a_ + b_, k)]))


# ------------------------------------------------------------------ _fill_unprocessed
def fill_unprocessed_contract(eng, for_callers=False):
    c = Contract("HistContainer", "_fill_unprocessed")
    c.requires.append(lambda vw: inv_H(vw, vw.pre))

    def inv(e, s):
        L = s.locals
        S = L["_entries_sorted"]
        ei, ev, bi, up = L["_current_entry_index"].e, L["_current_entry_value"].real(), L["_current_bin_index"].e, L["_current_bin_upper_edge"].real()
        D, P = e.read_field(s, L["self"], "_data"), e.read_field(s, L["self"], "_processed_entries")
        return z3.And(
            0 <= ei, ei < S.len, ev == S.arr[ei], 0 <= bi, bi <= n, up == E[bi], lower_ok(bi, ev), D.len == n + 2,
            z3.ForAll([k], D.arr[k] == D0[k] + cntb(S.arr, ei, k), patterns=[D.arr[k]]),
            P.len == P0len + ei,
            z3.ForAll([i], z3.Implies(z3.And(0 <= i, i < ei), P.arr[P0len + i] == S.arr[i])),
            z3.ForAll([i], z3.Implies(z3.And(0 <= i, i < P0len), P.arr[i] == P0[i])),
        )

    c.loops[0] = inv

    def post(vw):
        s, flow = vw.post, vw.flow
        D, P, U = (F(vw, s, f) for f in ("_data", "_processed_entries", "_unprocessed_entries"))
        if flow == "raise":
            return [("raises only in manual mode", MH0)]
        if "_entries_sorted" not in s.locals:
            return [("early return only if nothing to do; state untouched", z3.And(U0len == 0, D.arr == D0, P.arr == P0, P.len == P0len, z3.Not(MH0)))]
        S = s.locals["_entries_sorted"]
        if "_current_entry_index" not in s.locals:
            # a return after the batch was sorted that does not come through the merge loop (no such path on the unchanged tree): it is judged
            # against the abstract postcondition alone - the contract does not depend on which temporaries that path happens to have defined
            return [
                ("unprocessed cleared", U.len == 0), ("data length unchanged", D.len == n + 2),
                ("counts = old + count(bin_of o unprocessed batch)  [np.sort is count-preserving]", z3.ForAll([k], z3.Implies(z3.And(0 <= k, k <= n + 1), D.arr[k] == D0[k] + cntb(U0, U0len, k)))),
                ("processed' length", P.len == P0len + S.len),
                ("processed' = processed ++ sorted batch (suffix)", z3.ForAll([i], z3.Implies(z3.And(0 <= i, i < S.len), P.arr[P0len + i] == S.arr[i]))),
                ("processed' = processed ++ sorted batch (prefix)", z3.ForAll([i], z3.Implies(z3.And(0 <= i, i < P0len), P.arr[i] == P0[i]))),
                ("class invariant re-established", inv_H(vw, s)),
                ("not manual", z3.Not(MH0)),
            ]
        N, ei = S.len, s.locals["_current_entry_index"].e
        # explicit lemma call cnt_range_const(A=S, a=ei, b=N, c=n+1): remaining entries are overflows
        vw.eng.oblige("lemma-call cnt_range_const: remaining entries are all >= last edge", s, z3.ForAll([i], z3.Implies(z3.And(ei <= i, i < N), binof(S.arr[i]) == n + 1)))
        s.assume(z3.ForAll([k], cntb(S.arr, N, k) == cntb(S.arr, ei, k) + z3.If(k == n + 1, z3.ToReal(N - ei), z3.RealVal(0))))
        apply_cat(vw.eng, s, P0, P0len, S.arr, N, P.arr, P.len, "processed' = processed ++ sorted batch")
        return [
            ("unprocessed cleared", U.len == 0), ("data length unchanged", D.len == n + 2),
            ("counts = old + count(bin_of o sorted batch)", z3.ForAll([k], z3.Implies(z3.And(0 <= k, k <= n + 1), D.arr[k] == D0[k] + cntb(S.arr, N, k)))),
            ("counts = old + count(bin_of o unprocessed batch)  [np.sort is count-preserving]", z3.ForAll([k], z3.Implies(z3.And(0 <= k, k <= n + 1), D.arr[k] == D0[k] + cntb(U0, U0len, k)))),
            ("processed' length", P.len == P0len + N),
            ("processed' = processed ++ sorted batch (suffix)", z3.ForAll([i], z3.Implies(z3.And(0 <= i, i < N), P.arr[P0len + i] == S.arr[i]))),
            ("processed' = processed ++ sorted batch (prefix)", z3.ForAll([i], z3.Implies(z3.And(0 <= i, i < P0len), P.arr[i] == P0[i]))),
            ("class invariant re-established", inv_H(vw, s)),
            ("not manual", z3.Not(MH0)),
        ]

    c.ensures.append(post)
    return c


def u_fill_unprocessed(root):
    eng = mk_engine(root)
    eng.contracts[("HistContainer", "_fill_unprocessed", None)] = fill_unprocessed_contract(eng)
    eng.verify("HistContainer", "_fill_unprocessed")
    return eng


def callee_fill_unprocessed(eng):
    """the contract of _fill_unprocessed as seen by its callers (proved in unit u_fill_unprocessed)"""
    c = mk(eng, "HistContainer", "_fill_unprocessed")
    c.requires.append(lambda vw: inv_H(vw, vw.pre))
    c.requires.append(lambda vw: z3.Not(F(vw, vw.pre, "_manual_heights").e))     # otherwise it raises: callers must exclude or handle it
    c.modifies = [("_data", "seq", ""), ("_processed_entries", "seq", ""), ("_processed_entries", "seq", "len"), ("_unprocessed_entries", "seq", ""), ("_unprocessed_entries", "seq", "len")]

    def ens(vw):
        D, P, U = (F(vw, vw.post, f) for f in ("_data", "_processed_entries", "_unprocessed_entries"))
        Dp, Pp, Up = (F(vw, vw.pre, f) for f in ("_data", "_processed_entries", "_unprocessed_entries"))
        return [U.len == 0, D.len == Dp.len, inv_H(vw, vw.post),
                z3.ForAll([k], z3.Implies(z3.And(0 <= k, k <= n + 1), D.arr[k] == Dp.arr[k] + cntb(Up.arr, Up.len, k)), patterns=[D.arr[k]]),
                z3.ForAll([k], cntb(P.arr, P.len, k) == cntb(Pp.arr, Pp.len, k) + cntb(Up.arr, Up.len, k), patterns=[cntb(P.arr, P.len, k)])]
    c.ensures.append(ens)
    return c


# ------------------------------------------------------------------ observers
def observer(root, name, spec):
    eng = mk_engine(root)
    callee_fill_unprocessed(eng)
    c = Contract("HistContainer", name, "getter")
    c.requires += [lambda vw: inv_H(vw, vw.pre), lambda vw: z3.Not(MH0)]

    def post(vw):
        s = vw.post
        P, U = F(vw, s, "_processed_entries"), F(vw, s, "_unprocessed_entries")
        view_kept = z3.ForAll([k], z3.Implies(z3.And(0 <= k, k <= n + 1), cntb(P.arr, P.len, k) + cntb(U.arr, U.len, k) == cntb(P0, P0len, k) + cntb(U0, U0len, k)))
        return spec(vw) + [("abstract view (multiset of all entries, per bin) unchanged by the read", view_kept), ("class invariant kept", inv_H(vw, s)),
                           ("edges untouched", z3.And(F(vw, s, "_bin_edges").arr == E, F(vw, s, "_bin_edges").len == nE))]
    c.ensures.append(post)
    eng.verify("HistContainer", name, "getter", contract=c)
    return eng


def spec_data(vw):
    r = vw.result
    return [("length = number of bins", r.len == n),
            ("result[k] = #entries (processed or not) whose half-open bin is k+1", z3.ForAll([k], z3.Implies(z3.And(0 <= k, k < n), r.arr[k] == cntb(P0, P0len, k + 1) + cntb(U0, U0len, k + 1))))]


def spec_underflow(vw):
    return [("underflow = #entries below the first edge (processed or not)", vw.result.real() == cntb(P0, P0len, 0) + cntb(U0, U0len, 0))]


def spec_overflow(vw):
    return [("overflow = #entries at or above the last edge (processed or not)", vw.result.real() == cntb(P0, P0len, n + 1) + cntb(U0, U0len, n + 1))]


def u_raw_data(root):
    eng = mk_engine(root)
    c = Contract("HistContainer", "raw_data", "getter")
    c.requires.append(lambda vw: inv_H(vw, vw.pre))

    def post(vw):
        r = vw.result
        return [("length", r.len == P0len + U0len),
                ("processed prefix", z3.ForAll([i], z3.Implies(z3.And(0 <= i, i < P0len), r.arr[i] == P0[i]))),
                ("unprocessed suffix", z3.ForAll([i], z3.Implies(z3.And(0 <= i, i < U0len), r.arr[P0len + i] == U0[i]))),
                ("state untouched", z3.And(*[F(vw, vw.post, f).arr == F(vw, vw.pre, f).arr for f in ("_data", "_processed_entries", "_unprocessed_entries", "_bin_edges")]))]
    c.ensures.append(post)
    eng.verify("HistContainer", "raw_data", "getter", contract=c)
    return eng


# ------------------------------------------------------------------ mutators
def u_fill(root, scalar):
    eng = mk_engine(root)
    errlib.c_reference_setter(eng)
    c = Contract("HistContainer", "fill")
    c.requires.append(lambda vw: inv_H(vw, vw.pre))
    ESlen = H("_error_dicts", "namemap", "len")[me]
    c.requires.append(lambda vw: ESlen >= 0)
    # the loop that re-points the uncertainty sources touches only the source objects: histogram state is framed
    c.loops[0] = lambda e, s: z3.And(0 <= s.locals["#i0"].e, s.locals["#i0"].e <= ESlen)
    ndim = z3.Int("entries_ndim")

    def init(e, st, me_):
        if scalar:
            x = VNum(z3.Real("entry"))
            x.ndim = z3.IntVal(0)
            return {"entries": x}
        x = VSeq.fresh("entries")
        x.ndim = ndim
        st.assume(z3.And(ndim >= 1, x.len >= 0))
        return {"entries": x}

    def post(vw):
        s = vw.post
        x = vw.args["entries"]
        U = F(vw, s, "_unprocessed_entries")
        same = lambda fs: z3.And(*[z3.And(F(vw, s, f).arr == F(vw, vw.pre, f).arr, F(vw, s, f).len == F(vw, vw.pre, f).len) for f in fs])
        if vw.flow == "raise":
            return [("raises only in manual mode or for >1-dimensional input", z3.Or(MH0, ndim > 1) if not scalar else MH0),
                    ("exceptional frame: nothing changed", z3.And(same(["_data", "_processed_entries", "_unprocessed_entries", "_bin_edges"]), F(vw, s, "_manual_heights").e == MH0))]
        xl = z3.IntVal(1) if scalar else x.len
        xa = (lambda t: x.real()) if scalar else (lambda t: x.arr[t])
        return [("accepted only if not manual and 1-d (or scalar)", z3.And(z3.Not(MH0), True if scalar else ndim == 1)),
                ("unprocessed' = unprocessed ++ entries (length)", U.len == U0len + xl),
                ("unprocessed' = unprocessed ++ entries (prefix)", z3.ForAll([i], z3.Implies(z3.And(0 <= i, i < U0len), U.arr[i] == U0[i]))),
                ("unprocessed' = unprocessed ++ entries (suffix)", z3.ForAll([i], z3.Implies(z3.And(0 <= i, i < xl), U.arr[U0len + i] == xa(i)))),
                ("counts, processed list and edges untouched", same(["_data", "_processed_entries", "_bin_edges"])),
                ("class invariant kept", inv_H(vw, s))]
    c.ensures.append(post)
    eng.verify("HistContainer", "fill", None, init, contract=c, tag="(scalar)" if scalar else "(1-d)")
    return eng


def u_rebin(root):
    eng = mk_engine(root)
    errlib.c_reference_setter(eng)
    c = Contract("HistContainer", "rebin")
    c.requires.append(lambda vw: inv_H(vw, vw.pre))
    ESlen = H("_error_dicts", "namemap", "len")[me]
    c.requires.append(lambda vw: ESlen >= 0)
    # the loop that re-points the uncertainty sources touches only the source objects: histogram state is framed
    c.loops[0] = lambda e, s: z3.And(0 <= s.locals["#i0"].e, s.locals["#i0"].e <= ESlen)

    def init(e, st, me_):
        x = VSeq.fresh("new_bin_edges")
        st.assume(x.len >= 1)
        return {"new_bin_edges": x}

    def post(vw):
        s = vw.post
        x = vw.args["new_bin_edges"]
        srt = z3.ForAll([i], z3.Implies(z3.And(0 <= i, i + 1 < x.len), x.arr[i] <= x.arr[i + 1]))
        D, P, U, BE = (F(vw, s, f) for f in ("_data", "_processed_entries", "_unprocessed_entries", "_bin_edges"))
        same = lambda fs: z3.And(*[z3.And(F(vw, s, f).arr == F(vw, vw.pre, f).arr, F(vw, s, f).len == F(vw, vw.pre, f).len) for f in fs])
        if vw.flow == "raise":
            return [("raises only in manual mode or for unsorted edges", z3.Or(MH0, z3.Not(srt))),
                    ("exceptional frame: nothing changed", z3.And(same(["_data", "_processed_entries", "_unprocessed_entries", "_bin_edges"]), F(vw, s, "_manual_heights").e == MH0))]
        return [("accepted only if sorted and not manual", z3.And(srt, z3.Not(MH0))),
                ("edges' = new edges", z3.And(BE.len == x.len, z3.ForAll([i], z3.Implies(z3.And(0 <= i, i < x.len), BE.arr[i] == x.arr[i])))),
                ("counts' = 0 with length bins+2", z3.And(D.len == x.len + 1, z3.ForAll([i], z3.Implies(z3.And(0 <= i, i < D.len), D.arr[i] == 0)))),
                ("processed' = []", P.len == 0),
                ("unprocessed' = unprocessed ++ processed: every earlier entry is re-queued (length)", U.len == U0len + P0len),
                ("unprocessed' prefix", z3.ForAll([i], z3.Implies(z3.And(0 <= i, i < U0len), U.arr[i] == U0[i]))),
                ("unprocessed' suffix", z3.ForAll([i], z3.Implies(z3.And(0 <= i, i < P0len), U.arr[U0len + i] == P0[i])))]
    c.ensures.append(post)
    eng.verify("HistContainer", "rebin", None, init, contract=c)
    return eng


def u_set_bins(root):
    eng = mk_engine(root)
    errlib.c_reference_setter(eng)
    c = Contract("HistContainer", "set_bins")
    ESlen = H("_error_dicts", "namemap", "len")[me]
    c.requires.append(lambda vw: ESlen >= 0)
    c.loops[0] = lambda e, s: z3.And(0 <= s.locals["#i0"].e, s.locals["#i0"].e <= ESlen)
    ndim = z3.Int("ndim")

    def init(e, st, me_):
        bh = VSeq.fresh("bin_heights")
        bh.ndim = ndim
        st.assume(z3.And(ndim >= 0, bh.len >= 0))
        return {"bin_heights": bh, "underflow": VNum(z3.Real("underflow")), "overflow": VNum(z3.Real("overflow"))}

    def view(vw, st):
        return [F(vw, st, "_manual_heights").e] + [x for fld in ("_data", "_processed_entries", "_unprocessed_entries", "_bin_edges") for x in (F(vw, st, fld).arr, F(vw, st, fld).len)]

    def post(vw):
        bh = vw.args["bin_heights"]
        Dp = F(vw, vw.pre, "_data")
        malformed = z3.Or(bh.ndim != 1, bh.len + 2 != Dp.len)
        if vw.flow == "raise":
            return [("raised => heights malformed", malformed)] + [(f"exceptional frame: view component {q} unchanged", a_ == b_) for q, (a_, b_) in enumerate(zip(view(vw, vw.pre), view(vw, vw.post)))]
        D = F(vw, vw.post, "_data")
        return [("accepted => well-formed", z3.Not(malformed)), ("manual mode on", F(vw, vw.post, "_manual_heights").e), ("length kept", D.len == Dp.len),
                ("underflow placed", D.arr[0] == vw.args["underflow"].real()), ("overflow placed", D.arr[D.len - 1] == vw.args["overflow"].real()),
                ("heights placed", z3.ForAll([k], z3.Implies(z3.And(1 <= k, k <= bh.len), D.arr[k] == bh.arr[k - 1]))),
                ("entry lists cleared", z3.And(F(vw, vw.post, "_processed_entries").len == 0, F(vw, vw.post, "_unprocessed_entries").len == 0))]
    c.ensures.append(post)
    eng.verify("HistContainer", "set_bins", None, init, contract=c)
    return eng


def units(root):
    return [
        Unit("lemmas", lemmas),
        Unit("HistContainer._fill_unprocessed", u_fill_unprocessed),
        Unit("HistContainer.data", lambda r: observer(r, "data", spec_data)),
        Unit("HistContainer.underflow", lambda r: observer(r, "underflow", spec_underflow)),
        Unit("HistContainer.overflow", lambda r: observer(r, "overflow", spec_overflow)),
        Unit("HistContainer.raw_data", u_raw_data),
        Unit("HistContainer.fill(1-d)", lambda r: u_fill(r, False)),
        Unit("HistContainer.fill(scalar)", lambda r: u_fill(r, True)),
        Unit("HistContainer.rebin", u_rebin),
        Unit("HistContainer.set_bins", u_set_bins),
    ]
