"""C19 - Invalid specifications are rejected loudly and leave the object unchanged.

Two obligation kinds per specification call:  raises  (malformed(input) <=> every path for that input ends in raise, with `malformed` the
property's wording made formal)  and  exc.frame  (on every raising path the object's abstract view equals its pre-state).
Units marked (shared) are the same proofs that C12 / C16 / C02 run for their own properties - one text, several uses.
"""
import z3
from .base import *
from . import c12, c16, c02, errlib

FILES = ["kafe2/core/error.py", "kafe2/fit/_base/container.py", "kafe2/fit/indexed/container.py", "kafe2/fit/xy/container.py", "kafe2/fit/_base/cost.py", "kafe2/fit/io/file.py",
         "kafe2/core/fitters/nexus_fitter.py", "kafe2/fit/_base/fit.py", "kafe2/core/constraint.py", "kafe2/core/fitters/nexus.py"]
META = {
    "level": "proof",
    "trusted_base": [
        "np.allclose(diag, 1.0) is an opaque predicate 'diagonal is unit within numpy's default tolerance'",
        "np.array / np.asarray: value copies with the argument's dimensionality; float(x) succeeds exactly for numeric x",
        "x % 1 != 0 exactly when x is not an integer (real arithmetic); np.count_nonzero(v) > 0 iff some entry is non-zero",
        "python dict / set semantics for concrete key sets; list.index raises ValueError for a missing element",
        "minimizer back end and nexus node assignment are recorded as external calls (their own effects are C04 / C08 subjects)",
        "floats as reals; z3/cvc5 soundness",
    ],
    "assumptions": ["closed world of kafe2 classes", "exceptions arise only from explicit raise/assert and the modelled library preconditions",
                    "FitBase.__init__ (reserved names), HistContainer.__init__, NodeBase._check_name_raise (uses ast.parse), Nexus.add / add_dependency and GaussianMatrixParameterConstraint.__init__ are covered by the bounded native enumeration only"],
    "bounded": [{"what": "every listed specification call with its malformed variants on fresh and used containers, fits and graphs; observables compared before/after the rejected call", "bound": "native: 306 (object kind, call, variant, age) combinations"}],
}
me = z3.Const("self", Ref)
i, j = z3.Ints("i j")


def body(eng, cls, name, kind, requires, ensures, init=None, tag=None, loops=None):
    c = Contract(cls, name, kind)
    c.requires, c.ensures = list(requires), list(ensures)
    c.loops = dict(loops or {})
    eng.verify(cls, name, kind, init, contract=c, tag=tag)


# ------------------------------------------------------------------ error objects
def u_error_ctor_guards(root):
    eng = c02.mk_engine(root)
    # setters by contract (bodies: c02.u_source_setters): raise on a negative size
    neg = lambda x: z3.Exists([i], z3.And(0 <= i, i < x.len, x.arr[i] < 0))
    for nm in ("error", "error_rel"):
        s = mk(eng, "SimpleGaussianError", nm, "setter")
        s.raises = lambda vw: ("ValueError", neg(list(vw.args.values())[0]))
        s.modifies = [("_err", "optseq", ""), ("_err", "optseq", "len"), ("_err", "optseq", "none"), ("_err_rel", "optseq", ""), ("_err_rel", "optseq", "len"), ("_err_rel", "optseq", "none"), ("_cov_mat", "ref", ""), ("_cov_mat_rel", "ref", "")]
    errlib.c_reference_setter(eng)
    ev, rho = VSeq.fresh("err_val"), VNum(z3.Real("corr_coeff"))
    nd = z3.Int("err_val_ndim")
    ev.ndim = nd
    for rel in (False, True):
        def init(e, st, me_, rel=rel):
            st.assume(z3.And(nd >= 0, ev.len >= 0))
            return {"err_val": ev, "corr_coeff": rho, "relative": VBool(z3.BoolVal(rel)), "reference": VNone(), "fit_indices": VNone()}

        def post(vw):
            malformed = z3.Or(z3.Not(z3.And(0 <= rho.e, rho.e <= 1)), nd != 1, neg(ev))
            if vw.flow == "raise":
                return [("raises only for a correlation outside [0,1], a non-1-d array or a negative size", malformed)]
            return [("accepted only for 0 <= correlation <= 1, 1-d, all sizes >= 0", z3.Not(malformed)), ("correlation stored", vw.f(vw.post, vw.self, "_corr_coeff").e == rho.e)]
        body(eng, "SimpleGaussianError", "__init__", None, [], [post], init, tag=f"(relative={rel})")
    # cov_mat_from_float_list
    return eng


def u_matrix_error_guards(root):
    eng = c02.mk_engine(root)
    allclose1 = z3.Function("diag_allclose_one", arr(I, I, R), I, B)
    eng.lib["np.allclose"] = lambda e, st, a, kw, n: VBool(allclose1(materialise(a[0].src.arr, "cm"), a[0].src.rows)) if hasattr(a[0], "src") else (_ for _ in ()).throw(Unsupported("np.allclose form"))

    def np_diag(e, st, a, kw, n):
        x = a[0]
        if isinstance(x, VMat):
            r = VSeq(FnArr(lambda k_: x.arr[k_][k_]), x.rows)
            r.src = x
            return r
        return lib.lib_np_diag(e, st, a, kw, n)
    eng.lib["np.diag"] = np_diag
    eng.lib["np.asarray"] = lambda e, st, a, kw, n: a[0]
    ea, cm = VSeq.fresh("error_array"), VMat(z3.Const("corr_mat", arr(I, I, R)), z3.Int("corr_rows"), z3.Int("corr_cols"))
    ea.ndim = z3.IntVal(1)
    c = Contract("MatrixGaussianError", "_calculate_cov_mat_from_cor_mat_and_error_array")
    c.requires.append(lambda vw: z3.And(ea.len >= 0, cm.rows >= 0, cm.rows == cm.cols))

    def post(vw):
        malformed = z3.Or(z3.Not(allclose1(cm.arr, cm.rows)), ea.len != cm.rows)
        if vw.flow == "raise":
            return [("raises only for a non-unit diagonal or a size mismatch", malformed)]
        M = vw.eng.read_field(vw.post, vw.result, "_mat")
        return [("accepted only for a unit diagonal and matching sizes", z3.Not(malformed)),
                ("covariance = (e e^T) o C", z3.ForAll([i, j], z3.Implies(z3.And(0 <= i, i < ea.len, 0 <= j, j < ea.len), M.at(i, j) == ea.arr[i] * ea.arr[j] * cm.arr[i][j])))]
    c.ensures.append(post)
    eng.verify("MatrixGaussianError", "_calculate_cov_mat_from_cor_mat_and_error_array", None, lambda e, st, me_: {"error_array": ea, "corr_mat": cm}, contract=c)
    return eng


# ------------------------------------------------------------------ container registration
def u_add_error_object(root):
    eng = c02.mk_engine(root)
    eng.schema["IndexedContainer"]["_on_error_change_callback"] = PYOBJ
    ES, ESlen, NAMES = H("_error_dicts", "namemap")[me], H("_error_dicts", "namemap", "len")[me], H("_error_dicts", "namemap", "names")[me]
    n = H("_data", "seq", "len")[me]
    nm = VName(z3.Const("name", Name))
    eo = VRef(z3.Const("error_object", Ref), "GaussianErrorBase")
    elen = z3.Int("error_object_size")
    mk(eng, "GaussianErrorBase", "error", "getter", result=lambda vw: VSeq(fresh("errarr", arr(I, R)), elen))
    inline(eng, "IndexedContainer", "size")
    eng.lib["random_alphanumeric"] = lambda e, st, a, kw, node: VName(fresh("random_name", Name))

    def init(e, st, me_):
        e.write_field(st, me_, "_on_error_change_callback", VNone())
        st.assume(z3.And(ESlen >= 0, elen >= 0, n >= 0, eo.e != NULL))
        return {"name": nm, "error_object": eo, "additional_error_dict_keys": VDict({})}
    # the name-collision loop: on exit the chosen name is not None and unused
    m_pre = VNameMap(ES, ESlen, NAMES, "ErrEntry")
    loops = {0: lambda e, s: z3.And(s.h("_error_dicts", "namemap") == H("_error_dicts", "namemap"), s.h("_error_dicts", "namemap", "len") == H("_error_dicts", "namemap", "len"), s.h("_error_dicts", "namemap", "names") == H("_error_dicts", "namemap", "names"),
                                    z3.Implies(z3.And(nm.e != NAME_NONE, z3.Not(m_pre.has(nm.e))), s.locals["_name"].e == nm.e))}         # a usable given name is never replaced

    def post(vw):
        m0 = vw.f(vw.pre, vw.self, "_error_dicts")
        malformed = z3.Or(elen != n, z3.And(nm.e != NAME_NONE, m0.has(nm.e)))
        m1 = vw.f(vw.post, vw.self, "_error_dicts")
        if vw.flow == "raise":
            return [("raises only for a size mismatch or a name already in use", malformed),
                    ("rejected registration changes nothing", z3.And(m1.arr == m0.arr, m1.len == m0.len, m1.names == m0.names, vw.f(vw.post, vw.self, "_total_error").e == vw.f(vw.pre, vw.self, "_total_error").e))]
        new = VRef(m1.arr[m0.len], "ErrEntry")
        return [("accepted only for a matching size and an unused name", z3.Not(malformed)), ("exactly one entry appended, earlier entries untouched", z3.And(m1.len == m0.len + 1, z3.ForAll([i], z3.Implies(z3.And(0 <= i, i < m0.len), z3.And(m1.arr[i] == m0.arr[i], m1.names[i] == m0.names[i]))))),
                ("the new entry holds the source, enabled", z3.And(vw.f(vw.post, new, "err").e == eo.e, vw.f(vw.post, new, "enabled").e)),
                ("its name is the given one (or a fresh unused one)", z3.And(z3.Not(m0.has(m1.names[m0.len])), z3.Implies(nm.e != NAME_NONE, m1.names[m0.len] == nm.e))),
                ("cached total dropped", vw.f(vw.post, vw.self, "_total_error").e == NULL)]
    body(eng, "IndexedContainer", "_add_error_object", None, [], [post], init, loops=loops)
    return eng


# ------------------------------------------------------------------ Poisson data compatibility
def u_poisson_compat(root):
    eng = engine(root, FILES, {"CostFunction_NegLogLikelihood": {"_cost_function_handle": PYOBJ}}, [])
    data = VSeq.fresh("data")
    frac = lambda t: t - z3.ToReal(z3.ToInt(t))

    def mod(e, a, b):
        if isinstance(a, VNum):           # a single element (code that picks one entry of the data): the post then decides whether that is enough
            return VNum(frac(a.real()))
        return VSeq(FnArr(lambda k_: frac(a.arr[k_])), a.len)
    eng.mod_model = mod

    def cnz(e, st, a, kw, n):
        r = fresh("count_nonzero", I)
        if isinstance(a[0], VNum):
            st.assume(z3.And(r >= 0, (r > 0) == (a[0].real() != 0)))
            return VNum(r)
        st.assume(z3.And(r >= 0, (r > 0) == z3.Exists([i], z3.And(0 <= i, i < a[0].len, a[0].arr[i] != 0))))
        return VNum(r)
    eng.lib["np.count_nonzero"] = cnz
    for handle, poisson in (("nll_poisson", True), ("nllr_poisson", True), ("nll_gaussian", False)):
        def init(e, st, me_, handle=handle):
            e.write_field(st, me_, "_cost_function_handle", VBound(me_, handle))
            st.assume(data.len >= 0)
            return {"data": data}

        def post(vw, poisson=poisson):
            ok = vw.result.items[0]
            bad = z3.Exists([i], z3.And(0 <= i, i < data.len, z3.Or(data.arr[i] < 0, frac(data.arr[i]) != 0)))
            return [("Poisson likelihoods accept exactly non-negative integer data; other likelihoods accept everything", vw.eng.truth(ok) == (z3.Not(bad) if poisson else z3.BoolVal(True)))]
        body(eng, "CostFunction_NegLogLikelihood", "is_data_compatible", None, [], [post], init, tag=f"({handle})")
    return eng


# ------------------------------------------------------------------ axis names
def u_find_axis(root):
    eng = engine(root, FILES, {}, [])
    for spec, expect in (("x", 0), ("y", 1), ("X", 0), ("Y", 1), ("0", 0), ("1", 1), (0, 0), (1, 1), ("z", None), (2, None), ("xy", None), (-1, None)):
        val = VStr(spec) if isinstance(spec, str) else VNum(z3.IntVal(spec))
        c = Contract("XYContainer", "_find_axis_raise")
        c.ensures.append(lambda vw, expect=expect: [("unknown axis name => ValueError", z3.BoolVal(vw.flow == "raise"))] if expect is None else
                         [("known axis resolved, no exception", z3.BoolVal(vw.flow != "raise" and z3.simplify(vw.result.e).as_long() == expect))])
        eng.verify("XYContainer", "_find_axis_raise", None, lambda e, st, me_, val=val: {"axis_spec": val}, contract=c, tag=f"({spec!r})")
    return eng



# ------------------------------------------------------------------ fitter / fit: unknown names are rejected before anything changes
NAMES = ("a", "b", "c")


def fitter_engine(root):
    eng = engine(root, FILES, {"NexusFitter": {"_nx": REF("Nexus"), "_minimizer": PYOBJ, "_fit_par_names": PYOBJ, "__state_is_from_minimizer": BOOL},
                               "FitBase": {"_fitter": PYOBJ, "_nexus": REF("Nexus"), "_fit_param_constraints": PYOBJ, "_fit_param_names_bad_default": PYOBJ, "_param_model": REF("ParametricModelBaseMixin")}}, [])
    mk(eng, "Nexus", "get", result=lambda vw: VNode(vw.args["node_name"].s, vw.self.e))
    mk(eng, "NexusFitter", "parameters_to_fit", "getter", result=lambda vw: VTuple([VStr(x) for x in NAMES]))
    return eng


def u_set_fit_parameter_values(root):
    eng = fitter_engine(root)
    for keys in (("a",), ("c", "a"), ("nope",), ("a", "nope"), ("nope", "b"), ()):
        rec = {}
        vals = {k: VNum(z3.Real("new_" + k)) for k in keys}

        def init(e, st, me_, vals=vals, rec=rec):
            rec.clear()
            e.write_field(st, me_, "_minimizer", VExternal("minimizer", rec))
            return {"parameter_value_dict": VDict(dict(vals))}

        def post(vw, keys=keys, vals=vals, rec=rec):
            unknown = [k for k in keys if k not in NAMES]
            sets = [c for c in vw.post.ghost.get("node_calls", ()) if c[1] == "set:value"]
            msets = [c for c in rec.get("calls", []) if c[0] == "set"]
            if unknown:
                return [("a call naming an unknown parameter raises", z3.BoolVal(vw.flow == "raise")),
                        ("... before ANY parameter node or minimizer value was touched (also when known names come first)", z3.BoolVal(len(sets) == 0 and len(msets) == 0)),
                        ("did-fit flag untouched", vw.f(vw.post, vw.self, "__state_is_from_minimizer").e == vw.f(vw.pre, vw.self, "__state_is_from_minimizer").e)]
            ok = len(sets) == len(keys) and [c[0] for c in sets] == list(keys) and len(msets) == len(keys)
            return [("known names are accepted", z3.BoolVal(vw.flow != "raise")), ("every named parameter node and the minimizer receive exactly one assignment each, in order", z3.BoolVal(ok))] + \
                   [(f"node {k} receives the given value", sets[q][2].real() == vals[k].e) for q, k in enumerate(keys) if ok] + \
                   [("results are no longer 'from the minimizer'", z3.Not(vw.f(vw.post, vw.self, "__state_is_from_minimizer").e))]
        body(eng, "NexusFitter", "set_fit_parameter_values", None, [], [post], init, tag=str(list(keys)))
    return eng


def u_fit_names(root):
    eng = fitter_engine(root)
    mk(eng, "FitBase", "parameter_names", "getter", result=lambda vw: VTuple([VStr(x) for x in NAMES]))
    made = []

    def ctor(e, st, a, kw, n):
        made.append(kw)
        return VOpaque("constraint")
    eng.lib["class:GaussianSimpleParameterConstraint"] = ctor
    for name in ("b", "nope"):
        lst, rec = VTuple([]), {}

        def init(e, st, me_, name=name, lst=lst, rec=rec):
            made.clear(); lst.items.clear(); rec.clear()
            e.write_field(st, me_, "_fit_param_constraints", lst)
            e.write_field(st, me_, "_fit_param_names_bad_default", VExternal("bad_default_set", rec))
            return {"name": VStr(name), "value": VNum(z3.Real("value")), "uncertainty": VNum(z3.Real("uncertainty")), "relative": VBool(z3.BoolVal(False))}

        def post(vw, name=name, lst=lst):
            if name not in NAMES:
                return [("unknown parameter name raises ValueError", z3.BoolVal(vw.flow == "raise" and vw.exc == "ValueError")), ("no constraint was added", z3.BoolVal(len(lst.items) == 0 and len(made) == 0))]
            ok = vw.flow != "raise" and len(lst.items) == 1 and len(made) == 1
            return [("known name accepted, exactly one constraint appended", z3.BoolVal(ok))] + ([("the constraint addresses the position of the NAME in the parameter list", made[0]["index"].e == NAMES.index(name))] if ok else [])
        body(eng, "FitBase", "add_parameter_constraint", None, [], [post], init, tag=f"({name})")
    # limit_parameter
    for name, lo, hi, bad in (("a", 0.0, 1.0, False), ("nope", 0.0, 1.0, True), ("a", None, None, True), ("b", None, 2.0, False), ("b", "low", 1.0, True)):
        rec, rec2 = {}, {}

        def init(e, st, me_, name=name, lo=lo, hi=hi, rec=rec, rec2=rec2):
            rec.clear(); rec2.clear()
            e.write_field(st, me_, "_fitter", VExternal("fitter", rec))
            e.write_field(st, me_, "_fit_param_names_bad_default", VExternal("bad_default_set", rec2))
            cv = lambda x: VNone() if x is None else VStr(x) if isinstance(x, str) else VNum(z3.RealVal(x))
            return {"name": VStr(name), "lower": cv(lo), "upper": cv(hi)}

        def post(vw, bad=bad, rec=rec):
            fw = [c for c in rec.get("calls", []) if c[0] == "limit_parameter"]
            if bad:
                return [("malformed limit specification (unknown name, no bound, non-numeric bound) raises", z3.BoolVal(vw.flow == "raise")), ("nothing was forwarded to the fitter", z3.BoolVal(len(fw) == 0))]
            return [("well-formed limit accepted and forwarded exactly once", z3.BoolVal(vw.flow != "raise" and len(fw) == 1))]
        body(eng, "FitBase", "limit_parameter", None, [], [post], init, tag=f"({name},{lo},{hi})")
    # unlimit_parameter: the same rule for the name
    for name, bad in (("a", False), ("nope", True)):
        rec = {}

        def init(e, st, me_, name=name, rec=rec):
            rec.clear()
            e.write_field(st, me_, "_fitter", VExternal("fitter", rec))
            return {"name": VStr(name)}

        def post(vw, bad=bad, rec=rec):
            fw = [c for c in rec.get("calls", []) if c[0] == "unlimit_parameter"]
            if bad:
                return [("an unknown parameter name raises ValueError", z3.BoolVal(vw.flow == "raise" and vw.exc == "ValueError")), ("nothing was forwarded to the fitter (no back end is reset)", z3.BoolVal(len(rec.get("calls", [])) == 0))]
            return [("a known name is forwarded exactly once", z3.BoolVal(vw.flow != "raise" and len(fw) == 1))]
        body(eng, "FitBase", "unlimit_parameter", None, [], [post], init, tag=f"({name})")
    return eng



# ------------------------------------------------------------------ Nexus.add_dependency: a rejected (cycle-closing) call is rolled back exactly
def u_add_dependency(root):
    from .c03 import Part, Fn, log, fx
    eng = engine(root, ["kafe2/core/fitters/nexus.py"], {}, [])
    eng.lib["set"] = lambda e, st, a, kw, node: VTuple([x for q_, x in enumerate(a[0].items) if all(x is not y for y in a[0].items[:q_])])          # distinct objects, by identity
    eng.lib["list"] = lambda e, st, a, kw, node: VTuple(list(a[0].items))
    eng.lib["isinstance"] = lambda e, st, a, kw, node: VBool(z3.BoolVal(isinstance(a[0], VTuple)))
    for existing, depends_on, cycle in ((("a",), ("a", "h"), True), (("a",), ("h", "a"), True), (("a",), ("h",), True), (("a", "b"), ("b", "h", "a"), True), (("a",), ("b", "a"), False), ((), ("a",), False)):
        nodes = {n_: Part("node_" + n_) for n_ in ("a", "b", "h")}
        prev = VTuple([nodes[n_] for n_ in existing])
        target = Part("node_f", {"get_children": Fn(lambda e, st, a, kw, prev=prev: VTuple(list(prev.items))), "add_child": Fn(lambda e, st, a, kw: VNone()), "remove_child": Fn(lambda e, st, a, kw: VNone())})
        mk(eng, "Nexus", "get", result=lambda vw, nodes=nodes, target=target: target if vw.args["node_name"].s == "f" else nodes.get(vw.args["node_name"].s, VNone()))

        def checker(e, st, a, kw, cycle=cycle):
            class Run(V):
                def vattr(self_, e_, st_, name):
                    if name == "run":
                        def run(e2, st2, a2, kw2):
                            log(st2, "cycle_check")
                            if cycle:
                                raise PyRaise("ValueError")
                            return VNone()
                        return Fn(run)
            return Run()
        eng.consts = {"NodeCycleChecker": Fn(checker)}
        c = Contract("Nexus", "add_dependency")

        def post(vw, existing=existing, depends_on=depends_on, cycle=cycle, nodes=nodes, prev=prev):
            trace = fx(vw)
            added = [x[3][0] for x in trace if x[0] == "call" and x[1] == "node_f" and x[2] == "add_child"]
            removed = [x[3][0] for x in trace if x[0] == "call" and x[1] == "node_f" and x[2] == "remove_child"]
            restored = [x for x in trace if x[0] == "set" and x[1] == "node_f" and x[2] == "_children"]
            out = [("every named node is added as a dependency, in order, before the cycle check", z3.BoolVal([a_.name for a_ in added] == ["node_" + d_ for d_ in depends_on] and [x[0] for x in trace if x[0] in ("cycle_check",)] == ["cycle_check"]))]
            if cycle:
                new_ones = {d_ for d_ in depends_on if d_ not in existing}
                out += [("a cycle-closing call raises", z3.BoolVal(vw.flow == "raise")),
                        ("exactly the dependencies that are NEW are removed again, each once; a dependency that existed before the call is kept", z3.BoolVal(sorted(r_.name for r_ in removed) == sorted("node_" + d_ for d_ in new_ones))),
                        ("the child list is the one from before the call", z3.BoolVal(len(restored) == 1 and isinstance(restored[0][3], VTuple) and [x.name for x in restored[0][3].items] == ["node_" + d_ for d_ in existing]))]
            else:
                out += [("accepted", z3.BoolVal(vw.flow != "raise")), ("nothing is removed or restored", z3.BoolVal(not removed and not restored))]
            return out
        c.ensures.append(post)
        eng.verify("Nexus", "add_dependency", None, lambda e, st, me_, depends_on=depends_on: {"name": VStr("f"), "depends_on": VTuple([VStr(d_) for d_ in depends_on])}, contract=c,
                   tag=f"(existing {list(existing)}, depends_on {list(depends_on)}, {'closes a cycle' if cycle else 'acyclic'})")
    return eng


def prefixed(prefix, units):
    return [Unit(f"{prefix} {u.name} (shared)", u.build, u.budget) for u in units]


def u_multi_refusals(root):
    """MultiFit.disable_error: the refusal of a member (unknown source name) is the refusal of the multi-fit - it is not swallowed - and members asked before the refusing one
    are the only ones touched (instance unit over recording member fits)"""
    from . import c03
    Part, Fn = c03.Part, c03.Fn
    eng = engine(root, ["kafe2/fit/multi/fit.py", "kafe2/fit/_base/fit.py"], {"MultiFit": {"_fits": PYOBJ}}, [])
    for refusing in (None, 0, 1):
        def member(k, refusing=refusing):
            def dis(e, st, a, kw):
                if k == refusing:
                    raise PyRaise("ValueError")
                return VNone()
            return Part("member%d" % k, {"disable_error": Fn(dis)})
        c = Contract("MultiFit", "disable_error")

        def post(vw, refusing=refusing):
            asked = [x[1] for x in vw.post.ghost.get("fx", ()) if x[0] == "call" and x[2] == "disable_error"]
            if refusing is None:
                return [("every member is asked, in order, and the call returns", z3.BoolVal(vw.flow != "raise" and asked == ["member0", "member1"]))]
            return [("a member's ValueError (no source of that name) leaves MultiFit.disable_error as a ValueError: an unknown name is not accepted silently", z3.BoolVal(vw.flow == "raise" and vw.exc == "ValueError")),
                    ("no member after the refusing one is asked", z3.BoolVal(asked == ["member%d" % q for q in range(refusing + 1)]))]
        c.ensures.append(post)
        eng.verify("MultiFit", "disable_error", None, lambda e, st, me_, member=member: (e.write_field(st, me_, "_fits", VTuple([member(0), member(1)])), {"err_id": VStr("some_source")})[1], contract=c,
                   tag=f"[{'no member refuses' if refusing is None else 'member %d refuses' % refusing}]")
    return eng


def u_hist_ctor_guard(root):
    """HistContainer.__init__ (n_bins + bin_range form): a descending bin_range is refused with ValueError and an ascending one is not refused for its order.
    The body is sliced on the locals low / high: the statements that build the container (base-class constructor, edges, first fill) are dropped and stay with the
    native constructor enumeration of C12 / C19."""
    eng = engine(root, c12.FILES, c12.SCHEMA, [])        # no quantified spec axioms: the obligations are quantifier-free, so a broken guard gets a counter-model
    eng.lib["tuple"] = lambda e, st, a, kw, n: a[0]
    eng.lib["np.linspace"] = lambda e, st, a, kw, n: VSeq.fresh("linspace")
    lo, hi = z3.Reals("range_low range_high")
    nb = z3.Int("n_bins_arg")

    def init(e, st, me_):
        st.assume(nb >= 1)
        return {"n_bins": VNum(nb), "bin_range": VTuple([VNum(lo), VNum(hi)]), "bin_edges": VNone(), "fill_data": VNone(), "dtype": VNone()}
    c = Contract("HistContainer", "__init__")

    def post(vw):
        if vw.flow == "raise":
            return [("refused only for a descending range", lo > hi), ("the refusal is a ValueError", z3.BoolVal(vw.exc == "ValueError"))]
        return [("accepted only for an ascending range: a descending bin_range is refused", lo <= hi)]
    c.ensures.append(post)
    eng.verify("HistContainer", "__init__", None, init, contract=c, slice_on={"low", "high"}, tag="(n_bins, bin_range)")
    return eng


def units(root):
    shared_c12 = [u for u in c12.units(root) if any(k in u.name for k in ("set_bins", "rebin", "fill("))]
    shared_c16 = [u for u in c16.units(root) if u.name in ("ConfidenceLevel setters", "ConfidenceLevel.__init__")]
    shared_c02 = [u for u in c02.units(root) if u.name in ("SimpleGaussianError setters", "IndexedContainer mutators")]
    from . import c03
    shared_c03 = [u for u in c03.units(root) if u.name in ("data replacement", "parameter constraints")]
    from . import c14
    shared_c14 = [u for u in c14.units(root) if u.name in ("GaussianMatrixParameterConstraint.__init__", "MatrixGaussianError.__init__", "MatrixGaussianError helpers")]
    return [Unit("SimpleGaussianError.__init__ guards", u_error_ctor_guards), Unit("MatrixGaussianError correlation-matrix guards", u_matrix_error_guards),
            Unit("DataContainerBase._add_error_object", u_add_error_object), Unit("CostFunction_NegLogLikelihood.is_data_compatible", u_poisson_compat),
            Unit("XYContainer._find_axis_raise", u_find_axis), Unit("HistContainer.__init__ refuses a descending bin_range", u_hist_ctor_guard), Unit("NexusFitter.set_fit_parameter_values", u_set_fit_parameter_values), Unit("FitBase constraint / limit names", u_fit_names),
            Unit("MultiFit.disable_error does not swallow a member's refusal", u_multi_refusals, bounded="two member fits (recording stand-ins), the refusing member at either position"), Unit("Nexus.add_dependency rollback", u_add_dependency, bounded="dependency lists of length <= 3 over 3 nodes, with / without dependencies that existed before; node objects and the cycle checker are recording stand-ins")] + prefixed("HistContainer", shared_c12) + prefixed("", shared_c16) + prefixed("", shared_c02) + prefixed("", shared_c14) + prefixed("fit:", shared_c03)
