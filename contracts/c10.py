"""C10 - Degrees of freedom, goodness of fit, chi2 probability follow documented formulas.

ndf = data points + sum_c extra_ndf(c) - parameters + fixed parameters  (FitBase.ndf, MultiFit.ndf: own and members' constraints)
gof = cost - cost(model := data) with the determinant argument replaced by 0
chi2 probability = 1 - chi2cdf(cost - log-determinant term(s), ndf) for chi2-type costs, None otherwise
"""
import z3
from .base import *
from . import costlib as CL

FILES = ["kafe2/fit/_base/fit.py", "kafe2/fit/_base/model.py", "kafe2/fit/multi/fit.py", "kafe2/core/constraint.py", "kafe2/core/fitters/nexus_fitter.py", "kafe2/fit/_base/cost.py", "kafe2/fit/io/file.py", "kafe2/fit/multi/cost.py", "kafe2/core/fitters/nexus.py"]
META = {
    "level": "proof",
    "trusted_base": [
        "scipy.stats.chi2.cdf is the chi2 cumulative distribution (uninterpreted chi2cdf)",
        "the cost handle is a pure function of its argument values; ParameterConstraint.cost by its contract (proved under C01)",
        "nexus node values are read through Nexus.get(name).value (graph correctness is C04); len(dict) is the number of keys",
        "for a diagonal covariance matrix the covariance chi2 equals the pointwise chi2 (linear-algebra fact behind FitBase.goodness_of_fit's choice of variant; stated, not proved here)",
        "floats as reals; z3/cvc5 soundness",
    ],
    "assumptions": ["machine arithmetic treated as mathematical", "closed world of kafe2 classes", "NexusFitter._fixed_pars is a dict: fixing twice does not double count (dict semantics; exercised natively)"],
    "bounded": [{"what": "end-to-end ndf / gof / chi2 probability on real fits of all types and multi-fits, fix/release in any order, constraints on the multi-fit and on members", "bound": "native: 5 fit types x {0,1,2 constraints} x fix/release histories <= 3"}],
}

me = z3.Const("self", Ref)
size = z3.Function("size", Ref, I)
parcount = z3.Function("parcount", Ref, I)
nfixed = z3.Function("nfixed", Ref, I)
extra = z3.Function("extra_ndf", Ref, I)
chi2cdf = z3.Function("chi2cdf", R, R, R)
nodeval = z3.Function("nodeval", Ref, I, R)     # value of the nexus node with the n-th distinct name, per nexus


def mk_engine(root, schema, axioms=()):
    eng = engine(root, FILES, schema, axioms)
    mk(eng, "ParameterConstraint", "extra_ndf", "getter", result=lambda vw: VNum(extra(vw.self.e)))
    mk(eng, "ModelFunctionBase", "parcount", "getter", result=lambda vw: VNum(parcount(vw.self.e)))
    mk(eng, "NexusFitter", "fixed_parameters", "getter", result=lambda vw: VOpaque(("map", nfixed(vw.self.e))))
    return eng


# ------------------------------------------------------------------ ndf
def u_ndf(root):
    schema = {"FitBase": {"_fit_param_constraints": REFSEQ("ParameterConstraint"), "_param_model": REF("ParametricModelBaseMixin"), "_fitter": REF("NexusFitter")},
              "ParametricModelBaseMixin": {"_model_function_object": REF("ModelFunctionBase")},
              "GaussianMatrixParameterConstraint": {"_indices": SEQ}}
    csum = z3.Function("ndf_csum", I, I)
    CS, CSlen = H("_fit_param_constraints", "refseq")[me], H("_fit_param_constraints", "refseq", "len")[me]
    PM, FT_, MF = H("_param_model", "ref")[me], H("_fitter", "ref")[me], H("_model_function_object", "ref")
    eng = mk_engine(root, schema, [CSlen >= 0, csum(0) == 0])
    eng.recdefs = {"ndf_csum": (0, lambda e, u: z3.Implies(u >= 0, csum(u + 1) == csum(u) + extra(CS[u])))}
    inline(eng, "ParametricModelBaseMixin", "ndf")
    # `size` is abstract in the mixin (provided by the container class in the real MRO): by contract
    import ast as _ast
    eng.repo.classes["ParametricModelBaseMixin"][1].body.append(_ast.parse("class _X:\n    @property\n    def size(self):\n        pass\n").body[0].body[0])
    mk(eng, "ParametricModelBaseMixin", "size", "getter", result=lambda vw: VNum(size(vw.self.e)))
    c = Contract("FitBase", "ndf", "getter")
    c.loops[0] = lambda e, s: z3.And(0 <= s.locals["#i0"].e, s.locals["#i0"].e <= CSlen, s.locals["_extra_ndf_constraints"].e == csum(s.locals["#i0"].e))
    c.ensures.append(lambda vw: [("ndf = N_data + sum of extra_ndf over EVERY constraint - N_parameters + N_fixed", vw.result.e == size(PM) + csum(CSlen) - parcount(MF[PM]) + nfixed(FT_))])
    eng.verify("FitBase", "ndf", "getter", contract=c)
    for cls, spec, what in (("GaussianSimpleParameterConstraint", lambda vw: 1, "a simple constraint is 1 extra measurement"),
                            ("GaussianMatrixParameterConstraint", lambda vw: vw.f(vw.pre, vw.self, "_indices").len, "an n-parameter matrix constraint is n extra measurements")):
        cc = Contract(cls, "extra_ndf", "getter")
        cc.ensures.append(lambda vw, spec=spec, what=what: [(what, vw.result.e == spec(vw))])
        inline(eng, cls, "indices")
        eng.verify(cls, "extra_ndf", "getter", contract=cc)
    return eng


def u_multi_ndf(root):
    schema = {"FitBase": {"_fit_param_constraints": REFSEQ("ParameterConstraint"), "_fitter": REF("NexusFitter")},
              "MultiFit": {"_fits": REFSEQ("FitBase"), "_combined_parameter_node_dict": MAP}}
    CSall, CSlenall = H("_fit_param_constraints", "refseq"), H("_fit_param_constraints", "refseq", "len")
    FITS, nf = H("_fits", "refseq")[me], H("_fits", "refseq", "len")[me]
    inner = z3.Function("fit_csum", Ref, I, I)      # sum of extra_ndf over the first j constraints of a fit
    tsum = z3.Function("multi_tsum", I, I)          # sum over the first i elements of [self] ++ fits of their constraint totals
    dsz, dnone = z3.Int("data_size"), z3.Bool("data_size_is_None")
    f_, j_ = z3.Const("f_", Ref), z3.Int("j_")
    item = lambda q: z3.If(q == 0, me, FITS[q - 1])
    eng = mk_engine(root, schema, [nf >= 0, tsum(0) == 0, z3.ForAll([f_], z3.And(inner(f_, 0) == 0, CSlenall[f_] >= 0), patterns=[inner(f_, 0)]), z3.ForAll([f_], CSlenall[f_] >= 0, patterns=[CSlenall[f_]])])
    eng.recdefs = {"fit_csum": (1, lambda e, u: z3.Implies(u >= 0, inner(e.arg(0), u + 1) == inner(e.arg(0), u) + extra(CSall[e.arg(0)][u]))),
                   "multi_tsum": (0, lambda e, u: z3.Implies(u >= 0, tsum(u + 1) == tsum(u) + inner(item(u), CSlenall[item(u)])))}
    mk(eng, "MultiFit", "data_size", "getter", result=lambda vw: VOptNum(z3.ToReal(dsz), dnone))
    c = Contract("MultiFit", "ndf", "getter")

    def inv0(e, s):
        i = s.locals["#i0"].e
        return z3.And(0 <= i, i <= nf + 1, z3.ToReal(tsum(i)) == s.locals["_extra_ndf_constraints"].real(), z3.Not(dnone))

    def inv1(e, s):
        i, j, f = s.locals["#i0"].e, s.locals["#i1"].e, s.locals["_fit"].e
        return z3.And(0 <= i, i < nf + 1, f == item(i), 0 <= j, j <= CSlenall[f], s.locals["_extra_ndf_constraints"].real() == z3.ToReal(tsum(i) + inner(f, j)), z3.Not(dnone))
    c.loops[0], c.loops[1] = inv0, inv1
    MAPSZ, FT_ = H("_combined_parameter_node_dict", "map", "size")[me], H("_fitter", "ref")[me]

    def post(vw):
        if isinstance(vw.result, VNone):
            return [("None only when a member has no data size", dnone)]
        return [("data size known", z3.Not(dnone)),
                ("ndf = N_data + extra_ndf of the multi-fit's own constraints and of EVERY member's constraints - N_combined_parameters + N_fixed",
                 vw.result.real() == z3.ToReal(dsz + tsum(nf + 1) - MAPSZ + nfixed(FT_)))]
    c.ensures.append(post)
    eng.verify("MultiFit", "ndf", "getter", contract=c)
    return eng


# ------------------------------------------------------------------ goodness of fit (cost wrapper level)
def u_gof_cost(root):
    eng = CL.cost_engine(root)
    for name, core, det, con in CL.CONFIGS:
        for cons_none in ((False, True) if con else (False,)):
            cfg = CL.Cfg(name, core, det, con, cons_none=cons_none, tag="gof")
            CL.callee_call(eng, det, con)
            g = Contract("CostFunction", "goodness_of_fit")
            g.requires = cfg.requires()

            def init(e, st, me_, cfg=cfg):
                e.write_field(st, me_, "_arg_names", VTuple([VStr(a) for a in cfg.arg_names]))
                return {"args": VTuple(list(cfg.args))}

            def post(vw, cfg=cfg):
                if "data" not in cfg.arg_names or "model" not in cfg.arg_names:
                    return [("no data/model argument => no goodness of fit", z3.BoolVal(isinstance(vw.result, VNone)))]
                full = CL.handle_value(vw.eng, vw.post, cfg.core) + cfg.constraint_sum()          # determinant argument replaced by 0
                sat_core = [cfg.core[cfg.core_names.index("data")] if nm == "model" else v for nm, v in zip(cfg.core_names, cfg.core)]
                return [("gof = [handle(core) + constraint cost, determinant term zeroed] - handle(core with model := data)", vw.result.real() == full - CL.handle_value(vw.eng, vw.post, sat_core)),
                        ("flags untouched", z3.And(vw.f(vw.post, vw.self, "_add_determinant_cost").e == cfg.det, vw.f(vw.post, vw.self, "_add_constraint_cost").e == cfg.con))]
            g.ensures.append(post)
            eng.verify("CostFunction", "goodness_of_fit", None, init, contract=g, tag=f"[{name}{',constraints=None' if cons_none else ''}]")
    # chi2_probability of the cost wrapper
    for is_chi2 in (True, False):
        c = Contract("CostFunction", "chi2_probability")
        c.requires.append(lambda vw, is_chi2=is_chi2: vw.f(vw.pre, vw.self, "_is_chi2").e == is_chi2)
        cv, nd = z3.Real("cost_function_value"), z3.Int("ndf")
        c.ensures.append(lambda vw, is_chi2=is_chi2: [("upper tail of chi2(ndf) at the given cost", vw.result.real() == 1 - chi2cdf(cv, z3.ToReal(nd)))] if is_chi2 else [("None for non-chi2 costs", z3.BoolVal(isinstance(vw.result, VNone)))])
        eng.lib["chi2.cdf"] = lambda e, st, a, kw, n: VNum(chi2cdf(a[0].real(), a[1].real()))
        inline(eng, "CostFunction", "is_chi2")
        eng.verify("CostFunction", "chi2_probability", None, lambda e, st, me_: {"cost_function_value": VNum(cv), "ndf": VNum(nd)}, contract=c, tag=f"[is_chi2={is_chi2}]")
    return eng


def u_gof_gauss_approx(root):
    eng = CL.cost_engine(root)
    spec = z3.Function("base_gof_with_ga_flag", z3.BoolSort(), R)
    b = mk(eng, "CostFunction", "goodness_of_fit")
    b.result = lambda vw: VNum(spec(vw.f(vw.pre, vw.self, "_add_determinant_cost_ga").e))
    c = Contract("CostFunction_GaussApproximation", "goodness_of_fit")
    c.ensures.append(lambda vw: [("gof evaluated with the Gaussian-approximation determinant term switched off", vw.result.real() == spec(z3.BoolVal(False))),
                                 ("the flag is restored afterwards", vw.f(vw.post, vw.self, "_add_determinant_cost_ga").e == vw.f(vw.pre, vw.self, "_add_determinant_cost_ga").e)])
    eng.verify("CostFunction_GaussApproximation", "goodness_of_fit", None, lambda e, st, me_: {"args": VTuple([VNum(z3.Real("a0"))])}, contract=c)
    return eng


# ------------------------------------------------------------------ fit-level chi2 probability
def u_fit_prob(root):
    schema = {"FitBase": {"_cost_function": REF("CostFunction"), "_nexus": REF("Nexus")}, "CostFunction": {"_add_determinant_cost": BOOL, "_is_chi2": BOOL}}
    eng = mk_engine(root, schema)
    cost, ndf = z3.Real("cost_function_value"), z3.Int("ndf_value")
    logdet = z3.Real("total_cov_mat_log_determinant_value")
    mk(eng, "FitBase", "cost_function_value", "getter", result=lambda vw: VNum(cost))
    mk(eng, "FitBase", "ndf", "getter", result=lambda vw: VNum(ndf))
    inline(eng, "CostFunction", "add_determinant_cost")
    probspec = z3.Function("cf_chi2_probability", Ref, R, I, R)
    mk(eng, "CostFunction", "chi2_probability", result=lambda vw: VNum(probspec(vw.self.e, vw.args["cost_function_value"].real(), vw.args["ndf"].e)))
    eng.node_values = {"total_cov_mat_log_determinant": VNum(logdet)}
    mk(eng, "Nexus", "get", result=lambda vw: VNode(vw.args["node_name"].s, vw.self.e))
    CF = H("_cost_function", "ref")[me]
    c = Contract("FitBase", "chi2_probability", "getter")
    c.requires.append(lambda vw: z3.And(CF != NULL, H("_nexus", "ref")[me] != NULL))
    c.ensures.append(lambda vw: [("probability evaluated at the cost WITHOUT its determinant term, with the fit's ndf",
                                  vw.result.real() == probspec(CF, cost - z3.If(H("_add_determinant_cost", "bool")[CF], logdet, z3.RealVal(0)), ndf))])
    eng.verify("FitBase", "chi2_probability", "getter", contract=c)
    return eng


def u_fit_gof(root):
    """FitBase.goodness_of_fit: the pointwise variant iff it exists and the total covariance is diagonal; arguments are the node values in arg_names order"""
    schema = {"FitBase": {"_cost_function": REF("CostFunction"), "_cost_function_pointwise": REF("CostFunction"), "_nexus": REF("Nexus")}, "CostFunction": {"_arg_names": PYOBJ}}
    eng = mk_engine(root, schema)
    isdiag = z3.Bool("total_cov_mat_is_diagonal")
    mk(eng, "FitBase", "total_cov_mat", "getter", result=lambda vw: VOpaque("total_cov_mat"))
    for other in ("data_cov_mat", "model_cov_mat"):          # (other matrices a changed body might test instead: their diagonality is a different fact)
        mk(eng, "FitBase", other, "getter", result=lambda vw, other=other: VOpaque(other))
    eng.lib["is_diagonal"] = lambda e, st, a, kw, n: VBool(isdiag if getattr(a[0], "tag", None) == "total_cov_mat" else z3.Bool(str(getattr(a[0], "tag", "matrix")) + "_is_diagonal"))
    inline(eng, "CostFunction", "arg_names")
    mk(eng, "Nexus", "get", result=lambda vw: VNode(vw.args["node_name"].s, vw.self.e))
    vals = {nm: VNum(z3.Real("node_" + nm)) for nm in ("data", "model", "total_cov_mat_qr", "total_error", "parameter_values", "parameter_constraints", "total_cov_mat_log_determinant", "total_error_squared_log_sum")}
    eng.node_values = vals
    mk(eng, "CostFunction", "goodness_of_fit", result=lambda vw: vw.eng.apply_uf("gof", [vw.self] + list(vw.args["args"].items), vw.pre))
    CF, CFP = H("_cost_function", "ref")[me], H("_cost_function_pointwise", "ref")[me]
    names_cov = ["data", "model", "total_cov_mat_qr", "parameter_values", "parameter_constraints", "total_cov_mat_log_determinant"]
    names_pw = ["data", "model", "total_error", "parameter_values", "parameter_constraints", "total_error_squared_log_sum"]
    c = Contract("FitBase", "goodness_of_fit", "getter")
    c.requires.append(lambda vw: z3.And(CF != NULL, CF != CFP, H("_nexus", "ref")[me] != NULL))

    def init(e, st, me_):
        e.write_field(st, VRef(CF, "CostFunction"), "_arg_names", VTuple([VStr(x) for x in names_cov]))
        e.write_field(st, VRef(CFP, "CostFunction"), "_arg_names", VTuple([VStr(x) for x in names_pw]))
        return {}

    def post(vw):
        e = vw.eng
        g_cov = e.apply_uf("gof", [VRef(CF, "CostFunction")] + [vals[x] for x in names_cov], vw.post).e
        g_pw = e.apply_uf("gof", [VRef(CFP, "CostFunction")] + [vals[x] for x in names_pw], vw.post).e
        return [("gof = gof of the pointwise cost on its own argument nodes iff that variant exists and the total covariance is diagonal, else of the covariance cost on its argument nodes",
                 vw.result.real() == z3.If(z3.And(CFP != NULL, isdiag), g_pw, g_cov))]
    c.ensures.append(post)
    eng.verify("FitBase", "goodness_of_fit", "getter", init, contract=c)
    return eng


def u_multi_gof_prob(root):
    schema = {"FitBase": {"_cost_function": REF("CostFunction"), "_nexus": REF("Nexus")}, "CostFunction": {"_is_chi2": BOOL, "_add_determinant_cost": BOOL, "_arg_names": PYOBJ},
              "MultiFit": {"_fits": REFSEQ("FitBase"), "_shared_error_nodes_initialized": BOOL, "_shared_cost_function": REF("CostFunction"), "_fit_param_constraints": REFSEQ("ParameterConstraint")}}
    FITS, nf = H("_fits", "refseq")[me], H("_fits", "refseq", "len")[me]
    OWN, nown = H("_fit_param_constraints", "refseq")[me], H("_fit_param_constraints", "refseq", "len")[me]
    pv = VSeq(z3.Const("multi_parameter_values", CL.PA), z3.Int("multi_parameter_values_len"))
    osum = z3.Function("own_constraint_cost_sum", I, R)
    shared = H("_shared_error_nodes_initialized", "bool")[me]
    CFof, chi2of, detof = H("_cost_function", "ref"), H("_is_chi2", "bool"), H("_add_determinant_cost", "bool")
    gofv, gofnone = z3.Function("member_gof", Ref, R), z3.Function("member_gof_is_None", Ref, z3.BoolSort())
    ldv = z3.Function("member_logdet", Ref, R)
    gsum, lsum = z3.Function("gof_sum", I, R), z3.Function("logdet_sum", I, R)
    skip = lambda f: z3.And(shared, chi2of[CFof[f]])
    subl = lambda f: z3.And(detof[CFof[f]], z3.Not(skip(f)))
    eng = mk_engine(root, schema, [nf >= 0, nown >= 0, gsum(0) == 0, lsum(0) == 0, osum(0) == 0])
    mk(eng, "ParameterConstraint", "cost", result=lambda vw: VNum(CL.ccost(vw.self.e, materialise(vw.args["parameter_values"].arr, "pv"))))
    mk(eng, "FitBase", "parameter_values", "getter", result=lambda vw: pv)
    eng.recdefs = {"own_constraint_cost_sum": (0, lambda e, u: z3.Implies(u >= 0, osum(u + 1) == osum(u) + CL.ccost(OWN[u], pv.arr))),
                   "gof_sum": (0, lambda e, u: z3.Implies(u >= 0, gsum(u + 1) == gsum(u) + z3.If(skip(FITS[u]), z3.RealVal(0), gofv(FITS[u])))),
                   "logdet_sum": (0, lambda e, u: z3.Implies(u >= 0, lsum(u + 1) == lsum(u) + z3.If(subl(FITS[u]), ldv(NXof[FITS[u]]), z3.RealVal(0))))}
    NXof = H("_nexus", "ref")
    inline(eng, "CostFunction", "is_chi2", "add_determinant_cost", "arg_names")
    mk(eng, "FitBase", "goodness_of_fit", "getter", result=lambda vw: VOptNum(gofv(vw.self.e), gofnone(vw.self.e)))
    mk(eng, "Nexus", "get", result=lambda vw: VNode(vw.args["node_name"].s, vw.self.e))
    SCF = H("_shared_cost_function", "ref")[me]
    shared_names = ["data", "model", "total_cov_mat_qr", "total_cov_mat_log_determinant"]
    svals = {nm: VNum(z3.Real("multi_node_" + nm)) for nm in shared_names}
    own_nexus = H("_nexus", "ref")[me]
    eng.node_values = dict(svals)
    eng.node_values["total_cov_mat_log_determinant"] = lambda st, node: VNum(z3.If(node.owner == own_nexus, svals["total_cov_mat_log_determinant"].e, ldv(node.owner)))
    mk(eng, "CostFunction", "goodness_of_fit", result=lambda vw: vw.eng.apply_uf("gof", [vw.self] + list(vw.args["args"].items), vw.pre))

    def init(e, st, me_):
        e.write_field(st, VRef(SCF, "CostFunction"), "_arg_names", VTuple([VStr(x) for x in shared_names]))
        return {}
    i_ = z3.Int("i_")
    g = Contract("MultiFit", "goodness_of_fit", "getter")
    g.requires.append(lambda vw: z3.And(own_nexus != NULL, SCF != NULL))
    g.loops[0] = lambda e, s: z3.And(0 <= s.locals["#i0"].e, s.locals["#i0"].e <= nf, s.locals["_gof_sum"].real() == gsum(s.locals["#i0"].e),
                                     z3.ForAll([i_], z3.Implies(z3.And(0 <= i_, i_ < s.locals["#i0"].e), z3.Or(skip(FITS[i_]), z3.Not(gofnone(FITS[i_]))))))

    shared_term = eng.apply_uf("gof", [VRef(SCF, "CostFunction")] + [svals[x] for x in shared_names], State()).e
    g.loops[1] = lambda e, s: z3.And(0 <= s.locals["#i1"].e, s.locals["#i1"].e <= nown, s.locals["_gof_sum"].real() == gsum(nf) + z3.If(shared, shared_term, z3.RealVal(0)) + osum(s.locals["#i1"].e))

    def gpost(vw):
        some_none = z3.Exists([i_], z3.And(0 <= i_, i_ < nf, z3.Not(skip(FITS[i_])), gofnone(FITS[i_])))
        if isinstance(vw.result, VNone):
            return [("None only if some contributing member has no goodness of fit", some_none)]
        shared_part = shared_term
        return [("every contributing member has a goodness of fit", z3.Not(some_none)),
                ("gof = sum over members (chi2 members are replaced by the joint shared-error chi2 when errors are shared) + gof of the shared cost + the cost of EVERY constraint of the multi-fit itself (gof = cost - saturated cost keeps the constraint cost)",
                 vw.result.real() == gsum(nf) + z3.If(shared, shared_part, z3.RealVal(0)) + osum(nown))]
    g.ensures.append(gpost)
    eng.verify("MultiFit", "goodness_of_fit", "getter", init, contract=g)
    # chi2_probability
    cost, ndf = z3.Real("multi_cost_function_value"), z3.Int("multi_ndf")
    mk(eng, "FitBase", "cost_function_value", "getter", result=lambda vw: VNum(cost))
    mk(eng, "MultiFit", "ndf", "getter", result=lambda vw: VNum(ndf))
    probspec = z3.Function("cf_chi2_probability", Ref, R, I, R)
    mk(eng, "CostFunction", "chi2_probability", result=lambda vw: VNum(probspec(vw.self.e, vw.args["cost_function_value"].real(), vw.args["ndf"].e)))
    p = Contract("MultiFit", "chi2_probability", "getter")
    MCF = CFof[me]
    p.requires.append(lambda vw: z3.And(own_nexus != NULL, MCF != NULL, z3.ForAll([i_], z3.Implies(z3.And(0 <= i_, i_ < nf), NXof[FITS[i_]] != own_nexus))))
    p.loops[0] = lambda e, s: z3.And(0 <= s.locals["#i0"].e, s.locals["#i0"].e <= nf, s.locals["_cost"].real() == cost - z3.If(shared, svals["total_cov_mat_log_determinant"].e, z3.RealVal(0)) - lsum(s.locals["#i0"].e))
    p.ensures.append(lambda vw: [("probability at the multi cost minus the shared log-determinant (if errors are shared) minus each remaining member's own log-determinant exactly once, with the multi-fit's ndf",
                                  vw.result.real() == probspec(MCF, cost - z3.If(shared, svals["total_cov_mat_log_determinant"].e, z3.RealVal(0)) - lsum(nf), ndf))])
    eng.verify("MultiFit", "chi2_probability", "getter", contract=p)
    return eng


def units(root):
    return [Unit("FitBase.ndf", u_ndf), Unit("MultiFit.ndf", u_multi_ndf), Unit("CostFunction.goodness_of_fit / chi2_probability", u_gof_cost),
            Unit("CostFunction_GaussApproximation.goodness_of_fit", u_gof_gauss_approx), Unit("FitBase.chi2_probability", u_fit_prob),
            Unit("FitBase.goodness_of_fit", u_fit_gof), Unit("MultiFit.goodness_of_fit / chi2_probability", u_multi_gof_prob), Unit("the fitter's record of fixed parameters (ndf counts its entries): fix / release keep the OTHER entries (shared with C03)", _shared_fitter_books), Unit("get_result_dict: goodness of fit and gof/ndf are the fit's (shared with C09)", _shared_result_dict)]


def _shared_result_dict(root):
    from . import c09
    return c09.u_result_dict(root)


def _shared_fitter_books(root):
    from . import c03
    return c03.u_fitter_books(root)
