"""C15 - Results are independent of labelling: point order, parameter order, units   (bookkeeping only).

End-to-end invariance passes through external optimisers and is NOT decided here.  Decided: every function that translates between the full
and the free parameter vector, or addresses parameters by position, meets a rank-based, label-free specification - no index is special:
fill/remove of fixed rows and columns (shared with C07), the scipy adapter's argument re-packing for fixed parameters, its per-name
fix / release / limit / unlimit bookkeeping, is_diagonal (exact, hence scale-free), MINOS results mapped through the list of free names,
the error-band mask, and the initial step sizes 0.1 |v|.
"""
import z3
from .base import *
from . import c07

FILES = c07.FILES + ["kafe2/fit/util/__init__.py", "kafe2/core/fitters/nexus_fitter.py", "kafe2/fit/xy/model.py"]
META = {
    "lean": ["Label.lean"],
    "level": "proof",
    "trusted_base": c07.META["trusted_base"] + [
        "scipy.optimize.minimize calls the objective with vectors of the length it was given and returns such a vector in .x (external)",
        "numpy pairwise fancy indexing M[ia, ja][k] = M[ia[k]][ja[k]]; boolean-mask indexing keeps the masked entries in order (masked quadratic form identity used for the band)",
    ],
    "assumptions": c07.META["assumptions"] + ["lean/Label.lean (Lean 4 / Mathlib, re-checked in the thorough tier): r.V^-1 r and det V are unchanged when the points are relabelled (r o sigma, V.submatrix sigma sigma); with residuals x s and covariances x s^2 the chi2 term is unchanged and log det changes by the constant N log s^2 - with C01 (the code computes exactly these terms) the OBJECTIVE handed to the minimizer is the same function of the parameters",
                                                "only the kafe2-side index bookkeeping and the invariance of the objective are decided; invariance of the optimum under permutation / rescaling is a numerical property of the back ends (C05/C06 not applicable)"],
    "bounded": [{"what": "end-to-end permutation of data points, permutation of parameters (with fixed / limited / constrained subsets) and rescaling of y on real fits, both back ends", "bound": "native: 2 back ends x 3 models x all permutations of 3 parameters x scale factors {1e-3, 7, 1e4}"}],
}
me = z3.Const("self", Ref)
i, j, k, q = z3.Ints("i j k q")
PA = arr(I, R)
cntfix = z3.Function("fixed_before", PA, I, I)         # cntfix(FX, q) = #{r < q : FX[r] != 0}
FXv = z3.Const("FXv", PA)
AX = [z3.ForAll([FXv], cntfix(FXv, 0) == 0), z3.ForAll([FXv, q], z3.Implies(q >= 0, cntfix(FXv, q + 1) == cntfix(FXv, q) + z3.If(FXv[q] != 0, 1, 0)), patterns=[cntfix(FXv, q + 1)])]


def u_scipy_repack(root):
    schema = {"MinimizerScipyOptimize": {"_par_fixed": SEQ, "_par_val": SEQ, "_par_bounds": PYOBJ, "_par_constraints": PYOBJ, "_method": PYOBJ, "_tol": NUM, "_opt_result": PYOBJ, "_did_fit": BOOL, "_fval": OPTNUM, "_par_err": SEQ}}
    eng = engine(root, FILES, schema, AX)
    eng.recdefs = {"fixed_before": (1, lambda e, u: z3.Implies(u >= 0, cntfix(e.arg(0), u + 1) == cntfix(e.arg(0), u) + z3.If(e.arg(0)[u] != 0, 1, 0)))}
    FX, n = H("_par_fixed", "seq")[me], H("_par_fixed", "seq", "len")[me]
    PV = H("_par_val", "seq")[me]
    inline(eng, "MinimizerScipyOptimize", "parameter_values")
    inline(eng, "MinimizerBase", "tolerance")
    eng.lib["np.array"] = lambda e, st, a, kw, node: a[0]
    eng.lib["np.zeros_like"] = lambda e, st, a, kw, node: VSeq(FnArr(lambda k_: z3.RealVal(0)), a[0].len)
    eng.lib["dict"] = lambda e, st, a, kw, node: VDict(kw)
    eng.consts = {"logging": VLib("logging")}
    eng.lib["np.all"] = lambda e, st, a, kw, node: VBool(z3.ForAll([q], z3.Implies(z3.And(0 <= q, q < a[0].len), a[0].arr[q] != 0)))
    eng.lib["np.any"] = lambda e, st, a, kw, node: VBool(z3.Exists([q], z3.And(0 <= q, q < a[0].len, a[0].arr[q] != 0)))
    got = {}
    xres = VSeq(z3.Const("opt_result_x", PA), z3.Int("n_free"))

    def opt_minimize(e, st, a, kw, node):
        trial = VSeq(z3.Const("trial_args", PA), z3.Int("n_free"))
        got["x0"], got["bounds"] = a[1], kw.get("bounds")
        calls.clear()
        e.call_lambda(a[0], [trial], {}, st) if isinstance(a[0], VLambda) else e.call_method(st, a[0].recv, a[0].name, [trial], {})
        got["selected"], got["trial"] = (calls[-1] if calls else None), trial
        return VOptResult(xres, z3.Real("opt_fun"))
    eng.lib["opt.minimize"] = opt_minimize
    calls = []
    mk(eng, "MinimizerBase", "_func_wrapper_unpack_args", result=lambda vw: (calls.append(vw.args["args"]), VNum(z3.Real("cost_value")))[1])
    mk(eng, "MinimizerBase", "_invalidate_cache", result=lambda vw: VNone())
    mk(eng, "MinimizerBase", "cov_mat", "getter", result=lambda vw: VMat(z3.Const("cov", arr(I, I, R)), n, n))
    eng.lib["np.sqrt"] = lambda e, st, a, kw, node: a[0]
    eng.lib["np.diag"] = lambda e, st, a, kw, node: VSeq(FnArr(lambda k_: a[0].arr[k_][k_]), a[0].rows)
    c = Contract("MinimizerScipyOptimize", "minimize")
    c.requires.append(lambda vw: z3.And(n >= 1, H("_par_val", "seq", "len")[me] == n, xres.len == n - cntfix(FX, n), xres.len >= 0,
                                        z3.ForAll([q], z3.Implies(z3.And(0 <= q, q < n), z3.Or(FX[q] == 0, FX[q] == 1))),
                                        z3.Exists([q], z3.And(0 <= q, q < n, FX[q] != 0)), z3.Exists([q], z3.And(0 <= q, q < n, FX[q] == 0))))      # the mixed fixed/free case

    def inv(e, s):
        kq = s.locals["#i0"].e
        pos, pvals = s.locals["_position_indices"], s.locals["_par_vals"]
        return z3.And(0 <= kq, kq <= n, s.locals["_n_fixed_parameters"].e == cntfix(FX, kq), pvals.len == kq - cntfix(FX, kq), pos.len == n, 0 <= cntfix(FX, kq), cntfix(FX, kq) <= kq,
                      z3.ForAll([q], z3.Implies(z3.And(0 <= q, q < kq), pos.arr[q] == z3.ToReal(z3.If(FX[q] != 0, q, q - cntfix(FX, q))))),
                      z3.ForAll([q], z3.Implies(z3.And(0 <= q, q < kq, FX[q] == 0), pvals.arr[q - cntfix(FX, q)] == PV[q])),
                      z3.ForAll([q], z3.Implies(z3.And(0 <= q, q <= kq), z3.And(0 <= cntfix(FX, q), cntfix(FX, q) <= q))),
                      z3.ForAll([q], z3.Implies(z3.And(0 <= q, q < kq, FX[q] == 0), z3.And(0 <= q - cntfix(FX, q), q - cntfix(FX, q) < kq - cntfix(FX, kq)))))
    c.loops[0] = inv
    c.loops[1] = lambda e, s: z3.BoolVal(True)           # the bounds-filter loop (only runs when limits are set; _par_bounds is None here)

    def init(e, st, me_):
        e.write_field(st, me_, "_par_bounds", VNone())
        e.write_field(st, me_, "_par_constraints", VTuple([]))
        e.write_field(st, me_, "_method", VStr("SLSQP"))
        return {"max_calls": VNum(z3.IntVal(6000))}

    def post(vw):
        if vw.flow == "raise":
            return [("raises only if all parameters are fixed", z3.BoolVal(False))]
        rank = lambda t: t - cntfix(FX, t)
        sel, trial = got.get("selected"), got.get("trial")
        out = [("the optimiser starts from the values of the FREE parameters in order: x0[rank(q)] = value[q]", z3.And(got["x0"].len == n - cntfix(FX, n), z3.ForAll([q], z3.Implies(z3.And(0 <= q, q < n, FX[q] == 0), got["x0"].arr[rank(q)] == PV[q])))),
               ("the objective is evaluated on a full-length vector", z3.BoolVal(sel is not None))]
        if sel is not None:
            out.append(("cost callback argument q = fixed value if q is fixed, else trial[rank(q)] with rank = position among the free parameters (label-free)",
                        z3.ForAll([q], z3.Implies(z3.And(0 <= q, q < n), sel.arr[q] == z3.If(FX[q] != 0, PV[q], trial.arr[rank(q)])))))
        P1 = vw.f(vw.post, vw.self, "_par_val")
        out.append(("after the fit: fixed parameters keep their values bit-identically, free parameter q receives result[rank(q)]",
                    z3.ForAll([q], z3.Implies(z3.And(0 <= q, q < n), P1.arr[q] == z3.If(FX[q] != 0, PV[q], xres.arr[rank(q)])))))
        out.append(("the fit is marked as done", vw.f(vw.post, vw.self, "_did_fit").e))
        return out
    c.ensures.append(post)
    eng.verify("MinimizerScipyOptimize", "minimize", None, init, contract=c)
    return eng


class VOptResult(V):
    def __init__(self, x, fun):
        self.x, self.fun = x, fun


def u_is_diagonal(root):
    eng = engine(root, FILES, {}, [])
    M = VMat(z3.Const("matrix", arr(I, I, R)), z3.Int("n"), z3.Int("n"))
    eng.lib["np.diagonal"] = lambda e, st, a, kw, node: VSeq(FnArr(lambda k_: a[0].arr[k_][k_]), a[0].rows)
    eng.lib["np.all"] = lambda e, st, a, kw, node: e.bool_reduce(a[0], "all")
    absr = lambda t: z3.If(t >= 0, t, -t)
    # numpy's documented definition (finite entries): allclose(a, b) <=> for all entries |a - b| <= atol + rtol |b| with atol = 1e-8, rtol = 1e-5
    eng.lib["np.allclose"] = lambda e, st, a, kw, node: VBool(z3.ForAll([i, j], z3.Implies(z3.And(0 <= i, i < a[0].rows, 0 <= j, j < a[0].cols),
                                                         absr(a[0].at(i, j) - a[1].at(i, j)) <= z3.Q(1, 10 ** 8) + z3.Q(1, 10 ** 5) * absr(a[1].at(i, j)))))
    c = Contract(c01_UTIL, "is_diagonal")
    c.requires.append(lambda vw: M.rows >= 0)
    c.ensures.append(lambda vw: [("is_diagonal(M) iff every off-diagonal entry is EXACTLY zero (no absolute tolerance: the answer is the same in every unit of y)",
                                  vw.eng.truth(vw.result) == z3.ForAll([i, j], z3.Implies(z3.And(0 <= i, i < M.rows, 0 <= j, j < M.cols, i != j), M.at(i, j) == 0)))])
    eng.verify(c01_UTIL, "is_diagonal", None, lambda e, st, me_: {"matrix": M}, contract=c)
    return eng


c01_UTIL = "@kafe2/fit/util/__init__.py"


def u_scipy_names(root):
    """fix / release / is_fixed / set / limit / unlimit address the parameter by the position of its NAME"""
    schema = {"MinimizerScipyOptimize": {"_par_fixed": PYOBJ, "_par_val": PYOBJ, "_par_bounds": PYOBJ, "_par_names": PYOBJ}}
    eng = engine(root, FILES, schema, [])
    mk(eng, "MinimizerBase", "_invalidate_cache", result=lambda vw: VNone())
    mk(eng, "MinimizerBase", "reset", result=lambda vw: VNone())
    NAMES = ("p0", "p1", "p2")
    B = lambda t: VTuple([VNone(), VNone()]) if t is None else VTuple([VNum(z3.Real(f"lo{t}")), VNum(z3.Real(f"hi{t}"))])
    for name in NAMES:
        idx = NAMES.index(name)
        for pattern in ((None, None, None), (0, None, None), (None, 1, None), (0, 1, 2), (None, 1, 2), (0, None, 2)):
            bounds = VTuple([B(t) for t in pattern])

            def init(e, st, me_, bounds=bounds):
                e.write_field(st, me_, "_par_names", VTuple([VStr(x) for x in NAMES]))
                e.write_field(st, me_, "_par_bounds", VTuple(list(bounds.items)))
                return {"parameter_name": VStr(name)}

            def post(vw, idx=idx, pattern=pattern):
                after = vw.f(vw.post, vw.self, "_par_bounds")
                still = [t for q_, t in enumerate(pattern) if q_ != idx and t is not None]
                if not still:
                    return [("no limit is left: the bounds list is dropped", z3.BoolVal(isinstance(after, VNone)))]
                ok = isinstance(after, VTuple) and len(after.items) == 3
                out = [("other parameters keep limits: the bounds list stays", z3.BoolVal(ok))]
                if ok:
                    for q_ in range(3):
                        it = after.items[q_]
                        if q_ == idx or pattern[q_] is None:
                            out.append((f"parameter {q_}: unbounded", z3.BoolVal(isinstance(it.items[0], VNone) and isinstance(it.items[1], VNone))))
                        else:
                            out.append((f"parameter {q_}: its limit is untouched (whatever its position)", z3.And(it.items[0].real() == z3.Real(f"lo{pattern[q_]}"), it.items[1].real() == z3.Real(f"hi{pattern[q_]}")) if isinstance(it.items[0], VNum) else z3.BoolVal(False)))
                return out
            c = Contract("MinimizerScipyOptimize", "unlimit")
            c.ensures.append(post)
            eng.verify("MinimizerScipyOptimize", "unlimit", None, init, contract=c, tag=f"({name},{pattern})")
    return eng


def u_initial_steps(root):
    eng = engine(root, FILES, {"NexusFitter": {"_nx": REF("Nexus")}}, [])
    owner, fdef = eng.repo.find("NexusFitter", "__init__")
    import ast as _ast
    comps = [x for x in _ast.walk(fdef) if isinstance(x, _ast.ListComp) and "0.1" in _ast.unparse(x)]
    if len(comps) != 1:
        raise Unsupported("expected exactly one initial-step comprehension in NexusFitter.__init__")
    vals = [VNum(z3.Real(f"v{q_}")) for q_ in range(3)]
    st = State()
    eng._cur = st
    st.locals["_par_values"] = VTuple(vals)
    eng.lib["np.abs"] = lambda e, st_, a, kw, node: VTuple([VNum(z3.If(x.e >= 0, x.e, -x.e)) for x in a[0].items])
    outs = eng.exec_stmt(_ast.Expr(value=comps[0]), st) if False else None
    res = []
    for pattern in ([False] * 3, [True, False, False], [False, True, True]):
        s2 = State()
        s2.locals["_par_values"] = VTuple(vals)
        for v_, zero in zip(vals, pattern):
            s2.assume(v_.e == 0 if zero else v_.e != 0)
        s2.decisions = {}
        eng._cur = s2
        # evaluate the comprehension with the zero-pattern decided (IfExp forks are resolved by the assumptions)
        dec = {}

        def decide(st_, key, cond, s2=s2):
            sol = z3.Solver(); sol.add(s2.pc); sol.add(z3.Not(cond))
            return sol.check() == z3.unsat
        eng.decide = decide
        r = eng.ev(comps[0], s2)
        for q_, (v_, step) in enumerate(zip(vals, r.items)):
            absv = z3.If(v_.e >= 0, v_.e, -v_.e)
            eng.obligations.append((f"NexusFitter.__init__/initial step {q_} (zero pattern {pattern})", list(s2.pc), step.real() == z3.If(v_.e == 0, z3.RealVal("1/10"), z3.RealVal("1/10") * absv)))
    del eng.decide
    import hashlib
    seg = _ast.get_source_segment(eng.repo.files[eng.repo.classes[owner][0]][0], fdef)
    eng.functions.append({"path": eng.repo.classes[owner][0], "qualname": "NexusFitter.__init__ (initial step-size comprehension only)", "verified_as": "NexusFitter", "sha256": hashlib.sha256(seg.encode()).hexdigest(), "exit_paths": [], "obligations": 9})
    return eng



def u_label_lemmas(root):
    """the inputs of the cost transform as lean/Label.lean assumes: residuals and every source covariance (C02's specification) are equivariant under a
    relabelling sigma of the points and homogeneous under a change of the unit of y"""
    eng = engine(root, FILES, {}, [])
    sig = z3.Function("sigma", I, I)
    d, m, err, ref = (z3.Const(x, PA) for x in ("data", "model", "err", "reference"))
    rho, s_, rel = z3.Real("rho"), z3.Real("unit_scale"), z3.Real("relative_size")
    n = z3.Int("n")
    inj = z3.ForAll([i, j], z3.Implies(z3.And(0 <= i, i < n, 0 <= j, j < n, sig(i) == sig(j)), i == j))
    src = lambda e_: (lambda a, b: e_(a) * e_(b) * z3.If(a == b, z3.RealVal(1), rho))          # C02: cov[a][b] = e_a e_b rho_ab, rho_aa = 1
    inr = z3.And(0 <= i, i < n, 0 <= j, j < n)
    eng.lemma("relabelling: residual k of the relabelled data is residual sigma(k)", [], z3.ForAll([i], (d[sig(i)] - m[sig(i)]) == (lambda r_: r_(sig(i)))(lambda t: d[t] - m[t])))
    eng.lemma("relabelling: an absolute source with relabelled sizes has covariance entries C[sigma i][sigma j] (sigma injective)", [inj], z3.ForAll([i, j], z3.Implies(inr, src(lambda t: err[sig(t)])(i, j) == src(lambda t: err[t])(sig(i), sig(j)))))
    eng.lemma("relabelling: a relative source (size x reference) likewise, for data- and model-referenced sources", [inj], z3.ForAll([i, j], z3.Implies(inr, src(lambda t: rel * ref[sig(t)])(i, j) == src(lambda t: rel * ref[t])(sig(i), sig(j)))))
    A_, B_ = z3.Const("A_", arr(I, I, R)), z3.Const("B_", arr(I, I, R))
    Ap, Bp = z3.Const("A_relabelled", arr(I, I, R)), z3.Const("B_relabelled", arr(I, I, R))
    eq = lambda X, Xp: z3.ForAll([i, j], Xp[i][j] == X[sig(i)][sig(j)])
    eng.lemma("relabelling: the sum of sources (total covariance, C02) of relabelled sources is the relabelled total", [eq(A_, Ap), eq(B_, Bp)], z3.ForAll([i, j], Ap[i][j] + Bp[i][j] == (A_[sig(i)][sig(j)] + B_[sig(i)][sig(j)])))
    eng.lemma("units: residuals scale with s", [], z3.ForAll([i], s_ * d[i] - s_ * m[i] == s_ * (d[i] - m[i])))
    eng.lemma("units: an absolute source given in the new unit has covariance s^2 C", [], z3.ForAll([i, j], src(lambda t: s_ * err[t])(i, j) == s_ * s_ * src(lambda t: err[t])(i, j)))
    eng.lemma("units: a relative source needs no conversion - its covariance follows the reference: s^2 C", [], z3.ForAll([i, j], src(lambda t: rel * (s_ * ref[t]))(i, j) == s_ * s_ * src(lambda t: rel * ref[t])(i, j)))
    return eng


def units(root):
    shared = [u for u in c07.units(root) if "fill" in u.name or "lemma" in u.name]
    return [Unit(u.name + " (shared with C07)", u.build, u.budget) for u in shared] + [
        Unit("MinimizerScipyOptimize.minimize argument re-packing", u_scipy_repack, budget=2.0), Unit("is_diagonal", u_is_diagonal),
        Unit("MinimizerScipyOptimize.unlimit by name", u_scipy_names), Unit("NexusFitter initial step sizes", u_initial_steps), Unit("lemmas: inputs of the cost under relabelling / unit change (feeds lean/Label.lean)", u_label_lemmas),
        Unit("MultiFit._get_parameter_indices: a member's results are taken at the positions of ITS parameter names, in its own order (shared with C11)", _shared_param_indices)]


def _shared_param_indices(root):
    from . import c11
    return c11.u_param_indices(root)
