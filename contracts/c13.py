"""C13 - Histogram model bin contents equal the integral of the density over each bin.

Functions under contract: kafe2/fit/histogram/model.py::HistParametricModel._bin_evaluation_{rectangle,trapezoid,simpson,numerical,
antiderivative}, _recalculate (per method), data getter (lazy recompute), eval_model_function_density;
kafe2/fit/_base/model.py::ParametricModelBaseMixin.parameters setter; kafe2/fit/histogram/fit.py::HistFit.model.
dens(x, P) is the user's density at parameter vector P (uninterpreted); integral(P, a, b) its integral (assumed contract of scipy quad);
antider(x, P) a supplied antiderivative.  Exactness lemmas (z3 NRA) fix nodes and weights independently of the implementation.
"""
import z3
from .base import *
from . import errlib

FILES = ["kafe2/fit/histogram/model.py", "kafe2/fit/histogram/container.py", "kafe2/fit/indexed/container.py", "kafe2/fit/_base/container.py", "kafe2/fit/_base/model.py", "kafe2/fit/histogram/fit.py", "kafe2/fit/_base/fit.py"] + errlib.ERR_FILES
SCHEMA = {
    "HistParametricModel": {"_bin_edges": SEQ, "_data": SEQ, "_model_parameters": SEQ, "_pm_calculation_stale": BOOL, "_model_function_object": FUN, "_bin_evaluation": FUN,
                            "_bin_evaluation_method": PYOBJ, "_unprocessed_entries": SEQ, "_processed_entries": SEQ, "_manual_heights": BOOL, "_density": BOOL, "_total_error": REF("MatrixGaussianError"), "_error_dicts": NAMEMAP("ErrEntry")},
    "__pylists__": {("HistParametricModel", "_processed_entries"), ("HistParametricModel", "_unprocessed_entries")},
    "HistFit": {"_param_model": REF("HistParametricModel"), "_data_container": REF("HistContainer")},
}
SCHEMA.update(errlib.ERR_SCHEMA)
META = {
    "level": "proof",
    "trusted_base": [
        "scipy.integrate.quad(f, a, b)[0] is the integral of f over [a, b] (to integration accuracy) - assumed external contract",
        "the user's density is a pure function of (x, parameters): dens(x, P); a vectorised call evaluates it elementwise; a scalar result is broadcast by the code under proof",
        "a supplied antiderivative F satisfies F' = density (user obligation); the code is proved to return F(b) - F(a)",
        "textbook convergence orders of midpoint/trapezoid/Simpson follow from the proved exactness degrees (Peano kernel theorem; cited, not re-proved)",
        "elementwise numpy models (slicing, broadcasting, zeros, asarray); floats as reals; z3/cvc5 soundness (nonlinear real arithmetic for the exactness lemmas)",
    ],
    "assumptions": ["machine arithmetic treated as mathematical", "closed world of kafe2 classes", "HistParametricModel.__init__ method selection and HistFit wiring are covered by the bounded native run only"],
    "bounded": [{"what": "string -> quadrature method table of HistParametricModel.__init__, polynomial exactness on real numbers, HistFit.model N-scaling incl. under/overflow entries, staleness after parameters setter", "bound": "native: 4 edge sets incl. non-uniform, polynomial degrees 0..4, 7 evaluation methods"}],
}

me = z3.Const("self", Ref)
PA = arr(I, R)
dens = z3.Function("dens", R, PA, R)              # density(x; P)
integral = z3.Function("integral", PA, R, R, R)    # integral of the density over [a, b] at parameters P
antider = z3.Function("antider", R, PA, R)        # supplied antiderivative
BE, nE = H("_bin_edges", "seq")[me], H("_bin_edges", "seq", "len")[me]
P0 = H("_model_parameters", "seq")[me]
i = z3.Int("i")


def rule(name, a, b, P):
    return {"rectangle": (b - a) * dens((a + b) / 2, P) / 1,
            "trapezoid": (b - a) / 2 * (dens(a, P) + dens(b, P)),
            "simpson": (b - a) / 6 * (dens(a, P) + 4 * dens((a + b) / 2, P) + dens(b, P)),
            "numerical": integral(P, a, b),
            "antiderivative": antider(b, P) - antider(a, P)}[name]


def cur_params(vw, st):
    return vw.f(st, vw.self, "_model_parameters").arr


def mk_engine(root):
    eng = engine(root, FILES, SCHEMA, [])
    inline(eng, "HistContainer", "bin_widths", "bin_centers", "size")

    def density_contract(vw):
        x, P = vw.args["x"], materialise(cur_params(vw, vw.pre), "P")
        if isinstance(x, VNum):
            return VNum(dens(x.real(), P))
        return VSeq(FnArr(lambda k_: dens(x.arr[k_], P)), x.len)
    mk(eng, "HistParametricModel", "eval_model_function_density", result=density_contract)
    return eng


def u_rules(root):
    eng = mk_engine(root)
    for name in ("rectangle", "trapezoid", "simpson"):
        c = Contract("HistParametricModel", "_bin_evaluation_" + name)
        c.requires.append(lambda vw: nE >= 1)
        c.ensures.append(lambda vw, name=name: [("one value per bin", vw.result.len == nE - 1),
                                                 (f"per-bin {name} rule with nodes at the bin's own edges/centre", z3.ForAll([i], z3.Implies(z3.And(0 <= i, i < nE - 1), vw.result.arr[i] == rule(name, BE[i], BE[i + 1], P0))))])
        eng.verify("HistParametricModel", "_bin_evaluation_" + name, contract=c)
    return eng


def u_antiderivative(root):
    eng = mk_engine(root)

    def antider_model(e, st, args, kw, n):
        x, star = args[0], args[1]
        P = materialise(star.seq.arr, "P")
        return VSeq(FnArr(lambda k_: antider(x.arr[k_], P)), x.len)
    eng.fun_models = {"_bin_evaluation": antider_model}
    c = Contract("HistParametricModel", "_bin_evaluation_antiderivative")
    c.requires += [lambda vw: nE >= 1, lambda vw: H("_data", "seq", "len")[me] == nE + 1]
    c.ensures.append(lambda vw: [("no assertion failure", z3.BoolVal(True))] if vw.flow == "raise" else [("one value per bin", vw.result.len == nE - 1),
                                 ("result[i] = F(upper edge) - F(lower edge): exact by construction", z3.ForAll([i], z3.Implies(z3.And(0 <= i, i < nE - 1), vw.result.arr[i] == rule("antiderivative", BE[i], BE[i + 1], P0))))])
    c.ensures.append(lambda vw: [("the shape assertion never fires", z3.BoolVal(vw.flow != "raise"))])
    eng.verify("HistParametricModel", "_bin_evaluation_antiderivative", contract=c)
    return eng


def u_numerical(root):
    eng = mk_engine(root)

    def quad(e, st, a, kw, n):
        g, lo, hi = a
        t = fresh("t", R)
        r = e.call_lambda(g, [VNum(t)], {}, st)
        P = materialise(e.read_field(st, st.locals["self"], "_model_parameters").arr, "P")
        e.oblige("integrand handed to quad is the density at the current parameters", st, r.real() == dens(t, P))
        return VTuple([VNum(integral(P, lo.real(), hi.real())), VOpaque("abserr")])
    eng.lib["integrate.quad"] = quad
    for other in ("fixed_quad", "quadrature", "romberg", "simpson", "trapezoid"):          # not the adaptive rule the contract assumes: an unrelated number
        eng.lib["integrate." + other] = lambda e, st, a, kw, n, other=other: VTuple([VNum(fresh("integrate_" + other, R)), VNum(fresh("err", R))])
    c = Contract("HistParametricModel", "_bin_evaluation_numerical")
    c.requires += [lambda vw: nE >= 1, lambda vw: H("_data", "seq", "len")[me] == nE + 1]

    def inv(e, s):
        k = s.locals["#i0"].e
        V = s.locals["_int_val"]
        return z3.And(0 <= k, k <= nE - 1, V.len == nE - 1, z3.ForAll([i], z3.Implies(z3.And(0 <= i, i < k), V.arr[i] == integral(P0, BE[i], BE[i + 1]))))
    c.loops[0] = inv
    c.ensures.append(lambda vw: [("one value per bin", vw.result.len == nE - 1),
                                 ("result[i] = integral of the density over bin i", z3.ForAll([i], z3.Implies(z3.And(0 <= i, i < nE - 1), vw.result.arr[i] == integral(P0, BE[i], BE[i + 1]))))])
    eng.verify("HistParametricModel", "_bin_evaluation_numerical", contract=c)
    return eng


def method_contract(eng, name):
    c = mk(eng, "HistParametricModel", "_bin_evaluation_" + name)
    c.requires.append(lambda vw: vw.f(vw.pre, vw.self, "_bin_edges").len >= 1)

    def res(vw):
        be = vw.f(vw.pre, vw.self, "_bin_edges")
        P = materialise(cur_params(vw, vw.pre), "P")
        return VSeq(FnArr(lambda k_: rule(name, be.arr[k_], be.arr[k_ + 1], P)), be.len - 1)
    c.result = res
    return c


def matches(vw, st, name):
    D, be = vw.f(st, vw.self, "_data"), vw.f(st, vw.self, "_bin_edges")
    P = cur_params(vw, st)
    return z3.ForAll([i], z3.Implies(z3.And(0 <= i, i < be.len - 1), D.arr[i + 1] == rule(name, be.arr[i], be.arr[i + 1], P)))


def inv_pm(vw, st, name):
    """not stale => stored bin contents are the rule applied to the CURRENT parameters and edges"""
    D, be = vw.f(st, vw.self, "_data"), vw.f(st, vw.self, "_bin_edges")
    P = cur_params(vw, st)
    return z3.And(be.len >= 1, D.len == be.len + 1, vw.f(st, vw.self, "_unprocessed_entries").len == 0,
                  z3.Implies(z3.Not(vw.f(st, vw.self, "_pm_calculation_stale").e), z3.ForAll([i], z3.Implies(z3.And(0 <= i, i < be.len - 1), D.arr[i + 1] == rule(name, be.arr[i], be.arr[i + 1], P)))))


def u_lazy(root, name):
    """_recalculate and the data getter for the model configured with quadrature method `name`"""
    eng = mk_engine(root)
    method_contract(eng, name)

    def init(e, st, me_):
        e.write_field(st, me_, "_bin_evaluation_method", VBound(me_, "_bin_evaluation_" + name))
        return {}
    errlib.c_reference_setter(eng)
    ESlen = H("_error_dicts", "namemap", "len")[me]
    c = Contract("HistParametricModel", "_recalculate")
    c.requires.append(lambda vw: z3.And(nE >= 1, H("_data", "seq", "len")[me] == nE + 1, H("_unprocessed_entries", "seq", "len")[me] == 0, ESlen >= 0))
    # the loop re-pointing the uncertainty sources touches only the source objects; the freshly written bin contents are framed
    c.loops[0] = lambda e, s: z3.And(0 <= s.locals["#i0"].e, s.locals["#i0"].e <= ESlen)
    c.ensures.append(lambda vw: [("stored bin contents = rule at the current parameters and edges", matches(vw, vw.post, name)), ("model invariant established for the current parameters", inv_pm(vw, vw.post, name)),
                                 ("underflow/overflow slots untouched", z3.And(vw.f(vw.post, vw.self, "_data").arr[0] == vw.f(vw.pre, vw.self, "_data").arr[0], vw.f(vw.post, vw.self, "_data").arr[nE] == vw.f(vw.pre, vw.self, "_data").arr[nE]))])
    eng.verify("HistParametricModel", "_recalculate", None, init, contract=c, tag=f"({name})")
    # data getter: by contract of _recalculate
    r = mk(eng, "HistParametricModel", "_recalculate")
    r.requires.append(lambda vw: z3.And(vw.f(vw.pre, vw.self, "_bin_edges").len >= 1, vw.f(vw.pre, vw.self, "_data").len == vw.f(vw.pre, vw.self, "_bin_edges").len + 1))
    r.modifies = [("_data", "seq", ""), ("_pm_calculation_stale", "bool", "")]
    r.ensures.append(lambda vw: [matches(vw, vw.post, name), inv_pm(vw, vw.post, name)])
    f = mk(eng, "HistContainer", "_fill_unprocessed")
    f.requires.append(lambda vw: z3.BoolVal(False))      # never reached for a model: it has no entries
    g = Contract("HistParametricModel", "data", "getter")
    g.requires += [lambda vw: inv_pm(vw, vw.pre, name), lambda vw: z3.Not(vw.f(vw.pre, vw.self, "_manual_heights").e)]
    g.ensures.append(lambda vw: [("one value per bin", vw.result.len == nE - 1),
                                 ("data[i] = rule applied to bin i at the CURRENT parameters (recomputed if a parameter changed since)", z3.ForAll([i], z3.Implies(z3.And(0 <= i, i < nE - 1), vw.result.arr[i] == rule(name, BE[i], BE[i + 1], P0)))),
                                 ("invariant kept", inv_pm(vw, vw.post, name)), ("parameters untouched", cur_params(vw, vw.post) == P0)])
    eng.verify("HistParametricModel", "data", "getter", init, contract=g, tag=f"({name})")
    return eng


def u_parameters_setter(root):
    eng = mk_engine(root)
    mk(eng, "DataContainerBase", "_clear_total_error_cache", modifies=[("_total_error", "ref", "")], ensures=[lambda vw: [vw.f(vw.post, vw.self, "_total_error").e == NULL]])
    c = Contract("ParametricModelBaseMixin", "parameters", "setter")
    newp = VSeq.fresh("parameters")
    c.ensures.append(lambda vw: [("parameters stored", z3.And(cur_params(vw, vw.post) == newp.arr, vw.f(vw.post, vw.self, "_model_parameters").len == newp.len)),
                                 ("model values marked stale", vw.f(vw.post, vw.self, "_pm_calculation_stale").e),
                                 ("cached total error dropped", vw.f(vw.post, vw.self, "_total_error").e == NULL)])
    eng.verify("HistParametricModel", "parameters", "setter", lambda e, st, me_: {"parameters": newp}, contract=c)
    return eng


def u_density_eval(root):
    eng = engine(root, FILES, SCHEMA, [])
    for scalar_result in (False, True):
        def model(e, st, args, kw, n, scalar_result=scalar_result):
            x, star = args[0], args[1]
            P = materialise(star.seq.arr, "P")
            if scalar_result:
                return VNum(dens(z3.RealVal(0), P))      # a density that ignores x returns a python scalar
            return VSeq(FnArr(lambda k_: dens(x.arr[k_], P)), x.len)
        eng.fun_models = {"_model_function_object": model}
        x = VSeq.fresh("x")
        c = Contract("HistParametricModel", "eval_model_function_density")
        c.ensures.append(lambda vw, scalar_result=scalar_result: [("same length as x", vw.result.len == x.len),
                                     ("elementwise density at the current parameters (scalar results broadcast)", z3.ForAll([i], z3.Implies(z3.And(0 <= i, i < x.len), vw.result.arr[i] == dens(z3.RealVal(0) if scalar_result else x.arr[i], P0))))])
        eng.verify("HistParametricModel", "eval_model_function_density", None, lambda e, st, me_: {"x": x}, contract=c, tag="(scalar density)" if scalar_result else "(vectorised density)")
    return eng


def u_histfit_model(root):
    eng = mk_engine(root)
    nent = z3.Function("n_entries", Ref, R)
    pmdata = z3.Function("pm_data", Ref, PA, arr(I, R))
    pmlen = z3.Function("pm_len", Ref, I)
    pv = VSeq.fresh("parameter_values")
    mk(eng, "FitBase", "parameter_values", "getter", result=lambda vw: pv)
    mk(eng, "HistContainer", "n_entries", "getter", result=lambda vw: VNum(nent(vw.self.e)))
    mk(eng, "HistParametricModel", "density", "getter", result=lambda vw: VBool(vw.f(vw.pre, vw.self, "_density").e))
    mk(eng, "ParametricModelBaseMixin", "parameters", "setter", modifies=[("_model_parameters", "seq", ""), ("_model_parameters", "seq", "len"), ("_pm_calculation_stale", "bool", "")],
       ensures=[lambda vw: [vw.f(vw.post, vw.self, "_model_parameters").arr == materialise(vw.args["parameters"].arr), vw.f(vw.post, vw.self, "_pm_calculation_stale").e]])
    mk(eng, "HistParametricModel", "data", "getter", result=lambda vw: VSeq(pmdata(vw.self.e, vw.f(vw.pre, vw.self, "_model_parameters").arr), pmlen(vw.self.e)))
    c = Contract("HistFit", "model", "getter")
    PM = H("_param_model", "ref")[me]
    DC = H("_data_container", "ref")[me]
    pva = materialise(pv.arr, "pv")
    c.requires.append(lambda vw: z3.And(PM != NULL, DC != NULL))
    c.ensures.append(lambda vw: [("length", vw.result.len == pmlen(PM)),
                                 ("model = bin integrals at the fit's current parameter values, times the number of ALL entries of the data container when the model is a density",
                                  z3.ForAll([i], vw.result.arr[i] == pmdata(PM, pva)[i] * z3.If(H("_density", "bool")[PM], nent(DC), z3.RealVal(1))))])
    eng.verify("HistFit", "model", "getter", contract=c)
    return eng


def u_new_model(root):
    """HistFit._set_new_parametric_model (run for every data assignment): a NEW parametric model is built from the binning of the container now in the fit -
    its size, range AND bin edges - with the fit's own density / bin-evaluation settings and its current parameter values; and the wrapper hands `density` on (shared with C14)"""
    from . import c03
    Part, Val, Fn = c03.Part, c03.Val, c03.Fn
    eng = engine(root, ["kafe2/fit/histogram/fit.py", "kafe2/fit/_base/fit.py"], {"FitBase": {"_data_container": PYOBJ, "_param_model": PYOBJ, "_model_function": PYOBJ, "_bin_evaluation": PYOBJ, "_density": PYOBJ}}, [])
    mk(eng, "FitBase", "parameter_values", "getter", result=lambda vw: Val("fit.parameter_values"))

    def ctor(e, st, a, kw, node):
        st.ghost = dict(st.ghost)
        st.ghost["made"] = st.ghost.get("made", ()) + ((tuple(a), dict(kw)),)
        return Val("new_model")
    eng.consts = {"HistParametricModel": Fn(lambda e, st, a, kw: ctor(e, st, a, kw, None))}
    for had_model in (True, False):
        c = Contract("HistFit", "_set_new_parametric_model")

        def init(e, st, me_, had_model=had_model):
            e.write_field(st, me_, "_data_container", Part("container"))
            e.write_field(st, me_, "_param_model", Part("old_model") if had_model else VNone())
            e.write_field(st, me_, "_model_function", Val("fit.model_function"))
            e.write_field(st, me_, "_bin_evaluation", Val("fit.bin_evaluation"))
            e.write_field(st, me_, "_density", Val("fit.density"))
            return {}

        def post(vw):
            made = vw.post.ghost.get("made", ())
            tag = lambda v: getattr(v, "tag", None)
            if len(made) != 1:
                return [("exactly one new parametric model is built (the old one belongs to the old binning)", z3.BoolVal(False))]
            a, kw = made[0]
            allargs = dict(zip(("n_bins", "bin_range", "model_density_func", "model_parameters", "bin_edges"), a), **kw)
            pm = vw.f(vw.post, vw.self, "_param_model")
            return [("exactly one new parametric model is built (the old one belongs to the old binning)", z3.BoolVal(True)),
                    ("from the container now in the fit: its size, its range and its bin EDGES", z3.BoolVal([tag(allargs.get(k_)) for k_ in ("n_bins", "bin_range", "bin_edges")] == ["container.size", "container.bin_range", "container.bin_edges"])),
                    ("with the fit's model function and current parameter values", z3.BoolVal(tag(allargs.get("model_density_func")) == "fit.model_function" and tag(allargs.get("model_parameters")) == "fit.parameter_values")),
                    ("with the fit's own density and bin-evaluation settings", z3.BoolVal(tag(allargs.get("density")) == "fit.density" and tag(allargs.get("bin_evaluation")) == "fit.bin_evaluation")),
                    ("and it is the model the fit uses from now on", z3.BoolVal(tag(pm) == "new_model"))]
        c.ensures.append(post)
        eng.verify("HistFit", "_set_new_parametric_model", None, init, contract=c, tag=f"[{'replacing a model' if had_model else 'first model'}]")
    return eng


def _shared_wrapper(root):
    from . import c14
    return c14.u_wrapper_toplevel(root)


def u_lemmas(root):
    eng = mk_engine(root)
    c0, c1, c2, c3, c4, A, B_ = z3.Reals("c0 c1 c2 c3 c4 A B")

    def pw(x, j):
        r = z3.RealVal(1)
        for _ in range(j):
            r = r * x
        return r

    def mkl(deg, rname, exact):
        cs = [c0, c1, c2, c3, c4][: deg + 1]
        p = lambda x: sum(c * pw(x, j) for j, c in enumerate(cs))
        Pint = lambda x: sum(c * pw(x, j + 1) / (j + 1) for j, c in enumerate(cs))
        val = {"rectangle": (B_ - A) * p((A + B_) / 2), "trapezoid": (B_ - A) / 2 * (p(A) + p(B_)), "simpson": (B_ - A) / 6 * (p(A) + 4 * p((A + B_) / 2) + p(B_))}[rname]
        if exact:
            eng.lemma(f"{rname} rule is exact for polynomial densities of degree {deg}", [], val == Pint(B_) - Pint(A))
        else:
            # inexactness witness one degree higher (monomial x^deg on [0,1]): the rule's value differs from the integral
            w = {"rectangle": pw(z3.RealVal("1/2"), deg), "trapezoid": (pw(z3.RealVal(0), deg) + 1) / 2, "simpson": (pw(z3.RealVal(0), deg) + 4 * pw(z3.RealVal("1/2"), deg) + 1) / 6}[rname]
            eng.lemma(f"{rname} rule is NOT exact at degree {deg} (witness x^{deg} on [0,1])", [], w != z3.RealVal(1) / (deg + 1))
    for rname, d in (("rectangle", 1), ("trapezoid", 1), ("simpson", 3)):
        mkl(d, rname, True)
        mkl(d + 1, rname, False)
    return eng


def units(root):
    us = [Unit("quadrature rules", u_rules), Unit("antiderivative", u_antiderivative), Unit("numerical", u_numerical)]
    us += [Unit(f"lazy recompute ({m})", lambda r, m=m: u_lazy(r, m)) for m in ("rectangle", "trapezoid", "simpson", "numerical", "antiderivative")]
    us += [Unit("parameters setter", u_parameters_setter), Unit("eval_model_function_density", u_density_eval), Unit("HistFit.model", u_histfit_model), Unit("exactness lemmas", u_lemmas), Unit("HistFit builds a new parametric model for the binning of new data", u_new_model),
           Unit("hist_fit hands the density flag and the binning on (wrapper construction, shared with C14)", _shared_wrapper)]
    return us
