"""Shared contracts for kafe2/fit/_base/cost.py::CostFunction.__call__ (used by C01 and C10).

A built-in cost configuration is (determinant flag, constraint flag, argument names); values are symbolic:
args = core... [, parameter_values, parameter_constraints] [, log_determinant]
spec:  result = handle(core...) + sum_c c.cost(parameter_values) + (log_determinant if not None else 0)
"""
import z3
from .base import *

COST_FILES = ["kafe2/fit/_base/cost.py", "kafe2/core/constraint.py", "kafe2/fit/io/file.py"]
COST_SCHEMA = {"CostFunction": {"_add_determinant_cost": BOOL, "_add_constraint_cost": BOOL, "_cost_function_handle": FUN, "_arg_names": PYOBJ, "_is_chi2": BOOL,
                                "_add_determinant_cost_ga": BOOL}}
PA = arr(I, R)
ccost = z3.Function("uf_constraint_cost", Ref, PA, R)     # ParameterConstraint.cost(p) (its own contract is proved under C01)
csum = z3.Function("csum", arr(I, Ref), PA, I, R)
A_, P_ = z3.Const("A_", arr(I, Ref)), z3.Const("P_", PA)
COST_AXIOMS = [z3.ForAll([A_, P_], csum(A_, P_, 0) == 0)]

# (name, core argument names, determinant flag, constraint flag)
CONFIGS = [
    ("chi2_covariance", ["data", "model", "total_cov_mat_qr"], True, True),
    ("chi2_pointwise", ["data", "model", "total_error"], True, True),
    ("chi2_no_errors", ["data", "model"], False, True),
    ("nll", ["data", "model"], False, True),
    ("no_constraints", ["data", "model", "total_cov_mat_qr"], True, False),
    ("user(no data/model names)", ["y", "f"], False, True),
]


def cost_engine(root, extra_files=(), extra_schema=None):
    schema = dict(COST_SCHEMA)
    schema.update(extra_schema or {})
    eng = engine(root, COST_FILES + list(extra_files), schema, COST_AXIOMS)
    eng.recdefs = {"csum": (2, lambda e, u: z3.Implies(u >= 0, csum(e.arg(0), e.arg(1), u + 1) == csum(e.arg(0), e.arg(1), u) + ccost(e.arg(0)[u], e.arg(1))))}
    mk(eng, "ParameterConstraint", "cost", result=lambda vw: VNum(ccost(vw.self.e, materialise(vw.args["parameter_values"].arr, "pv"))))
    return eng


class Cfg:
    """one symbolic argument tuple for a configuration"""

    def __init__(self, name, core_names, det, con, cons_none=False, det_none=False, tag=""):
        self.name, self.core_names, self.det, self.con, self.cons_none, self.det_none = name, core_names, det, con, cons_none, det_none
        sfx = "_" + str(abs(hash((name, cons_none, det_none, tag))) % 10**6)
        self.core = []
        for cn in core_names:
            if cn in ("data", "model", "total_error", "y", "f"):
                self.core.append(VSeq(z3.Const(cn + sfx, PA), z3.Int(cn + "_len" + sfx)))
            else:
                self.core.append(VOpaque(("term", z3.Const(cn + sfx, z3.DeclareSort("Decomp")))))
        self.pv = VSeq(z3.Const("pv" + sfx, PA), z3.Int("pv_len" + sfx))
        self.cons = VNone() if cons_none else VRefSeq(z3.Const("cons" + sfx, arr(I, Ref)), z3.Int("ncons" + sfx), "ParameterConstraint")
        self.logdet = VNone() if det_none else VNum(z3.Real("logdet" + sfx))
        self.arg_names = list(core_names) + (["parameter_values", "parameter_constraints"] if con else []) + (["total_cov_mat_log_determinant"] if det else [])
        self.args = list(self.core) + ([self.pv, self.cons] if con else []) + ([self.logdet] if det else [])

    def constraint_sum(self):
        return csum(self.cons.arr, self.pv.arr, self.cons.len) if (self.con and not self.cons_none) else z3.RealVal(0)

    def requires(self):
        return [lambda vw: z3.And(vw.f(vw.pre, vw.self, "_add_determinant_cost").e == self.det, vw.f(vw.pre, vw.self, "_add_constraint_cost").e == self.con)] + \
               ([lambda vw: self.cons.len >= 0] if (self.con and not self.cons_none) else [])


def handle_value(eng, st, core):
    return eng.apply_uf("_cost_function_handle", core, st).e


def call_spec(eng, st, args, det, con):
    """value of CostFunction.__call__(*args) per the documented composition, for concrete flags"""
    args = list(args)
    extra = z3.RealVal(0)
    if det:
        ld = args.pop()
        if not isinstance(ld, VNone):
            extra = extra + ld.real()
    if con:
        cons = args.pop()
        pv = args.pop()
        if not isinstance(cons, VNone):
            extra = extra + csum(cons.arr, materialise(pv.arr, "pv"), cons.len)
    return handle_value(eng, st, args) + extra


def verify_call(eng, cfg):
    cc = Contract("CostFunction", "__call__")
    cc.requires = cfg.requires()

    def inv(e, s):
        i = s.locals["#i0"].e
        base = cfg.logdet.real() if (cfg.det and not cfg.det_none) else z3.RealVal(0)
        return z3.And(0 <= i, i <= cfg.cons.len, s.locals["additional_cost"].real() == base + csum(cfg.cons.arr, cfg.pv.arr, i))
    cc.loops[0] = inv

    def post(vw):
        expect = handle_value(vw.eng, vw.post, cfg.core) + cfg.constraint_sum() + (cfg.logdet.real() if (cfg.det and not cfg.det_none) else 0)
        return [("cost = handle(core args) + sum of EVERY constraint's cost + log-determinant (when present); nothing else", vw.result.real() == expect)]
    cc.ensures.append(post)
    tag = f"[{cfg.name}{',constraints=None' if cfg.cons_none else ''}{',logdet=None' if cfg.det_none else ''}]"
    eng.verify("CostFunction", "__call__", None, lambda e, st, me: {"args": VTuple(list(cfg.args))}, contract=cc, tag=tag)


def callee_call(eng, det, con):
    """__call__ as used by callers with known flags (goodness_of_fit)"""
    c = mk(eng, "CostFunction", "__call__")
    c.requires.append(lambda vw: z3.And(vw.f(vw.pre, vw.self, "_add_determinant_cost").e == det, vw.f(vw.pre, vw.self, "_add_constraint_cost").e == con))
    c.result = lambda vw: VNum(call_spec(vw.eng, vw.pre, vw.args["args"].items, det, con))
    return c
