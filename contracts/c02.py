"""C02 - Total uncertainty is the exact sum of enabled sources at the current reference.

Spec (from the property):  src_cov(s, v)[i][j] = sigma_i sigma_j rho_ij, rho_ii = 1, rho_ij = rho, with sigma = size (absolute source) or
relative size x v (relative source), v = the container's CURRENT values;  total(c) = sum over ENABLED sources of src_cov(s, values(c)).
Object invariants: Inv_src (a source's cached covariance, if present, is src_cov at the reference as it is NOW) and
Inv_tot (a container's cached total, if present, is total(c)); every value-changing mutator drops / re-points the caches.
"""
import z3
from .base import *
from . import errlib

FILES = ["kafe2/core/error.py", "kafe2/fit/indexed/container.py", "kafe2/fit/_base/container.py", "kafe2/fit/xy/container.py", "kafe2/fit/histogram/container.py", "kafe2/fit/_base/model.py",
         "kafe2/fit/histogram/model.py", "kafe2/fit/indexed/model.py", "kafe2/fit/xy/model.py"]
SCHEMA = {
    "SimpleGaussianError": {"_corr_coeff": NUM, "_is_relative": BOOL, "_reference": CALLREF, "_err": OPTSEQ, "_err_rel": OPTSEQ,
                            "_cov_mat": REF("CovMat"), "_cov_mat_rel": REF("CovMat"), "_cov_mat_uncor_part": MAT, "_cov_mat_cor_part": MAT,
                            "_cov_mat_rel_uncor_part": MAT, "_cov_mat_rel_cor_part": MAT, "_fit_indices": PYOBJ},
    "GaussianErrorBase": {"_is_relative": BOOL, "_reference": CALLREF, "_err": OPTSEQ, "_err_rel": OPTSEQ, "_cov_mat": REF("CovMat"), "_cov_mat_rel": REF("CovMat")},
    "CovMat": {"_mat": MAT},
    "IndexedContainer": {"_data": SEQ, "_error_dicts": NAMEMAP("ErrEntry"), "_total_error": REF("MatrixGaussianError"), "_on_error_change_callback": PYOBJ},
    "ErrEntry": {"enabled": BOOL, "err": REF("GaussianErrorBase"), "axis": INT},
    "MatrixGaussianError": {"#cov_abs": MAT},
    "HistContainer": {"_data": SEQ, "_bin_edges": SEQ, "_processed_entries": SEQ, "_unprocessed_entries": SEQ, "_manual_heights": BOOL},
    "XYContainer": {"_data": MAT, "_error_dicts": NAMEMAP("ErrEntry"), "_total_error": FT("optrefseq", "MatrixGaussianError"), "_on_error_change_callback": PYOBJ},
    "ParametricModelBaseMixin": {"_pm_calculation_stale": BOOL},
    "__pylists__": {("HistContainer", "_processed_entries"), ("HistContainer", "_unprocessed_entries")},
}
META = {
    "level": "proof",
    "trusted_base": [
        "numpy elementwise models: np.diag (both directions), np.outer, np.zeros/zeros_like, elementwise + * ** with broadcasting, np.abs, np.asarray/np.array as value copies",
        "np.linalg.inv / cholesky satisfy their defining equations (inverse and Cholesky factor are uninterpreted; 'consistent with the total' is by construction from the total matrix)",
        "array references are value snapshots: a reference array stored in a source equals the container's values at the time it was stored; every value-changing mutator re-stores it (proved), in-place aliasing of numpy arrays is not modelled",
        "positive semi-definiteness of (sigma sigma^T) o rho for rho in [0,1] and of sums: Schur product theorem (textbook, assumed); symmetry is proved elementwise",
        "floats as reals; z3/cvc5 soundness",
    ],
    "assumptions": ["machine arithmetic treated as mathematical", "closed world of kafe2 container classes", "user-supplied matrices are symmetric (the code only warns)",
                    "XYContainer / HistContainer / parametric-model mutators beyond those listed under functions_under_contract are covered by the bounded native histories only"],
    "bounded": [{"what": "all 8 container kinds (indexed, xy x/y/data, hist, 3 parametric models): histories of add simple/matrix abs/rel, disable, enable, value change, reads; disable-enable restores exactly; symmetric / PSD / inverse / correlation consistency on numbers",
                 "bound": "native: all sequences of <= 3 operations (4 thorough) over a 14-operation alphabet, 3 data points"}],
}

me = z3.Const("self", Ref)
i, j = z3.Ints("i j")


def F(vw, st, f):
    return vw.f(st, vw.self, f)


def mk_engine(root, owner_cls="IndexedContainer"):
    eng = engine(root, FILES, SCHEMA, [])
    eng.callref_owner_cls, eng.callref_owner_field = owner_cls, "_data"
    eng.lib["callable"] = lambda e, st, a, kw, n: VBool(a[0].kind == 2) if isinstance(a[0], VCallRef) else VBool(z3.BoolVal(False))
    eng.lib["np.abs"] = lambda e, st, a, kw, n: (lambda x: VSeq(FnArr(lambda k_: z3.If(x.arr[k_] >= 0, x.arr[k_], -x.arr[k_])), x.len))(e.num(a[0], st))

    def ctor_CovMat(e, st, a, kw, n):   # CovMat(matrix): a fresh object whose matrix is a copy of the argument (mat setter; square check is an obligation)
        r = e.alloc(st, "covmat", "CovMat")
        m = a[0]
        e.oblige("pre@CovMat: square matrix", st, m.rows == m.cols)
        e.write_field(st, r, "_mat", m)
        return r
    eng.lib["class:CovMat"] = ctor_CovMat
    inline(eng, "SimpleGaussianError", "relative")
    inline(eng, "CovMat", "mat")
    return eng


# ------------------------------------------------------------------ spec functions over a source object
def ref_now(vw, st, owner_cls="IndexedContainer"):
    """the reference resolved NOW: None | stored array | the owner's current values"""
    r = F(vw, st, "_reference")
    own = vw.eng.read_field(st, VRef(r.owner, owner_cls), "_data")
    return VOptSeq(FnArr(lambda k_: z3.If(r.kind == 2, own.arr[k_], r.arr[k_])), z3.If(r.kind == 2, own.len, r.len), r.kind == 0)


def nlen(vw, st):
    return z3.If(F(vw, st, "_is_relative").e, F(vw, st, "_err_rel").len, F(vw, st, "_err").len)


def sigma(vw, st, k):
    """absolute pointwise size per the property: relative size times the CURRENT reference value (signed), or the absolute size"""
    rel = F(vw, st, "_is_relative").e
    return z3.If(rel, F(vw, st, "_err_rel").arr[k] * ref_now(vw, st).arr[k], F(vw, st, "_err").arr[k])


def spec(vw, st, a, b):
    rho = F(vw, st, "_corr_coeff").e
    return sigma(vw, st, a) * sigma(vw, st, b) * z3.If(a == b, z3.RealVal(1), rho)


def spec_rel(vw, st, a, b):
    rho = F(vw, st, "_corr_coeff").e
    e = F(vw, st, "_err_rel")
    return e.arr[a] * e.arr[b] * z3.If(a == b, z3.RealVal(1), rho)


def wf(vw, st):
    """well-formedness of a simple source (established by __init__ and the setters)"""
    rel, rho = F(vw, st, "_is_relative").e, F(vw, st, "_corr_coeff").e
    return z3.And(0 <= rho, rho <= 1, z3.If(rel, z3.Not(F(vw, st, "_err_rel").none), z3.Not(F(vw, st, "_err").none)), nlen(vw, st) >= 0,
                  z3.Implies(z3.And(rel, z3.Not(ref_now(vw, st).none)), ref_now(vw, st).len == nlen(vw, st)))


def mat_is(vw, st, cm, fn):
    M = vw.eng.read_field(st, cm, "_mat")
    n = nlen(vw, st)
    return z3.And(M.rows == n, M.cols == n, z3.ForAll([i, j], z3.Implies(z3.And(0 <= i, i < n, 0 <= j, j < n), M.at(i, j) == fn(vw, st, i, j))))


def inv_src(vw, st):
    """cache invariant: a cached absolute covariance equals src_cov at the reference as it is NOW"""
    cm = F(vw, st, "_cov_mat")
    return z3.Or(cm.e == NULL, mat_is(vw, st, cm, spec))


def inv_src_rel(vw, st):
    cm = F(vw, st, "_cov_mat_rel")
    return z3.Or(cm.e == NULL, mat_is(vw, st, cm, spec_rel))


def no_ref_needed(vw, st):
    return z3.Not(z3.And(F(vw, st, "_is_relative").e, ref_now(vw, st).none))


# ------------------------------------------------------------------ units
def u_generic(root):
    """_calculate_cov_mat_generic: both branches against cov[i][j] = e_i e_j rho_ij"""
    eng = mk_engine(root)
    e_arr, rho = VSeq.fresh("error_array"), VNum(z3.Real("corr_coeff"))
    c = Contract("SimpleGaussianError", "_calculate_cov_mat_generic")
    c.requires.append(lambda vw: z3.And(rho.e >= 0, rho.e <= 1, e_arr.len >= 0))

    def post(vw):
        cov, unc, cor = vw.result.items
        M = vw.eng.read_field(vw.post, cov, "_mat")
        inr = z3.And(0 <= i, i < e_arr.len, 0 <= j, j < e_arr.len)
        sp = lambda a, b: e_arr.arr[a] * e_arr.arr[b] * z3.If(a == b, z3.RealVal(1), rho.e)
        return [("cov[i][j] = e_i e_j rho_ij with unit diagonal correlation", z3.ForAll([i, j], z3.Implies(inr, M.at(i, j) == sp(i, j)))), ("shape n x n", z3.And(M.rows == e_arr.len, M.cols == e_arr.len)),
                ("uncorrelated + correlated part = covariance", z3.ForAll([i, j], z3.Implies(inr, unc.at(i, j) + cor.at(i, j) == M.at(i, j)))), ("symmetric", z3.ForAll([i, j], z3.Implies(inr, M.at(i, j) == M.at(j, i)))),
                ("diagonal = squared sizes", z3.ForAll([i], z3.Implies(z3.And(0 <= i, i < e_arr.len), M.at(i, i) == e_arr.arr[i] * e_arr.arr[i])))]
    c.ensures.append(post)
    eng.verify("SimpleGaussianError", "_calculate_cov_mat_generic", None, lambda e, st, me_: {"error_array": e_arr, "corr_coeff": rho}, contract=c)
    return eng


def callee_generic(eng):
    def generic_result(vw):
        e_, rho = vw.args["error_array"], vw.args["corr_coeff"].real()
        r = vw.eng.alloc(vw.post, "covmat", "CovMat")
        full = VMat(FnArr(lambda a: FnArr(lambda b: e_.arr[a] * e_.arr[b] * z3.If(a == b, z3.RealVal(1), rho))), e_.len, e_.len)
        vw.eng.write_field(vw.post, r, "_mat", full)
        unc = VMat(FnArr(lambda a: FnArr(lambda b: z3.If(a == b, e_.arr[a] * e_.arr[a] * (1 - rho), z3.RealVal(0)))), e_.len, e_.len)
        cor = VMat(FnArr(lambda a: FnArr(lambda b: e_.arr[a] * e_.arr[b] * rho)), e_.len, e_.len)
        return VTuple([r, unc, cor])
    g = mk(eng, "SimpleGaussianError", "_calculate_cov_mat_generic", result=generic_result)
    g.requires.append(lambda vw: z3.And(vw.args["corr_coeff"].real() >= 0, vw.args["corr_coeff"].real() <= 1))


def body(eng, name, kind, requires, ensures, init=None, tag=None, cls="SimpleGaussianError"):
    c = Contract(cls, name, kind)
    c.requires, c.ensures = list(requires), list(ensures)
    eng.verify(cls, name, kind, init, contract=c, tag=tag)


def u_source(root):
    eng = mk_engine(root)
    callee_generic(eng)
    # contracts used at call sites (bodies verified below)
    mk(eng, "SimpleGaussianError", "reference", "getter", result=lambda vw: ref_now(vw, vw.pre))
    g = mk(eng, "SimpleGaussianError", "error_rel", "getter", result=lambda vw: F(vw, vw.pre, "_err_rel"))
    g.requires.append(lambda vw: F(vw, vw.pre, "_is_relative").e)
    g = mk(eng, "SimpleGaussianError", "error", "getter", result=lambda vw: F(vw, vw.pre, "_err"))
    g.requires.append(lambda vw: z3.Not(F(vw, vw.pre, "_is_relative").e))

    # 1. reference getter
    def post_ref(vw):
        r, sp = vw.result, ref_now(vw, vw.pre)
        if isinstance(r, VSeq):
            return [("a callable reference is evaluated now", z3.And(z3.Not(sp.none), r.len == sp.len, z3.ForAll([i], r.arr[i] == sp.arr[i])))]
        return [("stored reference returned as is", z3.And((r.kind == 0) == sp.none, z3.Implies(r.kind == 1, z3.And(r.len == sp.len, z3.ForAll([i], r.arr[i] == sp.arr[i]))), r.kind != 2))]
    body(eng, "reference", "getter", [], [post_ref])

    # 2. _calculate_cov_mat / _calculate_cov_mat_rel establish the cache invariants
    def post_calc(vw):
        if vw.flow == "raise":
            return [("raises only for a relative source without reference", z3.And(F(vw, vw.pre, "_is_relative").e, ref_now(vw, vw.pre).none))]
        return [("cache filled", F(vw, vw.post, "_cov_mat").e != NULL), ("cached covariance = src_cov at the current reference", inv_src(vw, vw.post)), ("source otherwise unchanged", wf(vw, vw.post))]
    body(eng, "_calculate_cov_mat", None, [lambda vw: wf(vw, vw.pre)], [post_calc])
    body(eng, "_calculate_cov_mat_rel", None, [lambda vw: z3.And(wf(vw, vw.pre), F(vw, vw.pre, "_is_relative").e)],
         [lambda vw: [("relative cache filled with e_i e_j rho_ij of the relative sizes", z3.And(F(vw, vw.post, "_cov_mat_rel").e != NULL, inv_src_rel(vw, vw.post)))]])

    # 3. cov_mat getter under the cache invariant
    g = mk(eng, "SimpleGaussianError", "_calculate_cov_mat")
    g.requires += [lambda vw: wf(vw, vw.pre), lambda vw: no_ref_needed(vw, vw.pre)]
    g.modifies = [("_cov_mat", "ref", "")]
    g.ensures.append(lambda vw: [F(vw, vw.post, "_cov_mat").e != NULL, inv_src(vw, vw.post)])

    def post_cov(vw):
        n, r = nlen(vw, vw.pre), vw.result
        return [("shape", z3.And(r.rows == n, r.cols == n)), ("cov_mat = (sigma sigma^T) o rho with sigma at the CURRENT reference", z3.ForAll([i, j], z3.Implies(z3.And(0 <= i, i < n, 0 <= j, j < n), r.at(i, j) == spec(vw, vw.pre, i, j)))),
                ("cache invariant kept", inv_src(vw, vw.post))]
    body(eng, "cov_mat", "getter", [lambda vw: wf(vw, vw.pre), lambda vw: inv_src(vw, vw.pre), lambda vw: no_ref_needed(vw, vw.pre)], [post_cov])
    return eng


def u_source_setters(root):
    eng = mk_engine(root)
    newref = VSeq.fresh("new_reference")

    def caches(vw, st):
        return {f: F(vw, st, f) for f in ("_cov_mat", "_cov_mat_rel", "_err", "_err_rel")}

    # reference setter: stores the reference and invalidates exactly the caches of the OPPOSITE relativity
    for kind, init in (("array", lambda e, st, me_: {"reference": newref}), ("None", lambda e, st, me_: {"reference": VNone()}),
                       ("callable", lambda e, st, me_: {"reference": VCallRef(z3.IntVal(2), fresh("unused", arr(I, R)), z3.IntVal(0), z3.Const("owner_container", Ref))})):
        def post(vw, kind=kind):
            a, b = caches(vw, vw.pre), caches(vw, vw.post)
            rel = F(vw, vw.pre, "_is_relative").e
            r = F(vw, vw.post, "_reference")
            stored = {"array": z3.And(r.kind == 1, r.len == newref.len, z3.ForAll([i], r.arr[i] == newref.arr[i])), "None": r.kind == 0, "callable": z3.And(r.kind == 2, r.owner == z3.Const("owner_container", Ref))}[kind]
            return [("reference stored", stored),
                    ("relative source: absolute caches (covariance and pointwise) dropped", z3.Implies(rel, z3.And(b["_cov_mat"].e == NULL, b["_err"].none))),
                    ("relative source: relative specification kept", z3.Implies(rel, z3.And(b["_err_rel"].none == a["_err_rel"].none, b["_err_rel"].arr == a["_err_rel"].arr, z3.Or(b["_cov_mat_rel"].e == a["_cov_mat_rel"].e, b["_cov_mat_rel"].e == NULL)))),
                    ("absolute source: relative caches dropped", z3.Implies(z3.Not(rel), z3.And(b["_cov_mat_rel"].e == NULL, b["_err_rel"].none))),
                    ("absolute source: absolute specification kept", z3.Implies(z3.Not(rel), z3.And(b["_err"].none == a["_err"].none, b["_err"].arr == a["_err"].arr, z3.Or(b["_cov_mat"].e == a["_cov_mat"].e, b["_cov_mat"].e == NULL)))),
                    ("cache invariant holds afterwards (nothing stale can be served)", z3.Implies(rel, inv_src(vw, vw.post)))]
        body(eng, "reference", "setter", [lambda vw: wf(vw, vw.pre)], [post], init, tag=f"({kind})", cls="SimpleGaussianError")

    # error / error_rel setters: reject negative sizes, otherwise store and drop both covariance caches
    ev = VSeq.fresh("err_val")
    for name in ("error", "error_rel"):
        for rel in (False, True):
            if (name == "error") == rel:
                continue      # setting absolute sizes on a relative source (and vice versa) converts through the reference: covered natively
            def post(vw, name=name, rel=rel):
                neg = z3.Exists([i], z3.And(0 <= i, i < ev.len, ev.arr[i] < 0))
                if vw.flow == "raise":
                    same = z3.And(*[z3.And(F(vw, vw.post, f).arr == F(vw, vw.pre, f).arr, F(vw, vw.post, f).none == F(vw, vw.pre, f).none) for f in ("_err", "_err_rel")], F(vw, vw.post, "_cov_mat").e == F(vw, vw.pre, "_cov_mat").e)
                    return [("raises only for a negative size", neg), ("rejected call changes nothing", same)]
                fld = F(vw, vw.post, "_err_rel" if rel else "_err")
                return [("accepted only if all sizes are >= 0", z3.Not(neg)), ("sizes stored", z3.And(z3.Not(fld.none), fld.len == ev.len, z3.ForAll([i], z3.Implies(z3.And(0 <= i, i < ev.len), fld.arr[i] == ev.arr[i])))),
                        ("both covariance caches dropped", z3.And(F(vw, vw.post, "_cov_mat").e == NULL, F(vw, vw.post, "_cov_mat_rel").e == NULL))]
            body(eng, name, "setter", [lambda vw, rel=rel: z3.And(F(vw, vw.pre, "_is_relative").e == rel, ev.len >= 0)], [post], lambda e, st, me_: {"err_val": ev}, tag=f"(relative={rel})")
    return eng


def u_source_error_getters(root):
    eng = mk_engine(root)
    mk(eng, "SimpleGaussianError", "reference", "getter", result=lambda vw: ref_now(vw, vw.pre))

    def post_err(vw):
        if vw.flow == "raise":
            return [("raises only for a relative source without reference", z3.And(F(vw, vw.pre, "_is_relative").e, ref_now(vw, vw.pre).none))]
        r, n = vw.result, nlen(vw, vw.pre)
        rel = F(vw, vw.pre, "_is_relative").e
        rf = ref_now(vw, vw.pre)
        absv = lambda t: z3.If(t >= 0, t, -t)
        return [("pointwise absolute size = relative size x |current reference| (or the stored absolute size)",
                 z3.ForAll([i], z3.Implies(z3.And(0 <= i, i < n), r.arr[i] == z3.If(rel, F(vw, vw.pre, "_err_rel").arr[i] * absv(rf.arr[i]), F(vw, vw.pre, "_err").arr[i]))))]
    body(eng, "error", "getter", [lambda vw: wf(vw, vw.pre)], [post_err])
    return eng



# ------------------------------------------------------------------ containers
Mat2 = arr(I, I, R)
srccov = z3.Function("src_cov_now", Ref, Mat2)     # spec: covariance of a source at its CURRENT reference (Inv_src makes the cov_mat getter return it)
psum = z3.Function("enabled_prefix_sum", I, Mat2)   # sum over the first m entries that are enabled
a_, b_ = z3.Ints("a b")


def container_engine(root):
    ES, ESlen = H("_error_dicts", "namemap")[me], H("_error_dicts", "namemap", "len")[me]
    EN, ERR = H("enabled", "bool"), H("err", "ref")
    n = H("_data", "seq", "len")[me]
    eng = mk_engine(root)
    eng.axioms += [n >= 0, ESlen >= 0, z3.ForAll([a_, b_], psum(0)[a_][b_] == 0)]
    eng.recdefs = {"enabled_prefix_sum": (0, lambda e, u: z3.Implies(u >= 0, z3.ForAll([a_, b_], psum(u + 1)[a_][b_] == psum(u)[a_][b_] + z3.If(EN[ES[u]], srccov(ERR[ES[u]])[a_][b_], z3.RealVal(0)))))}
    mk(eng, "GaussianErrorBase", "cov_mat", "getter", result=lambda vw: VMat(srccov(vw.self.e), n, n))      # proved for SimpleGaussianError in unit 'caches'
    inline(eng, "IndexedContainer", "size", "data")

    def ctor_MGE(e, st, args, kw, node):
        r = e.alloc(st, "total", "MatrixGaussianError")
        if not (isinstance(args[1], VStr) and args[1].s == "cov" and isinstance(kw.get("relative"), VBool)):
            raise Unsupported("MatrixGaussianError constructed in an unexpected form")
        e.oblige("total error object is absolute", st, z3.Not(kw["relative"].e))
        e.write_field(st, r, "#cov_abs", args[0])      # contract of MatrixGaussianError.__init__(m, 'cov', relative=False): absolute covariance = m
        return r
    eng.lib["class:MatrixGaussianError"] = ctor_MGE
    return eng, ES, ESlen, n


def u_total(root):
    eng, ES, ESlen, n = container_engine(root)
    c = Contract("IndexedContainer", "_calculate_total_error")

    def inv(e, s):
        T, k = s.locals["_tmp_cov_mat"], s.locals["#i0"].e
        return z3.And(0 <= k, k <= ESlen, T.rows == n, T.cols == n, z3.ForAll([a_, b_], T.at(a_, b_) == psum(k)[a_][b_]))
    c.loops[0] = inv

    def post(vw):
        tot = F(vw, vw.post, "_total_error")
        M = vw.f(vw.post, tot, "#cov_abs")
        return [("cache filled", tot.e != NULL), ("shape", z3.And(M.rows == n, M.cols == n)),
                ("total covariance = sum over ENABLED sources of their covariance at the current reference; disabled sources contribute nothing", z3.ForAll([a_, b_], M.at(a_, b_) == psum(ESlen)[a_][b_]))]
    c.ensures.append(post)
    eng.verify("IndexedContainer", "_calculate_total_error", contract=c)
    # get_total_error: cached or recomputed
    cc = mk(eng, "IndexedContainer", "_calculate_total_error")
    cc.modifies = [("_total_error", "ref", "")]
    cc.ensures.append(lambda vw: [F(vw, vw.post, "_total_error").e != NULL] + [g for _, g in post(vw)[1:]])
    inv_tot = lambda vw, st: z3.Or(F(vw, st, "_total_error").e == NULL, z3.ForAll([a_, b_], vw.f(st, F(vw, st, "_total_error"), "#cov_abs").at(a_, b_) == psum(ESlen)[a_][b_]))
    g = Contract("IndexedContainer", "get_total_error")
    g.requires.append(lambda vw: inv_tot(vw, vw.pre))
    g.ensures.append(lambda vw: [("returns an object whose covariance is the sum over enabled sources (cached or freshly computed)", z3.And(vw.result.e != NULL, z3.ForAll([a_, b_], vw.f(vw.post, vw.result, "#cov_abs").at(a_, b_) == psum(ESlen)[a_][b_]))),
                                 ("cache invariant kept", inv_tot(vw, vw.post))])
    eng.verify("IndexedContainer", "get_total_error", contract=g)
    return eng


def u_mutators(root):
    eng, ES, ESlen, n = container_engine(root)
    eng.callbacks = []
    nm = VName(z3.Const("error_name", Name))

    def entries_same(vw, except_entry=None):
        a, b = vw.pre, vw.post
        return z3.And(b.h("_error_dicts", "namemap") == a.h("_error_dicts", "namemap"), b.h("_error_dicts", "namemap", "len") == a.h("_error_dicts", "namemap", "len"), b.h("err", "ref") == a.h("err", "ref"))
    for name, val in (("disable_error", False), ("enable_error", True)):
        c = Contract("IndexedContainer", name)

        def init(e, st, me_):
            e.write_field(st, me_, "_on_error_change_callback", VNone())
            return {"error_name": nm}

        def post(vw, val=val):
            m_ = F(vw, vw.pre, "_error_dicts")
            known = m_.has(nm.e)
            if vw.flow == "raise":
                return [("raises only for an unknown source name", z3.Not(known)), ("rejected call changes nothing", z3.And(entries_same(vw), vw.post.h("enabled", "bool") == vw.pre.h("enabled", "bool"), F(vw, vw.post, "_total_error").e == F(vw, vw.pre, "_total_error").e))]
            q = z3.Int("q")
            EN0, EN1 = vw.pre.h("enabled", "bool"), vw.post.h("enabled", "bool")
            return [("accepted only for a known name", known), ("cached total dropped (recomputed on next read)", F(vw, vw.post, "_total_error").e == NULL), ("sources and their order untouched", entries_same(vw)),
                    ("exactly the named source's flag is set", z3.ForAll([q], z3.Implies(z3.And(0 <= q, q < m_.len), EN1[m_.arr[q]] == z3.If(m_.names[q] == nm.e, z3.BoolVal(val), EN0[m_.arr[q]]))))]
        c.ensures.append(post)
        c.requires.append(lambda vw: z3.ForAll([a_, b_], z3.Implies(z3.And(0 <= a_, a_ < b_, b_ < ESlen), z3.And(H("_error_dicts", "namemap", "names")[me][a_] != H("_error_dicts", "namemap", "names")[me][b_], ES[a_] != ES[b_]))))
        c.requires.append(lambda vw: z3.ForAll([a_], z3.Implies(z3.And(0 <= a_, a_ < ESlen), ES[a_] != NULL)))
        eng.verify("IndexedContainer", name, None, init, contract=c)

    # data setter: every source is re-pointed (its reference setter drops the caches of the opposite relativity) and the total is dropped
    newd = VSeq.fresh("data")
    rs = mk(eng, "GaussianErrorBase", "reference", "setter")
    rs.modifies = [("_reference", "callref", "kind"), ("_reference", "callref", ""), ("_reference", "callref", "len"), ("_cov_mat", "ref", ""), ("_cov_mat_rel", "ref", ""), ("_err", "optseq", "none"), ("_err_rel", "optseq", "none")]

    def rs_ens(vw):
        rel = vw.f(vw.pre, vw.self, "_is_relative").e
        r, x = vw.f(vw.post, vw.self, "_reference"), vw.args["reference"]
        return [r.kind == 1, r.len == x.len, z3.ForAll([a_], r.arr[a_] == x.arr[a_]),
                z3.Implies(rel, z3.And(vw.f(vw.post, vw.self, "_cov_mat").e == NULL, vw.f(vw.post, vw.self, "_err").none, vw.f(vw.post, vw.self, "_err_rel").none == vw.f(vw.pre, vw.self, "_err_rel").none)),
                z3.Implies(z3.Not(rel), z3.And(vw.f(vw.post, vw.self, "_cov_mat_rel").e == NULL, vw.f(vw.post, vw.self, "_err_rel").none, vw.f(vw.post, vw.self, "_err").none == vw.f(vw.pre, vw.self, "_err").none, vw.f(vw.post, vw.self, "_cov_mat").e == vw.f(vw.pre, vw.self, "_cov_mat").e))]
    rs.ensures.append(rs_ens)
    c = Contract("IndexedContainer", "data", "setter")
    c.requires.append(lambda vw: z3.And(newd.len == n, z3.ForAll([a_, b_], z3.Implies(z3.And(0 <= a_, a_ < b_, b_ < ESlen), vw.pre.h("err", "ref")[ES[a_]] != vw.pre.h("err", "ref")[ES[b_]]))))
    eng.lib["np.squeeze"] = lambda e, st, a, kw, node: a[0]
    ERR = H("err", "ref")

    def inv(e, s):
        k = s.locals["#i0"].e
        D = e.read_field(s, s.locals["self"], "_data")
        RK, RA, RL = s.h("_reference", "callref", "kind"), s.h("_reference", "callref", ""), s.h("_reference", "callref", "len")
        CM, ISREL = s.h("_cov_mat", "ref"), H("_is_relative", "bool")
        return z3.And(0 <= k, k <= ESlen, D.len == n, z3.ForAll([a_], z3.Implies(z3.And(0 <= a_, a_ < n), D.arr[a_] == newd.arr[a_])),
                      s.h("_error_dicts", "namemap") == H("_error_dicts", "namemap"), s.h("err", "ref") == ERR, s.h("_is_relative", "bool") == ISREL,
                      z3.ForAll([b_], z3.Implies(z3.And(0 <= b_, b_ < k), z3.And(RK[ERR[ES[b_]]] == 1, RL[ERR[ES[b_]]] == n, z3.ForAll([a_], z3.Implies(z3.And(0 <= a_, a_ < n), RA[ERR[ES[b_]]][a_] == newd.arr[a_])),
                                                                                 z3.Implies(ISREL[ERR[ES[b_]]], CM[ERR[ES[b_]]] == NULL)))))
    c.loops[0] = inv
    eng.loop_fields = True

    def post(vw):
        if vw.flow == "raise":
            return [("raises only for more-than-one-dimensional input", z3.BoolVal(False))]
        s = vw.post
        D = F(vw, s, "_data")
        RK, RA, RL = s.h("_reference", "callref", "kind"), s.h("_reference", "callref", ""), s.h("_reference", "callref", "len")
        CM, ISREL = s.h("_cov_mat", "ref"), H("_is_relative", "bool")
        return [("values stored", z3.And(D.len == n, z3.ForAll([a_], z3.Implies(z3.And(0 <= a_, a_ < n), D.arr[a_] == newd.arr[a_])))),
                ("cached total dropped", F(vw, s, "_total_error").e == NULL),
                ("EVERY source now refers to the new values, and every relative source's cached absolute covariance is dropped",
                 z3.ForAll([b_], z3.Implies(z3.And(0 <= b_, b_ < ESlen), z3.And(RK[ERR[ES[b_]]] == 1, z3.ForAll([a_], z3.Implies(z3.And(0 <= a_, a_ < n), RA[ERR[ES[b_]]][a_] == newd.arr[a_])), z3.Implies(ISREL[ERR[ES[b_]]], CM[ERR[ES[b_]]] == NULL)))))]
    c.ensures.append(post)
    eng.verify("IndexedContainer", "data", "setter", lambda e, st, me_: {"data": newd}, contract=c)
    return eng


# ------------------------------------------------------------------ histogram container / parametric models: invalidation on value change
def u_hist_invalidation(root):
    eng = mk_engine(root, owner_cls="HistContainer")
    errlib.c_reference_setter(eng)
    ES, ESlen = H("_error_dicts", "namemap")[me], H("_error_dicts", "namemap", "len")[me]
    # fill
    x = VSeq.fresh("entries")
    x.ndim = z3.IntVal(1)
    c = Contract("HistContainer", "fill")
    c.requires.append(lambda vw: z3.And(ESlen >= 0, x.len >= 0, z3.Not(F(vw, vw.pre, "_manual_heights").e), errlib.distinct_sources(vw.pre, ES, ESlen)))
    c.loops[0] = lambda e, s: z3.And(0 <= s.locals["#i0"].e, s.locals["#i0"].e <= ESlen, s.h("_error_dicts", "namemap") == H("_error_dicts", "namemap"), s.h("err", "ref") == H("err", "ref"),
                                     s.h("_is_relative", "bool") == H("_is_relative", "bool"), errlib.repointed(s, ES, ESlen, me, upto=s.locals["#i0"].e))
    c.ensures.append(lambda vw: [("the contents change: cached total uncertainty dropped", F(vw, vw.post, "_total_error").e == NULL),
                                 ("EVERY source is re-pointed to the container's (lazily binned) contents and every relative source's cached absolute covariance and pointwise sizes are dropped", errlib.repointed(vw.post, ES, ESlen, me))])
    eng.verify("HistContainer", "fill", None, lambda e, st, me_: {"entries": x}, contract=c)
    # rebin / set_bins: the other two ways the bin contents change (property quantifier: "histogram fill/rebin") carry the same obligation
    edges = VSeq.fresh("new_bin_edges")
    edges.ndim = z3.IntVal(1)
    heights = VSeq.fresh("bin_heights")
    heights.ndim = z3.IntVal(1)
    for meth, args in (("rebin", {"new_bin_edges": edges}), ("set_bins", {"bin_heights": heights})):
        c = Contract("HistContainer", meth)
        c.requires.append(lambda vw: z3.And(ESlen >= 0, edges.len >= 2, heights.len >= 0, errlib.distinct_sources(vw.pre, ES, ESlen)))
        c.loops[0] = lambda e, s: z3.And(0 <= s.locals["#i0"].e, s.locals["#i0"].e <= ESlen, s.h("_error_dicts", "namemap") == H("_error_dicts", "namemap"), s.h("err", "ref") == H("err", "ref"),
                                         s.h("_is_relative", "bool") == H("_is_relative", "bool"), errlib.repointed(s, ES, ESlen, me, upto=s.locals["#i0"].e))

        def post(vw, meth=meth):
            if vw.flow == "raise":
                return [("a rejected call leaves the cached total and the sources as they were", z3.And(F(vw, vw.post, "_total_error").e == F(vw, vw.pre, "_total_error").e, vw.post.h("_reference", "callref", "kind") == vw.pre.h("_reference", "callref", "kind"),
                                                                                                        vw.post.h("_cov_mat", "ref") == vw.pre.h("_cov_mat", "ref")))]
            return [("the contents change: cached total uncertainty dropped", F(vw, vw.post, "_total_error").e == NULL),
                    ("EVERY source is re-pointed to the container's new contents and every relative source's cached absolute covariance and pointwise sizes are dropped", errlib.repointed(vw.post, ES, ESlen, me))]
        c.ensures.append(post)
        eng.verify("HistContainer", meth, None, lambda e, st, me_, args=args: dict(args), contract=c)
    return eng


def u_hist_reference(root):
    """HistContainer._get_error_reference: outstanding entries are binned before the contents are used as reference"""
    from . import c12
    eng2 = c12.mk_engine(root)
    c12.callee_fill_unprocessed(eng2)
    g = Contract("HistContainer", "_get_error_reference")
    g.requires += [lambda vw: c12.inv_H(vw, vw.pre), lambda vw: z3.Not(c12.MH0)]
    k = z3.Int("k")
    g.ensures.append(lambda vw: [("reference values = bin contents of ALL filled entries (outstanding ones are binned first)",
                                  z3.And(vw.result.len == c12.n, z3.ForAll([k], z3.Implies(z3.And(0 <= k, k < c12.n), vw.result.arr[k] == c12.cntb(c12.P0, c12.P0len, k + 1) + c12.cntb(c12.U0, c12.U0len, k + 1)))))])
    eng2.verify("HistContainer", "_get_error_reference", contract=g)
    return eng2


def u_model_recalc(root):
    """parametric models: uncertainties relative to the model are summed only AFTER the model values were recomputed for the current parameters"""
    eng = mk_engine(root, owner_cls="IndexedContainer")
    SCH = eng.schema
    SCH["IndexedParametricModel"] = {"_pm_calculation_stale": BOOL}
    log = []
    rc = mk(eng, "IndexedParametricModel", "_recalculate")
    rc.modifies = [("_pm_calculation_stale", "bool", ""), ("_data", "seq", ""), ("_total_error", "ref", "")]
    rc.ensures.append(lambda vw: [z3.Not(F(vw, vw.post, "_pm_calculation_stale").e)])
    base = mk(eng, "IndexedContainer", "_calculate_total_error")
    base.requires.append(lambda vw: z3.Not(F(vw, vw.pre, "_pm_calculation_stale").e))       # the container-level sum must see current model values
    base.modifies = [("_total_error", "ref", "")]
    base.ensures.append(lambda vw: [F(vw, vw.post, "_total_error").e != NULL])
    c = Contract("IndexedParametricModel", "_calculate_total_error")
    c.ensures.append(lambda vw: [("model values are current when the sources are summed", z3.Not(F(vw, vw.post, "_pm_calculation_stale").e)), ("total computed", F(vw, vw.post, "_total_error").e != NULL)])
    eng.verify("IndexedParametricModel", "_calculate_total_error", contract=c)
    # parameters setter: stale flag + cached total dropped (shared by all three parametric models)
    newp = VSeq.fresh("parameters")
    SCH["IndexedParametricModel"]["_model_parameters"] = SEQ
    inline(eng, "IndexedContainer", "_clear_total_error_cache", kind=None)
    ps = Contract("ParametricModelBaseMixin", "parameters", "setter")
    ps.ensures.append(lambda vw: [("model values marked stale", F(vw, vw.post, "_pm_calculation_stale").e), ("cached total uncertainty dropped", F(vw, vw.post, "_total_error").e == NULL)])
    eng.verify("IndexedParametricModel", "parameters", "setter", lambda e, st, me_: {"parameters": newp}, contract=ps)
    return eng


def u_hist_model_recalc(root):
    eng = mk_engine(root, owner_cls="HistParametricModel")
    errlib.c_reference_setter(eng)
    eng.schema["HistParametricModel"] = {"_pm_calculation_stale": BOOL, "_bin_evaluation_method": PYOBJ, "_data": SEQ, "_error_dicts": NAMEMAP("ErrEntry")}
    ES, ESlen = H("_error_dicts", "namemap")[me], H("_error_dicts", "namemap", "len")[me]
    newvals = VSeq.fresh("bin_contents")
    mk(eng, "HistParametricModel", "_bin_evaluation_simpson", result=lambda vw: newvals)
    c = Contract("HistParametricModel", "_recalculate")
    c.requires.append(lambda vw: z3.And(ESlen >= 0, newvals.len + 2 == F(vw, vw.pre, "_data").len, newvals.len >= 0, errlib.distinct_sources(vw.pre, ES, ESlen)))
    c.loops[0] = lambda e, s: z3.And(0 <= s.locals["#i0"].e, s.locals["#i0"].e <= ESlen, s.h("_error_dicts", "namemap") == H("_error_dicts", "namemap"), s.h("err", "ref") == H("err", "ref"),
                                     s.h("_is_relative", "bool") == H("_is_relative", "bool"), errlib.repointed(s, ES, ESlen, me, upto=s.locals["#i0"].e))
    c.ensures.append(lambda vw: [("EVERY source is re-pointed to the recomputed bin contents (stale cached covariances of model-relative sources dropped)", errlib.repointed(vw.post, ES, ESlen, me))])

    def init(e, st, me_):
        e.write_field(st, me_, "_bin_evaluation_method", VBound(me_, "_bin_evaluation_simpson"))
        return {}
    eng.verify("HistParametricModel", "_recalculate", None, init, contract=c)
    return eng


# ------------------------------------------------------------------ XY container: axis routing and setters
def u_xy(root):
    eng = mk_engine(root, owner_cls="XYContainer")
    ES, ESlen = H("_error_dicts", "namemap")[me], H("_error_dicts", "namemap", "len")[me]
    EN, ERR, AX = H("enabled", "bool"), H("err", "ref"), H("axis", "int")
    n = H("_data", "mat", "cols")[me]
    psx, psy = z3.Function("enabled_prefix_sum_x", I, Mat2), z3.Function("enabled_prefix_sum_y", I, Mat2)
    eng.axioms += [n >= 0, ESlen >= 0, H("_data", "mat", "rows")[me] == 2, z3.ForAll([a_, b_], z3.And(psx(0)[a_][b_] == 0, psy(0)[a_][b_] == 0))]
    step = lambda ps, ax: (lambda e, u: z3.Implies(u >= 0, z3.ForAll([a_, b_], ps(u + 1)[a_][b_] == ps(u)[a_][b_] + z3.If(z3.And(EN[ES[u]], AX[ES[u]] == ax), srccov(ERR[ES[u]])[a_][b_], z3.RealVal(0)))))
    eng.recdefs = {"enabled_prefix_sum_x": (0, step(psx, 0)), "enabled_prefix_sum_y": (0, step(psy, 1))}
    mk(eng, "GaussianErrorBase", "cov_mat", "getter", result=lambda vw: VMat(srccov(vw.self.e), n, n))
    inline(eng, "XYContainer", "size", "x", "y")
    inline(eng, "XYContainer", "_get_data_for_axis", kind=None)
    totals = []

    def ctor_MGE(e, st, args, kw, node):
        r = e.alloc(st, "total", "MatrixGaussianError")
        e.write_field(st, r, "#cov_abs", args[0])
        return r
    eng.lib["class:MatrixGaussianError"] = ctor_MGE
    eng.lib["np.array"] = lambda e, st, a, kw, node: a[0]
    c = Contract("XYContainer", "_calculate_total_error")
    c.requires.append(lambda vw: z3.ForAll([a_], z3.Implies(z3.And(0 <= a_, a_ < ESlen), z3.Or(AX[ES[a_]] == 0, AX[ES[a_]] == 1))))

    def inv(e, s):
        k = s.locals["#i0"].e
        X, Y = s.locals["_tmp_cov_mat_x"], s.locals["_tmp_cov_mat_y"]
        return z3.And(0 <= k, k <= ESlen, X.rows == n, X.cols == n, Y.rows == n, Y.cols == n, z3.ForAll([a_, b_], z3.And(X.at(a_, b_) == psx(k)[a_][b_], Y.at(a_, b_) == psy(k)[a_][b_])))
    c.loops[0] = inv

    def post(vw):
        if vw.flow == "raise":
            return [("the axis assertion never fires for entries with axis 0 or 1", z3.BoolVal(False))]
        tot = F(vw, vw.post, "_total_error")
        Mx = vw.f(vw.post, VRef(z3.simplify(tot.arr[0]), "MatrixGaussianError"), "#cov_abs")
        My = vw.f(vw.post, VRef(z3.simplify(tot.arr[1]), "MatrixGaussianError"), "#cov_abs")
        return [("cache filled with [x total, y total]", z3.And(z3.Not(tot.none), tot.len == 2)),
                ("x total = sum over enabled x-axis sources only", z3.ForAll([a_, b_], Mx.at(a_, b_) == psx(ESlen)[a_][b_])),
                ("y total = sum over enabled y-axis sources only", z3.ForAll([a_, b_], My.at(a_, b_) == psy(ESlen)[a_][b_]))]
    c.ensures.append(post)
    eng.verify("XYContainer", "_calculate_total_error", contract=c)
    return eng

def u_xy_setters(root):
    """XYContainer.x / .y setters: EVERY source of that axis - enabled or not - is re-pointed to the new values (a source that is enabled later must not
    keep the old reference), sources of the other axis are left alone, the cached totals are dropped"""
    eng = mk_engine(root, owner_cls="XYContainer")
    errlib.c_reference_setter(eng)
    ES, ESlen = H("_error_dicts", "namemap")[me], H("_error_dicts", "namemap", "len")[me]
    ERR, AX = H("err", "ref"), H("axis", "int")
    n = H("_data", "mat", "cols")[me]
    inline(eng, "XYContainer", "_get_data_for_axis", kind=None)
    eng.lib["np.array"] = eng.lib["np.squeeze"] = lambda e, st, a, kw, node: a[0]
    newv = VSeq.fresh("new_values")
    for name, ax in (("x", 0), ("y", 1)):
        c = Contract("XYContainer", name, "setter")
        c.requires.append(lambda vw: z3.And(newv.len == n, n >= 0, ESlen >= 0, H("_data", "mat", "rows")[me] == 2, errlib.distinct_sources(vw.pre, ES, ESlen)))

        def repointed_upto(s, k, ax=ax):
            RK, RA, RL = s.h("_reference", "callref", "kind"), s.h("_reference", "callref", ""), s.h("_reference", "callref", "len")
            CM, ISREL = s.h("_cov_mat", "ref"), H("_is_relative", "bool")
            RK0, RA0 = H("_reference", "callref", "kind"), H("_reference", "callref", "")
            return z3.ForAll([b_], z3.Implies(z3.And(0 <= b_, b_ < k), z3.If(AX[ES[b_]] == ax,
                             z3.And(RK[ERR[ES[b_]]] == 1, RL[ERR[ES[b_]]] == n, z3.ForAll([a_], z3.Implies(z3.And(0 <= a_, a_ < n), RA[ERR[ES[b_]]][a_] == newv.arr[a_])), z3.Implies(ISREL[ERR[ES[b_]]], CM[ERR[ES[b_]]] == NULL)),
                             z3.And(RK[ERR[ES[b_]]] == RK0[ERR[ES[b_]]], RA[ERR[ES[b_]]] == RA0[ERR[ES[b_]]], CM[ERR[ES[b_]]] == H("_cov_mat", "ref")[ERR[ES[b_]]]))))

        def inv(e, s, ax=ax):
            k = s.locals["#i0"].e
            D = e.read_field(s, s.locals["self"], "_data")
            RK0, RA0 = H("_reference", "callref", "kind"), H("_reference", "callref", "")
            RK, RA, CM = s.h("_reference", "callref", "kind"), s.h("_reference", "callref", ""), s.h("_cov_mat", "ref")
            return z3.And(0 <= k, k <= ESlen, D.rows == 2, D.cols == n, z3.ForAll([a_], z3.Implies(z3.And(0 <= a_, a_ < n), D.at(ax, a_) == newv.arr[a_])),
                          s.h("_error_dicts", "namemap") == H("_error_dicts", "namemap"), s.h("err", "ref") == ERR, s.h("axis", "int") == AX, s.h("_is_relative", "bool") == H("_is_relative", "bool"), s.h("enabled", "bool") == H("enabled", "bool"),
                          repointed_upto(s, k),
                          z3.ForAll([b_], z3.Implies(z3.And(k <= b_, b_ < ESlen), z3.And(RK[ERR[ES[b_]]] == RK0[ERR[ES[b_]]], RA[ERR[ES[b_]]] == RA0[ERR[ES[b_]]], CM[ERR[ES[b_]]] == H("_cov_mat", "ref")[ERR[ES[b_]]]))))
        c.loops[0] = inv
        eng.loop_fields = True

        def post(vw, ax=ax, repointed_upto=repointed_upto):
            if vw.flow == "raise":
                return [("raises only for more-than-one-dimensional input", z3.BoolVal(False))]
            s = vw.post
            D = F(vw, s, "_data")
            return [("the new values are stored in that row", z3.ForAll([a_], z3.Implies(z3.And(0 <= a_, a_ < n), D.at(ax, a_) == newv.arr[a_]))), ("cached totals dropped", F(vw, s, "_total_error").none),
                    ("EVERY source of this axis, enabled or not, refers to the new values (relative ones drop their cached absolute covariance); sources of the other axis are untouched", repointed_upto(s, ESlen))]
        c.ensures.append(post)
        eng.verify("XYContainer", name, "setter", lambda e, st, me_, name=name: {"new_" + name: newv}, contract=c)
    # XYContainer.data setter (whole-data assignment): every source is re-pointed to the row of ITS OWN axis
    newd = VMat(z3.Const("new_data", arr(I, arr(I, R))), z3.IntVal(2), z3.Int("new_data_cols"))
    nd = newd.cols
    c = Contract("XYContainer", "data", "setter")
    c.requires.append(lambda vw: z3.And(nd >= 0, nd != 2, ESlen >= 0, errlib.distinct_sources(vw.pre, ES, ESlen), z3.ForAll([b_], z3.Implies(z3.And(0 <= b_, b_ < ESlen), z3.Or(AX[ES[b_]] == 0, AX[ES[b_]] == 1)))))

    def d_upto(s, k):
        RK, RA, RL = s.h("_reference", "callref", "kind"), s.h("_reference", "callref", ""), s.h("_reference", "callref", "len")
        CM, ISREL = s.h("_cov_mat", "ref"), H("_is_relative", "bool")
        return z3.ForAll([b_], z3.Implies(z3.And(0 <= b_, b_ < k), z3.And(RK[ERR[ES[b_]]] == 1, RL[ERR[ES[b_]]] == nd,
                         z3.ForAll([a_], z3.Implies(z3.And(0 <= a_, a_ < nd), RA[ERR[ES[b_]]][a_] == z3.If(AX[ES[b_]] == 0, newd.at(0, a_), newd.at(1, a_)))), z3.Implies(ISREL[ERR[ES[b_]]], CM[ERR[ES[b_]]] == NULL))))

    def d_inv(e, s):
        k = s.locals["#i0"].e
        D = e.read_field(s, s.locals["self"], "_data")
        return z3.And(0 <= k, k <= ESlen, D.rows == 2, D.cols == nd, z3.ForAll([a_], z3.Implies(z3.And(0 <= a_, a_ < nd), z3.And(D.at(0, a_) == newd.at(0, a_), D.at(1, a_) == newd.at(1, a_)))),
                      s.h("_error_dicts", "namemap") == H("_error_dicts", "namemap"), s.h("err", "ref") == ERR, s.h("axis", "int") == AX, s.h("_is_relative", "bool") == H("_is_relative", "bool"), s.h("enabled", "bool") == H("enabled", "bool"),
                      d_upto(s, k))
    c.loops[0] = d_inv

    def d_post(vw):
        if vw.flow == "raise":
            return [("a 2 x N array is accepted", z3.BoolVal(False))]
        s = vw.post
        return [("cached totals dropped", F(vw, s, "_total_error").none),
                ("EVERY source, enabled or not, refers to the new values of ITS OWN axis (x sources to the x row, y sources to the y row); relative ones drop their cached absolute covariance", d_upto(s, ESlen))]
    c.ensures.append(d_post)
    eng.verify("XYContainer", "data", "setter", lambda e, st, me_: {"new_data": newd}, contract=c)
    # XYParametricModel.x setter: a NEW data array (possibly of another length) - the x sources must follow it as they do in the container
    eng.schema["XYParametricModel"] = {"_pm_calculation_stale": BOOL}
    newx = VSeq.fresh("new_support")
    m = newx.len
    c = Contract("XYParametricModel", "x", "setter")
    c.requires.append(lambda vw: z3.And(m >= 0, ESlen >= 0, errlib.distinct_sources(vw.pre, ES, ESlen)))

    def px_upto(s, k):
        RK, RA, RL = s.h("_reference", "callref", "kind"), s.h("_reference", "callref", ""), s.h("_reference", "callref", "len")
        CM, ISREL = s.h("_cov_mat", "ref"), H("_is_relative", "bool")
        RK0, RA0 = H("_reference", "callref", "kind"), H("_reference", "callref", "")
        return z3.ForAll([b_], z3.Implies(z3.And(0 <= b_, b_ < k), z3.If(AX[ES[b_]] == 0,
                         z3.And(RK[ERR[ES[b_]]] == 1, RL[ERR[ES[b_]]] == m, z3.ForAll([a_], z3.Implies(z3.And(0 <= a_, a_ < m), RA[ERR[ES[b_]]][a_] == newx.arr[a_])), z3.Implies(ISREL[ERR[ES[b_]]], CM[ERR[ES[b_]]] == NULL)),
                         z3.And(RK[ERR[ES[b_]]] == RK0[ERR[ES[b_]]], RA[ERR[ES[b_]]] == RA0[ERR[ES[b_]]], CM[ERR[ES[b_]]] == H("_cov_mat", "ref")[ERR[ES[b_]]]))))

    def px_inv(e, s):
        k = s.locals["#i0"].e
        D = e.read_field(s, s.locals["self"], "_data")
        RK0, RA0 = H("_reference", "callref", "kind"), H("_reference", "callref", "")
        RK, RA, CM = s.h("_reference", "callref", "kind"), s.h("_reference", "callref", ""), s.h("_cov_mat", "ref")
        return z3.And(0 <= k, k <= ESlen, D.rows == 2, D.cols == m, z3.ForAll([a_], z3.Implies(z3.And(0 <= a_, a_ < m), D.at(0, a_) == newx.arr[a_])),
                      s.h("_error_dicts", "namemap") == H("_error_dicts", "namemap"), s.h("err", "ref") == ERR, s.h("axis", "int") == AX, s.h("_is_relative", "bool") == H("_is_relative", "bool"), s.h("enabled", "bool") == H("enabled", "bool"),
                      px_upto(s, k),
                      z3.ForAll([b_], z3.Implies(z3.And(k <= b_, b_ < ESlen), z3.And(RK[ERR[ES[b_]]] == RK0[ERR[ES[b_]]], RA[ERR[ES[b_]]] == RA0[ERR[ES[b_]]], CM[ERR[ES[b_]]] == H("_cov_mat", "ref")[ERR[ES[b_]]]))))
    c.loops[0] = px_inv

    def px_post(vw):
        s = vw.post
        D = F(vw, s, "_data")
        return [("the new support values are the x row of a fresh 2 x len array", z3.And(D.rows == 2, D.cols == m, z3.ForAll([a_], z3.Implies(z3.And(0 <= a_, a_ < m), D.at(0, a_) == newx.arr[a_])))),
                ("model values marked stale", F(vw, s, "_pm_calculation_stale").e), ("cached totals dropped", F(vw, s, "_total_error").none),
                ("EVERY x source, enabled or not, refers to the new support values (relative ones drop their cached absolute covariance); y sources are re-pointed when the model values are recomputed", px_upto(s, ESlen))]
    c.ensures.append(px_post)
    eng.verify("XYParametricModel", "x", "setter", lambda e, st, me_: {"new_x": newx}, contract=c)
    return eng


def u_reference_binding(root):
    """add_error / add_matrix_error of the containers: the reference handed to the new source is a BOUND METHOD of this container (possibly with the axis
    pre-applied), never a closure over it - copy.deepcopy re-binds bound methods (and functools.partial objects of them) to the copy, while a lambda is copied
    as the same function object and keeps reading the ORIGINAL container (XYFit, IndexedFit, HistFit and MultiFit keep deep copies of the containers they are given)"""
    import ast as _ast
    eng = engine(root, FILES, {"IndexedContainer": {"_data": SEQ}, "XYContainer": {"_data": MAT}, "HistContainer": {"_data": SEQ}}, [])

    def ctor(cls):
        def f(e, st, a, kw, node):
            st.ghost["handed"] = st.ghost.get("handed", ()) + ((cls, kw.get("reference")),)
            return e.alloc(st, "source", cls)
        return f
    eng.lib["class:SimpleGaussianError"] = ctor("SimpleGaussianError")
    eng.lib["class:MatrixGaussianError"] = ctor("MatrixGaussianError")
    eng.lib["np.asarray"] = eng.lib["np.array"] = lambda e, st, a, kw, n: a[0]
    eng.lib["np.ones"] = lambda e, st, a, kw, n: VSeq(FnArr(lambda k_: z3.RealVal(1)), a[0].e)
    mk(eng, "DataContainerBase", "_add_error_object", result=lambda vw: VStr("name"))
    mk(eng, "XYContainer", "_find_axis_raise", result=lambda vw: VNum(z3.Int("axis_index")))
    mk(eng, "MatrixGaussianError", "check_cov_mat_symmetry", result=lambda vw: VNone())

    def bound_to_self(vw, r):
        if isinstance(r, VBound):
            return isinstance(r.recv, VRef) and z3.is_true(z3.simplify(r.recv.e == vw.self.e))
        if isinstance(r, VPartial):
            return bound_to_self(vw, r.f) and not any(isinstance(x, (VRef, VLambda)) for x in list(r.args) + list(r.kw.values()))
        return False

    def post(vw):
        if vw.flow == "raise":
            return [("no exception", z3.BoolVal(False))]
        handed = vw.post.ghost.get("handed", ())
        return [("exactly one source object is built", z3.BoolVal(len(handed) == 1)),
                ("its reference is a bound method of this container (re-bound by a deep copy), not a closure over the original and not a snapshot of the values", z3.BoolVal(len(handed) == 1 and bound_to_self(vw, handed[0][1])))]
    ev = VSeq.fresh("err_val")
    ev.ndim = z3.IntVal(1)
    M = VMat.fresh("err_matrix") if hasattr(VMat, "fresh") else VMat(z3.Const("err_matrix", arr(I, arr(I, R))), z3.Int("err_matrix_rows"), z3.Int("err_matrix_cols"))
    for cls in ("IndexedContainer", "HistContainer", "XYContainer"):
        ax = {"axis": VStr("y")} if cls == "XYContainer" else {}
        c = Contract(cls, "add_error")
        c.ensures.append(post)
        eng.verify(cls, "add_error", None, lambda e, st, me_, ax=ax: dict(ax, err_val=ev), contract=c)
        c = Contract(cls, "add_matrix_error")
        c.ensures.append(post)
        eng.verify(cls, "add_matrix_error", None, lambda e, st, me_, ax=ax: dict(ax, err_matrix=M, matrix_type=VStr("cov")), contract=c)
    return eng


def units(root):
    return [Unit("XYContainer.x / .y setters re-point every source of the axis", u_xy_setters), Unit("SimpleGaussianError._calculate_cov_mat_generic", u_generic), Unit("SimpleGaussianError caches", u_source), Unit("SimpleGaussianError setters", u_source_setters),
            Unit("SimpleGaussianError.error", u_source_error_getters), Unit("IndexedContainer total error", u_total), Unit("IndexedContainer mutators", u_mutators),
            Unit("HistContainer.fill, rebin, set_bins invalidation", u_hist_invalidation), Unit("HistContainer._get_error_reference", u_hist_reference), Unit("parametric model: recompute before summing", u_model_recalc), Unit("HistParametricModel._recalculate re-points sources", u_hist_model_recalc),
            Unit("XYContainer total error", u_xy), Unit("containers hand their sources a bound method as reference", u_reference_binding)]
