"""C07 - Reported parameter uncertainties obey their definitions   (and the shared index bookkeeping of C15).

The numerical back ends (HESSE, MIGRAD, MINOS, numdifftools, root finding, SLSQP) are abstracted: havoc of their declared state plus an
assumed postcondition.  Proved here: kafe2 wraps them according to the defining equations -
  cov = 2 * errordef * hessian_inv,  hessian_inv = sym(fill(inv(remove(hessian)))),  cor = fill(normalise(remove(cov))),
  fill(S)[i][j] = 0 if i or j is fixed else S[rank(i)][rank(j)]   (rank = position among the free parameters; loop invariant over the
  ascending list of fixed indices),  asymmetric errors = cut - p_min at target f_min + 1 with the state restored per parameter,
  the profiled cost re-minimises over the other free parameters with the profiled one pinned,
  band[k] = sqrt(sum over free a, b of J[k,a] C[a,b] J[k,b]).
"""
import ast
import z3
from .base import *

FILES = ["kafe2/core/minimizers/minimizer_base.py", "kafe2/core/minimizers/iminuit_minimizer.py", "kafe2/core/minimizers/scipy_optimize_minimizer.py", "kafe2/fit/xy/fit.py", "kafe2/fit/_base/fit.py"]
META = {
    "level": "proof",
    "trusted_base": [
        "back ends are external: iminuit (migrad, hesse, minos, mncontour, mnprofile), scipy.optimize.minimize / root_scalar, numdifftools Hessian/Derivative - each is modelled as havoc of the adapter's declared state with its documented result (e.g. hesse() leaves the covariance of the free parameters in `covariance`, zeros for fixed ones)",
        "numpy: np.delete(M, idx, axis) keeps the rows/columns not in idx in order (rank-based model); np.insert(M, i, 0.0, axis) inserts a zero row/column at position i; np.linalg.inv uninterpreted; boolean-mask indexing restricts sums to the masked indices (masked quadratic form identity)",
        "the list comprehension [i for i, name in enumerate(names) if is_fixed(name)] is the ascending list of exactly the fixed indices",
        "floats as reals; z3/cvc5 soundness; induction over the list of fixed indices by loop invariant",
    ],
    "assumptions": ["numerical accuracy of the back ends (tolerances, convergence) is outside this technique: C05/C06 are not applicable", "no parameter rests on a limit (the property's own restriction)", "closed world of kafe2 classes"],
    "bounded": [{"what": "end-to-end: covariance = 2 H^-1 on quadratic and non-quadratic costs, cor = normalised cov, asymmetric errors raise the profiled cost by 1, profile points equal re-minimised cost, contour points lie at +sigma^2, error band = sqrt(diag(J C J^T)); both back ends; fixed-parameter subsets; errordef chi2 / nll",
                 "bound": "native: 2 back ends x 3 cost shapes x all fixed subsets of 3 parameters"}],
}
me = z3.Const("self", Ref)
i, j, k, q = z3.Ints("i j k q")
Mat2 = arr(I, I, R)
fixedp = z3.Function("is_fixed_index", I, B)          # the i-th parameter is fixed
cntF = z3.Function("fixed_below", arr(I, I), I, I, I)  # cntF(F, k, t) = #{q < k : F[q] < t}
FA = z3.Const("FA", arr(I, I))
CNT_AXIOMS = [
    z3.ForAll([FA, k], cntF(FA, 0, k) == 0),
    z3.ForAll([FA, q, k], z3.Implies(q >= 0, cntF(FA, q + 1, k) == cntF(FA, q, k) + z3.If(FA[q] < k, 1, 0)), patterns=[cntF(FA, q + 1, k)]),
]


class VIdx(V):
    """ascending list of (fixed) indices"""

    def __init__(self, arr_, n):
        self.arr, self.len = arr_, n


def mat_engine(root, schema):
    eng = engine(root, FILES, schema, CNT_AXIOMS)
    kk = z3.Int("k!unf")
    eng.recdefs = {"fixed_below": (1, lambda e, u: z3.Implies(u >= 0, z3.ForAll([kk], cntF(e.arg(0), u + 1, kk) == cntF(e.arg(0), u, kk) + z3.If(e.arg(0)[u] < kk, 1, 0))))}

    def np_insert(e, st, a, kw, n):
        M, pos, val = a[0], a[1], a[2]
        ax = z3.simplify(kw["axis"].e).as_long()
        p = pos.e if isinstance(pos, VNum) else pos
        if p.sort() == R:
            p = z3.simplify(z3.ToInt(p))
        v = val.real()
        e.oblige("pre@np.insert position in range", st, z3.And(0 <= p, p <= (M.rows if ax == 0 else M.cols)))
        if ax == 0:
            return VMat(FnArr(lambda i_: FnArr(lambda j_: z3.If(i_ < p, M.arr[i_][j_], z3.If(i_ == p, v, M.arr[i_ - 1][j_])))), M.rows + 1, M.cols)
        return VMat(FnArr(lambda i_: FnArr(lambda j_: z3.If(j_ < p, M.arr[i_][j_], z3.If(j_ == p, v, M.arr[i_][j_ - 1])))), M.rows, M.cols + 1)
    eng.lib["np.insert"] = np_insert
    return eng


def fixed_list(st, n):
    """model of the comprehension collecting the fixed indices: ascending, exactly the fixed ones"""
    F, nF = fresh("fixed_indices", arr(I, I)), fresh("n_fixed", I)
    st.assume(z3.And(0 <= nF, nF <= n,
                     z3.ForAll([q], z3.Implies(z3.And(0 <= q, q < nF), z3.And(0 <= F[q], F[q] < n, fixedp(F[q])))),
                     z3.ForAll([q, k], z3.Implies(z3.And(0 <= q, q <= k, k < nF), F[k] - F[q] >= k - q)),      # strictly increasing integers (gap form; lemma 'gap' below)
                     z3.ForAll([i], z3.Implies(z3.And(0 <= i, i < n, fixedp(i)), z3.Exists([q], z3.And(0 <= q, q < nF, F[q] == i))))))
    return F, nF


# ------------------------------------------------------------------ fill: zero rows/columns for fixed parameters (loop over ascending fixed indices)
def u_fill(root):
    eng = mat_engine(root, {"MinimizerBase": {"_par_names": PYOBJ}})
    n = z3.Int("num_pars")
    S = VMat(z3.Const("submatrix", Mat2), z3.Int("m"), z3.Int("m"))
    m = z3.Int("m")
    holder = {}

    def comp(e, st, node):
        F, nF = fixed_list(st, n)
        holder["F"], holder["nF"] = F, nF
        st.assume(m == n - nF)
        s = VSeq(FnArr(lambda k_: z3.ToReal(F[k_])), nF)
        s.int_arr = F
        return s
    eng.comp_models = {"[_i for _i, _par_name_i in enumerate(self._par_names) if self.is_fixed(_par_name_i)]": comp}
    mk(eng, "MinimizerBase", "num_pars", "getter", result=lambda vw: VNum(n))
    mk(eng, "MinimizerBase", "minimize", result=lambda vw: VNone())
    c = Contract("MinimizerBase", "_fill_in_zeroes_for_fixed")
    c.requires.append(lambda vw: z3.And(n >= 0, m >= 0))

    def inv(e, s):
        F, nF = holder["F"], holder["nF"]
        kq = s.locals["#i0"].e
        M = s.locals["_mat"]
        isf = lambda t: z3.Exists([q], z3.And(0 <= q, q < kq, F[q] == t))
        return z3.And(0 <= kq, kq <= nF, M.rows == m + kq, M.cols == m + kq,
                      z3.ForAll([q], z3.Implies(z3.And(0 <= q, q < nF), F[q] <= m + q)),          # the q-th fixed index leaves room for the n - nF free ones: insert positions stay in range
                      z3.ForAll([i], z3.And(0 <= cntF(F, kq, i), cntF(F, kq, i) <= kq)),
                      z3.ForAll([i], z3.Implies(z3.ForAll([q], z3.Implies(z3.And(0 <= q, q < kq), F[q] < i)), cntF(F, kq, i) == kq)),
                      z3.ForAll([i], z3.Implies(z3.ForAll([q], z3.Implies(z3.And(0 <= q, q < kq), F[q] >= i)), cntF(F, kq, i) == 0)),
                      z3.ForAll([i, j], z3.Implies(z3.And(0 <= i, i < m + kq, 0 <= j, j < m + kq),
                                                   M.at(i, j) == z3.If(z3.Or(isf(i), isf(j)), z3.RealVal(0), S.at(i - cntF(F, kq, i), j - cntF(F, kq, j))))))
    c.loops[0] = inv

    def post(vw):
        if vw.flow == "raise":
            return [("the shape assertion never fires", z3.BoolVal(False))]
        F, nF = holder["F"], holder["nF"]
        r = vw.result
        rank = lambda t: t - cntF(F, nF, t)
        return [("full size", z3.And(r.rows == n, r.cols == n)),
                ("fill(S)[i][j] = 0 if i or j is fixed, else S[rank(i)][rank(j)] with rank = position among the free parameters (no index is special)",
                 z3.ForAll([i, j], z3.Implies(z3.And(0 <= i, i < n, 0 <= j, j < n), r.at(i, j) == z3.If(z3.Or(fixedp(i), fixedp(j)), z3.RealVal(0), S.at(rank(i), rank(j))))))]
    c.ensures.append(post)
    eng.verify("MinimizerBase", "_fill_in_zeroes_for_fixed", None, lambda e, st, me_: {"submatrix": S}, contract=c)
    return eng



OPTMAT = FT("optmat")
MIN_SCHEMA = {"MinimizerBase": {"_did_fit": BOOL, "_err_def": NUM, "_hessian": OPTMAT, "_hessian_inv": OPTMAT, "_par_cov_mat": OPTMAT, "_par_cor_mat": OPTMAT, "_par_names": PYOBJ, "_fval": OPTNUM}}
matinv = z3.Function("matrix_inverse", Mat2, I, Mat2)        # np.linalg.inv (uninterpreted)
normalise = z3.Function("correlation_of", Mat2, I, Mat2)      # CovMat(M).cor_mat = M / sqrt(diag x diag) (uninterpreted here; proved elementwise nowhere else needed)
subof = z3.Function("free_submatrix", Mat2, Mat2)             # np.delete(np.delete(M, fixed, 0), fixed, 1): rank-based model
rankf = z3.Function("rank_among_free", I, I)                  # position of a free parameter among the free ones
nfree = z3.Int("n_free")


def chain_engine(root):
    eng = mat_engine(root, dict(MIN_SCHEMA))
    n = z3.Int("num_pars")
    inline(eng, "MinimizerBase", "did_fit", "errordef")
    mk(eng, "MinimizerBase", "num_pars", "getter", result=lambda vw: VNum(n))
    # numpy model of the two np.delete calls (keeps free rows/columns in order) and the proved contract of the fill loop
    mk(eng, "MinimizerBase", "_remove_zeroes_for_fixed", result=lambda vw: VMat(subof(materialise(vw.args["matrix"].arr, "M")), nfree, nfree))
    mk(eng, "MinimizerBase", "_fill_in_zeroes_for_fixed", result=lambda vw: (lambda S: VMat(FnArr(lambda i_: FnArr(lambda j_: z3.If(z3.Or(fixedp(i_), fixedp(j_)), z3.RealVal(0), S[rankf(i_)][rankf(j_)]))), n, n))(materialise(vw.args["submatrix"].arr, "S")))
    eng.lib["np.linalg.inv"] = lambda e, st, a, kw, node: VMat(matinv(materialise(a[0].arr, "M"), a[0].rows), a[0].rows, a[0].cols)

    def ctor_CovMat(e, st, a, kw, node):
        r = e.alloc(st, "covmat", "CovMat")
        e.write_field(st, r, "_mat", a[0])
        return r
    eng.lib["class:CovMat"] = ctor_CovMat
    eng.schema["CovMat"] = {"_mat": MAT}
    mk(eng, "CovMat", "cor_mat", "getter", result=lambda vw: (lambda M: VMat(normalise(materialise(M.arr, "M"), M.rows), M.rows, M.cols))(vw.f(vw.pre, vw.self, "_mat")))
    return eng, n


def u_cov_chain(root):
    eng, n = chain_engine(root)
    eng.repo.load("kafe2/core/error.py")
    H_ = VMat(z3.Const("hessian_value", Mat2), n, n)
    Hinv_ = VMat(z3.Const("hessian_inv_value", Mat2), n, n)
    hnone = z3.Bool("hessian_is_None")
    full = lambda f: z3.ForAll([i, j], z3.Implies(z3.And(0 <= i, i < n, 0 <= j, j < n), f(i, j)))
    fld = lambda vw, st, f: vw.f(st, vw.self, f)
    # --- hessian_inv = sym(fill(inv(remove(hessian))))
    mk(eng, "MinimizerBase", "hessian", "getter", result=lambda vw: VMat(H_.arr, n, n))
    c = Contract("MinimizerBase", "hessian_inv", "getter")
    c.requires.append(lambda vw: z3.And(n >= 0, nfree >= 0))

    def post_hinv(vw):
        if isinstance(vw.result, VNone):
            return [("None only before a fit", z3.Not(fld(vw, vw.pre, "_did_fit").e))]
        cached = fld(vw, vw.pre, "_hessian_inv")
        Si = matinv(subof(H_.arr), nfree)
        F = lambda a, b: z3.If(z3.Or(fixedp(a), fixedp(b)), z3.RealVal(0), Si[rankf(a)][rankf(b)])
        return [("after a fit", fld(vw, vw.pre, "_did_fit").e),
                ("inverse Hessian = symmetrised fill(inv(free sub-block of the Hessian)): zero rows/columns for fixed parameters (or the cached value)",
                 z3.If(cached.none, full(lambda a, b: vw.result.at(a, b) == z3.RealVal("1/2") * (F(a, b) + F(b, a))), full(lambda a, b: vw.result.at(a, b) == cached.at(a, b))))]
    c.ensures.append(post_hinv)
    eng.verify("MinimizerBase", "hessian_inv", "getter", contract=c)
    # --- cov_mat = 2 * errordef * hessian_inv
    mk(eng, "MinimizerBase", "hessian_inv", "getter", result=lambda vw: VMat(Hinv_.arr, n, n))
    c = Contract("MinimizerBase", "cov_mat", "getter")

    def post_cov(vw):
        if isinstance(vw.result, VNone):
            return [("None only before a fit", z3.Not(fld(vw, vw.pre, "_did_fit").e))]
        cached = fld(vw, vw.pre, "_par_cov_mat")
        ed = fld(vw, vw.pre, "_err_def").e
        return [("parameter covariance = 2 x errordef x inverse Hessian (or the cached value)",
                 z3.If(cached.none, full(lambda a, b: vw.result.at(a, b) == Hinv_.at(a, b) * 2 * ed), full(lambda a, b: vw.result.at(a, b) == cached.at(a, b)))),
                ("the value is cached for the next query", z3.Not(fld(vw, vw.post, "_par_cov_mat").none))]
    c.ensures.append(post_cov)
    eng.verify("MinimizerBase", "cov_mat", "getter", contract=c)
    # --- cor_mat = fill(normalise(remove(cov)))
    Cov_ = VMat(z3.Const("cov_value", Mat2), n, n)
    mk(eng, "MinimizerBase", "cov_mat", "getter", result=lambda vw: VMat(Cov_.arr, n, n))
    c = Contract("MinimizerBase", "cor_mat", "getter")

    def post_cor(vw):
        if isinstance(vw.result, VNone):
            return [("None only before a fit", z3.Not(fld(vw, vw.pre, "_did_fit").e))]
        cached = fld(vw, vw.pre, "_par_cor_mat")
        N_ = normalise(subof(Cov_.arr), nfree)
        return [("correlation = normalisation of the free sub-block of the covariance, zero rows/columns for fixed parameters (or the cached value)",
                 z3.If(cached.none, full(lambda a, b: vw.result.at(a, b) == z3.If(z3.Or(fixedp(a), fixedp(b)), z3.RealVal(0), N_[rankf(a)][rankf(b)])), full(lambda a, b: vw.result.at(a, b) == cached.at(a, b))))]
    c.ensures.append(post_cor)
    eng.verify("MinimizerBase", "cor_mat", "getter", contract=c)
    return eng


def u_iminuit_wrappers(root):
    eng, n = chain_engine(root)
    eng.consts = {"_IMINUIT_1": VBool(z3.BoolVal(False))}
    Cov_ = VMat(z3.Const("cov_value", Mat2), n, n)
    covnone = z3.Bool("cov_is_None")
    fld = lambda vw, st, f: vw.f(st, vw.self, f)
    full = lambda f: z3.ForAll([i, j], z3.Implies(z3.And(0 <= i, i < n, 0 <= j, j < n), f(i, j)))
    mk(eng, "MinimizerIMinuit", "cov_mat", "getter", result=lambda vw: VMat(Cov_.arr, n, n, none=covnone))
    # hessian_inv = cov / (2 errordef)
    c = Contract("MinimizerIMinuit", "hessian_inv", "getter")
    c.requires.append(lambda vw: z3.And(z3.Not(covnone), fld(vw, vw.pre, "_err_def").e > 0))

    def post_hi(vw):
        if isinstance(vw.result, VNone):
            return [("None only before a fit", z3.Not(fld(vw, vw.pre, "_did_fit").e))]
        cached = fld(vw, vw.pre, "_hessian_inv")
        ed = fld(vw, vw.pre, "_err_def").e
        return [("iminuit: inverse Hessian = covariance / (2 x errordef) (or the cached value)",
                 z3.If(cached.none, full(lambda a, b: vw.result.at(a, b) == Cov_.at(a, b) / (2 * ed)), full(lambda a, b: vw.result.at(a, b) == cached.at(a, b))))]
    c.ensures.append(post_hi)
    eng.verify("MinimizerIMinuit", "hessian_inv", "getter", contract=c)
    # hessian = fill(2 errordef inv(remove(cov)))
    c = Contract("MinimizerIMinuit", "hessian", "getter")
    c.requires.append(lambda vw: z3.And(z3.Not(covnone), nfree >= 0, n >= 0))

    def post_h(vw):
        if isinstance(vw.result, VNone):
            return [("None only before a fit", z3.Not(fld(vw, vw.pre, "_did_fit").e))]
        cached = fld(vw, vw.pre, "_hessian")
        ed = fld(vw, vw.pre, "_err_def").e
        Si = matinv(subof(Cov_.arr), nfree)
        return [("iminuit: Hessian = 2 x errordef x inverse of the free sub-block of the covariance, zero rows/columns for fixed parameters (or the cached value)",
                 z3.If(cached.none, full(lambda a, b: vw.result.at(a, b) == z3.If(z3.Or(fixedp(a), fixedp(b)), z3.RealVal(0), 2 * ed * Si[rankf(a)][rankf(b)])), full(lambda a, b: vw.result.at(a, b) == cached.at(a, b))))]
    c.ensures.append(post_h)
    eng.verify("MinimizerIMinuit", "hessian", "getter", contract=c)
    return eng



# ------------------------------------------------------------------ asymmetric errors (generic profile-likelihood implementation)
def u_asymmetric(root):
    schema = dict(MIN_SCHEMA)
    schema["MinimizerBase"] = dict(schema["MinimizerBase"], **{"#at_min": BOOL, "#saved_at_min": BOOL})
    eng = mat_engine(root, schema)
    n = z3.Int("num_pars")
    fmin = z3.Real("f_min")
    pmin, perr = z3.Const("p_min", arr(I, R)), z3.Const("p_err", arr(I, R))
    junk = z3.Function("off_minimum_value", I, R)
    cut = z3.Function("cost_cut", I, R, R, R)           # (parameter index, first guess, target cost) -> parameter value where the PROFILED cost reaches the target
    at = lambda vw, st: vw.f(st, vw.self, "#at_min").e
    mk(eng, "MinimizerBase", "parameter_names", "getter", result=lambda vw: VSeq(FnArr(lambda k_: z3.ToReal(k_)), n))       # names abstracted to their positions
    mk(eng, "MinimizerBase", "is_fixed", result=lambda vw: VBool(fixedp(z3.ToInt(vw.args["parameter_name"].real()))))
    mk(eng, "MinimizerBase", "minimize", modifies=[("#at_min", "bool", "")], ensures=[lambda vw: [at(vw, vw.post)]])
    mk(eng, "MinimizerBase", "_save_state", modifies=[("#saved_at_min", "bool", "")], ensures=[lambda vw: [vw.f(vw.post, vw.self, "#saved_at_min").e == at(vw, vw.pre)]])
    mk(eng, "MinimizerBase", "_load_state", modifies=[("#at_min", "bool", "")], ensures=[lambda vw: [at(vw, vw.post) == vw.f(vw.pre, vw.self, "#saved_at_min").e]])
    mk(eng, "MinimizerBase", "function_value", "getter", result=lambda vw: VNum(z3.If(at(vw, vw.pre), fmin, junk(0))))
    mk(eng, "MinimizerBase", "parameter_values", "getter", result=lambda vw: VSeq(FnArr(lambda k_: z3.If(at(vw, vw.pre), pmin[k_], junk(k_ + 1))), n))
    mk(eng, "MinimizerBase", "parameter_errors", "getter", result=lambda vw: VSeq(FnArr(lambda k_: z3.If(at(vw, vw.pre), perr[k_], junk(-k_ - 1))), n))
    fc = mk(eng, "MinimizerBase", "_find_cost_cut")
    fc.modifies = [("#at_min", "bool", "")]            # the search moves the minimizer away from the optimum
    fc.result = lambda vw: VNum(cut(z3.ToInt(vw.args["parameter_name"].real()), vw.args["guess"].real(), vw.args["target_cost"].real()))
    c = Contract("MinimizerBase", "_calculate_asymmetric_parameter_errors")
    c.requires.append(lambda vw: n >= 0)

    def row(a, col):
        g = pmin[a] - perr[a] if col == 0 else pmin[a] + perr[a]
        return z3.If(fixedp(a), z3.RealVal(0), cut(a, g, fmin + 1) - pmin[a])

    def inv(e, s):
        kq = s.locals["#i0"].e
        A = s.locals["_asymm_par_errs"]
        return z3.And(0 <= kq, kq <= n, A.rows == n, A.cols == 2, e.read_field(s, s.locals["self"], "#at_min").e, e.read_field(s, s.locals["self"], "#saved_at_min").e,
                      z3.ForAll([i], z3.Implies(z3.And(0 <= i, i < kq), z3.And(A.at(i, 0) == row(i, 0), A.at(i, 1) == row(i, 1)))))
    c.loops[0] = inv
    c.ensures.append(lambda vw: [("shape (n, 2)", z3.And(vw.result.rows == n, vw.result.cols == 2)),
                                 ("fixed parameters: (0, 0); free parameter a: (cut(a, p_a - err_a, f_min + 1) - p_a, cut(a, p_a + err_a, f_min + 1) - p_a), every target and reference value read AT the optimum",
                                  z3.ForAll([i], z3.Implies(z3.And(0 <= i, i < n), z3.And(vw.result.at(i, 0) == row(i, 0), vw.result.at(i, 1) == row(i, 1))))),
                                 ("the minimizer is back at the optimum afterwards (state restored after every search)", z3.Or(at(vw, vw.post), n == 0, z3.ForAll([i], z3.Implies(z3.And(0 <= i, i < n), fixedp(i)))))])
    eng.verify("MinimizerBase", "_calculate_asymmetric_parameter_errors", contract=c)
    return eng


def u_profile_function(root):
    """the function whose root _find_cost_cut searches: cost re-minimised over the other free parameters with the profiled one pinned, minus the target"""
    eng = mat_engine(root, {"MinimizerBase": {"_par_names": PYOBJ, "_fval": OPTNUM, "_tol": NUM}})
    trace = []
    rec = lambda nm: (lambda vw: (trace.append((nm, dict(vw.args))), VNone())[1])
    for nm in ("set_several", "set", "fix", "minimize", "release"):
        mk(eng, "MinimizerBase", nm, result=rec(nm))
    fval = z3.Real("function_value_after_trace")
    mk(eng, "MinimizerBase", "function_value", "getter", result=lambda vw: VNum(fval))
    mk(eng, "MinimizerBase", "parameter_names", "getter", result=lambda vw: VTuple([VStr("a"), VStr("b"), VStr("c")]))
    mk(eng, "MinimizerBase", "is_fixed", result=lambda vw: VBool(z3.BoolVal(vw.args["parameter_name"].s == "c") if isinstance(vw.args["parameter_name"], VStr) else z3.BoolVal(False)))
    inline(eng, "MinimizerBase", "tolerance")
    got = {}

    def root_scalar(e, st, a, kw, node):
        x = VNum(z3.Real("trial_value"))
        trace.clear()
        got["y"] = e.call_lambda(kw["f"], [x], {}, st)
        got["trace"] = list(trace)
        got["x"], got["kw"] = x, kw
        return VExternalResult(z3.Real("root"))
    eng.lib["root_scalar"] = root_scalar
    target, guess = VNum(z3.Real("target_cost")), VNum(z3.Real("guess"))
    minp = VSeq.fresh("min_parameters")
    c = Contract("MinimizerBase", "_find_cost_cut")
    c.requires.append(lambda vw: minp.len == 3)

    def init(e, st, me_):
        e.write_field(st, me_, "_par_names", VTuple([VStr("a"), VStr("b"), VStr("c")]))
        return {"parameter_name": VStr("b"), "guess": guess, "target_cost": target, "min_parameters": minp}

    def post(vw):
        tr = got.get("trace", [])
        names = [t[0] for t in tr]
        ok = names == ["set_several", "set", "fix", "minimize", "release"]
        return [("profile(v): all parameters reset to the optimum, the profiled one pinned at v, fixed, the others re-minimised, released - in this order", z3.BoolVal(ok)),
                ("... pinned parameter is the requested one at the trial value", z3.BoolVal(ok and tr[1][1]["parameter_name"].s == "b" and tr[1][1]["parameter_value"] is got["x"] and tr[2][1]["parameter_name"].s == "b" and tr[4][1]["parameter_name"].s == "b")),
                ("... reset uses the optimum handed in", z3.BoolVal(ok and tr[0][1]["parameter_values"] is minp)),
                ("profile(v) = re-minimised cost - target cost", got["y"].real() == fval - target.e),
                ("the search starts from the guess and the optimum of the profiled parameter, with the minimizer tolerance", z3.BoolVal(got["kw"]["x0"] is guess and isinstance(got["kw"].get("method"), VStr) and got["kw"]["method"].s == "secant")),
                ("second starting point = optimum value of the PROFILED parameter (position of its name)", got["kw"]["x1"].real() == minp.arr[1])]
    c.ensures.append(post)
    eng.verify("MinimizerBase", "_find_cost_cut", None, init, contract=c)
    return eng


class VExternalResult(V):
    def __init__(self, root):
        self.root = root



# ------------------------------------------------------------------ save / restore of the adapter-independent caches (excursions must be undone exactly)
def u_save_load(root):
    schema = dict(MIN_SCHEMA)
    schema["MinimizerBase"] = dict(schema["MinimizerBase"], _par_asymm_err=OPTMAT, _save_state_dict=PYOBJ)
    eng = mat_engine(root, schema)
    eng.lib["np.array"] = lambda e, st, a, kw, node: a[0]
    KEYS = {"asymmetric_parameter_error": "_par_asymm_err", "hessian": "_hessian", "hessian_inv": "_hessian_inv", "par_cov_mat": "_par_cov_mat", "par_cor_mat": "_par_cor_mat"}
    fld = lambda vw, st, f: vw.f(st, vw.self, f)
    same = lambda a, b: z3.And(a.none == b.none, z3.Implies(z3.Not(a.none), z3.And(a.rows == b.rows, a.cols == b.cols, z3.ForAll([i, j], a.at(i, j) == b.at(i, j)))))

    def as_opt(v):
        return VMat(z3.Const("none_mat", Mat2), z3.IntVal(0), z3.IntVal(0), none=z3.BoolVal(True)) if isinstance(v, VNone) else (v if v.none is not None else VMat(v.arr, v.rows, v.cols, none=z3.BoolVal(False)))
    saved = {}
    d = VDict({})
    c = Contract("MinimizerBase", "_save_state")

    def post_save(vw):
        dd = vw.eng.read_field(vw.post, vw.self, "_save_state_dict")        # the dict as it is on THIS path
        saved.clear(); saved.update(dd.d)
        out = [("every cache has an entry in the snapshot", z3.BoolVal(set(KEYS) | {"did_fit"} <= set(dd.d)))]
        for k_, f_ in KEYS.items():
            if k_ in dd.d:
                out.append((f"snapshot['{k_}'] is the value of {f_} (None stays None)", same(as_opt(dd.d[k_]), fld(vw, vw.pre, f_))))
        if "did_fit" in dd.d:
            out.append(("snapshot['did_fit'] is the did-fit flag", dd.d["did_fit"].e == fld(vw, vw.pre, "_did_fit").e))
        return out
    c.ensures.append(post_save)
    for cfg in range(4):       # None-ness pattern of the caches decided per configuration (two representative splits each way)
        def init(e, st, me_, cfg=cfg):
            d.d.clear()
            e.write_field(st, me_, "_save_state_dict", d)
            for q_, f_ in enumerate(KEYS.values()):
                st.assume(e.read_field(st, me_, f_).none == bool((cfg >> (q_ % 2)) & 1))
            return {}
        eng.verify("MinimizerBase", "_save_state", None, init, contract=c, tag=f"(none-pattern {cfg})")
    # _load_state: every cache is restored from the snapshot, parameter values are written back to the graph, did-fit restored
    snap = {k_: VMat(z3.Const("snap_" + k_, Mat2), z3.Int("snap_rows_" + k_), z3.Int("snap_cols_" + k_), none=z3.Bool("snap_none_" + k_)) for k_ in KEYS}
    snap_fit = VBool(z3.Bool("snap_did_fit"))
    calls = []
    pv = VSeq.fresh("parameter_values")
    mk(eng, "MinimizerBase", "parameter_values", "getter", result=lambda vw: pv)
    mk(eng, "MinimizerBase", "_func_wrapper_unpack_args", result=lambda vw: (calls.append(vw.args["args"]), VNone())[1])
    for cfg in range(4):
        def init2(e, st, me_, cfg=cfg):
            calls.clear()
            dd = {}
            for q_, k_ in enumerate(KEYS):
                is_none = bool((cfg >> (q_ % 2)) & 1)
                dd[k_] = VNone() if is_none else VMat(snap[k_].arr, snap[k_].rows, snap[k_].cols)
            dd["did_fit"] = snap_fit
            e.write_field(st, me_, "_save_state_dict", VDict(dd))
            return {}

        def post_load(vw, cfg=cfg):
            out = []
            for q_, (k_, f_) in enumerate(KEYS.items()):
                is_none = bool((cfg >> (q_ % 2)) & 1)
                g = fld(vw, vw.post, f_)
                out.append((f"{f_} restored from snapshot['{k_}']", g.none if is_none else z3.And(z3.Not(g.none), g.rows == snap[k_].rows, z3.ForAll([i, j], g.at(i, j) == snap[k_].at(i, j)))))
            out.append(("did-fit flag restored", fld(vw, vw.post, "_did_fit").e == snap_fit.e))
            out.append(("the minimizer's parameter values are written back to the graph (cost callback evaluated at them)", z3.BoolVal(len(calls) == 1 and calls[0] is pv)))
            return out
        c2 = Contract("MinimizerBase", "_load_state")
        c2.ensures.append(post_load)
        eng.verify("MinimizerBase", "_load_state", None, init2, contract=c2, tag=f"(none-pattern {cfg})")
    return eng



# ------------------------------------------------------------------ error band = sqrt(diag(J C J^T)) over the free parameters
def u_error_band(root):
    eng = mat_engine(root, {"XYFit": {"_fitter": REF("NexusFitter")}})
    VecU, MatU = z3.DeclareSort("VecU"), z3.DeclareSort("MatU")
    row_of = z3.Function("jacobian_row", I, VecU)                 # row k of J: df/dp_a at x_k, all parameters
    cmp1, cmp2 = z3.Function("masked_vector", VecU, VecU), z3.Function("masked_matrix", MatU, MatU)     # boolean-mask indexing with the 'not fixed' mask
    vecmat, dot = z3.Function("vec_times_mat", VecU, MatU, VecU), z3.Function("dot", VecU, VecU, R)
    mqf = z3.Function("quadform_over_free", VecU, MatU, R)        # sum over FREE a, b of v_a C_ab v_b
    usq = z3.Function("uf_sqrt", R, R)
    v_, C_ = z3.Const("v_", VecU), z3.Const("C_", MatU)
    eng.axioms += [z3.ForAll([v_, C_], dot(vecmat(cmp1(v_), cmp2(C_)), cmp1(v_)) == mqf(v_, C_))]      # restricting vector and matrix to the masked indices = restricting the double sum
    Cm = z3.Const("parameter_cov_mat_value", MatU)
    cnone, didfit = z3.Bool("parameter_cov_mat_is_None"), z3.Bool("did_fit")

    class T(V):
        def __init__(self, e, kind):
            self.e, self.kind = e, kind
    x = VSeq.fresh("x")
    mk(eng, "FitBase", "did_fit", "getter", result=lambda vw: VBool(didfit))
    mk(eng, "FitBase", "parameter_cov_mat", "getter", result=lambda vw: VOptTerm(T(Cm, "C"), cnone))
    mk(eng, "XYFit", "eval_model_function_derivative_by_parameters", result=lambda vw: T(None, "J^T"))
    eng.comp_models = {"[_par_name not in self._fitter.fixed_parameters for _par_name in self.parameter_names]": lambda e, st, node: T(None, "mask")}
    eng.lib["np.sqrt"] = lambda e, st, a, kw, node: VSeq(FnArr(lambda k_: usq(a[0].arr[k_])), a[0].len)

    def sub(e, st, n, base):
        if isinstance(base, VOptTerm):
            e.oblige("pre@not-None:" + ast_unparse(n)[:40], st, z3.Not(base.none))
            base = base.val
        if isinstance(base, T):
            def is_mask(node):
                if isinstance(node, (ast.Slice, ast.Tuple)):
                    return False
                v_ = e.ev(node, st)
                return isinstance(v_, T) and v_.kind == "mask"
            sl = n.slice
            if base.kind == "C" and is_mask(sl):        # C[mask]
                return T(base.e, "C[m]")
            if base.kind == "C[m]" and isinstance(sl, ast.Tuple) and len(sl.elts) == 2 and isinstance(sl.elts[0], ast.Slice) \
                    and sl.elts[0].lower is None and sl.elts[0].upper is None and sl.elts[0].step is None and is_mask(sl.elts[1]):     # C[mask][:, mask]
                return T(cmp2(base.e), "Cmm")
            if base.kind == "J" and isinstance(sl, ast.Tuple) and len(sl.elts) == 2 and is_mask(sl.elts[1]):        # J[idx, mask]
                idx = e.ev(sl.elts[0], st)
                return T(cmp1(row_of(idx.e if idx.is_int else z3.ToInt(idx.e))), "p")
            # any other indexing of these arrays: an unconstrained value (nothing is known about it, so the postcondition cannot follow from it)
            return T(z3.FreshConst(MatU if base.kind.startswith("C") else VecU, "unmodelled_index"), "Cmm" if base.kind.startswith("C") else "p")
        return None
    eng.subscript_hook = sub
    from ast import unparse as ast_unparse
    orig_attr = eng.ev_Attribute

    def ev_attr(n, st):
        if n.attr == "T":
            b = eng.ev(n.value, st)
            if isinstance(b, T) and b.kind == "J^T":
                return T(None, "J")
        if n.attr == "dot":
            b = eng.ev(n.value, st)
            if isinstance(b, T):
                vb = VBound(b, "dot")
                return vb
        return orig_attr(n, st)
    eng.ev_Attribute = ev_attr
    eng.dot_model = lambda a, b: (T(vecmat(a.e, b.e), "pC") if b.kind == "Cmm" else VNum(dot(a.e, b.e)))
    c = Contract("XYFit", "error_band")
    c.requires.append(lambda vw: x.len >= 0)
    c.loops[0] = lambda e, s: z3.And(0 <= s.locals["#i0"].e, s.locals["#i0"].e <= x.len, s.locals["_band_y"].len == x.len,
                                     z3.ForAll([i], z3.Implies(z3.And(0 <= i, i < s.locals["#i0"].e), s.locals["_band_y"].arr[i] == mqf(row_of(i), Cm))))

    def post(vw):
        if vw.flow == "raise":
            return [("RuntimeError only before a fit", z3.Not(didfit))]
        return [("after a fit", didfit), ("one value per evaluation point", vw.result.len == x.len),
                ("band[k] = sqrt(sum over FREE parameters a, b of J[k,a] C[a,b] J[k,b]); zeros when no covariance is available",
                 z3.ForAll([i], z3.Implies(z3.And(0 <= i, i < x.len), vw.result.arr[i] == z3.If(cnone, z3.RealVal(0), usq(mqf(row_of(i), Cm))))))]
    c.ensures.append(post)
    eng.verify("XYFit", "error_band", None, lambda e, st, me_: {"x": x}, contract=c)
    return eng


class VOptTerm(V):
    def __init__(self, val, none):
        self.val, self.none = val, none


def u_gap_lemma(root):
    """a strictly increasing integer list has gaps of at least the index distance (used by the model of the fixed-index list)"""
    eng = mat_engine(root, {})
    F, d = z3.Const("Fl", arr(I, I)), z3.Int("d")
    step = z3.ForAll([q], F[q + 1] > F[q])
    P = lambda dd: z3.ForAll([q], F[q + dd] - F[q] >= dd)
    eng.lemma("gap/base", [step], P(z3.IntVal(0)))
    eng.lemma("gap/step", [step, d >= 0, P(d)], P(d + 1))
    return eng


def units(root):
    return [Unit("lemma: strictly increasing index lists", u_gap_lemma), Unit("MinimizerBase._fill_in_zeroes_for_fixed", u_fill, budget=2.0),
            Unit("MinimizerBase cov_mat / hessian_inv / cor_mat", u_cov_chain), Unit("MinimizerIMinuit hessian / hessian_inv", u_iminuit_wrappers),
            Unit("MinimizerBase._calculate_asymmetric_parameter_errors", u_asymmetric), Unit("MinimizerBase._find_cost_cut (profiled cost)", u_profile_function),
            Unit("MinimizerBase._save_state / _load_state", u_save_load), Unit("XYFit.error_band", u_error_band)]
