"""C16 - Confidence level / sigma conversions are exact inverses matching chi2 quantiles.

Real arithmetic over axiomatised regularised incomplete gamma functions Q = gammaincc, Qi = gammainccinv (trusted: scipy.special).
F_n(t) := 1 - Q(n/2, t/2) is the chi2 cdf with n degrees of freedom.
Functions under contract: every method of kafe2/core/confidence.py::ConfidenceLevel; MinimizerIMinuit.contour (cl handed to MINUIT);
MinimizerBase._get_arrow_specs (interval arrows).
"""
import z3
from .base import *

FILES = ["kafe2/core/confidence.py"]
SCHEMA = {"ConfidenceLevel": {"_ndim": INT, "_cl": OPTNUM, "_sigma": OPTNUM, "_given": PYOBJ}}          # _given: "cl" | "sigma" - which of the two was specified last (the other one is derived)
META = {
    "level": "proof",
    "trusted_base": [
        "scipy.special.gammaincc/gammainccinv satisfy: mutual inverses on their ranges, 0 < Q <= 1, Q(a,0)=1 with Q(a,x)<1 for x>0, Qi(a,q)>0 for q<1, Q strictly decreasing in x, Q(1,x)=exp(-x)",
        "np.sqrt: sqrt(x) >= 0, sqrt(x)^2 = x, sqrt(x) > 0 for x > 0 (x >= 0)",
        "chi2 cdf with n dof is F_n(t) = 1 - Q(n/2, t/2) (definition)",
        "float() of a finite number is the identity; isinstance(x, int) decided by the declared sort",
        "z3/cvc5 soundness",
    ],
    "assumptions": [
        "machine arithmetic treated as mathematical: over the reals the conversion is an exact inverse; in IEEE doubles 1-(1-q) loses digits near 8 sigma (measured 8.0023 for n=1) - outside this technique, stated not hidden",
        "the numerical 1-d table values 68.27/95.45/99.73 % are facts about scipy, checked only by the bounded native regression",
    ],
    "bounded": [{"what": "numerical table values (1,2,3 sigma), round trips and monotonicity on a grid; MinimizerBase._get_arrow_specs / profile arrows with a stub cost", "bound": "n in 1..6, sigma grid 0.1..7.5, cl grid; native"}],
}

Q = z3.Function("Q", R, R, R)        # scipy.special.gammaincc
Qi = z3.Function("Qi", R, R, R)      # scipy.special.gammainccinv
sqrt = z3.Function("uf_sqrt", R, R)
exp = z3.Function("uf_exp", R, R)
a_, x_, q_, y_ = z3.Reals("a_ x_ q_ y_")
AXIOMS = [
    z3.ForAll([a_, x_], z3.Implies(z3.And(a_ > 0, x_ >= 0), z3.And(Qi(a_, Q(a_, x_)) == x_, Q(a_, x_) > 0, Q(a_, x_) <= 1)), patterns=[Q(a_, x_)]),
    z3.ForAll([a_, q_], z3.Implies(z3.And(a_ > 0, q_ > 0, q_ <= 1), z3.And(Q(a_, Qi(a_, q_)) == q_, Qi(a_, q_) >= 0)), patterns=[Qi(a_, q_)]),
    z3.ForAll([x_], z3.Implies(x_ >= 0, z3.And(sqrt(x_) >= 0, sqrt(x_) * sqrt(x_) == x_, z3.Implies(x_ > 0, sqrt(x_) > 0))), patterns=[sqrt(x_)]),
    z3.ForAll([a_, x_], z3.Implies(z3.And(a_ > 0, x_ > 0), Q(a_, x_) < 1), patterns=[Q(a_, x_)]),
    z3.ForAll([a_, q_], z3.Implies(z3.And(a_ > 0, q_ > 0, q_ < 1), Qi(a_, q_) > 0), patterns=[Qi(a_, q_)]),
]
MONO = z3.ForAll([a_, x_, y_], z3.Implies(z3.And(a_ > 0, 0 <= x_, x_ < y_), Q(a_, x_) > Q(a_, y_)), patterns=[z3.MultiPattern(Q(a_, x_), Q(a_, y_))])
Q1EXP = z3.ForAll([x_], Q(1, x_) == exp(-x_), patterns=[Q(1, x_)])


def half(n):
    return z3.ToReal(n) / 2


def F_chi2(n, t):
    return 1 - Q(half(n), t / 2)


def sig_of(n, c):
    return sqrt(2 * Qi(half(n), 1 - c))


def fields(vw, st):
    return vw.f(st, vw.self, "_ndim").e, vw.f(st, vw.self, "_cl"), vw.f(st, vw.self, "_sigma")


def InvCL(vw, st):
    n, c, s = fields(vw, st)
    return z3.And(
        n >= 1, z3.Not(z3.And(c.none, s.none)),
        z3.Implies(z3.Not(c.none), z3.And(c.e > 0, c.e < 1)),
        z3.Implies(z3.Not(s.none), s.e > 0),
        z3.Implies(z3.And(z3.Not(c.none), z3.Not(s.none)), z3.And(c.e == F_chi2(n, s.e * s.e), s.e == sig_of(n, c.e))),
    )


def view_sigma(vw, st):
    n, c, s = fields(vw, st)
    return z3.If(s.none, sig_of(n, c.e), s.e)


def view_cl(vw, st):
    n, c, s = fields(vw, st)
    return z3.If(c.none, F_chi2(n, s.e * s.e), c.e)


def mk_engine(root, files=FILES, schema=SCHEMA):
    eng = engine(root, files, schema, AXIOMS)
    eng.lib["gammaincc"] = lambda e, st, a, kw, n: VNum(Q(a[0].real(), a[1].real()))
    eng.lib["gammainccinv"] = lambda e, st, a, kw, n: VNum(Qi(a[0].real(), a[1].real()))
    eng.lib["np.sqrt"] = lambda e, st, a, kw, n: VNum(sqrt(e.num(a[0], st).real()))
    eng.lib["np.exp"] = lambda e, st, a, kw, n: VNum(exp(e.num(a[0], st).real()))
    eng.lib["float"] = lambda e, st, a, kw, n: VNum(e.num(a[0], st).real())
    eng.lib["isinstance"] = lambda e, st, a, kw, n: VBool(z3.BoolVal(isinstance(a[0], VNum) and a[0].is_int))
    inline(eng, "ConfidenceLevel", "ndim")
    return eng


def caller_contracts(eng):
    """contracts of the lazy getters/setters as used at call sites (each proved against its real body below)"""
    gc = mk(eng, "ConfidenceLevel", "cl", "getter")
    gc.requires.append(lambda vw: InvCL(vw, vw.pre))
    gc.modifies = [("_cl", "optnum", ""), ("_cl", "optnum", "none")]
    gc.result = lambda vw: VNum(view_cl(vw, vw.pre))
    gc.ensures.append(lambda vw: [InvCL(vw, vw.post), z3.Not(vw.f(vw.post, vw.self, "_cl").none), vw.f(vw.post, vw.self, "_cl").e == view_cl(vw, vw.pre)])
    gs = mk(eng, "ConfidenceLevel", "sigma", "getter")
    gs.requires.append(lambda vw: InvCL(vw, vw.pre))
    gs.modifies = [("_sigma", "optnum", ""), ("_sigma", "optnum", "none")]
    gs.result = lambda vw: VNum(view_sigma(vw, vw.pre))
    gs.ensures.append(lambda vw: [InvCL(vw, vw.post), z3.Not(vw.f(vw.post, vw.self, "_sigma").none), vw.f(vw.post, vw.self, "_sigma").e == view_sigma(vw, vw.pre)])
    return gc, gs


def setter_contracts(eng):
    """cl / sigma / ndim setters as used by __init__ and the delta_nll setter: raise iff out of range, else install the value"""
    def mkset(name, arg, bad, fld, other):
        c = mk(eng, "ConfidenceLevel", name, "setter")
        c.raises = lambda vw: ("ValueError", bad(list(vw.args.values())[0].real()))
        c.modifies = [("_cl", "optnum", ""), ("_cl", "optnum", "none"), ("_sigma", "optnum", ""), ("_sigma", "optnum", "none")]
        def ens(vw):
            x = list(vw.args.values())[0].real()
            f, o = vw.f(vw.post, vw.self, fld), vw.f(vw.post, vw.self, other)
            return [z3.Not(f.none), f.e == x, o.none]
        c.ensures.append(ens)
        c.result = lambda vw: (vw.eng.write_field(vw.post, vw.self, "_given", VStr(name)), VNone())[1]          # (proved for the real setters in u_setters)
        return c
    mkset("cl", "new_cl", lambda x: z3.Or(x <= 0, x >= 1), "_cl", "_sigma")
    mkset("sigma", "new_sigma", lambda x: x <= 0, "_sigma", "_cl")
    c = mk(eng, "ConfidenceLevel", "ndim", "setter")
    c.raises = lambda vw: ("ValueError", z3.BoolVal(True) if not list(vw.args.values())[0].is_int else list(vw.args.values())[0].e <= 0)
    c.modifies = [("_ndim", "int", "")]
    c.ensures.append(lambda vw: [vw.f(vw.post, vw.self, "_ndim").e == list(vw.args.values())[0].e])


def body(eng, name, kind, requires, ensures, init=None, tag=None):
    c = Contract("ConfidenceLevel", name, kind)
    c.requires, c.ensures = list(requires), list(ensures)
    eng.verify("ConfidenceLevel", name, kind, init, contract=c, tag=tag)


def arg_real(name):
    return lambda e, st, me_: {name: VNum(z3.Real(name))}


def u_helpers(root):
    eng = mk_engine(root)
    caller_contracts(eng)
    def post_calc_cl(vw):
        n, c, s = fields(vw, vw.post)
        s0 = vw.f(vw.pre, vw.self, "_sigma")
        return [("_cl set", z3.Not(c.none)), ("_cl = F_n(sigma^2) = 1 - Q(n/2, sigma^2/2)", c.e == F_chi2(n, s0.e * s0.e)), ("invariant", InvCL(vw, vw.post))]
    body(eng, "_calc_cl_from_sigma", None, [lambda vw: InvCL(vw, vw.pre), lambda vw: z3.Not(vw.f(vw.pre, vw.self, "_sigma").none), lambda vw: vw.f(vw.pre, vw.self, "_cl").none], [post_calc_cl])
    def post_calc_sigma(vw):
        n, c, s = fields(vw, vw.post)
        c0 = vw.f(vw.pre, vw.self, "_cl")
        return [("_sigma set", z3.Not(s.none)), ("_sigma = sqrt(2 Qi(n/2, 1-cl))", s.e == sig_of(n, c0.e)), ("invariant", InvCL(vw, vw.post))]
    body(eng, "_calc_sigma_from_cl", None, [lambda vw: InvCL(vw, vw.pre), lambda vw: z3.Not(vw.f(vw.pre, vw.self, "_cl").none), lambda vw: vw.f(vw.pre, vw.self, "_sigma").none], [post_calc_sigma])
    return eng


def u_getters(root):
    eng = mk_engine(root)
    gc, gs = caller_contracts(eng)
    # helpers by contract (proved in u_helpers)
    h1 = mk(eng, "ConfidenceLevel", "_calc_cl_from_sigma")
    h1.requires += [lambda vw: InvCL(vw, vw.pre), lambda vw: z3.Not(vw.f(vw.pre, vw.self, "_sigma").none), lambda vw: vw.f(vw.pre, vw.self, "_cl").none]
    h1.modifies = [("_cl", "optnum", ""), ("_cl", "optnum", "none")]
    h1.ensures.append(lambda vw: [z3.Not(vw.f(vw.post, vw.self, "_cl").none), vw.f(vw.post, vw.self, "_cl").e == F_chi2(vw.f(vw.pre, vw.self, "_ndim").e, vw.f(vw.pre, vw.self, "_sigma").e * vw.f(vw.pre, vw.self, "_sigma").e), InvCL(vw, vw.post)])
    h2 = mk(eng, "ConfidenceLevel", "_calc_sigma_from_cl")
    h2.requires += [lambda vw: InvCL(vw, vw.pre), lambda vw: z3.Not(vw.f(vw.pre, vw.self, "_cl").none), lambda vw: vw.f(vw.pre, vw.self, "_sigma").none]
    h2.modifies = [("_sigma", "optnum", ""), ("_sigma", "optnum", "none")]
    h2.ensures.append(lambda vw: [z3.Not(vw.f(vw.post, vw.self, "_sigma").none), vw.f(vw.post, vw.self, "_sigma").e == sig_of(vw.f(vw.pre, vw.self, "_ndim").e, vw.f(vw.pre, vw.self, "_cl").e), InvCL(vw, vw.post)])
    keep_n = lambda vw: ("ndim untouched", vw.f(vw.post, vw.self, "_ndim").e == vw.f(vw.pre, vw.self, "_ndim").e)
    body(eng, "cl", "getter", gc.requires, [lambda vw: [("invariant", InvCL(vw, vw.post)), ("cache filled", z3.Not(vw.f(vw.post, vw.self, "_cl").none)), ("result = F_n(sigma^2) (or the stored cl)", vw.result.e == view_cl(vw, vw.pre)), ("abstract sigma unchanged by the read", view_sigma(vw, vw.post) == view_sigma(vw, vw.pre)), keep_n(vw)]])
    body(eng, "sigma", "getter", gs.requires, [lambda vw: [("invariant", InvCL(vw, vw.post)), ("cache filled", z3.Not(vw.f(vw.post, vw.self, "_sigma").none)), ("result = sqrt(2 Qi(n/2, 1-cl)) (or the stored sigma)", vw.result.e == view_sigma(vw, vw.pre)), ("abstract cl unchanged by the read", view_cl(vw, vw.post) == view_cl(vw, vw.pre)), keep_n(vw)]])
    body(eng, "delta_nll", "getter", [lambda vw: InvCL(vw, vw.pre)], [lambda vw: [("delta_nll = sigma^2", vw.result.real() == view_sigma(vw, vw.pre) * view_sigma(vw, vw.pre)), ("invariant", InvCL(vw, vw.post))]])
    return eng


def u_setters(root):
    eng = mk_engine(root)
    n_ok = [lambda vw: vw.f(vw.pre, vw.self, "_ndim").e >= 1]
    def same(vw):
        return z3.And(*[z3.And(vw.f(vw.post, vw.self, f).e == vw.f(vw.pre, vw.self, f).e, vw.f(vw.post, vw.self, f).none == vw.f(vw.pre, vw.self, f).none) for f in ("_cl", "_sigma")], vw.f(vw.post, vw.self, "_ndim").e == vw.f(vw.pre, vw.self, "_ndim").e)
    def post_cl_setter(vw):
        x = vw.args["new_cl"].e
        if vw.flow == "raise":
            return [("raises only for cl outside (0,1)", z3.Or(x <= 0, x >= 1)), ("rejected call changes nothing", same(vw))]
        _, c, s = fields(vw, vw.post)
        g_ = vw.f(vw.post, vw.self, "_given")
        return [("accepted => 0 < cl < 1", z3.And(x > 0, x < 1)), ("_cl = new", z3.And(z3.Not(c.none), c.e == x)), ("stale sigma cache dropped", s.none), ("invariant", InvCL(vw, vw.post)),
                ("the object records that the confidence level is the specified quantity", z3.BoolVal(isinstance(g_, VStr) and g_.s == "cl"))]
    body(eng, "cl", "setter", n_ok, [post_cl_setter], arg_real("new_cl"))
    def post_sigma_setter(vw):
        x = vw.args["new_sigma"].e
        if vw.flow == "raise":
            return [("raises only for sigma <= 0", x <= 0), ("rejected call changes nothing", same(vw))]
        n, c, s = fields(vw, vw.post)
        g_ = vw.f(vw.post, vw.self, "_given")
        return [("accepted => sigma > 0", x > 0), ("_sigma = new", z3.And(z3.Not(s.none), s.e == x)), ("stale cl cache dropped", c.none), ("invariant", InvCL(vw, vw.post)),
                ("the object records that sigma is the specified quantity", z3.BoolVal(isinstance(g_, VStr) and g_.s == "sigma"))]
    body(eng, "sigma", "setter", n_ok, [post_sigma_setter], arg_real("new_sigma"))
    # delta_nll setter goes through the sigma setter (by contract)
    setter_contracts(eng)
    def post_dnll_setter(vw):
        x = vw.args["new_delta_nll"].e
        if vw.flow == "raise":
            return [("raises only for delta_nll <= 0", x <= 0), ("rejected call changes nothing", same(vw))]
        n, c, s = fields(vw, vw.post)
        return [("accepted => delta_nll > 0", x > 0), ("sigma = sqrt(delta_nll)", view_sigma(vw, vw.post) == sqrt(x)), ("cl follows: F_n(delta_nll)", view_cl(vw, vw.post) == F_chi2(n, x)), ("invariant", InvCL(vw, vw.post))]
    body(eng, "delta_nll", "setter", n_ok, [post_dnll_setter], arg_real("new_delta_nll"))
    return eng


def u_ndim_setter(root):
    eng = mk_engine(root)
    for given, fld in (("cl", "_cl"), ("sigma", "_sigma")):
        def post(vw, given=given, fld=fld):
            x = vw.args["new_ndim"]
            if vw.flow == "raise":
                return [("raises only for non-int or non-positive", z3.BoolVal(True) if not x.is_int else x.e <= 0)]
            f0, f1 = vw.f(vw.pre, vw.self, fld), vw.f(vw.post, vw.self, fld)
            return [("accepted => int >= 1", x.e >= 1), ("_ndim = new", vw.f(vw.post, vw.self, "_ndim").e == x.e),
                    ("the specified quantity is kept", z3.And(z3.Not(f1.none), f1.e == f0.e)),
                    ("invariant after changing the dimension: a cached conversion for the OLD dimension does not survive (cl and sigma still correspond, for the new n)", InvCL(vw, vw.post))]
        body(eng, "ndim", "setter", [lambda vw: InvCL(vw, vw.pre), lambda vw, fld=fld: z3.Not(vw.f(vw.pre, vw.self, fld).none)], [post],
             lambda e, st, me_, given=given: (e.write_field(st, me_, "_given", VStr(given)), {"new_ndim": VNum(z3.Int("new_ndim"))})[1], tag=f"(int, {given} specified)")
    body(eng, "ndim", "setter", [], [lambda vw: [("non-int dimension is rejected", z3.BoolVal(vw.flow == "raise"))]], lambda e, st, me_: {"new_ndim": VNum(z3.Real("new_ndim_real"))}, tag="(non-int)")
    return eng


def u_init(root):
    eng = mk_engine(root)
    setter_contracts(eng)
    nd = z3.Int("n_dimensions")
    for spec in ("cl", "sigma", "delta_nll", None, "cl+sigma"):
        def init(e, st, me_, spec=spec):
            a = {"n_dimensions": VNum(nd), "cl": VNone(), "sigma": VNone(), "delta_nll": VNone()}
            for nm in (spec.split("+") if spec else []):
                a[nm] = VNum(z3.Real("arg_" + nm))
            return a
        def post(vw, spec=spec):
            n, c, s = fields(vw, vw.post)
            if spec is None or "+" in spec:
                return [("not exactly one specification => rejected", z3.BoolVal(vw.flow == "raise"))]
            x = vw.args[spec].real()
            bad = {"cl": z3.Or(x <= 0, x >= 1), "sigma": x <= 0, "delta_nll": sqrt(x) <= 0}[spec]
            if vw.flow == "raise":
                return [("raises only for n < 1 or an out-of-range value", z3.Or(nd <= 0, bad))]
            val = {"cl": lambda: view_cl(vw, vw.post) == x, "sigma": lambda: view_sigma(vw, vw.post) == x, "delta_nll": lambda: view_sigma(vw, vw.post) == sqrt(x)}[spec]()
            return [("accepted => n >= 1 and value in range", z3.And(nd >= 1, z3.Not(bad))), ("dimension stored", n == nd), ("object stands for the given " + spec, val), ("invariant established", InvCL(vw, vw.post))]
        body(eng, "__init__", None, [], [post], init, tag=f"({spec})")
    return eng


def u_lemmas(root):
    eng = mk_engine(root)
    n = z3.Int("n")
    s1, s2, c1, c2 = z3.Reals("s1 s2 c1 c2")
    cl_of = lambda s: F_chi2(n, s * s)
    sq = lambda t: z3.Implies(t >= 0, sqrt(t * t) == t)
    eng.lemma("sigma -> cl -> sigma is the identity", [n >= 1, s1 > 0, sq(s1)], sig_of(n, cl_of(s1)) == s1)
    eng.lemma("cl -> sigma -> cl is the identity", [n >= 1, c1 > 0, c1 < 1], cl_of(sig_of(n, c1)) == c1)
    eng.lemma("cl strictly increasing in sigma", [MONO, n >= 1, 0 < s1, s1 < s2], cl_of(s1) < cl_of(s2))
    eng.lemma("sigma strictly increasing in cl", [MONO, n >= 1, 0 < c1, c1 < c2, c2 < 1, sig_of(n, c1) >= sig_of(n, c2), sq(sig_of(n, c1)), sq(sig_of(n, c2)),
                                                  z3.Implies(sig_of(n, c1) > sig_of(n, c2), cl_of(sig_of(n, c1)) > cl_of(sig_of(n, c2)))], z3.BoolVal(False))
    eng.lemma("0 <= cl < 1 for sigma > 0", [n >= 1, s1 > 0], z3.And(cl_of(s1) >= 0, cl_of(s1) < 1))
    eng.lemma("2-d contour level: 1 - exp(-s^2/2) = F_2(s^2)", [Q1EXP, s1 > 0, n == 2], 1 - exp(-0.5 * s1 * s1) == cl_of(s1))
    return eng


# ------------------------------------------------------------------ MinimizerIMinuit.contour: the cl handed to MINUIT
def u_contour(root):
    eng = engine(root, ["kafe2/core/minimizers/iminuit_minimizer.py", "kafe2/core/minimizers/minimizer_base.py"], {"MinimizerIMinuit": {"_did_fit": BOOL}}, AXIOMS + [Q1EXP])
    eng.lib["np.exp"] = lambda e, st, a, kw, n: VNum(exp(e.num(a[0], st).real()))
    eng.lib["np.array"] = lambda e, st, a, kw, n: a[0]
    eng.consts = {"_IMINUIT_1": VBool(z3.BoolVal(False))}

    class CL(V):
        """a ConfidenceLevel object by the contract proved in the units above: .cl = F_n(sigma^2), .sigma = sigma (n = n_dimensions, default 1)"""

        def __init__(self, n, s):
            self.n, self.s = n, s

        def vattr(self, e, st, name):
            return {"cl": VNum(F_chi2(self.n, self.s * self.s)), "sigma": VNum(self.s), "ndim": VNum(self.n)}.get(name)
    eng.lib["class:ConfidenceLevel"] = lambda e, st, a, kw, n: CL((kw["n_dimensions"].e if "n_dimensions" in kw else a[0].e if a else z3.IntVal(1)), e.num(kw["sigma"], st).real()) if "sigma" in kw else (_ for _ in ()).throw(Unsupported("ConfidenceLevel built from cl / delta_nll in contour"))
    eng.lib["ConfidenceLevel"] = eng.lib["class:ConfidenceLevel"]
    rec = {}
    mk(eng, "MinimizerBase", "did_fit", "getter", result=lambda vw: VBool(vw.f(vw.pre, vw.self, "_did_fit").e))
    mk(eng, "MinimizerIMinuit", "minimize", None, result=lambda vw: VNone())
    def get_iminuit(vw):
        return VExternal("minuit", rec)
    mk(eng, "MinimizerIMinuit", "_get_iminuit", None, result=get_iminuit)
    eng.lib["ContourFactory.create_xy_contour"] = lambda e, st, a, kw, n: VOpaque("contour")
    sigma = z3.Real("sigma")
    def init(e, st, me_):
        st.assume(sigma > 0)
        return {"parameter_name_1": VStr("a"), "parameter_name_2": VStr("b"), "sigma": VNum(sigma), "minimizer_contour_kwargs": VDict({})}
    c = Contract("MinimizerIMinuit", "contour")
    def post(vw):
        if vw.flow == "raise":
            return [("raises only before a fit", z3.Not(vw.f(vw.pre, vw.self, "_did_fit").e))]
        calls = [k for k in rec.get("calls", []) if k[0] == "mncontour"]
        ok = len(calls) == 1 and "cl" in calls[0][2]
        return [("exactly one mncontour call with a cl keyword", z3.BoolVal(ok))] + ([("cl handed to MINUIT = F_2(sigma^2) (two-dimensional confidence level)", calls[0][2]["cl"].real() == F_chi2(z3.IntVal(2), sigma * sigma))] if ok else [])
    c.ensures.append(post)
    eng.verify("MinimizerIMinuit", "contour", None, init, contract=c)
    eng.trusted.append("iminuit.Minuit.mncontour(cl=...) draws the contour of that confidence level (external)")
    return eng



def u_contour_levels(root):
    """ContoursProfiler._plot_contour_xy: a grid contour (what the scipy back end returns: z = sqrt(profiled cost rise), i.e. the distance in units of sigma - its
    cells are compared with the closed form natively under C07) is drawn at the level z = sigma, not sigma^2; a point contour is drawn as given"""
    eng = engine(root, ["kafe2/fit/tools/contours_profiler.py"], {}, [])
    sig = z3.Real("contour_sigma")

    class Contour(V):
        def __init__(self, points):
            self.points = points

        def vattr(self, e, st, name):
            if name == "sigma":
                return VNum(sig)
            if name == "xy_points":
                return VTuple([VOpaque("xs"), VOpaque("ys")]) if self.points else VNone()
            if name in ("grid_x", "grid_y"):
                return VOpaque(name)
            if name == "grid_z":
                class Z(V):
                    def vattr(self_, e_, st_, n_):
                        return VOpaque("grid_z.T") if n_ == "T" else None
                return Z()
    eng.consts = {"ContoursProfiler": VLib("class:ContoursProfiler")}
    for points in (False, True):
        c = Contract("ContoursProfiler", "_plot_contour_xy")

        def post(vw, points=points):
            calls = [c_ for c_ in vw.post.ghost.get("ext_calls", ()) if c_[0] == "axes"]
            if points:
                return [("a point contour (iminuit) is drawn as the polygon it is", z3.BoolVal(len(calls) == 1 and calls[0][1] == "fill" and [getattr(a_, "tag", None) for a_ in calls[0][2]] == ["xs", "ys"]))]
            ok = [c_[1] for c_ in calls] == ["contour", "contourf"] and all(isinstance(c_[3].get("levels"), VTuple) and len(c_[3]["levels"].items) == 2 for c_ in calls)
            out = [("a grid contour is drawn as a line and as a filled region on the grid it came with (z transposed to matplotlib's row = y convention)",
                    z3.BoolVal(ok and all([getattr(a_, "tag", None) for a_ in c_[2]] == ["grid_x", "grid_y", "grid_z.T"] for c_ in calls)))]
            if ok:
                for c_ in calls:
                    lv = c_[3]["levels"].items
                    out.append((f"{c_[1]}: from the minimum (z = 0) out to z = sigma - the grid is in units of sigma, so the s-sigma contour is the level s, not s^2", z3.And(lv[0].real() == 0, lv[1].real() == sig)))
            return out
        c.ensures.append(post)
        eng.verify("ContoursProfiler", "_plot_contour_xy", None, lambda e, st, me_, points=points: (st.assume(sig > 0), {"target_axes": VExternal("axes", {}), "contour": Contour(points), "label": VStr("1 sigma"), "contour_color": VStr("C0")})[1],
                   contract=c, tag=f"({'point' if points else 'grid'} contour)")
    return eng


def units(root):
    return [Unit("ConfidenceLevel helpers", u_helpers), Unit("ConfidenceLevel getters", u_getters), Unit("ConfidenceLevel setters", u_setters),
            Unit("ConfidenceLevel.ndim setter", u_ndim_setter), Unit("ConfidenceLevel.__init__", u_init), Unit("lemmas", u_lemmas),
            Unit("MinimizerIMinuit.contour", u_contour), Unit("ContoursProfiler._plot_contour_xy (level of a grid contour)", u_contour_levels)]
