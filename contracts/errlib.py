"""shared schema + callee contract for the 'reset member error references' loops that value-changing mutators run
(IndexedContainer.data setter, XYContainer setters, HistContainer.fill, HistParametricModel._recalculate)"""
import z3
from .base import *

ERR_SCHEMA = {
    "ErrEntry": {"enabled": BOOL, "err": REF("GaussianErrorBase"), "axis": INT},
    "GaussianErrorBase": {"_is_relative": BOOL, "_reference": CALLREF, "_err": OPTSEQ, "_err_rel": OPTSEQ, "_cov_mat": REF("CovMat"), "_cov_mat_rel": REF("CovMat")},
}
ERR_FILES = ["kafe2/core/error.py"]
_a = z3.Int("a!errlib")


def c_reference_setter(eng):
    """GaussianErrorBase.reference setter as used by the containers (its body is verified under C02):
    stores the reference and drops the caches of the opposite relativity; touches nothing outside the source object"""
    rs = mk(eng, "GaussianErrorBase", "reference", "setter")
    rs.modifies = [("_reference", "callref", "kind"), ("_reference", "callref", ""), ("_reference", "callref", "len"), ("_reference", "callref", "owner"),
                   ("_cov_mat", "ref", ""), ("_cov_mat_rel", "ref", ""), ("_err", "optseq", "none"), ("_err_rel", "optseq", "none")]

    def ens(vw):
        rel = vw.f(vw.pre, vw.self, "_is_relative").e
        r, x = vw.f(vw.post, vw.self, "_reference"), vw.args["reference"]
        if isinstance(x, VSeq):
            stored = [r.kind == 1, r.len == x.len, z3.ForAll([_a], r.arr[_a] == x.arr[_a])]
        elif isinstance(x, VBound):          # a bound method of the owning container (e.g. self._get_error_reference): a callable reference
            stored = [r.kind == 2, r.owner == x.recv.e]
        elif isinstance(x, VNone):
            stored = [r.kind == 0]
        elif isinstance(x, (VLambda, VPartial)):          # a closure / partial application: a callable whose target the contract does not know (neither the values nor a method of the owner)
            stored = [r.kind == 3]
        else:
            raise Unsupported("reference value " + type(x).__name__)
        g = lambda f: vw.f(vw.post, vw.self, f)
        p = lambda f: vw.f(vw.pre, vw.self, f)
        return stored + [z3.Implies(rel, z3.And(g("_cov_mat").e == NULL, g("_err").none, g("_err_rel").none == p("_err_rel").none, g("_cov_mat_rel").e == p("_cov_mat_rel").e)),
                         z3.Implies(z3.Not(rel), z3.And(g("_cov_mat_rel").e == NULL, g("_err_rel").none, g("_err").none == p("_err").none, g("_cov_mat").e == p("_cov_mat").e))]
    rs.ensures.append(ens)
    return rs


def repointed(st, ES, ESlen, owner, upto=None):
    """every source among the first `upto` entries has a callable reference into `owner` and, if relative, no cached absolute covariance"""
    RK, RO, CM, ISREL, ERR = st.h("_reference", "callref", "kind"), st.h("_reference", "callref", "owner"), st.h("_cov_mat", "ref"), st.h("_is_relative", "bool"), st.h("err", "ref")
    b = z3.Int("b!errlib")
    hi = ESlen if upto is None else upto
    return z3.ForAll([b], z3.Implies(z3.And(0 <= b, b < hi), z3.And(RK[ERR[ES[b]]] == 2, RO[ERR[ES[b]]] == owner, z3.Implies(ISREL[ERR[ES[b]]], z3.And(CM[ERR[ES[b]]] == NULL, st.h("_err", "optseq", "none")[ERR[ES[b]]])))))


def distinct_sources(st, ES, ESlen):
    a, b = z3.Ints("a!d b!d")
    ERR = st.h("err", "ref")
    return z3.ForAll([a, b], z3.Implies(z3.And(0 <= a, a < b, b < ESlen), ERR[ES[a]] != ERR[ES[b]]))
