"""C04 - Graph reads equal a from-scratch evaluation; unchanged inputs are not recomputed.

Representation invariant of the node graph (kafe2/core/fitters/nexus.py), preserved by every node operation:
  S     child(P,N) <=> parent(N,P)                                   (edge symmetry; from _children / _parents)
  I     child(P,N) & stale(N) & ~frozen(N)  =>  stale(P) | frozen(P) | isparam(P)     (staleness closure)
  J     ~stale(P) & ~frozen(P) & ~isleaf(P)  =>  val(P) = defn(P, func(P), children(P), val)   (cache correctness)
  Sync  parameters(P) subset of children(P)                         (Function)
  A     acyclic: child(P,N) => rank(N) < rank(P) for a ghost rank function (preserved trivially by non-structural operations;
        structural operations re-establish S/I/J/Sync and leave acyclicity to Nexus.add*/NodeCycleChecker, as the code does)
The Lean lemma lean/Dag.lean::cache_correct turns (I & J & acyclic) into: every node that is not stale (or is frozen) holds the
from-scratch value.  Ghost `evals` counts evaluations of node definitions.
"""
import z3
from .base import *
from pyvc.rel import *
from pyvc import rel

FILES = ["kafe2/core/fitters/nexus.py"]
NODE = "NodeBase"
SCHEMA = {
    "NodeBase": {"_stale": BOOL, "_frozen": BOOL, "_children": FT("refset", "ValueNode"), "_parents": FT("refset", "NodeBase"), "_name": PYOBJ},
    "ValueNode": {"_value": VAL},
    "Function": {"_func": FUNH, "_parameters": FT("refset", "ValueNode"), "_par_cache": PYOBJ},
    "Fallback": {"_exception_type": PYOBJ},
    "Array": {"_dtype": PYOBJ},
}
META = {
    "lean": ['Dag.lean'],
    "level": "proof",
    "trusted_base": [
        "lists/sets of nodes abstracted to relations (order and multiplicity dropped); weakref.ref(x)() is x (no garbage collection of a parent during an operation)",
        "user functions are pure: a node's definition is defn(node, function handle, children, values of children) with the frame axiom 'depends only on the values of its children'",
        "iteration over parents/children visits every member exactly once in arbitrary order (iter_parents generator replaced by this iterator contract)",
        "Lean 4 / Mathlib lemma cache_correct (lean/Dag.lean): invariants I and J on an acyclic graph imply cached value = from-scratch value for every non-stale-or-frozen node (checked by `lean`, thorough tier)",
        "recursion mark_for_update <-> notify_parents and update <-> value getter: partial correctness (each verified against its contract assuming the other's); termination argued (each recursive call first makes a non-stale node stale / a stale node fresh on an acyclic graph)",
        "NodeCycleChecker.run: assumed contract 'returns normally iff no cycle through the start node' (transitive reachability is outside the EPR fragment); exercised exhaustively on small graphs natively",
        "Array.update / Fallback.update / Nexus.add / Nexus.add_function / get_value_dict: not under contract (list indices, exceptions as control flow, dict of names, signature introspection) - native bounded histories only",
        "z3 (MBQI for the relational VCs) and cvc5 soundness",
    ],
    "assumptions": ["closed world: node classes are exactly those of nexus.py", "update() is never called directly on a frozen node (all call sites in kafe2 guard it or call it before freeze)",
                    "nodes are compared by identity (NodeBase.__eq__/__hash__)"],
    "bounded": [{"what": "operation histories on real node graphs vs an independent from-scratch evaluator, incl. Array, Fallback, Nexus.add/add_function/add_alias/add_dependency, cycle rejection, evaluation counters", "bound": "native: all sequences of <= 4 operations over a 6-node diamond graph and a registry graph"}],
}

# ---------------------------------------------------------------- class tags (immutable), definitions
isparam = z3.Function("isparam", Ref, B)      # class Parameter (mark_for_update is a no-op)
isleaf = z3.Function("isleaf", Ref, B)        # Parameter / plain ValueNode / Empty: value is not defined by children
isroot = z3.Function("isroot", Ref, B)
isalias = z3.Function("isalias", Ref, B)
defn = z3.Function("defn", Ref, Fun, SetSort, arr(Ref, Val), Val)
P, N, x, y = z3.Consts("P N x y", Ref)
h1, h2 = z3.Consts("h1 h2", arr(Ref, Val))
F_, C_ = z3.Const("F_", Fun), z3.Const("C_", SetSort)
AXIOMS = [
    z3.ForAll([x], z3.Implies(isparam(x), isleaf(x))),
    z3.ForAll([x], z3.Implies(isroot(x), z3.Not(isparam(x)))),
    z3.ForAll([x], z3.Implies(isalias(x), z3.Not(isleaf(x)))),
    # frame: a definition depends only on the values of the node's children
    z3.ForAll([P, F_, C_, h1, h2], z3.Implies(z3.ForAll([N], z3.Implies(C_[N], h1[N] == h2[N])), defn(P, F_, C_, h1) == defn(P, F_, C_, h2)),
              patterns=[z3.MultiPattern(defn(P, F_, C_, h1), defn(P, F_, C_, h2))]),
    # an alias passes on the value of its single child
    z3.ForAll([P, F_, C_, h1, N], z3.Implies(z3.And(isalias(P), C_[N], z3.ForAll([x], z3.Implies(C_[x], x == N))), defn(P, F_, C_, h1) == h1[N]), patterns=[z3.MultiPattern(defn(P, F_, C_, h1), C_[N])]),
]


def _has_ite(t, depth=0):
    if depth > 6:
        return False
    if z3.is_app(t) and t.decl().kind() == z3.Z3_OP_ITE:
        return True
    if z3.is_store(t):
        return any(_has_ite(c, depth + 1) for c in t.children())
    return False


class Hp:
    """the graph part of a symbolic state"""

    def __init__(self, st):
        # name non-trivial heap terms (if-then-else of arrays) by a fresh constant so that they can occur in quantifier patterns
        for (field, kind, part) in (("_children", "refset", ""), ("_parents", "refset", ""), ("_parameters", "refset", ""), ("_value", "val", ""), ("_func", "funh", ""), ("_stale", "bool", "")):
            t = st.h(field, kind, part)
            if _has_ite(t):
                c = fresh("H_" + field.strip("_"), t.sort())
                core.DEFS.append((c.decl().name(), c == t))       # definitional equation: attached to every VC that mentions c (cone of influence)
                st.set_h(field, kind, part, c)
        self.stale, self.frozen = st.h("_stale", "bool"), st.h("_frozen", "bool")
        self.child, self.parent, self.params = st.h("_children", "refset"), st.h("_parents", "refset"), st.h("_parameters", "refset")
        self.val, self.func, self.evals = st.h("_value", "val"), st.h("_func", "funh"), st.h("#evals", "int")


def ok(h, P_, N_):
    """edge P -> N is consistent: a stale, unfrozen child has a stale or frozen parent (leaves' values do not depend on children)"""
    return z3.Or(z3.Not(z3.And(h.stale[N_], z3.Not(h.frozen[N_]))), h.stale[P_], h.frozen[P_], isleaf(P_))


def fresh_(h, n):
    return z3.Or(z3.Not(h.stale[n]), h.frozen[n])


def done(h, P_):
    """P has been told that an input changed"""
    return z3.Or(isparam(P_), h.frozen[P_], h.stale[P_])


def inv_S(h):
    return z3.ForAll([P, N], h.child[P][N] == h.parent[N][P])


def inv_I(h, except_into=None):
    body = z3.Implies(h.child[P][N], ok(h, P, N) if except_into is None else z3.Or(ok(h, P, N), N == except_into))
    return z3.ForAll([P, N], body)


def inv_J(h):
    return z3.ForAll([P], z3.Implies(z3.And(z3.Not(h.stale[P]), z3.Not(h.frozen[P]), z3.Not(isleaf(P))), h.val[P] == defn(P, h.func[P], h.child[P], h.val)), patterns=[defn(P, h.func[P], h.child[P], h.val), h.val[P]])


def inv_Sync(h):
    return z3.ForAll([P, N], z3.Implies(h.params[P][N], h.child[P][N]))


rank = z3.Function("rank", Ref, I)     # acyclicity witness: a strict rank function on the child relation (exists iff the finite graph is a DAG)


def inv_A0(h):
    return z3.ForAll([P, N], z3.Implies(h.child[P][N], rank(N) < rank(P)), patterns=[h.child[P][N]])


def inv_root(h):
    return z3.ForAll([x], z3.Implies(isroot(x), z3.And(h.stale[x], z3.ForAll([P], z3.Not(h.parent[x][P])))))


def Inv(h):
    return z3.And(inv_S(h), inv_I(h), inv_J(h), inv_Sync(h), inv_A0(h), inv_root(h))


def inv_parts(h, J=True):
    out = [("S: edge symmetry", inv_S(h)), ("I: a stale node has only stale or frozen parents", inv_I(h)), ("Sync: parameters are children", inv_Sync(h)), ("A: acyclic (rank witness)", inv_A0(h)), ("root stays stale and parentless", inv_root(h))]
    if J:
        out.insert(2, ("J: every fresh non-leaf node caches its definition on the current values", inv_J(h)))
    return out


def same(a, b, *fields):
    return z3.And(*[getattr(a, f) == getattr(b, f) for f in fields])


STRUCT = ("frozen", "child", "parent", "params", "func")


def mono_stale(h0, h1_):
    return z3.ForAll([x], z3.Implies(h0.stale[x], h1_.stale[x]))


def newly_ok(h0, h1_, skip=None):
    """E4/E5: every node that became stale is non-frozen, not a Parameter, and all its parent edges are ok"""
    cond = z3.And(h1_.stale[N], z3.Not(h0.stale[N])) if skip is None else z3.And(h1_.stale[N], z3.Not(h0.stale[N]), N != skip)
    return z3.And(z3.ForAll([N, P], z3.Implies(z3.And(cond, h0.parent[N][P]), ok(h1_, P, N))),
                  z3.ForAll([x], z3.Implies(z3.And(h1_.stale[x], z3.Not(h0.stale[x])), z3.And(z3.Not(h0.frozen[x]), z3.Not(isparam(x))))))


# ---------------------------------------------------------------- engine
def mk_engine(root):
    core.DEFS.clear()
    repo = Repo(root)
    for p in FILES:
        repo.load(p)
    eng = RelEngine(repo, SCHEMA, list(AXIOMS))
    lib.install(eng)
    eng.lib["isinstance"] = eng.lib_isinstance
    eng.lib["weakref.ref"] = lambda e, st, a, kw, n: a[0]
    eng.lib["sorted"] = lambda e, st, a, kw, n: a[0]
    eng.lib["list"] = lambda e, st, a, kw, n: a[0]
    eng.lib["tuple"] = lambda e, st, a, kw, n: a[0]
    eng.trusted = []
    eng.loop_havoc = [("_stale", "bool", ""), ("_value", "val", ""), ("#evals", "int", "")]
    eng.schema["NodeBase"]["#evals"] = INT
    inline(eng, NODE, "stale", "frozen")
    mk(eng, NODE, "get_children", inline=True)
    mk(eng, NODE, "iter_parents", result=lambda vw: vw.f(vw.pre, vw.self, "_parents"))       # iterator contract: yields exactly the members of _parents
    mk(eng, "RootNode", "iter_parents", result=lambda vw: VSet(EMPTY, NODE))
    mk(eng, NODE, "get_parents", result=lambda vw: vw.f(vw.pre, vw.self, "_parents"))
    return eng


def c_mark_for_update(eng):
    """contract of mark_for_update for ANY receiver class (NodeBase's body, Parameter's no-op override, RootNode)"""
    c = mk(eng, NODE, "mark_for_update")
    c.modifies = [("_stale", "bool", "", "all")]

    def ens(vw):
        a, b, n = Hp(vw.pre), Hp(vw.post), vw.self.e
        return [mono_stale(a, b), same(a, b, *STRUCT, "val", "evals"), done(b, n), z3.Implies(isparam(n), b.stale == a.stale), newly_ok(a, b)]
    c.ensures.append(ens)
    return c


def c_notify_parents(eng):
    c = mk(eng, NODE, "notify_parents")
    c.modifies = [("_stale", "bool", "", "all")]

    def ens(vw):
        a, b, n = Hp(vw.pre), Hp(vw.post), vw.self.e
        return [mono_stale(a, b), same(a, b, *STRUCT, "val", "evals"), z3.ForAll([P], z3.Implies(a.parent[n][P], done(b, P))), newly_ok(a, b)]
    c.ensures.append(ens)
    return c


def tag_self(cls):
    me = z3.Const("self", Ref)
    t = {"Parameter": [isparam(me), isleaf(me), z3.Not(isroot(me)), z3.Not(isalias(me))], "RootNode": [isroot(me), z3.Not(isparam(me)), z3.Not(isleaf(me)), z3.Not(isalias(me))],
         "ValueNode": [z3.Not(isparam(me)), isleaf(me), z3.Not(isroot(me)), z3.Not(isalias(me))], "Alias": [isalias(me), z3.Not(isparam(me)), z3.Not(isleaf(me)), z3.Not(isroot(me))]}
    return t.get(cls, [z3.Not(isparam(me)), z3.Not(isleaf(me)), z3.Not(isroot(me)), z3.Not(isalias(me))])


# ---------------------------------------------------------------- units: the staleness protocol
def u_mark_for_update(root):
    eng = mk_engine(root)
    c_notify_parents(eng)
    for cls in ("Function", "Parameter", "RootNode"):
        c = Contract(cls, "mark_for_update")
        c.requires.append(lambda vw, cls=cls: z3.And(*tag_self(cls), inv_root(Hp(vw.pre))))

        def post(vw):
            a, b, n = Hp(vw.pre), Hp(vw.post), vw.self.e
            return [("E1 staleness only grows", mono_stale(a, b)), ("frame: only _stale changes", same(a, b, *STRUCT, "val", "evals")),
                    ("E2 receiver is a Parameter, frozen or stale afterwards", done(b, n)), ("a Parameter is never marked", z3.Implies(isparam(n), b.stale == a.stale)),
                    ("E4/E5 every newly stale node is non-frozen and has only stale or frozen parents", newly_ok(a, b))]
        c.ensures.append(post)
        eng.verify(cls, "mark_for_update", contract=c)
    return eng


def u_notify_parents(root):
    eng = mk_engine(root)
    c_mark_for_update(eng)
    for cls in ("Function", "RootNode"):
        c = Contract(cls, "notify_parents")
        c.requires.append(lambda vw, cls=cls: z3.And(*tag_self(cls), inv_root(Hp(vw.pre))))

        def inv(e, s, c=c):
            a, b = Hp(s.locals["#entry0"]), Hp(s)
            n, vis = s.locals["self"].e, s.locals["#vis0"]
            return z3.And(mono_stale(a, b), same(a, b, *STRUCT, "val", "evals"), newly_ok(a, b),
                          z3.ForAll([P], z3.Implies(z3.And(vis.has(P), a.parent[n][P]), done(b, P))), z3.ForAll([P], z3.Implies(vis.has(P), a.parent[n][P])))
        c.loops[0] = inv

        def post(vw):
            a, b, n = Hp(vw.pre), Hp(vw.post), vw.self.e
            return [("staleness only grows", mono_stale(a, b)), ("frame: only _stale changes", same(a, b, *STRUCT, "val", "evals")),
                    ("every parent is a Parameter, frozen or stale afterwards", z3.ForAll([P], z3.Implies(a.parent[n][P], done(b, P)))),
                    ("every newly stale node is non-frozen and has only stale or frozen parents", newly_ok(a, b))]
        c.ensures.append(post)
        eng.verify(cls, "notify_parents", contract=c)
    return eng


def preserves(eng, cls, name, kind=None, init=None, extra_req=(), extra_post=None, J=True, tag=None, inv_pre=None):
    """obligation: the operation re-establishes the whole invariant from any invariant-satisfying state"""
    c = Contract(cls, name, kind)
    c.requires.append(lambda vw: z3.And(*tag_self(cls), (inv_pre or Inv)(Hp(vw.pre))))
    c.requires += list(extra_req)

    def post(vw):
        a, b = Hp(vw.pre), Hp(vw.post)
        out = [] if vw.flow == "raise" else inv_parts(b, J)
        if vw.flow == "raise" and name == "update":
            return exc_post(vw)
        if extra_post:
            out = extra_post(vw, a, b) + out
        return out
    c.ensures.append(post)
    eng.verify(cls, name, kind, init, contract=c, tag=tag)


def u_freeze(root):
    eng = mk_engine(root)
    c_notify_parents(eng)
    c_mark_for_update(eng)
    for cls in ("Function", "Parameter"):
        preserves(eng, cls, "freeze", extra_post=lambda vw, a, b: [("frozen afterwards", b.frozen[vw.self.e]), ("values and everything else untouched", z3.And(same(a, b, "stale", "child", "parent", "params", "func", "val", "evals")))])
        preserves(eng, cls, "unfreeze", extra_post=lambda vw, a, b: [("not frozen afterwards", z3.Not(b.frozen[vw.self.e])), ("a node defined by its inputs is recomputed on the next read", z3.Or(isleaf(vw.self.e), b.stale[vw.self.e])), ("values untouched", same(a, b, "val", "child", "parent", "params", "func", "evals"))])
    return eng


def u_value_setter(root):
    eng = mk_engine(root)
    c_notify_parents(eng)
    v = VVal(z3.Const("new_value", Val))
    for cls in ("Parameter", "ValueNode"):
        preserves(eng, cls, "value", "setter", init=lambda e, st, me_: {"value": v},
                  extra_post=lambda vw, a, b: [("value stored", b.val == z3.Store(a.val, vw.self.e, v.e)), ("structure untouched", same(a, b, *STRUCT, "evals")),
                                               ("every parent is told: Parameter, frozen or stale afterwards", z3.ForAll([P], z3.Implies(a.parent[vw.self.e][P], done(b, P))))])
    return eng



# ---------------------------------------------------------------- update / value getter (mutually recursive, by contract)
def upd_rel(a, b, n, strict=True):
    """what any update / read of node n may do: clear staleness and refresh caches of nodes below n, nothing else"""
    below = (lambda m: rank(m) < rank(n)) if strict else (lambda m: rank(m) <= rank(n))
    return [
        ("structure untouched", same(a, b, *STRUCT)),
        ("staleness is only cleared", z3.ForAll([x], z3.Implies(b.stale[x], a.stale[x]))),
        ("leaves and frozen nodes keep their values", z3.ForAll([x], z3.Implies(z3.Or(isleaf(x), a.frozen[x]), b.val[x] == a.val[x]))),
        ("nodes that were fresh keep their cached values", z3.ForAll([x], z3.Implies(z3.Not(a.stale[x]), b.val[x] == a.val[x]))),
        ("effects confined to the sub-graph below the node", z3.ForAll([x], z3.Implies(z3.Or(b.val[x] != a.val[x], b.stale[x] != a.stale[x], b.evals[x] != a.evals[x]), below(x)))),
        ("each definition is evaluated at most once", z3.ForAll([x], b.evals[x] <= a.evals[x] + 1)),
        ("a definition is evaluated only if the node was stale (an input was assigned since its last evaluation)", z3.ForAll([x], z3.Implies(b.evals[x] != a.evals[x], z3.And(a.stale[x], z3.Not(a.frozen[x]), z3.Not(b.stale[x]))))),
    ]


def c_update(eng):
    c = mk(eng, NODE, "update")
    c.requires.append(lambda vw: z3.And(Inv(Hp(vw.pre)), z3.Not(Hp(vw.pre).frozen[vw.self.e]), Hp(vw.pre).stale[vw.self.e]))
    c.modifies = [("_stale", "bool", "", "all"), ("_value", "val", "", "all"), ("#evals", "int", "", "all")]

    def ens(vw):
        a, b, n = Hp(vw.pre), Hp(vw.post), vw.self.e
        return [g for _, g in upd_rel(a, b, n, strict=False)] + [z3.Not(b.stale[n]), Inv(b), z3.Implies(z3.Not(isleaf(n)), z3.ForAll([N], z3.Implies(a.child[n][N], fresh_(b, N))))]
    c.ensures.append(ens)
    # the node's definition (a user function) may raise: the node then stays stale and the invariant still holds
    c.raises = lambda vw: ("Exception", z3.And(fresh("update_raises", B), z3.Not(isleaf(vw.self.e))))
    c.exc_ensures = [lambda vw: [g for _, g in upd_rel(Hp(vw.pre), Hp(vw.post), vw.self.e, strict=False)] + [Hp(vw.post).stale[vw.self.e], Inv(Hp(vw.post))]]
    return c


def c_value_getter(eng):
    c = mk(eng, "ValueNode", "value", "getter")
    c.requires.append(lambda vw: Inv(Hp(vw.pre)))
    c.modifies = [("_stale", "bool", "", "all"), ("_value", "val", "", "all"), ("#evals", "int", "", "all")]
    c.result = lambda vw: VVal(Hp(vw.post).val[vw.self.e])

    def ens(vw):
        a, b, n = Hp(vw.pre), Hp(vw.post), vw.self.e
        return [g for _, g in upd_rel(a, b, n, strict=False)] + [fresh_(b, n), Inv(b), z3.Implies(fresh_(a, n), z3.And(b.stale == a.stale, b.val == a.val, b.evals == a.evals))]
    c.ensures.append(ens)
    c.raises = lambda vw: ("Exception", z3.And(fresh("read_raises", B), z3.Not(fresh_(Hp(vw.pre), vw.self.e)), z3.Not(isleaf(vw.self.e))))
    c.exc_ensures = [lambda vw: [g for _, g in upd_rel(Hp(vw.pre), Hp(vw.post), vw.self.e, strict=False)] + [Hp(vw.post).stale[vw.self.e], Inv(Hp(vw.post))]]
    return c


def exc_post(vw):
    """a raising evaluation leaves the node stale (it will be re-evaluated, and raise again, on the next read) and the invariant intact"""
    a, b, n = Hp(vw.pre), Hp(vw.post), vw.self.e
    return upd_rel(a, b, n, strict=False)[:5] + [("a node whose evaluation raised stays stale", b.stale[n])] + inv_parts(b)


def update_post(vw, leafcls=False):
    if vw.flow == "raise":
        return exc_post(vw)
    a, b, n = Hp(vw.pre), Hp(vw.post), vw.self.e
    out = upd_rel(a, b, n, strict=False) + [("the node is fresh afterwards", z3.Not(b.stale[n]))] + inv_parts(b)
    if not leafcls:
        out.append(("children were refreshed first", z3.ForAll([N], z3.Implies(a.child[n][N], fresh_(b, N)))))
    return out


def call_funh(e, st, f, args, node):
    """model of `self._func(*self._par_cache)`: the node's definition on the current values; ghost evaluation counter +1"""
    me_ = st.locals["self"]
    h = Hp(st)
    st.set_h("#evals", "int", "", z3.Store(h.evals, me_.e, h.evals[me_.e] + 1))
    if e.decide(st, ("user-function-raises", getattr(e, "_ctx", ()), id(node)), fresh("definition_raises", B)):
        raise PyRaise("Exception")
    return VVal(defn(me_.e, h.func[me_.e], h.child[me_.e], h.val))


def u_update(root):
    eng = mk_engine(root)
    c_update(eng)
    c_value_getter(eng)
    eng.call_funh = call_funh
    pre_upd = [lambda vw: z3.And(z3.Not(Hp(vw.pre).frozen[vw.self.e]), Hp(vw.pre).stale[vw.self.e])]
    # leaves: NodeBase.update
    for cls in ("Parameter", "ValueNode"):
        preserves(eng, cls, "update", extra_req=pre_upd, extra_post=lambda vw, a, b: update_post(vw, True)[:8])
    # Alias: value of its single child
    alias_shape = [lambda vw: z3.Exists([N], z3.And(Hp(vw.pre).child[vw.self.e][N], z3.ForAll([x], z3.Implies(Hp(vw.pre).child[vw.self.e][x], x == N))))]
    inline(eng, "Alias", "ref")
    def alias_post(vw, a, b):
        n = vw.self.e
        # explicit instance of the alias axiom at (n, func, children, final values)
        vw.post.assume(z3.ForAll([N], z3.Implies(z3.And(isalias(n), b.child[n][N], z3.ForAll([x], z3.Implies(b.child[n][x], x == N))), defn(n, b.func[n], b.child[n], b.val) == b.val[N])))
        return update_post(vw)[:8] + update_post(vw)[-1:]
    preserves(eng, "Alias", "update", extra_req=pre_upd + alias_shape, extra_post=alias_post)

    # Function: children first, then parameters' values, then the definition once
    def comp_params(e, st, n):
        me_ = st.locals["self"]
        h = Hp(st)
        e.oblige("pre@parameter values are read from fresh nodes (no recomputation inside the comprehension)", st, z3.ForAll([N], z3.Implies(h.params[me_.e][N], fresh_(h, N))))
        return VOpaque("par_cache")
    eng.comp_models["[_par.value for _par in self._parameters]"] = comp_params
    c = Contract("Function", "update")
    c.requires.append(lambda vw: z3.And(*tag_self("Function"), Inv(Hp(vw.pre)), z3.Not(Hp(vw.pre).frozen[vw.self.e]), Hp(vw.pre).stale[vw.self.e]))

    def inv(e, s):
        a, b = Hp(s.locals["#entry0"]), Hp(s)
        n, vis = s.locals["self"].e, s.locals["#vis0"]
        return z3.And(*[g for _, g in upd_rel(a, b, n, strict=True)], Inv(b), z3.ForAll([N], z3.Implies(vis.has(N), z3.And(a.child[n][N], fresh_(b, N)))))
    c.loops[0] = inv
    c.ensures.append(lambda vw: update_post(vw) + ([] if vw.flow == "raise" else [("the definition is evaluated exactly once for this node", Hp(vw.post).evals[vw.self.e] == Hp(vw.pre).evals[vw.self.e] + 1)]))
    eng.verify("Function", "update", contract=c)
    return eng


def u_value_getter(root):
    eng = mk_engine(root)
    c_update(eng)
    for cls in ("Function", "Parameter", "Alias"):
        c = Contract(cls, "value", "getter")
        c.requires.append(lambda vw, cls=cls: z3.And(*tag_self(cls), Inv(Hp(vw.pre))))

        def post(vw):
            a, b, n = Hp(vw.pre), Hp(vw.post), vw.self.e
            if vw.flow == "raise":
                return exc_post(vw)
            return upd_rel(a, b, n, strict=False) + [("the node is fresh (not stale, or frozen) after the read", fresh_(b, n)), ("the read returns the cached value", vw.result.e == b.val[n]),
                                                     ("a read of a fresh node recomputes nothing", z3.Implies(fresh_(a, n), z3.And(b.stale == a.stale, b.val == a.val, b.evals == a.evals)))] + inv_parts(b)
        c.ensures.append(post)
        eng.verify(cls, "value", "getter", contract=c)
    return eng


# ---------------------------------------------------------------- structural operations
def edge_add(h, P_, N_):
    return z3.Store(h.child, P_, z3.Store(h.child[P_], N_, z3.BoolVal(True)))


def c_add_parent(eng):
    c = mk(eng, NODE, "add_parent")
    c.raises = lambda vw: ("ValueError", z3.Not(Hp(vw.pre).child[vw.args["node"].e][vw.self.e]))
    c.modifies = [("_parents", "refset", "")]
    c.ensures.append(lambda vw: [Hp(vw.post).parent == z3.Store(Hp(vw.pre).parent, vw.self.e, z3.Store(Hp(vw.pre).parent[vw.self.e], vw.args["node"].e, z3.BoolVal(True)))])
    return c


def c_remove_parent(eng):
    c = mk(eng, NODE, "remove_parent")
    c.raises = lambda vw: ("ValueError", Hp(vw.pre).child[vw.args["node"].e][vw.self.e])
    c.requires.append(lambda vw: Hp(vw.pre).parent[vw.self.e][vw.args["node"].e])        # else KeyError from set.remove (excluded by S at every call site)
    c.modifies = [("_parents", "refset", "")]
    c.ensures.append(lambda vw: [Hp(vw.post).parent == z3.Store(Hp(vw.pre).parent, vw.self.e, z3.Store(Hp(vw.pre).parent[vw.self.e], vw.args["node"].e, z3.BoolVal(False)))])
    return c


def struct_parts(h):
    """what node-level structural operations re-establish (acyclicity is the job of Nexus.add* / NodeCycleChecker)"""
    return [("S: edge symmetry", inv_S(h)), ("I: a stale node has only stale or frozen parents", inv_I(h)), ("J: every fresh non-leaf node caches its definition on the current values", inv_J(h)),
            ("Sync: parameters are children", inv_Sync(h)), ("root stays stale and parentless", inv_root(h))]


def InvNoA(h):
    return z3.And(inv_S(h), inv_I(h), inv_J(h), inv_Sync(h), inv_root(h))


def InvNoSync(h):
    return z3.And(inv_S(h), inv_I(h), inv_J(h), inv_root(h))


def structural(eng, cls, name, kind=None, init=None, req=(), post=None, tag=None):
    c = Contract(cls, name, kind)
    c.requires.append(lambda vw: z3.And(*tag_self(cls), InvNoA(Hp(vw.pre))))
    if cls != "Function":
        c.requires.append(lambda vw: Hp(vw.pre).params[vw.self.e] == EMPTY)       # only Function nodes have _parameters
    c.requires += list(req)

    def p_(vw):
        a, b = Hp(vw.pre), Hp(vw.post)
        out = post(vw, a, b) if post else []
        if vw.flow != "raise":
            out = out + struct_parts(b)
        return out
    c.ensures.append(p_)
    eng.verify(cls, name, kind, init, contract=c, tag=tag)


def node_arg(name, cls="ValueNode"):
    return VRef(z3.Const(name, Ref), cls)


def u_edges(root):
    eng = mk_engine(root)
    c_mark_for_update(eng)
    c_notify_parents(eng)
    nd = node_arg("node")
    other = [lambda vw: z3.And(nd.e != NULL, z3.Not(isroot(nd.e)), nd.e != vw.self.e)]
    # add_parent / remove_parent bodies (guards)
    for cls in ("Function",):
        c = Contract(cls, "add_parent")
        c.ensures.append(lambda vw: [("rejected (ValueError) exactly when the node is not already a child of the new parent", z3.Not(Hp(vw.pre).child[nd.e][vw.self.e])), ("nothing changed", Hp(vw.post).parent == Hp(vw.pre).parent)] if vw.flow == "raise" else
                         [("accepted only if the edge exists on the parent's side", Hp(vw.pre).child[nd.e][vw.self.e]), ("parent recorded", Hp(vw.post).parent == z3.Store(Hp(vw.pre).parent, vw.self.e, z3.Store(Hp(vw.pre).parent[vw.self.e], nd.e, z3.BoolVal(True))))])
        eng.verify(cls, "add_parent", None, lambda e, st, me_: {"node": VRef(nd.e, NODE)}, contract=c)
        c = Contract(cls, "remove_parent")
        c.requires.append(lambda vw: Hp(vw.pre).parent[vw.self.e][nd.e])
        c.ensures.append(lambda vw: [("rejected (ValueError) exactly when the parent still lists the node as a child", Hp(vw.pre).child[nd.e][vw.self.e]), ("nothing changed", Hp(vw.post).parent == Hp(vw.pre).parent)] if vw.flow == "raise" else
                         [("accepted only after the parent dropped the child", z3.Not(Hp(vw.pre).child[nd.e][vw.self.e])), ("parent removed", Hp(vw.post).parent == z3.Store(Hp(vw.pre).parent, vw.self.e, z3.Store(Hp(vw.pre).parent[vw.self.e], nd.e, z3.BoolVal(False))))])
        eng.verify(cls, "remove_parent", None, lambda e, st, me_: {"node": VRef(nd.e, NODE)}, contract=c)
    c_add_parent(eng)
    c_remove_parent(eng)
    # add_child
    for cls in ("Function", "RootNode", "Parameter"):
        structural(eng, cls, "add_child", init=lambda e, st, me_: {"node": nd}, req=other,
                   post=lambda vw, a, b: [("no exception for a node argument", z3.BoolVal(vw.flow != "raise")), ("edge added on both sides", z3.And(b.child == edge_add(a, vw.self.e, nd.e), b.parent[nd.e][vw.self.e])),
                                          ("receiver told: Parameter, frozen or stale afterwards", done(b, vw.self.e)), ("values untouched", same(a, b, "val", "frozen", "func", "params", "evals"))])
    # remove_child (for a Function: not one of its parameters)
    for cls in ("Function", "RootNode"):
        structural(eng, cls, "remove_child", init=lambda e, st, me_: {"node": nd}, req=other + [lambda vw: z3.And(Hp(vw.pre).child[vw.self.e][nd.e], z3.Not(Hp(vw.pre).params[vw.self.e][nd.e]))],
                   post=lambda vw, a, b: [("no exception when the edge exists", z3.BoolVal(vw.flow != "raise")),
                                          ("edge removed on both sides", z3.And(b.child == z3.Store(a.child, vw.self.e, z3.Store(a.child[vw.self.e], nd.e, z3.BoolVal(False))), z3.Not(b.parent[nd.e][vw.self.e]))),
                                          ("receiver told", done(b, vw.self.e)), ("values untouched", same(a, b, "val", "frozen", "func", "params", "evals"))])
    return eng


def u_replace_child(root):
    eng = mk_engine(root)
    c_mark_for_update(eng)
    c_add_parent(eng)
    c_remove_parent(eng)
    cur, new = node_arg("current_child"), node_arg("new_child")
    req = [lambda vw: z3.And(cur.e != NULL, new.e != NULL, cur.e != new.e, new.e != vw.self.e, cur.e != vw.self.e, z3.Not(isroot(new.e)), z3.Not(isroot(cur.e)))]

    def post(vw, a, b):
        n = vw.self.e
        if vw.flow == "raise":
            return [("rejected (ValueError) exactly when current_child is not a child", z3.Not(a.child[n][cur.e])), ("rejected call changes nothing", same(a, b, "child", "parent", "params", "stale", "val", "frozen", "func"))]
        moved = z3.Store(z3.Store(a.child[n], cur.e, z3.BoolVal(False)), new.e, z3.BoolVal(True))
        return [("accepted only for an existing child", a.child[n][cur.e]), ("children: current replaced by new", b.child == z3.Store(a.child, n, moved)),
                ("back edges moved", z3.And(b.parent[new.e][n], z3.Not(b.parent[cur.e][n]))),
                ("parameters of a Function follow the replacement (other classes have none)", b.params[n] == z3.If(a.params[n][cur.e], z3.Store(z3.Store(a.params[n], cur.e, z3.BoolVal(False)), new.e, z3.BoolVal(True)), a.params[n])),
                ("receiver told", done(b, n)), ("values untouched", same(a, b, "val", "frozen", "func", "evals"))]
    for cls in ("Function", "Tuple", "RootNode"):
        structural(eng, cls, "replace_child", init=lambda e, st, me_: {"current_child": cur, "new_child": new}, req=req, post=post)
    return eng


def c_replace_child(eng):
    """replace_child as used by replace(): generic receiver (NodeBase body or Function override)"""
    c = mk(eng, NODE, "replace_child")
    c.requires.append(lambda vw: z3.And(InvNoA(Hp(vw.pre)), Hp(vw.pre).child[vw.self.e][vw.args["current_child"].e], vw.args["current_child"].e != vw.args["new_child"].e))
    c.modifies = [("_children", "refset", ""), ("_parameters", "refset", ""), ("_parents", "refset", "", "all"), ("_stale", "bool", "", "all")]

    def ens(vw):
        a, b, n, cu, ne = Hp(vw.pre), Hp(vw.post), vw.self.e, vw.args["current_child"].e, vw.args["new_child"].e
        moved = z3.Store(z3.Store(a.child[n], cu, z3.BoolVal(False)), ne, z3.BoolVal(True))
        par = z3.Store(z3.Store(a.parent, ne, z3.Store(a.parent[ne], n, z3.BoolVal(True))), cu, z3.Store(z3.If(ne == cu, a.parent[cu], z3.Store(a.parent, ne, z3.Store(a.parent[ne], n, z3.BoolVal(True)))[cu]), n, z3.BoolVal(False)))
        return [b.child == z3.Store(a.child, n, moved), b.parent == par, mono_stale(a, b), same(a, b, "val", "frozen", "func", "evals"), done(b, n), InvNoA(b),
                z3.ForAll([x], z3.Implies(x != n, b.params[x] == a.params[x]))]
    c.ensures.append(ens)
    return c


def u_replace(root):
    eng = mk_engine(root)
    c_replace_child(eng)
    eng.loop_havoc = [("_stale", "bool", ""), ("_children", "refset", ""), ("_parents", "refset", ""), ("_parameters", "refset", "")]
    oth = node_arg("other")

    def inv(e, s):
        a, b = Hp(s.locals["#entry0"]), Hp(s)
        n, vis = s.locals["self"].e, s.locals["#vis0"]
        return z3.And(InvNoA(b), mono_stale(a, b), same(a, b, "val", "frozen", "func", "evals"),
                      z3.ForAll([P], z3.Implies(vis.has(P), z3.And(a.parent[n][P], z3.Not(b.child[P][n]), b.child[P][oth.e], done(b, P)))),
                      z3.ForAll([P], z3.Implies(z3.And(a.parent[n][P], z3.Not(vis.has(P))), b.child[P][n])),
                      z3.ForAll([P, N], z3.Implies(z3.And(N != n, N != oth.e), b.child[P][N] == a.child[P][N])),
                      z3.ForAll([P], z3.Implies(z3.Not(a.parent[n][P]), z3.And(b.child[P][n] == a.child[P][n], b.child[P][oth.e] == a.child[P][oth.e]))))
    for cls in ("Tuple", "Parameter", "Function"):
        c = Contract(cls, "replace")
        c.requires.append(lambda vw, cls=cls: z3.And(*tag_self(cls), InvNoA(Hp(vw.pre)), oth.e != NULL, oth.e != vw.self.e, z3.Not(isroot(oth.e))))
        c.loops[0] = inv

        def post(vw):
            a, b, n = Hp(vw.pre), Hp(vw.post), vw.self.e
            return [("every former parent now has `other` instead of this node", z3.ForAll([P], z3.Implies(a.parent[n][P], z3.And(z3.Not(b.child[P][n]), b.child[P][oth.e])))),
                    ("this node keeps no parents", z3.ForAll([P], z3.Not(b.parent[n][P]))), ("every former parent was told", z3.ForAll([P], z3.Implies(a.parent[n][P], done(b, P)))),
                    ("unrelated edges untouched", z3.ForAll([P, N], z3.Implies(z3.And(N != n, N != oth.e), b.child[P][N] == a.child[P][N]))), ("values untouched", same(a, b, "val", "frozen", "func", "evals"))] + struct_parts(b)
        c.ensures.append(post)
        if cls == "Function":     # Function.replace delegates to NodeBase.replace (verified above for Tuple/Parameter receivers): by contract
            nb = mk(eng, NODE, "replace")
            nb.requires.append(lambda vw: z3.And(InvNoA(Hp(vw.pre)), vw.args["other"].e != NULL, vw.args["other"].e != vw.self.e))
            nb.modifies = [("_children", "refset", "", "all"), ("_parameters", "refset", "", "all"), ("_parents", "refset", "", "all"), ("_stale", "bool", "", "all")]
            nb.ensures.append(lambda vw: [g for _, g in post(vw)])
        eng.verify(cls, "replace", None, lambda e, st, me_: {"other": oth, "other_children": VBool(z3.BoolVal(True))}, contract=c)
    return eng


def u_function_edits(root):
    eng = mk_engine(root)
    c_mark_for_update(eng)
    c_notify_parents(eng)
    c_add_parent(eng)
    newf = VFunH(z3.Const("function_handle", Fun))
    structural(eng, "Function", "func", "setter", init=lambda e, st, me_: {"function_handle": newf},
               post=lambda vw, a, b: [("function replaced", b.func == z3.Store(a.func, vw.self.e, newf.e)), ("node recomputed on next read", b.stale[vw.self.e]),
                                      ("every parent is told", z3.ForAll([P], z3.Implies(a.parent[vw.self.e][P], done(b, P)))), ("values and edges untouched", same(a, b, "val", "child", "parent", "params", "frozen", "evals"))])
    nd = node_arg("parameter")
    mk(eng, NODE, "add_child", modifies=[("_children", "refset", ""), ("_parents", "refset", "", "all"), ("_stale", "bool", "", "all")],
       ensures=[lambda vw: [Hp(vw.post).child == edge_add(Hp(vw.pre), vw.self.e, vw.args["node"].e), Hp(vw.post).parent == z3.Store(Hp(vw.pre).parent, vw.args["node"].e, z3.Store(Hp(vw.pre).parent[vw.args["node"].e], vw.self.e, z3.BoolVal(True))),
                            mono_stale(Hp(vw.pre), Hp(vw.post)), done(Hp(vw.post), vw.self.e), InvNoSync(Hp(vw.post)), same(Hp(vw.pre), Hp(vw.post), "val", "frozen", "func", "params", "evals")]],
       requires=[lambda vw: InvNoSync(Hp(vw.pre))])
    structural(eng, "Function", "add_parameter", init=lambda e, st, me_: {"parameter": nd}, req=[lambda vw: z3.And(nd.e != NULL, nd.e != vw.self.e, z3.Not(isroot(nd.e)))],
               post=lambda vw, a, b: [("parameter recorded and made a child", z3.And(b.params[vw.self.e][nd.e], b.child[vw.self.e][nd.e], b.parent[nd.e][vw.self.e])), ("receiver told", done(b, vw.self.e))])
    return eng


def u_tuple(root):
    eng = mk_engine(root)
    c_mark_for_update(eng)
    c_add_parent(eng)
    c_remove_parent(eng)
    item = node_arg("item")
    structural(eng, "Tuple", "__setitem__", init=lambda e, st, me_: {"index": VNum(z3.Int("index")), "item": item},
               req=[lambda vw: z3.And(item.e != NULL, item.e != vw.self.e, z3.Not(isroot(item.e)), z3.Exists([x], Hp(vw.pre).child[vw.self.e][x]))],
               post=lambda vw, a, b: [("the new element is a child with a back edge", z3.And(b.child[vw.self.e][item.e], b.parent[item.e][vw.self.e])), ("the tuple is told", done(b, vw.self.e)),
                                      ("no other node's edges change", z3.ForAll([P], z3.Implies(P != vw.self.e, b.child[P] == a.child[P]))), ("values untouched", same(a, b, "val", "frozen", "func", "evals"))])
    return eng


def u_tuple_update(root):
    eng = mk_engine(root)
    c_value_getter(eng)
    inline(eng, "Tuple", "nodes")
    eng.to_val_hook = lambda e, v, st: VVal(defn(st.locals["self"].e, Hp(st).func[st.locals["self"].e], Hp(st).child[st.locals["self"].e], Hp(st).val))
    c = Contract("Tuple", "update")
    c.requires.append(lambda vw: z3.And(*tag_self("Tuple"), Inv(Hp(vw.pre)), z3.Not(Hp(vw.pre).frozen[vw.self.e]), Hp(vw.pre).stale[vw.self.e], Hp(vw.pre).params[vw.self.e] == EMPTY))

    def inv(e, s):
        a, b = Hp(s.locals["#centry0"]), Hp(s)
        n, vis = s.locals["self"].e, s.locals["#cvis0"]
        return z3.And(*[g for _, g in upd_rel(a, b, n, strict=True)], Inv(b), z3.ForAll([N], z3.Implies(vis.has(N), z3.And(a.child[n][N], fresh_(b, N)))))
    c.loops[("comp", 0)] = inv
    c.ensures.append(lambda vw: update_post(vw))
    eng.verify("Tuple", "update", contract=c)
    return eng


def u_set_children(root):
    eng = mk_engine(root)
    c_mark_for_update(eng)
    c_add_parent(eng)
    eng.loop_havoc = [("_parents", "refset", "")]
    kids = VSet(z3.Const("children", SetSort), "ValueNode")

    def inv0(e, s):
        a, b = Hp(s.locals["#entry0"]), Hp(s)
        return z3.And(same(a, b, "parent", "child", "stale", "val", "frozen", "func", "params"), z3.ForAll([x], s.locals["_new_children"].has(x) == s.locals["#vis0"].has(x)), z3.ForAll([x], z3.Implies(s.locals["#vis0"].has(x), kids.has(x))))

    def inv1(e, s):
        a, b = Hp(s.locals["#entry1"]), Hp(s)
        n, vis = s.locals["self"].e, s.locals["#vis1"]
        return z3.And(same(a, b, "child", "stale", "val", "frozen", "func", "params"), z3.ForAll([x], z3.Implies(vis.has(x), kids.has(x))),
                      z3.ForAll([N, P], b.parent[N][P] == z3.Or(a.parent[N][P], z3.And(P == n, vis.has(N)))))
    for cls in ("Function", "Tuple"):
        c = Contract(cls, "set_children")
        c.requires.append(lambda vw, cls=cls: z3.And(*tag_self(cls), InvNoA(Hp(vw.pre)), Hp(vw.pre).child[vw.self.e] == EMPTY, z3.Not(kids.has(vw.self.e)), z3.ForAll([x], z3.Implies(kids.has(x), z3.Not(isroot(x)))),
                                                     z3.ForAll([x], z3.Implies(Hp(vw.pre).params[vw.self.e][x], kids.has(x)))))
        c.loops[0], c.loops[1] = inv0, inv1

        def post(vw):
            a, b, n = Hp(vw.pre), Hp(vw.post), vw.self.e
            return [("children' = the given nodes", z3.ForAll([x], b.child[n][x] == kids.has(x))), ("every new child has a back edge", z3.ForAll([x], z3.Implies(kids.has(x), b.parent[x][n]))),
                    ("other nodes' children untouched", z3.ForAll([P], z3.Implies(P != n, b.child[P] == a.child[P]))), ("receiver told", done(b, n)), ("values untouched", same(a, b, "val", "frozen", "func", "params", "evals"))] + struct_parts(b)
        c.ensures.append(post)
        eng.verify(cls, "set_children", None, lambda e, st, me_: {"children": kids}, contract=c)
    return eng

def units(root):
    return [Unit("mark_for_update", u_mark_for_update), Unit("notify_parents", u_notify_parents), Unit("freeze/unfreeze", u_freeze), Unit("value setter", u_value_setter),
            Unit("update", u_update), Unit("value getter", u_value_getter), Unit("add/remove child/parent", u_edges), Unit("replace_child", u_replace_child),
            Unit("replace", u_replace), Unit("Function.func / add_parameter", u_function_edits), Unit("Tuple.__setitem__", u_tuple),
            Unit("Tuple.update", u_tuple_update), Unit("set_children", u_set_children)]
