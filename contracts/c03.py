"""C03 - Fit observables depend only on the current configuration, not on its history   (invalidation completeness and frames).

With C04 (a marked node and everything that depends on it is recomputed on the next read) and C02 (container / source caches), history
independence of a fit reduces to contracts at the boundary between the fit's mutable parts and the graph:

  registry     the real _init_nexus of every fit type is executed on a recording graph: which nodes exist, which getter each property node
               wraps, which dependencies are declared.  From it: every name in _BASIC_ERROR_NAMES is a registered node; every
               (axis x {data, model} x {error, cov_mat}) property node is in that table; the model node and the model-uncertainty nodes depend
               on 'parameter_values'; the constraint node has no parent (so it can only be invalidated by marking it).
  sources      container / parametric-model mutators (add, disable, enable) end in _on_error_change, which clears the total cache and calls the
               fit's callback; FitBase._on_error_change marks EVERY node of the table, resets the minimizer and points it at the general cost.
  data         FitBase.data: the new container and the new parametric model both deliver their changes to the fit; every property node computed
               from the old container / model is marked, the minimizer is reset and points at the general cost; a rejected assignment restores.
  constraints  add_parameter_constraint / add_matrix_parameter_constraint append one constraint and mark the node that hides the list.
  parameters   set_parameter_values / set_all_parameter_values / fix_parameter go through the fitter (C19: nodes and minimizer both assigned) and
               push the values into the parametric model.
  do_fit       typestate: every node frozen before a minimisation is updated first and is unfrozen, updated and announced to its parents after it,
               with the same list; brackets are balanced on every path; stored results from a file are dropped; the pointwise cost function is
               chosen iff the total covariance is diagonal.
  reads        every public read-only property of the fit classes is executed on recording parts: it marks nothing, assigns no attribute of the fit
               and of its container, and writes to the parametric model only the CURRENT parameter values / x values (the lazy push).
"""
import ast
import z3
from .base import *

FILES = ["kafe2/fit/_base/fit.py", "kafe2/fit/xy/fit.py", "kafe2/fit/indexed/fit.py", "kafe2/fit/histogram/fit.py", "kafe2/fit/unbinned/fit.py", "kafe2/fit/_base/container.py", "kafe2/fit/_base/model.py"]
META = {
    "level": "proof",
    "trusted_base": [
        "the graph (C04): marking a node makes the next read of it and of every node that depends on it recompute; freeze / unfreeze / update / notify_parents as verified there",
        "container, source and parametric-model caches (C02); NexusFitter.set_fit_parameter_values assigns nodes and minimizer (C19); minimizer queries restore the point (C08)",
        "functools.partial(getattr(cls, prop).fget, obj) is the getter of property `prop` bound to obj (registration of property nodes)",
        "the parts of a fit (container, parametric model, fitter, cost function, formatters) are recording stand-ins in these units: what they compute is the subject of C01 / C02 / C07 / C10",
    ],
    "assumptions": ["closed world: the four fit classes shipped with kafe2 (custom and multi fits: C11 / native)", "string operations on node names are executed concretely (names are literals and joins of literals)"],
    "bounded": [{"what": "histories of public operations with interleaved reads on real fits: end state vs. the same operations without reads, and vs. a new fit brought directly to the same configuration",
                 "bound": "native: 4 fit types x 2 back ends x 2 dynamic-error algorithms x sequences of <= 3 (quick) / <= 5 (thorough) operations over a 23-operation alphabet"}],
}
CLASSES = ("XYFit", "IndexedFit", "HistFit", "UnbinnedFit")


class Fn(V):
    def __init__(self, fn):
        self.fn = fn

    def vcall(self, e, st, a, kw):
        return self.fn(e, st, a, kw)


def log(st, *item):
    st.ghost = dict(st.ghost)
    st.ghost["fx"] = st.ghost.get("fx", ()) + (item,)


def fx(vw_or_st, kind=None):
    st = vw_or_st.post if hasattr(vw_or_st, "post") else vw_or_st
    return [x for x in st.ghost.get("fx", ()) if kind is None or x[0] == kind]


class Part(V):
    """a recording stand-in for one part of a fit: attribute reads, attribute assignments and method calls are logged; results are opaque
    (or supplied through `results`)"""

    def __init__(self, name, results=None):
        self.name, self.results = name, results or {}

    def vattr(self, e, st, attr):
        if attr in self.results:
            r = self.results[attr]
            if isinstance(r, Fn):
                return Fn(lambda e_, st_, a, kw, r=r: (log(st_, "call", self.name, attr, tuple(a), dict(kw)), r.fn(e_, st_, a, kw))[1])
            log(st, "read", self.name, attr)
            return r(e, st) if callable(r) else r
        log(st, "read", self.name, attr)
        return Val(self.name + "." + attr)

    def vsetattr(self, e, st, attr, v):
        log(st, "set", self.name, attr, v)


class Val(V):
    """an opaque value read from a part: callable (the call is logged as a call of that attribute), subscriptable, usable in arithmetic"""

    absorbing = True

    def __init__(self, tag):
        self.tag = tag

    def absorb(self, what):
        return Val(what + "(" + self.tag + ")")

    def vcall(self, e, st, a, kw):
        owner, _, attr = self.tag.rpartition(".")
        log(st, "call", owner, attr, tuple(a), dict(kw))
        return Val(self.tag + "()")

    def vattr(self, e, st, attr):
        return Val(self.tag + "." + attr)

    def vsub(self, e, st, n):
        return Val(self.tag + "[]")

    def vtruth(self, e):
        return z3.Bool("truth:" + self.tag)


class RecNexus(V):
    """recording graph: add / add_function / add_dependency / add_alias are logged; get(name) gives a VNode whose protocol calls are logged by the engine"""

    def vattr(self, e, st, attr):
        if attr == "get":
            return Fn(lambda e_, st_, a, kw: VNode(a[0].s if a else kw["node_name"].s, 0))
        if attr in ("add", "add_function", "add_dependency", "add_alias"):
            def call(e_, st_, a, kw, attr=attr):
                log(st_, "nexus", attr, tuple(a), dict(kw))
                nm = kw.get("func_name") or kw.get("name")
                if attr == "add" and a and isinstance(a[0], Val):
                    return a[0]
                return VNode(nm.s, 0) if isinstance(nm, VStr) else Val("node")
            return Fn(call)


def strs(v):
    if isinstance(v, VStr):
        return (v.s,)
    if isinstance(v, VTuple):
        return tuple(x.s for x in v.items)
    if isinstance(v, VNone) or v is None:
        return ()
    if isinstance(v, VSeq) and z3.is_int_value(z3.simplify(v.len)) and z3.simplify(v.len).as_long() == 0:
        return ()          # the empty list literal
    raise Unsupported("names: " + type(v).__name__)


def class_table(eng, cls, name):
    """a class-level literal (set / list / tuple of strings) through the real MRO"""
    for c in eng.repo.mro(cls):
        for stmt in eng.repo.classes[c][1].body:
            if isinstance(stmt, ast.Assign) and any(isinstance(t, ast.Name) and t.id == name for t in stmt.targets):
                return ast.literal_eval(stmt.value)
    raise Unsupported(f"{cls}.{name} not found")


SCHEMA = {"FitBase": {"_nexus": PYOBJ, "_fitter": PYOBJ, "_data_container": PYOBJ, "_param_model": PYOBJ, "_model_function": PYOBJ, "_cost_function": PYOBJ, "_cost_function_pointwise": PYOBJ, "_fit_param_names": PYOBJ,
                      "_fit_param_names_bad_default": PYOBJ, "_fit_param_constraints": PYOBJ, "_implicit_no_errors": BOOL, "_loaded_result_dict": PYOBJ, "_dynamic_error_algorithm": PYOBJ, "_slow_chi2_warning_printed": BOOL,
                      "_dynamic_error_warning_printed": BOOL}}


def fit_engine(root, extra_schema=None):
    schema = {k: dict(v) for k, v in SCHEMA.items()}
    for k, v in (extra_schema or {}).items():
        schema.setdefault(k, {}).update(v)
    eng = engine(root, FILES, schema, [])
    eng.consts = {"np": VLib("np"), "six": VLib("six"), "warnings": VLib("warnings")}
    eng.lib["six.iteritems"] = lambda e, st, a, kw, node: VTuple([VTuple([VStr(k_), v_]) for k_, v_ in a[0].d.items()])
    eng.lib["check_numerical_range"] = lambda e, st, a, kw, node: VNone()
    return eng


# ------------------------------------------------------------------ registry: the real _init_nexus on a recording graph
def registry(eng, cls):
    """execute cls._init_nexus (with the base-class body inlined through super()) and return the log of graph registrations"""
    props = []
    mk(eng, "FitBase", "_add_property_to_nexus", result=lambda vw: (props.append((vw.args["prop"].s, strs(vw.args.get("depends_on")), vw.args.get("obj"))), log(vw.post, "nexus", "property", (vw.args["prop"],), {"depends_on": vw.args.get("depends_on")}),
                                                                      VNode(vw.args["prop"].s, 0))[2])
    mk(eng, "FitBase", "_init_cost_function", result=lambda vw: VNone())
    inline(eng, "FitBase", "parameter_constraints")
    if cls != "FitBase":
        mk(eng, "FitBase", "_init_nexus", inline=True)
    eng.consts.update({"Parameter": Fn(lambda e, st, a, kw: Val("Parameter:" + kw["name"].s)), "Array": Fn(lambda e, st, a, kw: Val("Array:" + kw["name"].s)), "Nexus": Fn(lambda e, st, a, kw: RecNexus()),
                       "cholesky_decomposition": Val("cholesky_decomposition"), "qr_decomposition": Val("qr_decomposition"), "log_determinant_pointwise": Val("log_determinant_pointwise")})
    eng.lib["set"] = lambda e, st, a, kw, node: VPySet(frozenset(x.s for x in a[0].items)) if a else VPySet(frozenset())
    out = {}

    def init(e, st, me_):
        e.write_field(st, me_, "_model_function", Part("model_function", {"defaults_dict": VDict({"a": VNum(z3.Real("default_a")), "b": VNum(z3.Real("default_b"))}), "name": VStr("my_model"),
                                                                           "parameters_with_good_defaults": VPySet(frozenset(["a"]))}))
        e.write_field(st, me_, "_fit_param_names", VTuple([]))
        return {}
    c = Contract(cls, "_init_nexus")

    def post(vw):
        out["log"] = [x for x in fx(vw, "nexus")]
        out["flow"] = vw.flow
        return [("the graph is set up without an exception", z3.BoolVal(vw.flow != "raise"))]
    c.ensures.append(post)
    eng.verify(cls, "_init_nexus", None, init, contract=c, tag=f"[{cls}]")
    nodes, deps, aliases = {}, {}, {}
    for _, kind, a, kw in out.get("log", []):
        if kind == "property":
            nodes[a[0].s] = "property"
            deps.setdefault(a[0].s, set()).update(strs(kw.get("depends_on")))
        elif kind == "add_function":
            nm = kw["func_name"].s
            nodes[nm] = "function"
            deps[nm] = set(strs(kw.get("par_names")))          # a replaced function node takes the new parameter list
        elif kind == "add":
            nm = a[0].tag.split(":", 1)[1]
            nodes[nm] = "parameter"
        elif kind == "add_dependency":
            nm = (a[0] if a else kw["name"]).s
            deps.setdefault(nm, set()).update(strs(kw.get("depends_on", a[1] if len(a) > 1 else None)))
        elif kind == "add_alias":
            aliases[(a[0] if a else kw["name"]).s] = kw["alias_for"].s
    return nodes, deps, aliases


def closure(deps, name):
    seen, todo = set(), [name]
    while todo:
        x = todo.pop()
        for d in deps.get(x, ()):
            if d not in seen:
                seen.add(d)
                todo.append(d)
    return seen


def axes_names(eng, cls, suffixes=("_error", "_cov_mat"), types=("data", "model")):
    out = []
    for axis in class_table(eng, cls, "_AXES"):
        for t in types:
            for s in suffixes:
                out.append(t + s if axis is None else "_".join((axis, t)) + s)
    return out


def u_registry(root):
    eng = fit_engine(root)
    for cls in CLASSES:
        nodes, deps, aliases = registry(eng, cls)
        table = set(class_table(eng, cls, "_BASIC_ERROR_NAMES"))
        model_name = class_table(eng, cls, "_MODEL_NAME")
        merr = list(class_table(eng, cls, "_MODEL_ERROR_NODE_NAMES"))
        L = lambda text, ok: eng.lemma(f"{cls}: {text}", [], z3.BoolVal(bool(ok)))
        if cls != "UnbinnedFit":            # (an unbinned fit has no uncertainty sources: its table is empty)
            L("every name in _BASIC_ERROR_NAMES is a registered node", table <= set(nodes))
            totals = [n_ for n_ in nodes if n_.endswith("total_error") or n_.endswith("total_cov_mat")]
            feeding = set().union(*[closure(deps, t_) for t_ in totals]) & set(axes_names(eng, cls))
            L("every {data, model} x {error, cov_mat} property node that feeds a total-uncertainty node is in _BASIC_ERROR_NAMES, the table _on_error_change marks", feeding and feeding <= table)
            dead = sorted(set(axes_names(eng, cls)) - feeding)
            if dead:
                eng.extraction_notes = getattr(eng, "extraction_notes", []) + [f"{cls}: registered but feeding no total-uncertainty node (not required in _BASIC_ERROR_NAMES): {dead}"]
        L("every such node exists", set(axes_names(eng, cls)) <= set(nodes))
        L(f"the model node '{model_name}' is registered and depends on 'parameter_values'", model_name in nodes and "parameter_values" in closure(deps, model_name))
        for n_ in merr:
            L(f"the model-uncertainty node '{n_}' depends on 'parameter_values' (model-relative sources follow the parameters)", n_ in nodes and "parameter_values" in closure(deps, n_))
        L("'parameter_constraints' is a function node without parents: only marking it invalidates what was computed from the constraint list", nodes.get("parameter_constraints") == "function" and not deps.get("parameter_constraints"))
        L("'parameter_values' is registered", "parameter_values" in nodes)
        for ax in [a for a in class_table(eng, cls, "_AXES")]:
            pre = "" if ax is None else ax + "_"
            L(f"'{pre}total_error' and '{pre}total_cov_mat' are computed in the graph from the {pre}model and {pre}data nodes (or, for xy data, from the per-axis totals, x_model and the parameters)",
              all(nm in nodes and ({pre + "model" + suf, pre + "data" + suf} <= deps.get(nm, set()) or {"x_total" + suf, "y_total" + suf, "x_model", "parameter_values"} <= deps.get(nm, set()))
                  for nm, suf in ((pre + "total_error", "_error"), (pre + "total_cov_mat", "_cov_mat"))))
            for t in ("data", "model", "total"):
                L(f"'{pre}{t}_cov_mat_inverse' depends on '{pre}{t}_cov_mat'", pre + t + "_cov_mat" in closure(deps, pre + t + "_cov_mat_inverse"))
        if cls == "XYFit":
            L("'y_model' depends on 'x_model', 'x_model' on 'x_data'", "x_model" in deps.get("y_model", ()) and "x_data" in deps.get("x_model", ()))
    return eng



# ------------------------------------------------------------------ sources: container -> fit -> graph
def marked(vw):
    return [c_[0] for c_ in vw.post.ghost.get("node_calls", ()) if c_[1] == "mark_for_update"]


def new_cost(name="chi2"):
    return Part("new_cost_function", {"name": VStr(name), "pointwise_version": Part("new_pointwise", {"name": VStr(name + "_pointwise")})})


def u_sources(root):
    eng = fit_engine(root, {"DataContainerBase": {"_on_error_change_callback": PYOBJ, "_error_dicts": PYOBJ}})
    # (1) the container side: every accepted source mutation ends in _on_error_change, which clears the cache and calls the fit
    for has_cb in (True, False):
        calls = []
        mk(eng, "DataContainerBase", "_clear_total_error_cache", result=lambda vw, calls=calls: (calls.append("clear"), log(vw.post, "clear"), VNone())[2])
        c = Contract("DataContainerBase", "_on_error_change")
        c.ensures.append(lambda vw, has_cb=has_cb: [("the cached total is dropped first", z3.BoolVal([x[0] for x in fx(vw)][:1] == ["clear"])),
                                                    ("the fit's callback is called exactly once, after that" if has_cb else "without a callback nothing else happens", z3.BoolVal([x[0] for x in fx(vw)] == (["clear", "callback"] if has_cb else ["clear"])))])
        eng.verify("DataContainerBase", "_on_error_change", None, lambda e, st, me_, has_cb=has_cb: (e.write_field(st, me_, "_on_error_change_callback", Fn(lambda e_, st_, a, kw: (log(st_, "callback"), VNone())[1]) if has_cb else VNone()), {})[1],
                   contract=c, tag=f"(callback={'set' if has_cb else 'None'})")
    mk(eng, "DataContainerBase", "_on_error_change", result=lambda vw: (log(vw.post, "changed"), VNone())[1])
    entry = VDict({"err": Val("source"), "enabled": VBool(z3.Bool("enabled0"))})
    known = z3.Bool("name_is_known")
    g = mk(eng, "DataContainerBase", "_get_error_by_name_raise", result=lambda vw: entry)
    g.raises = lambda vw: ("ValueError", z3.Not(known))
    for name, val in (("disable_error", False), ("enable_error", True)):
        c = Contract("DataContainerBase", name)

        def post(vw, val=val):
            if vw.flow == "raise":
                return [("an unknown name is rejected without announcing a change", z3.And(z3.Not(known), z3.BoolVal(not fx(vw, "changed"))))]
            return [("the flag of the named source is set", z3.BoolVal(isinstance(entry.d["enabled"], VBool) and z3.is_true(z3.simplify(entry.d["enabled"].e)) == val)), ("the change is announced exactly once, after the flag was set", z3.BoolVal(len(fx(vw, "changed")) == 1))]
        c.ensures.append(post)
        eng.verify("DataContainerBase", name, None, lambda e, st, me_: (entry.d.__setitem__("enabled", VBool(z3.Bool("enabled0"))), {"error_name": VStr("src")})[1], contract=c)
    # (2) the fit side: every node of the class's table is marked, the minimizer forgets its results and is pointed at the general cost function
    for cls in ("XYFit", "IndexedFit", "HistFit"):
        table = set(class_table(eng, cls, "_BASIC_ERROR_NAMES"))
        for implicit in (False, True):
            mk(eng, "FitBase", "_init_cost_function", result=lambda vw: (log(vw.post, "init_cost", show_kw(vw.args)), VNone())[1])
            eng.consts["STRING_TO_COST_FUNCTION"] = VDict({"chi2_covariance": VTuple([Fn(lambda e, st, a, kw: (log(st, "new_cost", dict(kw)), new_cost())[1]), VDict({"errors_to_use": VStr("covariance")})])})
            c = Contract(cls, "_on_error_change")

            def post(vw, table=table, implicit=implicit):
                trace = fx(vw)
                reset = [x for x in trace if x[0] == "call" and x[1] == "fitter" and x[2] == "reset_minimizer"]
                target = [x for x in trace if x[0] == "set" and x[1] == "fitter" and x[2] == "parameter_to_minimize"]
                cf = vw.f(vw.post, vw.self, "_cost_function")
                out = [("EVERY node of _BASIC_ERROR_NAMES is marked for update", z3.BoolVal(table <= set(marked(vw)))), ("the minimizer forgets its results", z3.BoolVal(len(reset) >= 1)),
                       ("the minimizer is pointed at the GENERAL cost function of the fit (a pointwise choice of an earlier do_fit is dropped), last of all", z3.BoolVal(len(target) >= 1 and isinstance(target[-1][3], VStr) and isinstance(cf, Part) and target[-1][3].s == cf.results["name"].s and trace[-1] is target[-1]))]
                if implicit:
                    out += [("the implicit no-uncertainty chi2 is replaced by the covariance chi2, re-registered with 'replace', and the flag is cleared",
                             z3.And(z3.BoolVal(isinstance(cf, Part) and cf.name == "new_cost_function" and any(x[0] == "init_cost" and x[1].get("existing_behavior") == "replace" for x in trace)
                                               and any(x[0] == "new_cost" and isinstance(x[1].get("errors_to_use"), VStr) and x[1]["errors_to_use"].s == "covariance" for x in trace)), z3.Not(vw.f(vw.post, vw.self, "_implicit_no_errors").e)))]
                else:
                    out += [("an explicit cost function stays", z3.BoolVal(isinstance(cf, Part) and cf.name == "cost_function" and not any(x[0] == "new_cost" for x in trace)))]
                return out
            c.ensures.append(post)

            def init(e, st, me_, implicit=implicit):
                e.write_field(st, me_, "_nexus", RecNexus())
                e.write_field(st, me_, "_fitter", Part("fitter"))
                e.write_field(st, me_, "_cost_function", Part("cost_function", {"name": VStr("chi2"), "pointwise_version": Part("pointwise", {"name": VStr("chi2_pointwise")})}))
                st.assume(e.read_field(st, me_, "_implicit_no_errors").e == implicit)
                return {}
            eng.verify(cls, "_on_error_change", None, init, contract=c, tag=f"[{cls},implicit_no_errors={implicit}]")
    return eng


def show_kw(args):
    return {k_: (v_.s if isinstance(v_, VStr) else v_) for k_, v_ in args.items()}



# ------------------------------------------------------------------ data replacement
def u_data(root):
    eng = fit_engine(root)
    eng.lib["deepcopy"] = lambda e, st, a, kw, node: Part("copy_of_" + a[0].name) if isinstance(a[0], Part) else a[0]
    eng.lib["isinstance"] = lambda e, st, a, kw, node: VBool(z3.BoolVal(isinstance(a[0], Part) and ast.unparse(node.args[1]) == "self.CONTAINER_TYPE"))
    eng.lib["len"] = lambda e, st, a, kw, node: (_ for _ in ()).throw(PyRaise("TypeError")) if isinstance(a[0], Part) else lib.lib_len(e, st, a, kw, node)
    eng.consts.update({k_: Val("class " + k_) for k_ in ("XYContainer", "IndexedContainer", "HistContainer", "UnbinnedContainer", "DataContainerBase")})
    data_nodes = {"XYFit": {"x_data", "y_data"}, "IndexedFit": {"data"}, "HistFit": {"data"}, "UnbinnedFit": {"data", "x"}}
    # (1) the real _set_new_data of each fit type, given a container of its own type
    for cls in CLASSES:
        c = Contract(cls, "_set_new_data")

        def post(vw, cls=cls):
            cont = vw.f(vw.post, vw.self, "_data_container")
            wired = [x for x in fx(vw, "set") if x[2] == "_on_error_change_callback"]
            return [("the fit holds a COPY of the given container", z3.BoolVal(isinstance(cont, Part) and cont.name == "copy_of_given_container")),
                    ("changes of the new container's sources are delivered to this fit's _on_error_change", z3.BoolVal(len(wired) == 1 and isinstance(cont, Part) and wired[0][1] == cont.name and isinstance(wired[0][3], VBound) and wired[0][3].name == "_on_error_change" and wired[0][3].recv.e is vw.self.e)),
                    ("the data node(s) are marked for update", z3.BoolVal(data_nodes[cls] <= set(marked(vw))))]
        c.ensures.append(post)

        def init(e, st, me_):
            e.write_field(st, me_, "_nexus", RecNexus())
            return {"new_data": Part("given_container")}
        eng.verify(cls, "_set_new_data", None, init, contract=c, tag=f"[{cls}]")
    # (1b) ... and given raw values (arrays, a numpy histogram): a NEW container is built from them and wired the same way
    raw_ctor = {"XYFit": "XYContainer", "IndexedFit": "IndexedContainer", "HistFit": "HistContainer", "UnbinnedFit": "UnbinnedContainer"}
    for cls in CLASSES:
        made = []
        eng.consts[raw_ctor[cls]] = Fn(lambda e, st, a, kw, made=made, cls=cls: (made.append((a, kw)), Part("built_" + raw_ctor[cls], {"set_bins": Fn(lambda e_, st_, a_, kw_: VNone())}))[1])
        eng.lib["isinstance"] = lambda e, st, a, kw, node: VBool(z3.BoolVal(False))          # raw values are no container
        eng.lib["len"] = lambda e, st, a, kw, node: VNum(z3.IntVal(len(a[0].items))) if isinstance(a[0], VTuple) else VNum(a[0].len) if isinstance(a[0], VSeq) else lib.lib_len(e, st, a, kw, node)
        c = Contract(cls, "_set_new_data")

        def post(vw, cls=cls, made=made):
            cont = vw.f(vw.post, vw.self, "_data_container")
            wired = [x for x in fx(vw, "set") if x[2] == "_on_error_change_callback"]
            return [("a new container is built from the raw values and installed", z3.BoolVal(len(made) == 1 and isinstance(cont, Part) and cont.name == "built_" + raw_ctor[cls])),
                    ("changes of ITS sources are delivered to this fit's _on_error_change too", z3.BoolVal(len(wired) == 1 and isinstance(cont, Part) and wired[0][1] == cont.name and isinstance(wired[0][3], VBound) and wired[0][3].name == "_on_error_change" and wired[0][3].recv.e is vw.self.e)),
                    ("the data node(s) are marked for update", z3.BoolVal(data_nodes[cls] <= set(marked(vw))))]
        c.ensures.append(post)
        edges = VSeq(z3.Const("raw_edges", arr(I, R)), z3.Int("n_bins") + 1)
        raw = {"XYFit": VTuple([VSeq.fresh("raw_x"), VSeq.fresh("raw_y")]), "IndexedFit": VSeq.fresh("raw_values"), "UnbinnedFit": VSeq.fresh("raw_entries"),
               "HistFit": VTuple([VSeq(z3.Const("raw_heights", arr(I, R)), z3.Int("n_bins")), edges])}[cls]

        def init(e, st, me_, raw=raw):
            st.assume(z3.Int("n_bins") >= 1)
            e.write_field(st, me_, "_nexus", RecNexus())
            return {"new_data": raw}
        eng.verify(cls, "_set_new_data", None, init, contract=c, tag=f"[{cls}, raw values]")
    eng.lib["isinstance"] = lambda e, st, a, kw, node: VBool(z3.BoolVal(isinstance(a[0], Part) and ast.unparse(node.args[1]) == "self.CONTAINER_TYPE"))
    # (2) the setter
    for cls in CLASSES:
        wanted = set(axes_names(eng, cls, ("", "_error", "_cov_mat")))
        mk(eng, "FitBase", "_on_error_change", result=lambda vw: (log(vw.post, "on_error_change"), VNone())[1])          # its own effect (implicit chi2 -> covariance chi2, nodes marked) is proved in C01 / the sources unit
        for compatible, had_data, implicit, declares in [(True, hd_, i_, d_) for hd_ in (True, False) for i_, d_ in ((False, False), (False, True), (True, True), (True, False))] + [(False, True, False, False), (False, False, False, False), (False, True, True, True)]:
            if True:
                mk(eng, "FitBase", "_set_new_data", result=lambda vw, declares=declares: (log(vw.post, "set_new_data", vw.args["new_data"]), vw.eng.write_field(vw.post, vw.self, "_data_container", Part("container_of:" + getattr(vw.args["new_data"], "name", "raw"), {"has_errors": VBool(z3.BoolVal(declares))})), VNone())[2])
                mk(eng, "FitBase", "_set_new_parametric_model", result=lambda vw: (log(vw.post, "new_model"), vw.eng.write_field(vw.post, vw.self, "_param_model", Part("new_model")), VNone())[2])
                c = Contract(cls, "data", "setter")

                def post(vw, cls=cls, wanted=wanted, compatible=compatible, had_data=had_data, implicit=implicit, declares=declares):
                    trace = fx(vw)
                    cont, model = vw.f(vw.post, vw.self, "_data_container"), vw.f(vw.post, vw.self, "_param_model")
                    if not compatible:
                        out = [("data the cost function cannot handle is rejected", z3.BoolVal(vw.flow == "raise")), ("no new parametric model is built and nothing is marked", z3.BoolVal(not fx(vw, "new_model") and not marked(vw) and not fx(vw, "on_error_change"))),
                               ("the minimizer keeps its results and its cost target (a rejected assignment leaves the fit as it was)", z3.BoolVal(not [x for x in trace if x[1] == "fitter" and x[0] in ("call", "set")]))]
                        if had_data:
                            out.append(("the previous container is installed again", z3.BoolVal(isinstance(cont, Part) and cont.name == "container_of:old_container")))
                        return out
                    wired = [x for x in fx(vw, "set") if x[1] == "new_model" and x[2] == "_on_error_change_callback"]
                    reset = [x for x in trace if x[0] == "call" and x[1] == "fitter" and x[2] == "reset_minimizer"]
                    target = [x for x in trace if x[0] == "set" and x[1] == "fitter" and x[2] == "parameter_to_minimize"]
                    return [("accepted", z3.BoolVal(vw.flow != "raise")), ("new container and new parametric model are installed", z3.BoolVal(isinstance(cont, Part) and cont.name == "container_of:given" and isinstance(model, Part) and model.name == "new_model")),
                            ("changes of the new parametric model's sources are delivered to this fit's _on_error_change", z3.BoolVal(len(wired) == 1 and isinstance(wired[0][3], VBound) and wired[0][3].name == "_on_error_change" and wired[0][3].recv.e is vw.self.e)),
                            ("EVERY property node computed from the container or the parametric model (values, uncertainties, covariance matrices of every axis) is marked for update", z3.BoolVal(wanted <= set(marked(vw)))),
                            ("the minimizer forgets the results obtained with the old data", z3.BoolVal(len(reset) >= 1)),
                            ("the minimizer is pointed at the general cost function", z3.BoolVal(len(target) >= 1 and isinstance(target[-1][3], VStr) and target[-1][3].s == "chi2")),
                            ("a fit still on the implicit no-errors chi2 whose new container declares uncertainties goes through _on_error_change AFTER the new parts are installed (the declared sources enter the cost); an explicit cost function is left alone",
                             z3.BoolVal((len(fx(vw, "on_error_change")) >= 1 and trace.index(fx(vw, "on_error_change")[0]) > max(q_ for q_, x in enumerate(trace) if x[0] in ("new_model", "set_new_data"))) if (implicit and declares) else (not fx(vw, "on_error_change") or implicit)))]
                c.ensures.append(post)

                def init(e, st, me_, compatible=compatible, had_data=had_data, implicit=implicit):
                    e.write_field(st, me_, "_implicit_no_errors", VBool(z3.BoolVal(implicit)))
                    e.write_field(st, me_, "_nexus", RecNexus())
                    e.write_field(st, me_, "_fitter", Part("fitter"))
                    e.write_field(st, me_, "_data_container", Part("old_container") if had_data else VNone())
                    e.write_field(st, me_, "_param_model", Part("old_model") if had_data else VNone())
                    e.write_field(st, me_, "_cost_function", Part("cost_function", {"name": VStr("chi2"), "is_data_compatible": Fn(lambda e_, st_, a, kw: VTuple([VBool(z3.BoolVal(compatible)), VStr("reason")]))}))
                    return {"new_data": Part("given")}
                eng.verify(cls, "data", "setter", init, contract=c, tag=f"[{cls},compatible={compatible},had_data={had_data},implicit_no_errors={implicit},new_container_declares_uncertainties={declares}]")
    return eng



# ------------------------------------------------------------------ constraints and parameters
NAMES = ("a", "b", "c")


def u_constraints(root):
    eng = fit_engine(root)
    mk(eng, "FitBase", "parameter_names", "getter", result=lambda vw: VTuple([VStr(x) for x in NAMES]))
    made = []
    eng.consts["GaussianSimpleParameterConstraint"] = Fn(lambda e, st, a, kw: (made.append(("simple", dict(kw))), Val("simple_constraint"))[1])
    eng.consts["GaussianMatrixParameterConstraint"] = Fn(lambda e, st, a, kw: (made.append(("matrix", dict(kw))), Val("matrix_constraint"))[1])
    eng.lib["len"] = lambda e, st, a, kw, node: VNum(z3.IntVal(len(a[0].items))) if isinstance(a[0], VTuple) else lib.lib_len(e, st, a, kw, node)

    def init_for(args):
        def init(e, st, me_):
            made.clear()
            e.write_field(st, me_, "_nexus", RecNexus())
            e.write_field(st, me_, "_fit_param_constraints", VTuple([Val("earlier_constraint")]))
            e.write_field(st, me_, "_fit_param_names_bad_default", VPySet(frozenset(["a", "c"])))
            return args
        return init
    for name, rel in (("b", False), ("c", False), ("nope", False), ("b", True)):
        c = Contract("FitBase", "add_parameter_constraint")

        def post(vw, name=name, rel=rel):
            lst = vw.f(vw.post, vw.self, "_fit_param_constraints")
            if name not in NAMES:
                return [("an unknown parameter name is rejected", z3.BoolVal(vw.flow == "raise")), ("... and neither the list nor the graph is touched", z3.BoolVal(len(lst.items) == 1 and not marked(vw)))]
            return [("accepted", z3.BoolVal(vw.flow != "raise")), ("exactly one constraint is appended, for the index of the named parameter", z3.BoolVal(len(lst.items) == 2 and len(made) == 1 and z3.simplify(made[0][1]["index"].e).as_long() == NAMES.index(name))),
                    ("the node that hides the constraint list is marked for update (the cost is recomputed with the new constraint)", z3.BoolVal("parameter_constraints" in marked(vw))),
                    ("value, uncertainty and the relative flag reach the constraint object exactly as declared (the constraint class does the relative -> absolute conversion, proved in C14)",
                     z3.And(made[0][1]["value"].real() == z3.Real("cv"), made[0][1]["uncertainty"].real() == z3.Real("cu"), vw.eng.truth(made[0][1]["relative"]) == z3.BoolVal(rel))
                     if len(made) == 1 and all(k_ in made[0][1] and isinstance(made[0][1][k_], VNum) for k_ in ("value", "uncertainty")) and "relative" in made[0][1] else z3.BoolVal(False))]
        c.ensures.append(post)
        eng.verify("FitBase", "add_parameter_constraint", None, init_for(dict({"name": VStr(name), "value": VNum(z3.Real("cv")), "uncertainty": VNum(z3.Real("cu"))}, **({"relative": VBool(z3.BoolVal(True))} if rel else {}))), contract=c, tag=f"({name}{', relative' if rel else ''})")
    for names in (("a", "c"), ("c", "nope"), ("a",)):
        c = Contract("FitBase", "add_matrix_parameter_constraint")
        vals = VTuple([VNum(z3.Real("v0")), VNum(z3.Real("v1"))])

        def post(vw, names=names):
            lst = vw.f(vw.post, vw.self, "_fit_param_constraints")
            bad = any(n_ not in NAMES for n_ in names) or len(names) != 2
            if bad:
                return [("unknown names / mismatched lengths are rejected", z3.BoolVal(vw.flow == "raise")), ("... and neither the list nor the graph is touched", z3.BoolVal(len(lst.items) == 1 and not marked(vw)))]
            idx = made[0][1]["indices"] if made else None
            return [("accepted", z3.BoolVal(vw.flow != "raise")), ("exactly one constraint is appended, for the indices of the named parameters in the given order",
                     z3.And(z3.BoolVal(len(lst.items) == 2 and len(made) == 1), idx.len == len(names), *[idx.arr[q_] == NAMES.index(n_) for q_, n_ in enumerate(names)]) if isinstance(idx, VSeq) else z3.BoolVal(False)),
                    ("the node that hides the constraint list is marked for update", z3.BoolVal("parameter_constraints" in marked(vw)))]
        c.ensures.append(post)
        eng.verify("FitBase", "add_matrix_parameter_constraint", None, init_for({"names": VTuple([VStr(n_) for n_ in names]), "values": vals, "matrix": Val("matrix")}), contract=c, tag=f"({'+'.join(names)})")
    return eng


def u_parameters(root):
    """the fit-level parameter mutators hand the values to the fitter (C19: parameter nodes and minimizer) and push them into the parametric model"""
    eng = fit_engine(root)
    mk(eng, "FitBase", "parameter_names", "getter", result=lambda vw: VTuple([VStr(x) for x in NAMES]))
    current = Val("node:parameter_values")
    mk(eng, "FitBase", "parameter_values", "getter", result=lambda vw: (log(vw.post, "read_values"), current)[1])
    mk(eng, "FitBase", "_get_model_function_parameter_formatters", result=lambda vw: VTuple([Part("formatter_" + n_) for n_ in NAMES]))

    def init_for(args, model=True):
        def init(e, st, me_):
            e.write_field(st, me_, "_fitter", Part("fitter", {"fix_parameter": Fn(lambda e_, st_, a, kw: VNone()), "set_fit_parameter_values": Fn(lambda e_, st_, a, kw: VNone()), "set_all_fit_parameter_values": Fn(lambda e_, st_, a, kw: VNone()),
                                                             "release_parameter": Fn(lambda e_, st_, a, kw: VNone())}))
            e.write_field(st, me_, "_param_model", Part("model") if model else VNone())
            e.write_field(st, me_, "_fit_param_names_bad_default", VPySet(frozenset(["a", "c"])))
            return args
        return init
    for model in (True, False):
        c = Contract("FitBase", "set_parameter_values")

        def post(vw, model=model):
            trace = fx(vw)
            calls = [x for x in trace if x[0] == "call" and x[1] == "fitter"]
            push = [x for x in trace if x[0] == "set" and x[1] == "model" and x[2] == "parameters"]
            out = [("the fitter receives exactly the named values, once, before anything else", z3.BoolVal(len(calls) == 1 and calls[0][2] == "set_fit_parameter_values" and set(calls[0][4]) == {"b"} and trace[0] is calls[0]))]
            if model:
                out.append(("the parametric model then receives the CURRENT parameter values of the graph (read after the fitter call)", z3.BoolVal(len(push) == 1 and push[0][3] is current and trace.index(push[0]) > trace.index(calls[0]) and any(x[0] == "read_values" and trace.index(x) > trace.index(calls[0]) for x in trace))))
            else:
                out.append(("a fit without a parametric model pushes nothing", z3.BoolVal(not push)))
            return out
        c.ensures.append(post)
        eng.verify("FitBase", "set_parameter_values", None, init_for({"param_name_value_dict": VDict({"b": VNum(z3.Real("new_b"))})}, model), contract=c, tag=f"(parametric model {'present' if model else 'absent'})")
    new_all = VTuple([VNum(z3.Real("n0")), VNum(z3.Real("n1")), VNum(z3.Real("n2"))])
    c = Contract("FitBase", "set_all_parameter_values")

    def post_all(vw):
        trace = fx(vw)
        calls = [x for x in trace if x[0] == "call" and x[1] == "fitter"]
        push = [x for x in trace if x[0] == "set" and x[1] == "model" and x[2] == "parameters"]
        same_list = lambda v: isinstance(v, VTuple) and len(v.items) == 3 and all(isinstance(x, VNum) and x.e.eq(y.e) for x, y in zip(v.items, new_all.items))       # (forked paths hold copies of python lists)
        return [("the parametric model receives the new list", z3.BoolVal(len(push) == 1 and same_list(push[0][3]))), ("the fitter receives the same list", z3.BoolVal(len(calls) == 1 and calls[0][2] == "set_all_fit_parameter_values" and same_list(calls[0][3][0])))]
    c.ensures.append(post_all)
    eng.verify("FitBase", "set_all_parameter_values", None, init_for({"param_value_list": new_all}), contract=c)
    for value in (None, "given"):
        c = Contract("FitBase", "fix_parameter")

        def post_fix(vw, value=value):
            trace = fx(vw)
            calls = [x for x in trace if x[0] == "call" and x[1] == "fitter"]
            marks = [x for x in trace if x[0] == "set" and x[2] == "fixed"]
            return [("the fitter fixes the named parameter at the given value (None: where it is), before anything else", z3.BoolVal(len(calls) == 1 and calls[0][2] == "fix_parameter" and calls[0][4].get("name").s == "b" and (isinstance(calls[0][4].get("value"), VNone) if value is None else isinstance(calls[0][4].get("value"), VNum)) and trace[0] is calls[0])),
                    ("the formatter of THAT parameter is marked fixed", z3.BoolVal(len(marks) == 1 and marks[0][1] == "formatter_b" and z3.is_true(z3.simplify(marks[0][3].e))))]
        c.ensures.append(post_fix)
        eng.verify("FitBase", "fix_parameter", None, init_for({"name": VStr("b"), "value": VNone() if value is None else VNum(z3.Real("fix_at"))}), contract=c, tag=f"(value={value})")
    return eng




def u_fitter_books(root):
    """NexusFitter keeps the record of fixed and limited parameters that ndf, the error band and saved files read: each of the four mutators tells the back end and
    updates exactly ITS record for exactly THAT name; the other record and the other names are untouched"""
    eng = engine(root, ["kafe2/core/fitters/nexus_fitter.py"], {"NexusFitter": {"_minimizer": PYOBJ, "_fixed_pars": PYOBJ, "_limited_pars": PYOBJ}}, [])
    cur = VNum(z3.Real("current_value_of_b"))
    mk(eng, "NexusFitter", "get_fit_parameter_values", result=lambda vw: VDict({"b": cur}))
    mk(eng, "NexusFitter", "set_fit_parameter_values", result=lambda vw: (log(vw.post, "set_values", dict(vw.args["parameter_value_dict"].d) if isinstance(vw.args.get("parameter_value_dict"), VDict) else {k_: v_ for k_, v_ in vw.args.items() if k_ != "self"}), VNone())[1])
    fa, lc = VNum(z3.Real("fixed_a")), VTuple([VNum(z3.Real("lo_c")), VNum(z3.Real("hi_c"))])
    lb = VTuple([VNum(z3.Real("lo_b")), VNum(z3.Real("hi_b"))])
    for name, args, start_fixed, start_limited in (("fix_parameter", {"name": VStr("b"), "value": VNone()}, {"a": fa}, {"c": lc}), ("fix_parameter", {"name": VStr("b"), "value": VNum(z3.Real("fix_at"))}, {"a": fa}, {"b": lb}),
                                                   ("release_parameter", {"name": VStr("b")}, {"a": fa, "b": cur}, {"b": lb, "c": lc}), ("release_parameter", {"name": VStr("b")}, {"a": fa}, {"c": lc}),
                                                   ("limit_parameter", {"name": VStr("b"), "limits": lb}, {"b": cur}, {"c": lc}), ("unlimit_parameter", {"name": VStr("b")}, {"b": cur}, {"b": lb, "c": lc}),
                                                   ("unlimit_parameter", {"name": VStr("b")}, {"b": cur}, {"c": lc})):
        c = Contract("NexusFitter", name)

        def post(vw, name=name, args=args, start_fixed=start_fixed, start_limited=start_limited):
            fx_, lm_ = vw.f(vw.post, vw.self, "_fixed_pars"), vw.f(vw.post, vw.self, "_limited_pars")
            calls = [x for x in fx(vw, "call") if x[1] == "minimizer"]
            want_f, want_l = dict(start_fixed), dict(start_limited)
            if name == "fix_parameter":
                want_f["b"] = cur
            elif name == "release_parameter":
                want_f.pop("b", None)
            elif name == "limit_parameter":
                want_l["b"] = args["limits"]
            else:
                want_l.pop("b", None)
            backend = {"fix_parameter": "fix", "release_parameter": "release", "limit_parameter": "limit", "unlimit_parameter": "unlimit"}[name]
            out = [("the back end is told, once, for that name", z3.BoolVal(len(calls) == 1 and calls[0][2] == backend and isinstance(calls[0][3][0], VStr) and calls[0][3][0].s == "b")),
                   ("the record of FIXED parameters afterwards: " + str(sorted(want_f)), z3.BoolVal(isinstance(fx_, VDict) and set(fx_.d) == set(want_f) and all(same_object(fx_.d[k_], want_f[k_]) for k_ in want_f))),
                   ("the record of LIMITED parameters afterwards: " + str(sorted(want_l)), z3.BoolVal(isinstance(lm_, VDict) and set(lm_.d) == set(want_l) and all(same_object(lm_.d[k_], want_l[k_]) for k_ in want_l)))]
            if name == "fix_parameter" and isinstance(args["value"], VNum):
                sv = fx(vw, "set_values")
                out.append(("a given value is assigned through set_fit_parameter_values BEFORE the parameter is fixed", z3.BoolVal(len(sv) == 1 and set(sv[0][1]) == {"b"} and fx(vw).index(sv[0]) < fx(vw).index(calls[0])) if calls else z3.BoolVal(False)))
            return out
        c.ensures.append(post)

        def init(e, st, me_, args=args, start_fixed=start_fixed, start_limited=start_limited):
            e.write_field(st, me_, "_minimizer", Part("minimizer"))
            e.write_field(st, me_, "_fixed_pars", VDict(dict(start_fixed)))
            e.write_field(st, me_, "_limited_pars", VDict(dict(start_limited)))
            return dict(args)
        eng.verify("NexusFitter", name, None, init, contract=c, tag=f"(fixed before: {sorted(start_fixed)}, limited before: {sorted(start_limited)}{', value given' if isinstance(args.get('value'), VNum) else ''})")
    return eng


# ------------------------------------------------------------------ do_fit typestate
def u_freeze(root):
    eng = fit_engine(root)
    # (1) freeze / unfreeze brackets use the same list and the full protocol
    for cls in ("XYFit", "IndexedFit", "HistFit", "UnbinnedFit"):
        L = ("node_p", "node_q")
        mk(eng, cls, "_get_node_names_to_freeze", result=lambda vw: (log(vw.post, "names_for", show_bool(vw.args["first_fit"])), VTuple([VStr(x) for x in L]))[1])
        for first in (True, False):
            c = Contract(cls, "_pre_fit_iteration")
            c.ensures.append(lambda vw, first=first: [("the list is asked for with the same first_fit flag", z3.BoolVal([x[1] for x in fx(vw, "names_for")] == [str(first)])),
                                                      ("every node of the list is brought up to date, THEN frozen; nothing else is touched", z3.BoolVal([(c_[0], c_[1]) for c_ in vw.post.ghost.get("node_calls", ())] == [(n_, op) for n_ in L for op in ("update", "freeze")]))])
            eng.verify(cls, "_pre_fit_iteration", None, lambda e, st, me_, first=first: (e.write_field(st, me_, "_nexus", RecNexus()), {"first_fit": VBool(z3.BoolVal(first))})[1], contract=c, tag=f"[{cls},first_fit={first}]")
            c = Contract(cls, "_post_fit_iteration")
            c.ensures.append(lambda vw, first=first: [("the list is asked for with the same first_fit flag", z3.BoolVal([x[1] for x in fx(vw, "names_for")] == [str(first)])),
                                                      ("every node of the list is unfrozen (C04: unfreeze makes the node stale and notifies its parents), nothing is frozen again, and only nodes of the list are touched",
                                                       z3.BoolVal([c_[0] for c_ in vw.post.ghost.get("node_calls", ()) if c_[1] == "unfreeze"] == list(L) and all(c_[0] in L and c_[1] in ("unfreeze", "update", "notify_parents") for c_ in vw.post.ghost.get("node_calls", ()))
                                                                  and all([c2[1] for c2 in vw.post.ghost.get("node_calls", ()) if c2[0] == n_][0] == "unfreeze" for n_ in L)))])

            for failed in (False, True):          # (after a minimisation that raised there is no run time: the nodes are unfrozen all the same)
                def init_post(e, st, me_, first=first, failed=failed):
                    e.write_field(st, me_, "_nexus", RecNexus())
                    e.write_field(st, me_, "_cost_function", Part("cost_function", {"is_chi2": VBool(z3.Bool("is_chi2")), "fast_math": VBool(z3.Bool("fast_math"))}))
                    return {"runtime": VNone() if failed else VNum(z3.Real("runtime")), "first_fit": VBool(z3.BoolVal(first))}
                eng.verify(cls, "_post_fit_iteration", None, init_post, contract=c, tag=f"[{cls},first_fit={first}{',after a failed minimisation' if failed else ''}]")
    # (2) which nodes: decided by the configuration only (dynamic-error algorithm, model-relative sources, x uncertainties) - the same question gets the same answer before and after a minimisation
    for cls in ("XYFit", "IndexedFit", "HistFit"):
        merr, proj = list(class_table(eng, cls, "_MODEL_ERROR_NODE_NAMES")), (list(class_table(eng, cls, "_PROJECTED_NODE_NAMES")) if cls == "XYFit" else [])
        for dea in ("nonlinear", "iterative"):
            for rel in (False, True):
                for xerr in ((False, True) if cls == "XYFit" else (False,)):
                    for first in (True, False):
                        inline(eng, cls, "has_x_errors") if cls == "XYFit" else None
                        mk(eng, "FitBase", "_get_node_names_to_freeze", inline=True)
                        c = Contract(cls, "_get_node_names_to_freeze")

                        def post(vw, merr=merr, proj=proj, dea=dea, rel=rel, xerr=xerr, first=first):
                            want = (merr if (first or not rel or dea == "iterative") else [])
                            if proj and (dea == "iterative" or (first and xerr)):
                                want = proj + want
                            got = [x.s for x in vw.result.items] if isinstance(vw.result, VTuple) else ([] if isinstance(vw.result, VSeq) else None)
                            return [("frozen during a minimisation: the model-uncertainty nodes in the first pass, without model-relative sources, or with the iterative algorithm; for xy data also the projected totals (iterative, or first pass with x uncertainties); nothing else",
                                     z3.BoolVal(got == want)), ("the answer reads the configuration only (no graph access, no assignment)", z3.BoolVal(not vw.post.ghost.get("node_calls") and not fx(vw, "set")))]
                        c.ensures.append(post)

                        def init(e, st, me_, dea=dea, rel=rel, xerr=xerr, first=first):
                            e.write_field(st, me_, "_dynamic_error_algorithm", VStr(dea))
                            e.write_field(st, me_, "_param_model", Part("model", {"get_matching_errors": Fn(lambda e_, st_, a, kw: VDict({"src": Val("source")} if rel else {})), "has_x_errors": VBool(z3.BoolVal(False))}))
                            e.write_field(st, me_, "_data_container", Part("container", {"has_x_errors": VBool(z3.BoolVal(xerr))}))
                            return {"first_fit": VBool(z3.BoolVal(first))}
                        eng.verify(cls, "_get_node_names_to_freeze", None, init, contract=c, tag=f"[{cls},{dea},model-relative={rel},x-errors={xerr},first_fit={first}]")
    return eng


def u_do_fit(root):
    """do_fit: balanced brackets around every minimisation, results from a file dropped, cost target by diagonality"""
    eng = fit_engine(root)
    eng.missing_attr_raises = True
    eng.lib["kc"] = lambda e, st, a, kw, node: VNum(z3.IntVal(2)) if a[-1].s == "max_iterations" else VNum(z3.Real("convergence_limit"))
    eng.lib["float"] = lambda e, st, a, kw, node: a[0]
    eng.lib["abs"] = lambda e, st, a, kw, node: VNum(z3.If(a[0].real() >= 0, a[0].real(), -a[0].real()))
    eng.lib["is_diagonal"] = lambda e, st, a, kw, node: VBool(z3.Bool("is_diagonal:" + getattr(a[0], "tag", "?")))
    inline(eng, "FitBase", "_uncertainties_are_uncorrelated", kind=None)
    inline(eng, "XYFit", "_uncertainties_are_uncorrelated", kind=None)
    for cls in ("XYFit", "IndexedFit"):
        for mode in ("single", "second", "iterative", "first-minimisation-fails", "second-minimisation-fails"):
            for pointwise in (True, False):
                if mode.endswith("fails") and pointwise:
                    continue
                mk(eng, "FitBase", "_pre_fit_iteration", result=lambda vw: (log(vw.post, "pre", show_bool(vw.args.get("first_fit", VBool(z3.BoolVal(False))))), VNone())[1])
                mk(eng, "FitBase", "_post_fit_iteration", result=lambda vw: (log(vw.post, "post", show_bool(vw.args.get("first_fit", VBool(z3.BoolVal(False))))), VNone())[1])
                mk(eng, cls, "_set_data_as_model_ref", result=lambda vw: (log(vw.post, "data_as_ref"), VNone())[1])
                mk(eng, cls, "_iterative_fits_needed", result=lambda vw, mode=mode: VBool(z3.BoolVal(mode == "iterative")))
                mk(eng, cls, "_second_fit_needed", result=lambda vw, mode=mode: VBool(z3.BoolVal(mode in ("second", "second-minimisation-fails"))))
                mk(eng, "FitBase", "has_errors", "getter", result=lambda vw: VBool(z3.Bool("has_errors")))
                mk(eng, "FitBase", "total_cov_mat", "getter", result=lambda vw: Val("total_cov_mat"))
                if cls == "XYFit":
                    mk(eng, "XYFit", "total_cov_mat", "getter", result=lambda vw: Val("total_cov_mat"))
                    mk(eng, "XYFit", "x_total_cov_mat", "getter", result=lambda vw: Val("x_total_cov_mat"))
                    mk(eng, "XYFit", "y_total_cov_mat", "getter", result=lambda vw: Val("y_total_cov_mat"))
                mk(eng, "FitBase", "cost_function_value", "getter", result=lambda vw: VNum(z3.FreshReal("cost")))
                mk(eng, "FitBase", "parameter_names", "getter", result=lambda vw: VTuple([VStr(x) for x in NAMES]))
                mk(eng, "FitBase", "_update_parameter_formatters", result=lambda vw: (log(vw.post, "formatters"), VNone())[1])
                mk(eng, "FitBase", "get_result_dict", result=lambda vw: (log(vw.post, "result_dict"), Val("result_dict"))[1])
                if cls == "XYFit":
                    mk(eng, "XYFit", "y_model", "getter", result=lambda vw: Val("y_model"))
                else:
                    mk(eng, "IndexedFit", "model", "getter", result=lambda vw: Val("model"))
                c = Contract(cls, "do_fit")

                def post(vw, mode=mode, pointwise=pointwise, cls=cls):
                    if vw.flow == "raise" and not mode.endswith("fails"):
                        return [("no exception", z3.BoolVal(False))]
                    ev = []
                    for x in fx(vw):
                        if x[0] in ("pre", "post"):
                            ev.append(x[0] + ":" + x[1])
                        elif x[0] == "call" and x[1] == "fitter" and x[2] in ("do_fit", "reset_minimizer"):
                            ev.append(x[2])
                        elif x[0] in ("data_as_ref", "formatters", "result_dict"):
                            ev.append(x[0])
                    bracket = lambda first, reset: ["pre:%s" % first, "do_fit", "post:%s" % first]
                    core_ = [e_ for e_ in ev if e_ not in ("formatters", "result_dict", "reset_minimizer")]          # (a reset of the minimizer between passes is allowed, not required)
                    resets_ok = all(ev[q_ - 1].startswith("pre:") for q_, e_ in enumerate(ev) if e_ == "reset_minimizer")       # ... but only between freeze and minimisation
                    if mode.endswith("fails"):
                        want = ["data_as_ref"] + bracket(True, False) + (bracket(False, True) if mode.startswith("second") else [])
                        return [("the exception of the minimiser leaves do_fit", z3.BoolVal(vw.flow == "raise")),
                                ("... after the bracket it was raised in has been closed: freeze (before), the failing minimisation, unfreeze (after) with the SAME first_fit flag - no node stays frozen", z3.BoolVal(core_ == want and resets_ok))]
                    ok_seq = core_[:4] == ["data_as_ref"] + bracket(True, False)
                    rest = core_[4:]
                    if mode == "single":
                        ok_seq = ok_seq and rest == []
                    elif mode == "second":
                        ok_seq = ok_seq and rest == bracket(False, True)
                    else:
                        ok_seq = ok_seq and rest in (bracket(False, True), bracket(False, True) * 2)
                    target = [x for x in fx(vw, "set") if x[1] == "fitter" and x[2] == "parameter_to_minimize"]
                    # xy data: the projected total matrix is diagonal wherever the model slope vanishes (e.g. at the start) - the choice must rest on the matrices of the two axes
                    diag = z3.And(z3.Bool("is_diagonal:x_total_cov_mat"), z3.Bool("is_diagonal:y_total_cov_mat")) if cls == "XYFit" else z3.Bool("is_diagonal:total_cov_mat")
                    out = [("model-relative sources take the data as reference for the first pass, then every minimisation is bracketed by freeze (before) and unfreeze (after) with the SAME first_fit flag; nothing is left open", z3.BoolVal(ok_seq and resets_ok)),
                           ("results loaded from a file no longer shadow the live ones", z3.BoolVal(isinstance(vw.f(vw.post, vw.self, "_loaded_result_dict"), VNone))),
                           ("the formatters are refreshed after the last minimisation, and the result dictionary is built last", z3.BoolVal(ev[-2:] == ["formatters", "result_dict"]))]
                    if pointwise:
                        out.append(("the pointwise cost function is minimised iff no declared correlation exists (xy: the x AND the y covariance matrix are diagonal; else: the total matrix is), else the general one; chosen before the first minimisation",
                                    z3.And(z3.BoolVal(len(target) == 1 and isinstance(target[0][3], VStr)), diag == z3.BoolVal(target[0][3].s == "chi2_pointwise")) if len(target) == 1 and isinstance(target[0][3], VStr) else z3.BoolVal(False)))
                    else:
                        out.append(("without a pointwise version the cost target is left alone", z3.BoolVal(not target)))
                    return out
                c.ensures.append(post)

                def init(e, st, me_, pointwise=pointwise, mode=mode):
                    def minimise(e_, st_, a, kw, mode=mode):
                        done = len([x for x in st_.ghost.get("fx", ()) if x[0] == "call" and x[1] == "fitter" and x[2] == "do_fit"])          # (this call is already logged)
                        if (mode == "first-minimisation-fails" and done == 1) or (mode == "second-minimisation-fails" and done == 2):
                            raise PyRaise("RuntimeError")
                        return VNum(z3.FreshReal("runtime"))
                    e.write_field(st, me_, "_nexus", RecNexus())
                    e.write_field(st, me_, "_fitter", Part("fitter", {"do_fit": Fn(minimise)}))
                    e.write_field(st, me_, "_cost_function", Part("cost_function", {"name": VStr("chi2"), "needs_errors": VBool(z3.Bool("needs_errors"))}))
                    e.write_field(st, me_, "_cost_function_pointwise", Part("pointwise", {"name": VStr("chi2_pointwise")}) if pointwise else VNone())
                    e.write_field(st, me_, "_fit_param_names_bad_default", VPySet(frozenset(["a"])))
                    e.write_field(st, me_, "_loaded_result_dict", VDict({"did_fit": VBool(z3.BoolVal(True))}))
                    return {"asymmetric_parameter_errors": VBool(z3.BoolVal(False))}
                eng.verify(cls, "do_fit", None, init, contract=c, tag=f"[{cls},{mode},pointwise={'yes' if pointwise else 'none'}]")
    return eng



def u_do_fit_proof(root):
    """the same typestate for ANY number of iterative refits: ghost field #bracket on the fit (0 = nothing frozen, 1 / 3 = frozen for a first / later pass,
    2 / 4 = minimised inside that bracket, -1 = protocol broken), advanced by the contracts of _pre_fit_iteration, the fitter's do_fit and
    _post_fit_iteration; loop invariant of the refit loop: #bracket == 0"""
    eng = fit_engine(root, {"FitBase": {"#bracket": INT, "#fits": INT}})
    eng.missing_attr_raises = True
    eng.loop_havoc = [("#bracket", "int", ""), ("#fits", "int", "")]
    Bk = lambda vw, st: vw.f(st, vw.self, "#bracket").e
    first_of = lambda vw: vw.eng.truth(vw.args["first_fit"]) if "first_fit" in vw.args else z3.BoolVal(False)
    eng.lib["kc"] = lambda e, st, a, kw, node: VNum(z3.Int("max_iterations")) if a[-1].s == "max_iterations" else VNum(z3.Real("convergence_limit"))
    eng.lib["float"] = lambda e, st, a, kw, node: a[0]
    eng.lib["abs"] = lambda e, st, a, kw, node: VNum(z3.If(a[0].real() >= 0, a[0].real(), -a[0].real()))
    eng.lib["is_diagonal"] = lambda e, st, a, kw, node: VBool(z3.Bool("total_cov_mat_is_diagonal"))
    mk(eng, "FitBase", "_uncertainties_are_uncorrelated", result=lambda vw: VBool(z3.Bool("uncertainties_are_uncorrelated")))          # its definition is checked in the do_fit trace unit
    mk(eng, "XYFit", "_uncertainties_are_uncorrelated", result=lambda vw: VBool(z3.Bool("uncertainties_are_uncorrelated")))
    for cls in ("XYFit", "IndexedFit", "HistFit", "UnbinnedFit"):
        pre = mk(eng, "FitBase", "_pre_fit_iteration", modifies=[("#bracket", "int", "")])
        pre.ensures.append(lambda vw: [Bk(vw, vw.post) == z3.If(Bk(vw, vw.pre) == 0, z3.If(first_of(vw), z3.IntVal(1), z3.IntVal(3)), z3.IntVal(-1))])
        post_ = mk(eng, "FitBase", "_post_fit_iteration", modifies=[("#bracket", "int", "")])
        # unfreeze closes the bracket opened with the same flag - after the minimisation (2 / 4) or after a minimisation that FAILED inside it (still 1 / 3)
        post_.ensures.append(lambda vw: [Bk(vw, vw.post) == z3.If(z3.Or(Bk(vw, vw.pre) == z3.If(first_of(vw), z3.IntVal(2), z3.IntVal(4)), Bk(vw, vw.pre) == z3.If(first_of(vw), z3.IntVal(1), z3.IntVal(3))), z3.IntVal(0), z3.IntVal(-1))])
        mk(eng, cls, "_set_data_as_model_ref", result=lambda vw: VNone())
        mk(eng, cls, "_iterative_fits_needed", result=lambda vw: VBool(z3.Bool("iterative_fits_needed")))
        mk(eng, cls, "_second_fit_needed", result=lambda vw: VBool(z3.Bool("second_fit_needed")))
        mk(eng, "FitBase", "has_errors", "getter", result=lambda vw: VBool(z3.Bool("has_errors")))
        mk(eng, "FitBase", "total_cov_mat", "getter", result=lambda vw: Val("total_cov_mat"))
        mk(eng, "FitBase", "cost_function_value", "getter", result=lambda vw: VNum(z3.FreshReal("cost")))
        mk(eng, "FitBase", "parameter_names", "getter", result=lambda vw: VTuple([VStr(x) for x in NAMES]))
        mk(eng, "FitBase", "_update_parameter_formatters", result=lambda vw: VNone())
        mk(eng, "FitBase", "get_result_dict", result=lambda vw: Val("result_dict"))
        if cls == "XYFit":
            mk(eng, "XYFit", "y_model", "getter", result=lambda vw: Val("y_model"))
        else:
            mk(eng, cls, "model", "getter", result=lambda vw: Val("model"))
        c = Contract(cls, "do_fit")
        c.requires.append(lambda vw: z3.And(Bk(vw, vw.pre) == 0, vw.f(vw.pre, vw.self, "#fits").e == 0, z3.Int("max_iterations") >= 0))
        c.loops[0] = lambda e, s_: z3.And(e.read_field(s_, s_.locals["self"], "#bracket").e == 0, e.read_field(s_, s_.locals["self"], "#fits").e >= 1)

        def post(vw):
            if vw.flow == "raise":
                return [("a minimisation that fails (all parameters fixed, an exception of the model function, ...) leaves nothing frozen: the bracket it failed in is closed before the exception leaves do_fit", Bk(vw, vw.post) == 0)]
            return [("for ANY number of refits: every freeze was followed by exactly one minimisation and then by the matching unfreeze (same first_fit flag); nothing is left frozen", Bk(vw, vw.post) == 0),
                    ("at least one minimisation ran", vw.f(vw.post, vw.self, "#fits").e >= 1),
                    ("results loaded from a file no longer shadow the live ones", z3.BoolVal(isinstance(vw.f(vw.post, vw.self, "_loaded_result_dict"), VNone)))]
        c.ensures.append(post)

        def init(e, st, me_):
            def minimise(e_, st_, a, kw):
                n_ = str(z3.simplify(e_.read_field(st_, me_, "#fits").e))          # (which minimisation this is: a stable name for the case split, also when the statement is re-executed)
                if e_.decide(st_, ("minimiser-fails", n_), z3.Bool("minimisation_fails@" + n_)):
                    raise PyRaise("RuntimeError")          # the state stays inside the bracket (1 / 3)
                b_ = e_.read_field(st_, me_, "#bracket").e
                e_.write_field(st_, me_, "#bracket", VNum(z3.If(b_ == 1, z3.IntVal(2), z3.If(b_ == 3, z3.IntVal(4), z3.IntVal(-1)))))
                e_.write_field(st_, me_, "#fits", VNum(e_.read_field(st_, me_, "#fits").e + 1))
                return VNum(z3.FreshReal("runtime"))
            e.write_field(st, me_, "_nexus", RecNexus())
            e.write_field(st, me_, "_fitter", Part("fitter", {"do_fit": Fn(minimise)}))
            e.write_field(st, me_, "_cost_function", Part("cost_function", {"name": VStr("chi2"), "needs_errors": VBool(z3.Bool("needs_errors"))}))
            e.write_field(st, me_, "_cost_function_pointwise", VNone())
            e.write_field(st, me_, "_fit_param_names_bad_default", VPySet(frozenset()))
            e.write_field(st, me_, "_loaded_result_dict", VDict({"did_fit": VBool(z3.BoolVal(True))}))
            return {"asymmetric_parameter_errors": VBool(z3.BoolVal(False))}
        eng.verify(cls, "do_fit", None, init, contract=c, tag=f"[{cls}, any number of refits]")
    return eng


def show_bool(v):
    return "True" if z3.is_true(z3.simplify(v.e)) else "False" if z3.is_false(z3.simplify(v.e)) else str(v.e)



# ------------------------------------------------------------------ reads: public read-only properties leave the configuration alone
class AnyNode(dict):
    """every node has a value: an opaque one named after the node"""

    def __contains__(self, k):
        return True

    def __getitem__(self, k):
        return Val("node:" + k)


def same_object(a, b):
    """identity of python-level values across the (possibly forked, hence copied) pre and post states"""
    if a is b or (isinstance(a, VNone) and isinstance(b, VNone)):
        return True
    if type(a) is not type(b):
        return False
    if isinstance(a, VTuple):
        return len(a.items) == len(b.items) and all(same_object(x, y) for x, y in zip(a.items, b.items))
    if isinstance(a, VPySet):
        return a.items == b.items
    if isinstance(a, VStr):
        return a.s == b.s
    if isinstance(a, (Part, Val)):
        return getattr(a, "name", None) == getattr(b, "name", None) and getattr(a, "tag", None) == getattr(b, "tag", None)
    if isinstance(a, VDict):
        return list(a.d) == list(b.d) and all(same_object(a.d[k_], b.d[k_]) for k_ in a.d)
    if isinstance(a, (VNum, VBool)):
        return a.e.eq(b.e)
    return False


PURE_CALLS = {("cost_function", "chi2_probability"), ("cost_function", "goodness_of_fit"), ("pointwise", "goodness_of_fit"), ("fitter", "get_fit_parameter_values"), ("model", "eval_model_function_derivative_by_x"), ("model", "get_matching_errors"),
              ("container", "get_matching_errors")}
MODEL_VALUE_ATTRS = {"data", "y", "err", "cov_mat", "cov_mat_inverse", "cor_mat", "x_err", "y_err", "x_cov_mat", "y_cov_mat", "x_cor_mat", "y_cor_mat", "x_cov_mat_inverse", "y_cov_mat_inverse", "bin_evaluation"}
ALLOWED_PUSH = {"parameters", "x"}          # the lazy push of the current parameter values / x values into the parametric model
ALLOWED_FLAGS = {"_dynamic_error_warning_printed", "_slow_chi2_warning_printed"}          # 'warning already shown' flags


def u_reads(root):
    eng = fit_engine(root)
    eng.node_values = AnyNode()
    eng.missing_attr_raises = True
    eng.lib["is_diagonal"] = lambda e, st, a, kw, node: VBool(z3.Bool("total_cov_mat_is_diagonal"))
    eng.lib["invert_matrix"] = lambda e, st, a, kw, node: Val("inverse")
    eng.lib["np.stack"] = lambda e, st, a, kw, node: Val("stacked")
    eng.consts["OrderedDict"] = VLib("dict")
    eng.consts["CovMat"] = Fn(lambda e, st, a, kw: Val("CovMat(" + getattr(a[0], "tag", "?") + ")"))
    eng.lib["bool"] = lambda e, st, a, kw, node: VBool(e.truth(a[0]))
    analysed, skipped = [], []
    for cls in ("FitBase",) + CLASSES:
        body = eng.repo.classes[cls][1].body
        setters = {d.value.id for f in body if isinstance(f, ast.FunctionDef) for d in f.decorator_list if isinstance(d, ast.Attribute) and d.attr == "setter" and isinstance(d.value, ast.Name)}
        for f in body:
            if not (isinstance(f, ast.FunctionDef) and any(isinstance(d, ast.Name) and d.id == "property" for d in f.decorator_list)) or f.name.startswith("_"):
                continue
            if any(isinstance(d, ast.Name) and d.id == "abstractmethod" or isinstance(d, ast.Attribute) and d.attr == "abstractmethod" for d in f.decorator_list):
                continue
            target = cls if cls != "FitBase" else "IndexedFit"          # base-class getters are executed on a concrete subclass
            for loaded in (False, True):          # live results / results loaded from a file shadowing them
                if loaded and f.name not in ("parameter_errors", "parameter_cov_mat", "parameter_cor_mat", "asymmetric_parameter_errors", "did_fit", "errors_valid"):
                    continue
                c = Contract(target, f.name, "getter")

                def post(vw, name=f.name):
                    trace = fx(vw)
                    sets = [x for x in trace if x[0] == "set"]
                    bad_sets = [x for x in sets if not (x[1] == "model" and x[2] in ALLOWED_PUSH)]
                    pushes = [x for x in sets if x[1] == "model" and x[2] in ALLOWED_PUSH]
                    current = lambda x: isinstance(x[3], Val) and (x[3].tag == "node:parameter_values" or x[3].tag.startswith("container.")) or isinstance(x[3], VTuple)
                    calls = [c_ for c_ in vw.post.ghost.get("node_calls", ())]
                    mutating_calls = [x for x in trace if x[0] == "call" and (x[1], x[2]) not in PURE_CALLS]
                    out = [("no attribute of the container, fitter, cost function or formatters is assigned", z3.BoolVal(not bad_sets)),
                           ("the parametric model only receives the CURRENT parameter values of the graph / the x values of the container (lazy push)", z3.BoolVal(all(current(x) for x in pushes))),
                           ("no node is marked, frozen, unfrozen or assigned", z3.BoolVal(not calls)), ("the only methods called on the parts are queries (cost / goodness-of-fit evaluation, parameter lookup, source lookup, model derivative): no source is added, disabled or enabled, the minimizer is not reset or run", z3.BoolVal(not mutating_calls))]
                    first_push = min([i_ for i_, x in enumerate(trace) if x[0] == "set" and x[1] == "model" and x[2] == "parameters" and current(x)], default=None)
                    early = [x[2] for i_, x in enumerate(trace) if x[0] == "read" and x[1] == "model" and x[2] in MODEL_VALUE_ATTRS and (first_push is None or i_ < first_push)]
                    out.append(("values of the parametric model (data, y, uncertainties, matrices) are read only AFTER the current parameter values were pushed into it: no observable shows the model at older parameter values",
                                z3.BoolVal(not early)))
                    same = []
                    for fld, ty in SCHEMA["FitBase"].items():
                        if fld in ALLOWED_FLAGS:
                            continue
                        a_, b_ = vw.f(vw.pre, vw.self, fld), vw.f(vw.post, vw.self, fld)
                        same.append((a_.e == b_.e) if ty == BOOL else z3.BoolVal(same_object(a_, b_)))
                    out.append(("no attribute of the fit itself is assigned (the parts it holds are the same objects)", z3.And(same)))
                    return out
                c.ensures.append(post)

                def init(e, st, me_, loaded=loaded):
                    e.write_field(st, me_, "_nexus", RecNexus())
                    e.write_field(st, me_, "_fitter", Part("fitter", {"fixed_parameters": VDict({"a": VNum(z3.Real("fixed_a"))})}))
                    e.write_field(st, me_, "_data_container", Part("container"))
                    e.write_field(st, me_, "_param_model", Part("model", {"ndf": VNum(z3.Int("model_ndf")), "get_matching_errors": Fn(lambda e_, st_, a, kw: VDict({}))}))
                    e.write_field(st, me_, "_cost_function", Part("cost_function", {"arg_names": VTuple([VStr("data"), VStr("model")]), "add_determinant_cost": VBool(z3.Bool("add_determinant_cost")), "errors_valid": VBool(z3.Bool("cf_errors_valid")),
                                                                                     "needs_errors": VBool(z3.Bool("needs_errors"))}))
                    e.write_field(st, me_, "_cost_function_pointwise", Part("pointwise", {"arg_names": VTuple([VStr("data"), VStr("model")])}))
                    e.write_field(st, me_, "_model_function", Part("model_function"))
                    e.write_field(st, me_, "_fit_param_constraints", VTuple([Part("constraint0", {"extra_ndf": VNum(z3.Int("extra_ndf0"))})]))
                    e.write_field(st, me_, "_fit_param_names", VTuple([VStr("a"), VStr("b")]))
                    e.write_field(st, me_, "_fit_param_names_bad_default", VPySet(frozenset()))
                    e.write_field(st, me_, "_loaded_result_dict", VNone())
                    e.write_field(st, me_, "_dynamic_error_algorithm", VStr("nonlinear"))
                    return {}
                n0 = len(eng.obligations)
                try:
                    eng.verify(target, f.name, "getter", init, contract=c, tag=f"[{cls}{', results loaded from a file' if loaded else ''}]")
                    analysed.append(f"{cls}.{f.name}")
                except Unsupported as ex:
                    del eng.obligations[n0:]
                    skipped.append(f"{cls}.{f.name}: {ex}")
    eng.extraction_notes = getattr(eng, "extraction_notes", []) + [f"read-only properties executed: {len(analysed)}; not executed (construct outside the supported subset): {skipped}"]
    eng.lemma(f"at least 60 public properties were executed ({len(analysed)})", [], z3.BoolVal(len(analysed) >= 60))
    return eng



# ------------------------------------------------------------------ results are read back from the back end, not from caches filled by earlier reads
class MinuitObj(V):
    """iminuit.Minuit stand-in: .values / .errors are the back end's numbers - different ones after migrad()"""

    def vattr(self, e, st, name):
        after = "migrad" in [x[0] for x in st.ghost.get("fx", ())]
        if name == "migrad":
            return Fn(lambda e_, st_, a, kw: (log(st_, "migrad"), VNone())[1])
        if name in ("values", "errors"):
            return VSeq(z3.Const(f"backend_{name}_{'after' if after else 'before'}_migrad", arr(I, R)), z3.IntVal(2))


def u_readback(root):
    eng = engine(root, ["kafe2/core/minimizers/iminuit_minimizer.py", "kafe2/core/minimizers/minimizer_base.py"],
                 {"MinimizerIMinuit": {"_par_val": OPTSEQ, "_par_err": OPTSEQ, "_minimizer_param_dict": PYOBJ, "_par_names": PYOBJ, "_did_fit": BOOL, "_fmin_struct": PYOBJ, "_func_handle": PYOBJ, "_fval": PYOBJ, "_par_asymm_err": PYOBJ,
                                       "_hessian": PYOBJ, "_hessian_inv": PYOBJ, "_par_cov_mat": PYOBJ, "_par_cor_mat": PYOBJ}}, [])
    eng.consts = {"np": VLib("np"), "_IMINUIT_1": VBool(z3.BoolVal(False))}
    eng.lib["np.array"] = lambda e, st, a, kw, node: a[0]
    eng.lib["np.all"] = lambda e, st, a, kw, node: VBool(z3.BoolVal(False))
    eng.lib["copy"] = lambda e, st, a, kw, node: VTuple(list(a[0].items)) if isinstance(a[0], VTuple) else a[0]
    eng.lib["zip"] = lambda e, st, a, kw, node: VTuple([VTuple([(p_.items[q_] if isinstance(p_, VTuple) else VNum(p_.arr[q_])) for p_ in a]) for q_ in range(2)])
    eng.comp_models = {"[self.is_fixed(_par_name) for _par_name in self.parameter_names]": lambda e, st, n: VTuple([VBool(z3.BoolVal(False))] * 2)}
    mobj = MinuitObj()
    mk(eng, "MinimizerIMinuit", "_get_iminuit", result=lambda vw: mobj)
    mk(eng, "MinimizerIMinuit", "is_fixed", result=lambda vw: VBool(z3.BoolVal(False)))
    inline(eng, "MinimizerIMinuit", "parameter_values", "parameter_errors")
    inline(eng, "MinimizerBase", "parameter_names")
    mk(eng, "MinimizerIMinuit", "_invalidate_cache", inline=True)
    mk(eng, "MinimizerBase", "_invalidate_cache", inline=True)
    for cached in ("nothing", "values", "uncertainties", "both"):
        c = Contract("MinimizerIMinuit", "minimize")
        A = lambda name: z3.Const(f"backend_{name}_after_migrad", arr(I, R))

        def post(vw):
            d = vw.f(vw.post, vw.self, "_minimizer_param_dict")
            ok = isinstance(d, VDict) and all(k_ in d.d and isinstance(d.d[k_], VNum) for k_ in ("a", "b", "error_a", "error_b"))
            if not ok:
                return [("values and uncertainties of every parameter are stored", z3.BoolVal(False))]
            handed = [x for x in fx(vw, "callback")]
            star = handed[0][1][0].seq if len(handed) == 1 and len(handed[0][1]) == 1 and isinstance(handed[0][1][0], VStar) and isinstance(handed[0][1][0].seq, VSeq) else None
            pv1, pe1 = vw.f(vw.post, vw.self, "_par_val"), vw.f(vw.post, vw.self, "_par_err")
            return [("the values stored as the next start values are the back end's values AFTER the minimisation (not values cached by an earlier read)", z3.And(d.d["a"].real() == A("values")[0], d.d["b"].real() == A("values")[1])),
                    ("the uncertainties stored as the next step sizes are the back end's uncertainties AFTER the minimisation (not ones cached by an earlier read)", z3.And(d.d["error_a"].real() == A("errors")[0], d.d["error_b"].real() == A("errors")[1])),
                    ("the caches hold nothing older than the minimisation, and a fit is recorded", z3.And(z3.Or(pv1.none, z3.And(pv1.arr[0] == A("values")[0], pv1.arr[1] == A("values")[1])), z3.Or(pe1.none, z3.And(pe1.arr[0] == A("errors")[0], pe1.arr[1] == A("errors")[1])), vw.f(vw.post, vw.self, "_did_fit").e)),
                    ("the cost callback is finally evaluated at the minimum", z3.And(star.arr[0] == A("values")[0], star.arr[1] == A("values")[1]) if star is not None else z3.BoolVal(False))]
        c.ensures.append(post)

        def init(e, st, me_, cached=cached):
            e.write_field(st, me_, "_minimizer_param_dict", VDict({"a": VNum(z3.Real("start_a")), "b": VNum(z3.Real("start_b"))}))
            e.write_field(st, me_, "_par_names", VTuple([VStr("a"), VStr("b")]))
            e.write_field(st, me_, "_func_handle", Fn(lambda e_, st_, a, kw: (log(st_, "callback", tuple(a)), VNum(z3.Real("cost_at_minimum")))[1]))
            pv, pe = e.read_field(st, me_, "_par_val"), e.read_field(st, me_, "_par_err")
            st.assume(pv.none == z3.BoolVal(cached in ("nothing", "uncertainties")))
            st.assume(pe.none == z3.BoolVal(cached in ("nothing", "values")))
            st.assume(z3.And(pv.len == 2, pe.len == 2))
            return {}
        eng.verify("MinimizerIMinuit", "minimize", None, init, contract=c, tag=f"[cached before: {cached}]")
    return eng


def _shared_ga_gof(root):
    from . import c10
    return c10.u_gof_gauss_approx(root)


def units(root):
    return [Unit("CostFunction_GaussApproximation.goodness_of_fit restores the cost function object (shared with C10: reading the goodness of fit must not change the cost)", _shared_ga_gof),
            Unit("_init_nexus registry of the four fit types", u_registry), Unit("uncertainty sources: container -> fit -> graph", u_sources), Unit("data replacement", u_data), Unit("parameter constraints", u_constraints), Unit("parameter mutators", u_parameters), Unit("NexusFitter records of fixed / limited parameters", u_fitter_books),
            Unit("public read-only properties: frame", u_reads), Unit("MinimizerIMinuit.minimize reads results back from the back end", u_readback, bounded="2 parameters (the write-back loop is unrolled); cached / uncached values and uncertainties at entry"), Unit("freeze / unfreeze protocol and node lists", u_freeze), Unit("do_fit typestate for any number of refits (ghost bracket state, loop invariant)", u_do_fit_proof), Unit("do_fit typestate (balanced brackets)", u_do_fit, bounded="iterative refits unrolled to at most 2 passes (the loop body is one bracket); freeze lists, flags and cost kinds enumerated")]
