"""helpers shared by the per-property contract modules"""
import z3
from pyvc.core import *          # noqa: F401,F403
from pyvc import core, lib
from pyvc.harness import Unit    # noqa: F401

EMATCH = {"smt.mbqi": False, "smt.auto_config": False}


def engine(root, files, schema, axioms=()):
    core.DEFS.clear()
    core._MAT_CACHE.clear()
    repo = Repo(root)
    for p in files:
        repo.load(p)
    eng = Engine(repo, schema, list(axioms))
    lib.install(eng)
    eng.trusted = []
    return eng


def mk(eng, cls, name, kind=None, inline=False, result=None, requires=(), ensures=(), modifies=()):
    c = Contract(cls, name, kind)
    c.inline = inline
    c.result = result
    c.requires, c.ensures, c.modifies = list(requires), list(ensures), list(modifies)
    eng.contracts[(cls, name, kind)] = c
    return c


def inline(eng, cls, *names, kind="getter"):
    for n in names:
        mk(eng, cls, n, kind, inline=True)


def H(field, kind, part=""):
    """the pre-state heap constant of a field (created lazily by the engine under this fixed name)"""
    return z3.Const(f"H_{field}_{kind}_{part}", HEAP_SORTS[kind][part])
