"""C17 - Every number shown to the user is a faithful rounding of the fit state.

printf-style number formatting is axiomatised: '%#.pg' % x shows x rounded to p significant digits and always shows p digits; '%.(n-1)e' shows the same digits in
exponent form.  With E(.) = floor(log10|.|) and powers of ten uninterpreted, the REAL integer arithmetic of ScalarFormatter (decimal place of the uncertainty,
number of significant digits of the value) is executed symbolically, and the rounding lemma (the value printed with that many digits is within half a unit of the
uncertainty's last digit and reaches down to it) is proved by z3 from explicit axioms about powers of ten and digit counts.  ParameterFormatter.get_formatted is
executed on every branch combination; the result is a structured display (which number, which format, which digits) checked against the property's wording.
"""
import ast
import z3
from .base import *

FILES = ["kafe2/fit/_base/format.py", "kafe2/fit/io/file.py", "kafe2/fit/_base/fit.py", "kafe2/core/fitters/nexus_fitter.py"]
META = {
    "level": "proof",
    "trusted_base": [
        "C printf semantics: '%#.pg' % x = x correctly rounded to p significant digits, p digits always shown; '%.pg' the same with trailing zeros dropped; float('%.(n-1)e' % s) = the number '%#.ng' % s shows",
        "np.around(x, d) = x rounded to d decimals (a multiple of 10^-d within half a unit); np.log10 / np.floor give floor(log10 .) exactly (floats as reals; exact ties excluded, stated)",
        "axioms about powers of ten used by the rounding lemma: positivity, 10^(k+1) = 10 x 10^k, monotonicity, integrality for k >= 0, 10^E(m) <= m < 10^(E(m)+1) for integers m >= 1; scaling a decimal number by a power of ten commutes with decimal rounding",
        "the LaTeX post-processing regular expression (drops trailing zeros of a mantissa before x10^k) is not under contract",
        "z3/cvc5 soundness",
    ],
    "assumptions": ["floating point treated as real arithmetic; values exactly half-way between two roundings are excluded from the lemma (the property's 'at most half a unit' holds for either choice)",
                    "the report / compact summary / result dictionary are compared with the held values by the bounded native run only (string parsing of whole documents is outside the engine)"],
    "bounded": [{"what": "get_formatted parsed back with exact decimal arithmetic over mantissa x exponent grids (carry cases, zero / negative values, value << and >> uncertainty, asymmetric pairs, fixed) x 1-4 digits x plain / LaTeX; "
                         "report, compact summary of saved files and result dictionary of 5 fit types x {free, fixed, fixed then released} x {symmetric, asymmetric}", "bound": "native: 8022 evaluations (quick)"}],
}
me = z3.Const("self", Ref)
pow10 = z3.Function("pow10", I, R)
E10 = z3.Function("floor_log10_abs", R, I)            # E(x) = floor(log10 |x|)
Ei = z3.Function("digits_minus_one", I, I)             # for integers m >= 1
shown_g = z3.Function("shown_by_g", R, I, R)           # the number '%#.pg' % x displays
around = z3.Function("np_around", R, I, R)
k_, a_, b_, m_ = z3.Ints("k_ a_ b_ m_")
POW_AX = [z3.ForAll([k_], z3.And(pow10(k_) > 0, pow10(k_ + 1) == 10 * pow10(k_)), patterns=[pow10(k_)]),
          z3.ForAll([a_, b_], z3.Implies(a_ <= b_, pow10(a_) <= pow10(b_)), patterns=[z3.MultiPattern(pow10(a_), pow10(b_))]),
          pow10(0) == 1,
          z3.ForAll([m_, k_], z3.Implies(z3.And(k_ >= 0, z3.ToReal(m_) < pow10(k_)), z3.ToReal(m_) + 1 <= pow10(k_)), patterns=[z3.MultiPattern(pow10(k_), z3.ToReal(m_))]),
          z3.ForAll([m_], z3.Implies(m_ >= 1, z3.And(Ei(m_) >= 0, pow10(Ei(m_)) <= z3.ToReal(m_), z3.ToReal(m_) < pow10(Ei(m_) + 1))), patterns=[Ei(m_)])]


class Tmpl(V):
    """a printf template for ONE number: kind in {'#g', 'g'} with a (symbolic) digit count"""

    def __init__(self, kind, digits):
        self.kind, self.digits = kind, digits


class Shown(V):
    """a formatted number: what is displayed is `value` in format `kind` with `digits` significant digits"""

    def __init__(self, kind, digits, value):
        self.kind, self.digits, self.value = kind, digits, value

    def real(self):
        return shown_g(self.value, self.digits)


class Display(V):
    """a composed string: literal pieces and formatted numbers in order"""

    def __init__(self, parts):
        self.parts = parts


def fmt_engine(root, schema):
    eng = engine(root, FILES, schema, [])

    def call_hook(e, st, n):
        # "%#.{n}g".format(n=X) / "%#.{significance}g".format(significance=X)
        if isinstance(n.func, ast.Attribute) and n.func.attr == "format" and isinstance(n.func.value, ast.Constant) and isinstance(n.func.value.value, str) and n.func.value.value.startswith("%") and n.keywords:
            t = n.func.value.value
            return Tmpl("#g" if "#" in t else "g", e.ev(n.keywords[0].value, st).e)
        return None
    eng.call_hook = call_hook

    def fstring(e, st, n):
        src = ast.unparse(n)
        if "%.{" in src and src.rstrip("'\"$").endswith("g"):
            inner = [v for v in n.values if isinstance(v, ast.FormattedValue)][0]
            latex = "$" in src
            t = Tmpl("g", e.ev(inner.value, st).e)
            t.latex = latex
            return t
        return None
    eng.fstring_model = fstring

    def mod(e, a, b):
        if isinstance(a, Tmpl):
            return Shown(a.kind, a.digits, b.real())
        if isinstance(a, VStr):
            items = b.items if isinstance(b, VTuple) else [b]
            import re as _re
            specs = _re.findall(r"%[#.0-9]*[sgdef]", a.s)
            conv = []
            for sp, x in zip(specs, items):
                conv.append(Shown("g", z3.IntVal(6), x.real()) if sp.endswith("g") and isinstance(x, (VNum, VOptNum)) else x)      # plain %g: 6 significant digits
            return Display([("text", a.s)] + [("item", x) for x in conv])
        raise Unsupported("string % of " + type(a).__name__)
    eng.mod_model = mod
    eng.lib["np.floor"] = lambda e, st, a, kw, n: a[0]
    eng.lib["np.log10"] = lambda e, st, a, kw, n: VNum(z3.ToReal(E10(a[0].real())))          # only ever used as floor(log10(.)): modelled together
    eng.lib["np.abs"] = eng.lib["abs"] = lambda e, st, a, kw, n: VNum(z3.If(a[0].real() >= 0, a[0].real(), -a[0].real()))
    eng.lib["np.around"] = lambda e, st, a, kw, n: VNum(around(a[0].real(), a[1].e if a[1].is_int else z3.ToInt(a[1].e)))
    eng.lib["int"] = lambda e, st, a, kw, n: VNum(z3.ToInt(a[0].real()) if not a[0].is_int else a[0].e)
    eng.lib["max"] = lambda e, st, a, kw, n: VNum(z3.If(a[0].e >= a[1].e, a[0].e, a[1].e))
    eng.lib["min"] = lambda e, st, a, kw, n: VNum(z3.If(a[0].real() <= a[1].real(), a[0].real(), a[1].real()))
    eng.lib["float"] = lambda e, st, a, kw, n: VNum(a[0].real())          # float('%.(n-1)e' % s): the number displayed with n digits
    return eng


# ------------------------------------------------------------------ ScalarFormatter: the integer arithmetic
def u_scalar(root):
    eng = fmt_engine(root, {"ScalarFormatter": {"_sigma": NUM, "_n_significant_digits": INT, "_sig": INT}})
    sigma, n, x = z3.Real("sigma"), z3.Int("n_significant_digits"), z3.Real("x")
    absr = lambda t: z3.If(t >= 0, t, -t)

    def call_hook(e, st, n_):
        if isinstance(n_.func, ast.Attribute) and n_.func.attr == "format" and isinstance(n_.func.value, ast.Constant) and n_.func.value.value == "%.{}e":
            return Tmpl("e", e.ev(n_.args[0], st).e + 1)                  # '%.(n-1)e': n significant digits in exponent form
        return None
    base_hook = eng.call_hook
    eng.call_hook = lambda e, st, n_: call_hook(e, st, n_) or base_hook(e, st, n_)
    c = Contract("ScalarFormatter", "__init__")
    c.requires.append(lambda vw: z3.And(sigma != 0, n >= 1))
    disp = shown_g(absr(sigma), n)
    c.ensures.append(lambda vw: [("decimal place of the uncertainty's LAST DISPLAYED digit: _sig = n - 1 - E(uncertainty as displayed with n digits)", vw.f(vw.post, vw.self, "_sig").e == n - 1 - E10(disp)),
                                 ("digits and uncertainty stored", z3.And(vw.f(vw.post, vw.self, "_n_significant_digits").e == n, vw.f(vw.post, vw.self, "_sigma").e == sigma))])
    eng.verify("ScalarFormatter", "__init__", None, lambda e, st, me_: {"sigma": VNum(sigma), "n_significant_digits": VNum(n)}, contract=c)
    d = z3.Int("sig")
    c = Contract("ScalarFormatter", "__call__")
    c.requires.append(lambda vw: z3.And(vw.f(vw.pre, vw.self, "_sig").e == d, vw.f(vw.pre, vw.self, "_n_significant_digits").e == n, n >= 1))

    def post(vw):
        r = vw.result
        rx = absr(around(x, d))
        want = z3.If(rx == 0, d - 1 + 1, d + E10(rx) + 1)          # rx = 0: the fallback exponent -1
        want = z3.If(want >= 0, want, 0)
        return [("the value is printed with '%#.pg', p = decimal place of the uncertainty + E(|value rounded there|) + 1 (at least 0): exactly the digits down to the uncertainty's last one",
                 z3.And(z3.BoolVal(isinstance(r, Shown) and r.kind == "#g"), r.digits == want, r.value == x) if isinstance(r, Shown) else z3.BoolVal(False))]
    c.ensures.append(post)
    eng.verify("ScalarFormatter", "__call__", None, lambda e, st, me_: {"x": VNum(x)}, contract=c)
    return eng


# ------------------------------------------------------------------ the rounding lemma (scaled by 10^d: unit of the uncertainty's last digit = 1)
def u_lemma(root):
    eng = engine(root, FILES, {}, POW_AX)
    y, s = z3.Reals("y s")
    Ey, Es, p, m, ms = z3.Ints("Ey Es p m ms")
    u = pow10(Ey - p + 1)
    H = [y > 0, m >= 1, z3.ToReal(m) - y < 0.5, y - z3.ToReal(m) < 0.5,             # m = |value| rounded at the uncertainty's last digit (in units of that digit), no exact tie
         p == Ei(m) + 1,                                                           # the digit count ScalarFormatter.__call__ computes (unit '__call__', with E(rx) = Ei(m) - d)
         pow10(Ey) <= y, y < pow10(Ey + 1),                                        # Ey = E(y)
         s > 0, pow10(Es) <= s, s < pow10(Es + 1),                                 # s = the number '%#.pg' displays, Es = E(s)
         s - y <= u / 2, y - s <= u / 2, s == z3.ToReal(ms) * u]                   # printf: s is y rounded to p significant digits
    eng.lemma("exponent of the value is that of its rounding or one less: E(y) <= E(m)", H, Ey <= Ei(m))
    eng.lemma("... and E(y) >= E(m) - 1", H, Ey >= Ei(m) - 1)
    eng.lemma("the unit of the last printed digit is at most the unit of the uncertainty's last digit", H + [Ey <= Ei(m)], u <= 1)
    eng.lemma("displayed value within half a unit of the uncertainty's last digit", H + [u <= 1], z3.And(s - y <= 0.5, y - s <= 0.5))
    eng.lemma("displayed value shown down to the uncertainty's last digit (case E(y) = E(m))", H + [Ey == Ei(m)], Es - p + 1 <= 0)
    eng.lemma("displayed value shown down to the uncertainty's last digit (case E(y) = E(m) - 1: carry into the next power of ten)", H + [Ey == Ei(m) - 1], Es - p + 1 <= 0)
    eng.trusted.append("case split E(y) in {E(m) - 1, E(m)} is exhaustive by the first two lemmas")
    return eng



# ------------------------------------------------------------------ ParameterFormatter.get_formatted: which number is shown in which format
def u_parameter(root):
    eng = fmt_engine(root, {"ParameterFormatter": {"_value": NUM, "_error": OPTNUM, "_asymmetric_error": PYOBJ, "_fixed": BOOL, "_name": PYOBJ, "_latex_name": PYOBJ, "_arg_name": PYOBJ},
                            "ScalarFormatter": {"_sigma": NUM, "_n_significant_digits": INT, "_sig": INT}})
    value, err, up, down, n = z3.Real("value"), z3.Real("error"), z3.Real("error_up"), z3.Real("error_down"), z3.Int("n")
    absr = lambda t: z3.If(t >= 0, t, -t)
    inline(eng, "ParameterFormatter", "value", "error", "fixed", "asymmetric_error", "error_up", "error_down", "name", "latex_name")
    # ScalarFormatter by its contracts (unit 'ScalarFormatter'): the constructor remembers (sigma, n); calling it shows the value down to sigma's last digit
    class SF(V):
        def __init__(self, sigma, digits):
            self.sigma, self.digits = sigma, digits

        def vcall(self, e, st, a, kw):
            return Shown("to-last-digit-of", (self.sigma, self.digits), a[0].real())
    eng.lib["class:ScalarFormatter"] = lambda e, st, a, kw, n_: SF(a[0].real(), kw["n_significant_digits"].e)
    eng.lib["np.isnan"] = lambda e, st, a, kw, n_: VBool(z3.BoolVal(False))
    eng.lib["np.all"] = lambda e, st, a, kw, n_: e.bool_reduce(a[0], "all")
    eng.consts = {"re": VLib("re")}
    eng.lib["re.sub"] = lambda e, st, a, kw, n_: a[2]                  # LaTeX post-processing of exponents: not under contract (trusted base)

    def parts_of(v):
        """flatten a Display / Shown / text value into [(kind, payload)]"""
        if isinstance(v, Display):
            out, items = [], [x for k_, x in v.parts if k_ == "item"]
            text = [x for k_, x in v.parts if k_ == "text"][0]
            out.append(("text", text))
            for it in items:
                out += parts_of(it)
            return out
        if isinstance(v, Shown):
            return [("number", v)]
        if isinstance(v, VStr):
            return [("text", v.s)]
        return [("other", v)]

    class Acc(V):
        """the string being built by `_display_string += ...`"""

        def __init__(self, parts):
            self.parts = parts
    base_binop = eng.binop

    def binop(op, a, b, node=None):
        if isinstance(op, ast.Add) and isinstance(a, (Acc, VStr)) and isinstance(b, (Display, Shown, VStr, Acc)):
            pa = a.parts if isinstance(a, Acc) else ([("text", a.s)] if a.s else [])
            pb = b.parts if isinstance(b, Acc) else parts_of(b)
            return Acc(pa + pb)
        return base_binop(op, a, b, node)
    eng.binop = binop
    for fixed in (False, True):
        for with_errors in (True, False):
            for asym in (False, True):
                for have in ("error", "no-error", "zero-error"):
                    for latex in (False, True):
                        for rnd in (True, False):
                            if fixed and (have != "error" or asym or not rnd or not with_errors):
                                continue
                            if not with_errors and (have != "error" or asym or not rnd):
                                continue
                            c = Contract("ParameterFormatter", "get_formatted")
                            c.requires.append(lambda vw, have=have: z3.And(n >= 1, (err > 0) if have == "error" else (err == 0) if have == "zero-error" else z3.BoolVal(True),
                                                                           z3.And(up > 0, down < 0) if have == "error" else z3.And(up == 0, down == 0)))
                            c.loops[0] = lambda e, s_: z3.BoolVal(True)

                            def post(vw, fixed=fixed, with_errors=with_errors, asym=asym, have=have, latex=latex, rnd=rnd):
                                r = vw.result
                                parts = r.parts if isinstance(r, Acc) else parts_of(r)
                                nums = [x for k_, x in parts if k_ == "number"]
                                text = "".join(x for k_, x in parts if k_ == "text")
                                ok = lambda cnd: z3.BoolVal(bool(cnd))
                                same = lambda t, w: z3.simplify(t == w)
                                if fixed:
                                    return [("a fixed parameter shows its value and is marked '(fixed)'", z3.And(ok(len(nums) == 1 and "(fixed)" in text), nums[0].value == value) if len(nums) == 1 else ok(False))]
                                plain = (not with_errors) or have in ("no-error", "zero-error")
                                if plain:
                                    return [("without a usable uncertainty the value alone is shown with n significant digits", z3.And(ok(len(nums) == 1 and nums[0].kind == "g"), nums[0].value == value, nums[0].digits == n) if len(nums) == 1 else ok(False))]
                                if not rnd:
                                    return [("round_value_to_error=False: value and uncertainties each with n significant digits", ok(len(nums) == (3 if asym else 2) and all(x.kind == "g" for x in nums)))]
                                if not asym:
                                    good = len(nums) == 2 and nums[0].kind == "to-last-digit-of" and nums[1].kind == "#g" and ("+/-" in text or "\\pm" in text)
                                    return [("'value +/- uncertainty': the uncertainty is the held one with n significant digits ('%#.ng'); the value is shown down to the last displayed digit of THAT uncertainty",
                                             z3.And(ok(good), nums[1].value == err, nums[1].digits == n, nums[0].value == value, nums[0].digits[0] == err, nums[0].digits[1] == n) if good else ok(False))]
                                good = len(nums) == 3 and nums[0].kind == "to-last-digit-of"
                                if not good:
                                    return [("value, upper and lower uncertainty", ok(False))]
                                small = z3.If(absr(up) <= absr(down), absr(up), absr(down))
                                v_, u_, d_ = nums
                                u_small = absr(down) > absr(up)          # which of the two is the smaller one on this path is decided by the code's own comparison: both orders are checked
                                def shows(xn, val, smaller):
                                    if smaller:
                                        return z3.And(xn.value == val, xn.digits == n) if xn.kind == "#g" else z3.BoolVal(False)
                                    return z3.And(xn.value == val, xn.digits[0] == small, xn.digits[1] == n) if xn.kind == "to-last-digit-of" else z3.BoolVal(False)
                                return [("asymmetric: the value is shown down to the last digit of the SMALLER uncertainty", z3.And(v_.value == value, v_.digits[0] == small, v_.digits[1] == n)),
                                        ("the smaller uncertainty has n significant digits, the larger one is shown down to the same digit; up stays up, down stays down",
                                         z3.Or(z3.And(absr(down) <= absr(up), shows(d_, absr(down), True), shows(u_, absr(up), False)), z3.And(absr(down) > absr(up), shows(u_, absr(up), True), shows(d_, absr(down), False))))]
                            c.ensures.append(post)

                            def init(e, st, me_, fixed=fixed, have=have, asym=asym, latex=latex, rnd=rnd, with_errors=with_errors):
                                e.write_field(st, me_, "_asymmetric_error", VSeq(FnArr(lambda k2: z3.If(k2 == 0, down, up)), z3.IntVal(2)) if have != "no-error" else VNone())      # a row of the (n, 2) array of asymmetric uncertainties
                                e.write_field(st, me_, "_name", VStr("a")); e.write_field(st, me_, "_latex_name", VStr("\\alpha"))
                                st.assume(e.read_field(st, me_, "_value").e == value)
                                st.assume(e.read_field(st, me_, "_fixed").e == fixed)
                                st.assume(e.read_field(st, me_, "_error").none == (have == "no-error"))
                                st.assume(e.read_field(st, me_, "_error").e == err)
                                B_ = lambda v_: VBool(z3.BoolVal(v_))
                                return {"value": VNone(), "with_name": B_(False), "with_value": B_(True), "with_errors": B_(with_errors), "n_significant_digits": VNum(n), "round_value_to_error": B_(rnd), "asymmetric_error": B_(asym), "format_as_latex": B_(latex)}
                            tag = f"[fixed={fixed},errors={with_errors},asymmetric={asym},{have},latex={latex},round_to_error={rnd}]"
                            eng.verify("ParameterFormatter", "get_formatted", None, init, contract=c, tag=tag)
    return eng



# ------------------------------------------------------------------ formatters are refreshed from the live results; fixed marks follow the parameter NAME
def u_refresh(root):
    eng = engine(root, FILES, {"FitBase": {"_fitter": REF("NexusFitter")}, "ParameterFormatter": {"_value": NUM, "_error": NUM, "_fixed": BOOL, "#asym_set": BOOL, "#asym": SEQ}}, [])
    N = z3.Int("n_parameters")
    PF = z3.Const("parameter_formatters", arr(I, Ref))
    pv, pe = VSeq(z3.Const("parameter_values", arr(I, R)), N), VSeq(z3.Const("parameter_errors", arr(I, R)), N)
    i, j = z3.Ints("i j")
    fmts = VRefSeq(PF, N, "ParameterFormatter")
    distinct = z3.ForAll([i, j], z3.Implies(z3.And(0 <= i, i < j, j < N), PF[i] != PF[j]))
    mk(eng, "FitBase", "_get_model_function_parameter_formatters", result=lambda vw: fmts)
    AF = z3.Const("argument_formatters", arr(I, Ref))          # ALL arguments of the model function: the independent variable(s) first, then the parameters
    eng.axioms.append(z3.ForAll([i], z3.Implies(z3.And(0 <= i, i < N), z3.And(AF[i + 1] == PF[i], AF[0] != PF[i]))))
    mk(eng, "FitBase", "_get_model_function_argument_formatters", result=lambda vw: VRefSeq(AF, N + 1, "ParameterFormatter"))
    mk(eng, "FitBase", "parameter_values", "getter", result=lambda vw: pv)
    mk(eng, "FitBase", "parameter_errors", "getter", result=lambda vw: pe)
    vs = mk(eng, "ParameterFormatter", "value", "setter", modifies=[("_value", "num", "")])
    vs.ensures.append(lambda vw: [vw.f(vw.post, vw.self, "_value").e == list(vw.args.values())[0].real()])
    es = mk(eng, "ParameterFormatter", "error", "setter", modifies=[("_error", "num", "")])
    es.ensures.append(lambda vw: [vw.f(vw.post, vw.self, "_error").e == list(vw.args.values())[0].real()])
    c = Contract("FitBase", "_update_parameter_formatters")
    c.requires.append(lambda vw: z3.And(N >= 0, distinct))
    VAL, ERR = lambda st: st.h("_value", "num"), lambda st: st.h("_error", "num")
    c.loops[0] = lambda e, s_: z3.And(0 <= s_.locals["#i0"].e, s_.locals["#i0"].e <= N, z3.ForAll([i], z3.Implies(z3.And(0 <= i, i < s_.locals["#i0"].e), z3.And(VAL(s_)[PF[i]] == pv.arr[i], ERR(s_)[PF[i]] == pe.arr[i]))))
    c.ensures.append(lambda vw: [("EVERY parameter formatter holds the value and uncertainty the fit holds now, position by position", z3.ForAll([i], z3.Implies(z3.And(0 <= i, i < N), z3.And(VAL(vw.post)[PF[i]] == pv.arr[i], ERR(vw.post)[PF[i]] == pe.arr[i]))))])
    eng.verify("FitBase", "_update_parameter_formatters", None, lambda e, st, me_: {"update_asymmetric_errors": VBool(z3.BoolVal(False))}, contract=c)
    # fix / release mark the formatter of the parameter with THAT NAME
    NAMES = z3.Function("parameter_name", I, Name)
    name = z3.Const("name", Name)
    mk(eng, "FitBase", "parameter_names", "getter", result=lambda vw: VSeqOf(lambda q: VName(NAMES(q)), N, key="names"))
    mk(eng, "NexusFitter", "fix_parameter")
    mk(eng, "NexusFitter", "release_parameter")
    fs = mk(eng, "ParameterFormatter", "fixed", "setter", modifies=[("_fixed", "bool", "")])
    fs.ensures.append(lambda vw: [vw.f(vw.post, vw.self, "_fixed").e == list(vw.args.values())[0].e])
    eng.schema["FitBase"]["_fit_param_names_bad_default"] = PYOBJ
    FX = lambda st: st.h("_fixed", "bool")
    k = z3.Int("k")
    for meth, flag in (("fix_parameter", True), ("release_parameter", False)):
        c = Contract("FitBase", meth)
        c.requires.append(lambda vw: z3.And(N >= 1, distinct, z3.ForAll([i, j], z3.Implies(z3.And(0 <= i, i < j, j < N), NAMES(i) != NAMES(j))), H("_fitter", "ref")[me] != NULL,
                                            z3.Exists([k], z3.And(0 <= k, k < N, NAMES(k) == name))))          # unknown names are rejected by the fitter before (C19)

        def post(vw, flag=flag):
            if vw.flow == "raise":
                return [("raises only for an unknown name", z3.Not(z3.Exists([k], z3.And(0 <= k, k < N, NAMES(k) == name))))]
            return [("the formatter of the parameter with this name is marked, every other formatter keeps its mark",
                     z3.ForAll([k], z3.Implies(z3.And(0 <= k, k < N), FX(vw.post)[PF[k]] == z3.If(NAMES(k) == name, z3.BoolVal(flag), FX(vw.pre)[PF[k]]))))]
        c.ensures.append(post)
        init = lambda e, st, me_, meth=meth: (e.write_field(st, me_, "_fit_param_names_bad_default", VExternal("set", {})), {"name": VName(name), **({"value": VNone()} if meth == "fix_parameter" else {})})[1]
        eng.verify("FitBase", meth, None, init, contract=c)
    return eng



# ------------------------------------------------------------------ compact summary (preface of saved files): decimals handed to round()
def u_compact(root):
    """get_compact_representation rounds with python's round(x, d): the number it prints has d decimals.  A faithful summary needs d >= 0 for every number
    (never rounded left of the decimal point: '2420' for 2424.29 would claim four exact digits), the value at least as fine as its uncertainty, and an uncertainty of
    magnitude >= 1 kept to its second significant digit.  log10 is uninterpreted; int() truncates towards zero."""
    eng = engine(root, ["kafe2/tools.py"], {}, [])
    L10 = z3.Function("log10_of_abs", R, R)
    eng.consts = {"np": VLib("np")}
    eng.lib["np.abs"] = lambda e, st, a, kw, n: VNum(z3.If(a[0].real() >= 0, a[0].real(), -a[0].real()))
    eng.lib["np.log10"] = lambda e, st, a, kw, n: VNum(L10(a[0].real()))
    eng.lib["np.floor"] = lambda e, st, a, kw, n: VNum(z3.ToReal(z3.ToInt(a[0].real())))
    eng.lib["np.isnan"] = lambda e, st, a, kw, n: VBool(z3.BoolVal(False))          # finite numbers (NaN marks a fixed parameter: the other branch)
    eng.lib["int"] = lambda e, st, a, kw, n: VNum(a[0].e) if a[0].is_int else VNum(z3.If(a[0].real() >= 0, z3.ToInt(a[0].real()), -z3.ToInt(-a[0].real())))          # truncation towards zero
    eng.lib["max"] = lambda e, st, a, kw, n: VNum(z3.If(num_pair(a[0], a[1])[0] >= num_pair(a[0], a[1])[1], num_pair(a[0], a[1])[0], num_pair(a[0], a[1])[1]))

    def rnd(e, st, a, kw, n):
        st.ghost = dict(st.ghost)
        d = a[1].e if a[1].is_int else z3.ToInt(a[1].e)
        st.ghost["rounded"] = st.ghost.get("rounded", ()) + ((ast.unparse(n.args[0]), a[0].real(), d),)
        return VNum(z3.FreshReal("rounded"))
    eng.lib["round"] = rnd
    eng.lib["zip"] = lambda e, st, a, kw, n: VTuple([VTuple([p_.items[q_] for p_ in a]) for q_ in range(len(a[0].items))])
    eng.lib["enumerate"] = lambda e, st, a, kw, n: VTuple([VTuple([VNum(z3.IntVal(q_)), it_]) for q_, it_ in enumerate(a[0].items)])
    eng.lib["len"] = lambda e, st, a, kw, n: VNum(z3.IntVal(len(a[0].items))) if isinstance(a[0], VTuple) else lib.lib_len(e, st, a, kw, n)
    tab = VExternal("tabulate", {})
    eng.ext_results = {"tabulate": lambda e, st, a, kw: VStr("row-a\nrow-b"), "tolist": lambda e, st, a, kw: VTuple([VTuple([VNum(z3.RealVal(1)), VNum(z3.Real("rho"))]), VTuple([VNum(z3.Real("rho")), VNum(z3.RealVal(1))])])}
    orig_import = eng.st_Import
    eng.st_Import = lambda n, st: ([st.locals.__setitem__(al.asname or al.name, tab) for al in n.names if al.name == "tabulate"], [(st, "next", None)])[1] if any(al.name == "tabulate" for al in n.names) else orig_import(n, st)
    vals, errs = [z3.Real("value_a"), z3.Real("value_b")], [z3.Real("error_a"), z3.Real("error_b")]
    asym = [[z3.Real("down_a"), z3.Real("up_a")], [z3.Real("down_b"), z3.Real("up_b")]]
    cor = VExternal("cor_mat", {})
    cor.vattr = lambda e, st, name: VTuple([VNum(z3.IntVal(2)), VNum(z3.IntVal(2))]) if name == "shape" else None
    for with_asym in (False, True):
        c = Contract("@kafe2/tools.py", "get_compact_representation")
        ab = lambda t: z3.If(t >= 0, t, -t)
        fl = lambda t: z3.ToInt(t)          # floor

        def post(vw, with_asym=with_asym):
            if vw.flow == "raise":
                return [("no exception", z3.BoolVal(False))]
            out = []
            by = {}
            for what, x, d in vw.post.ghost.get("rounded", ()):
                by.setdefault(what, []).append((x, d))
            for what, lst in by.items():
                for x, d in lst:
                    out.append((f"round({what}, d): d >= 0 - never rounded left of the decimal point", d >= 0))
                    if "err" in what:
                        out.append((f"round({what}, d): an uncertainty of magnitude >= 1 keeps its second significant digit: d >= 1 - floor(log10|.|)", z3.Implies(L10(ab(x)) >= 0, d >= 1 - fl(L10(ab(x))))))
            vd = [d for x, d in by.get("_par_val", [])]
            ed = [d for x, d in by.get("_par_err", [])]
            out.append(("the value is rounded at least as finely as its uncertainty", z3.And([v_ >= e_ for v_, e_ in zip(vd, ed)]) if vd and len(vd) == len(ed) else z3.BoolVal(not vd and not ed)))
            return out
        c.ensures.append(post)

        def init(e, st, me_, with_asym=with_asym):
            st.assume(z3.And([x != 0 for x in vals]))
            return {"parameter_names": VTuple([VStr("a"), VStr("b")]), "parameter_values": VTuple([VNum(v) for v in vals]), "parameter_errors": VTuple([VNum(v) for v in errs]), "parameter_cor_mat": cor,
                    "asymmetric_parameter_errors": VTuple([VTuple([VNum(v) for v in row]) for row in asym]) if with_asym else VNone()}
        eng.verify("@kafe2/tools.py", "get_compact_representation", None, init, contract=c, tag=f"(2 parameters{', asymmetric uncertainties' if with_asym else ''})")
    return eng


def u_multi_refresh(root):
    """MultiFit._update_parameter_formatters (what MultiFit.report / plots call before printing): when asymmetric uncertainties are asked for, the multi-fit computes ITS asymmetric
    uncertainties first (that pushes them to the members), and only then every member refreshes its formatters, with the same flag"""
    from . import c03
    Part, Val, Fn = c03.Part, c03.Val, c03.Fn
    eng = engine(root, ["kafe2/fit/multi/fit.py", "kafe2/fit/_base/fit.py"], {"MultiFit": {"_fits": PYOBJ}}, [])
    mk(eng, "MultiFit", "asymmetric_parameter_errors", "getter", result=lambda vw: (c03.log(vw.post, "multi_asymmetric_errors_computed"), Val("asym"))[1])
    for asked in (True, False):
        c = Contract("MultiFit", "_update_parameter_formatters")

        def post(vw, asked=asked):
            tr = list(vw.post.ghost.get("fx", ()))
            upd = [(q_, x) for q_, x in enumerate(tr) if x[0] == "call" and x[2] == "_update_parameter_formatters"]
            comp = [q_ for q_, x in enumerate(tr) if x[0] == "multi_asymmetric_errors_computed"]
            flags = [x[4].get("update_asymmetric_errors") for _, x in upd]
            out = [("every member refreshes its formatters, in order, with the flag the multi-fit was given", z3.BoolVal(vw.flow != "raise" and [x[1] for _, x in upd] == ["member0", "member1"] and all(isinstance(f_, VBool) and z3.is_true(z3.simplify(f_.e)) == asked for f_ in flags)))]
            if asked:
                out.append(("the multi-fit's asymmetric uncertainties are computed BEFORE any member refreshes (the members only hold what the multi-fit pushed to them)", z3.BoolVal(len(comp) >= 1 and bool(upd) and comp[0] < upd[0][0])))
            return out
        c.ensures.append(post)
        eng.verify("MultiFit", "_update_parameter_formatters", None,
                   lambda e, st, me_, asked=asked: (e.write_field(st, me_, "_fits", VTuple([Part("member0", {"_update_parameter_formatters": Fn(lambda e_, st_, a, kw: VNone())}), Part("member1", {"_update_parameter_formatters": Fn(lambda e_, st_, a, kw: VNone())})])),
                                                    {"update_asymmetric_errors": VBool(z3.BoolVal(asked))})[1], contract=c, tag=f"[asymmetric uncertainties asked for: {asked}]")
    return eng


def units(root):
    return [Unit("ScalarFormatter.__init__ / __call__", u_scalar), Unit("rounding lemma", u_lemma), Unit("ParameterFormatter.get_formatted", u_parameter), Unit("formatters follow the fit (refresh, fixed marks)", u_refresh),
            Unit("MultiFit refreshes its members' formatters after computing its own asymmetric uncertainties", u_multi_refresh, bounded="two member fits (recording stand-ins)"),
            Unit("get_compact_representation: decimals of the summary table", u_compact, bounded="2 parameters (the table loop is unrolled); values, uncertainties and asymmetric uncertainties symbolic reals")]
