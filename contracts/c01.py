"""C01 - Cost value is the documented -2 log-likelihood of exactly the declared inputs.

Decomposition (DESIGN 3, C01): (1) composition in CostFunction.__call__ for every built-in configuration; (2) formula terms: _chi2 on
its QR / Cholesky / pointwise / no-error paths, log-determinants, NLL statics, constraint costs; (3) x->y projection in XYFit;
(4) total = model + data lambdas registered in the graph; (5) no declared source is silently ignored: FitBase.data setter wires BOTH
containers to _on_error_change, which marks every basic error node and switches the implicit no-error chi2 to the covariance chi2.
Linear algebra is uninterpreted (vectors/matrices as terms); the identities connecting the computed terms to r^T V^-1 r and log det V
are the Lean/Mathlib lemmas lean/Mat.lean (qr_quadform, chol_quadform) and lean/LogDet.lean (logdet_chol, logdet_qr), used as axioms.
"""
import ast as _ast
import z3
from .base import *
from . import costlib as CL

UTIL = "@kafe2/fit/util/__init__.py"
FILES = ["kafe2/fit/_base/cost.py", "kafe2/core/constraint.py", "kafe2/fit/io/file.py", "kafe2/fit/util/__init__.py", "kafe2/fit/xy/fit.py", "kafe2/fit/_base/fit.py", "kafe2/fit/xy/model.py",
         "kafe2/fit/_base/model.py", "kafe2/fit/unbinned/cost.py", "kafe2/core/fitters/nexus.py"]
META = {
    "lean": ['Mat.lean', 'LogDet.lean'],
    "level": "proof",
    "trusted_base": [
        "Lean 4 / Mathlib lemmas (lean/Mat.lean, lean/LogDet.lean; re-checked with `lean` in the thorough tier): V = QR symmetric, Q orthogonal, R^T x = r => (rQ).x = r^T V^-1 r; V = L L^T, L x = r => x.x = r^T V^-1 r; log det(L L^T) = 2 sum log L_ii; log|det(QR)| = sum log|R_ii| - used here as axioms over uninterpreted linear algebra",
        "numpy / scipy contracts: np.linalg.qr / cholesky return the factors of their argument; scipy.linalg.solve_triangular(A, b, lower, trans) solves A x = b resp. A^T x = b; np.inner / ndarray.dot / np.sum / np.log / np.diag are the usual operations; scipy.stats.norm.logpdf / poisson.logpmf are the log densities (uninterpreted, elementwise)",
        "the cost handle is a pure function of its argument values; graph node values are what the graph delivers (C04); the per-container total covariance is the sum of enabled sources (C02)",
        "floats as reals (NaN guards `np.isnan(cost)` are modelled as never firing on finite inputs); z3/cvc5 soundness",
    ],
    "assumptions": ["machine arithmetic treated as mathematical", "closed world of kafe2 classes", "covariance matrices handed to the chi2 are symmetric positive definite (the property's own restriction)",
                    "the wiring of cost argument names to graph nodes for every fit type x cost identifier is an exhaustive native enumeration of a finite axis (reported under bounded), not a proof"],
    "bounded": [{"what": "cost_function_value of real fits against an independent implementation of the documented formulas: 4 fit types x all accepted built-in cost identifiers x source mixes (simple/matrix, abs/rel, data/model reference, x/y, enabled/disabled, model-referenced source first or only) x constraints x parameter points; typed wiring table of cost arguments",
                 "bound": "native: ~400 configurations, 3-6 data points"}],
}
me = z3.Const("self", Ref)
i, j = z3.Ints("i j")
PA = arr(I, R)
VecU, MatU = z3.DeclareSort("VecU"), z3.DeclareSort("MatU")
vec_of = z3.Function("vec_of", PA, I, VecU)
solve_tri = z3.Function("solve_triangular", MatU, VecU, B, B, VecU)       # (A, b, lower, transposed)
vecmat = z3.Function("vec_times_mat", VecU, MatU, VecU)
dot = z3.Function("dot", VecU, VecU, R)
Qof, Rof, Lof = z3.Function("qr_Q", MatU, MatU), z3.Function("qr_R", MatU, MatU), z3.Function("chol_L", MatU, MatU)
quadform = z3.Function("quadform_inv", MatU, VecU, R)                     # r^T V^-1 r
logdet = z3.Function("log_det", MatU, R)
sumlogdiag, sumlogabsdiag = z3.Function("sum_log_diag", MatU, R), z3.Function("sum_log_abs_diag", MatU, R)
usum = z3.Function("np_sum", PA, I, R)
ulog = z3.Function("uf_log", R, R)
V_, r_ = z3.Const("V_", MatU), z3.Const("r_", VecU)
LEAN_AXIOMS = [
    z3.ForAll([V_, r_], dot(vecmat(r_, Qof(V_)), solve_tri(Rof(V_), r_, z3.BoolVal(False), z3.BoolVal(True))) == quadform(V_, r_)),     # Mat.lean: qr_quadform
    z3.ForAll([V_, r_], dot(solve_tri(Lof(V_), r_, z3.BoolVal(True), z3.BoolVal(False)), solve_tri(Lof(V_), r_, z3.BoolVal(True), z3.BoolVal(False))) == quadform(V_, r_)),  # chol_quadform
    z3.ForAll([V_], 2 * sumlogdiag(Lof(V_)) == logdet(V_)),       # LogDet.lean: logdet_chol
    z3.ForAll([V_], sumlogabsdiag(Rof(V_)) == logdet(V_)),        # LogDet.lean: logdet_qr (det V > 0)
]


class VTerm(V):
    """an abstract vector / matrix term"""

    def __init__(self, e):
        self.e = e


def as_vec(x):
    if isinstance(x, VTerm):
        return x.e
    return vec_of(materialise(x.arr, "vec"), x.len)


def la_engine(root, schema):
    eng = engine(root, FILES, schema, LEAN_AXIOMS)
    def solve(e, st, a, kw, n):
        if e.decide(st, ("solve_triangular rejects", getattr(e, "_ctx", ()), id(n)), fresh("solve_rejects_input", B)):
            raise PyRaise("ValueError")
        return VTerm(solve_tri(a[0].e, as_vec(a[1]), kw["lower"].e if "lower" in kw else z3.BoolVal(False), z3.BoolVal(isinstance(kw.get("trans"), VStr) and kw["trans"].s == "T")))
    eng.lib["solve_triangular"] = solve
    eng.lib["np.inner"] = lambda e, st, a, kw, n: VNum(dot(as_vec(a[0]), as_vec(a[1])))
    eng.lib["np.isnan"] = lambda e, st, a, kw, n: VBool(z3.BoolVal(False))
    eng.lib["np.sum"] = lambda e, st, a, kw, n: VNum(usum(materialise(a[0].arr, "summand"), a[0].len)) if isinstance(a[0], VSeq) else (_ for _ in ()).throw(Unsupported("np.sum of " + type(a[0]).__name__))
    eng.lib["np.log"] = lambda e, st, a, kw, n: (VSeq(FnArr(lambda k_: ulog(a[0].arr[k_])), a[0].len) if isinstance(a[0], VSeq) else VNum(ulog(a[0].real())))
    eng.lib["np.dot"] = lambda e, st, a, kw, n: e.dot_model(a[0], a[1])
    eng.dot_model = lambda x, y: VNum(dot(as_vec(x), as_vec(y))) if isinstance(y, (VSeq,)) or (isinstance(y, VTerm) and y.e.sort() == VecU) else VTerm(vecmat(as_vec(x), y.e))
    return eng


# ------------------------------------------------------------------ (1) composition
def u_call(root):
    eng = CL.cost_engine(root)
    for name, core_names, det, con in CL.CONFIGS:
        for cons_none in ((False, True) if con else (False,)):
            for det_none in ((False, True) if det else (False,)):
                CL.verify_call(eng, CL.Cfg(name, core_names, det, con, cons_none=cons_none, det_none=det_none, tag="call"))
    return eng


# ------------------------------------------------------------------ (2) chi2 on its four paths
def u_chi2(root):
    eng = la_engine(root, {"CostFunction_Chi2": {"_fail_on_no_matrix": BOOL, "_fail_on_no_errors": BOOL, "_needs_errors": BOOL}})
    inline(eng, "CostFunction", "needs_errors")
    data, model, err = VSeq.fresh("data"), VSeq.fresh("model"), VSeq.fresh("err")
    Vm = z3.Const("V", MatU)
    res = lambda: vec_of(materialise(FnArr(lambda k_: data.arr[k_] - model.arr[k_]), "res"), data.len)
    for path in ("qr", "cholesky", "pointwise", "none"):
        def init(e, st, me_, path=path):
            a = {"data": data, "model": model, "cov_mat_qr": VNone(), "cov_mat_cholesky": VNone(), "err": VNone()}
            if path == "qr":
                a["cov_mat_qr"] = VTuple([VTerm(Qof(Vm)), VTerm(Rof(Vm))])
            elif path == "cholesky":
                a["cov_mat_cholesky"] = VTerm(Lof(Vm))
            elif path == "pointwise":
                a["err"] = err
            st.assume(z3.And(data.len >= 0, model.len >= 0, err.len == data.len))
            return a

        def post(vw, path=path):
            if vw.flow == "raise":
                cases = [data.len != model.len]
                if path in ("pointwise", "none"):
                    cases.append(vw.f(vw.pre, vw.self, "_fail_on_no_matrix").e)
                if path == "pointwise":
                    cases.append(z3.And(vw.f(vw.pre, vw.self, "_fail_on_no_errors").e, z3.Exists([i], z3.And(0 <= i, i < err.len, err.arr[i] == 0))))
                return [("raises only for a shape mismatch or a configured 'fail' fallback", z3.Or(cases))]
            if isinstance(vw.result, VOpaque):
                return [("infinite cost only when the triangular solve rejects its input", z3.BoolVal(path in ("qr", "cholesky")))]
            if path in ("qr", "cholesky"):
                return [("chi2 = r^T V^-1 r with r = data - model (through the %s factors of V; Lean lemma)" % path, vw.result.real() == quadform(Vm, res()))]
            if path == "none":
                return [("chi2 = sum of squared residuals", vw.result.real() == dot(res(), res()))]
            zero = z3.Exists([i], z3.And(0 <= i, i < err.len, err.arr[i] == 0))
            scaled = vec_of(materialise(FnArr(lambda k_: (data.arr[k_] - model.arr[k_]) / err.arr[k_]), "res"), data.len)
            return [("chi2 = sum ((d_k - m_k) / sigma_k)^2; with a zero uncertainty the documented fallback to unit uncertainties", vw.result.real() == z3.If(zero, dot(res(), res()), dot(scaled, scaled)))]
        c = Contract("CostFunction_Chi2", "_chi2")
        c.ensures.append(post)
        eng.verify("CostFunction_Chi2", "_chi2", None, init, contract=c, tag=f"({path})")
    return eng


def u_logdet(root):
    eng = la_engine(root, {})
    Vm = z3.Const("V", MatU)
    eng.lib["np.diag"] = lambda e, st, a, kw, n: VTerm(("diag", a[0].e)) if isinstance(a[0], VTerm) else lib.lib_np_diag(e, st, a, kw, n)
    eng.lib["np.abs"] = lambda e, st, a, kw, n: VTerm(("absdiag", a[0].e[1])) if isinstance(a[0], VTerm) and isinstance(a[0].e, tuple) else (_ for _ in ()).throw(Unsupported("np.abs"))
    eng.lib["np.log"] = lambda e, st, a, kw, n: VTerm(("log",) + a[0].e) if isinstance(a[0], VTerm) and isinstance(a[0].e, tuple) else (VSeq(FnArr(lambda k_: ulog(a[0].arr[k_])), a[0].len))

    def np_sum(e, st, a, kw, n):
        x = a[0]
        if isinstance(x, VTerm) and isinstance(x.e, tuple) and x.e[0] == "log":
            return VNum({"diag": sumlogdiag, "absdiag": sumlogabsdiag}[x.e[1]](x.e[2]))
        return VNum(usum(materialise(x.arr, "summand"), x.len))
    eng.lib["np.sum"] = np_sum
    for fn, arg, spec in (("log_determinant_cholesky", VTerm(Lof(Vm)), logdet(Vm)), ("log_determinant_qr", VTuple([VTerm(Qof(Vm)), VTerm(Rof(Vm))]), logdet(Vm))):
        c = Contract(UTIL, fn)
        c.ensures.append(lambda vw, spec=spec: [("log-determinant term = ln det V (from the decomposition handed in; Lean lemma)", vw.result.real() == spec)])
        pname = {"log_determinant_cholesky": "cholesky_mat", "log_determinant_qr": "qr"}[fn]
        eng.verify(UTIL, fn, None, lambda e, st, me_, arg=arg, pname=pname: {pname: arg}, contract=c)
        c0 = Contract(UTIL, fn)
        c0.ensures.append(lambda vw: [("no decomposition (singular matrix) => the term is 0", vw.result.real() == 0)])
        eng.verify(UTIL, fn, None, lambda e, st, me_, pname=pname: {pname: VNone()}, contract=c0, tag="(None)")
    pe = VSeq.fresh("pointwise_error")
    c = Contract(UTIL, "log_determinant_pointwise")
    c.ensures.append(lambda vw: [("pointwise log-determinant = 2 sum ln sigma_k = ln prod sigma_k^2", vw.result.real() == 2 * usum(materialise(FnArr(lambda k_: ulog(pe.arr[k_])), "summand"), pe.len))])
    eng.verify(UTIL, "log_determinant_pointwise", None, lambda e, st, me_: {"pointwise_error": pe}, contract=c)
    return eng


def u_nll(root):
    eng = la_engine(root, {})
    lpn, lpp = z3.Function("norm_logpdf", R, R, R, R), z3.Function("poisson_logpmf", R, R, R)
    data, model, err = VSeq.fresh("data"), VSeq.fresh("model"), VSeq.fresh("total_error")

    def get(a, kw, pos, name):
        return kw[name] if name in kw else a[pos]
    eng.lib["norm.logpdf"] = lambda e, st, a, kw, n: (lambda x, mu, sg: VSeq(FnArr(lambda k_: lpn(x.arr[k_], mu.arr[k_], sg.arr[k_])), x.len))(get(a, kw, 0, "x"), get(a, kw, 1, "loc"), get(a, kw, 2, "scale"))
    eng.lib["poisson.logpmf"] = lambda e, st, a, kw, n: (lambda k, mu: VSeq(FnArr(lambda q_: lpp(k.arr[q_], mu.arr[q_])), k.len))(get(a, kw, 0, "k"), get(a, kw, 1, "mu"))
    S = lambda f: usum(materialise(FnArr(f), "summand"), data.len)
    specs = {
        "nll_gaussian": (lambda: -2 * S(lambda k_: lpn(data.arr[k_], model.arr[k_], err.arr[k_])), True),
        "nll_poisson": (lambda: -2 * S(lambda k_: lpp(data.arr[k_], model.arr[k_])), False),
        "nllr_gaussian": (lambda: -2 * (S(lambda k_: lpn(data.arr[k_], model.arr[k_], err.arr[k_])) - S(lambda k_: lpn(data.arr[k_], data.arr[k_], err.arr[k_]))), True),
        "nllr_poisson": (lambda: -2 * (S(lambda k_: lpp(data.arr[k_], model.arr[k_])) - S(lambda k_: lpp(data.arr[k_], data.arr[k_]))), False),
    }
    for fn, (spec, has_err) in specs.items():
        c = Contract("CostFunction_NegLogLikelihood", fn)
        c.requires.append(lambda vw: z3.And(data.len == model.len, data.len == err.len, data.len >= 0))
        c.ensures.append(lambda vw, spec=spec, fn=fn: [("%s = -2 sum of the pointwise log-likelihoods (minus the saturated ones for the ratio)" % fn, vw.result.real() == spec())])
        eng.verify("CostFunction_NegLogLikelihood", fn, None, lambda e, st, me_, has_err=has_err: dict(data=data, model=model, **({"total_error": err} if has_err else {})), contract=c)
    return eng


def u_constraints(root):
    schema = {"GaussianSimpleParameterConstraint": {"_index": INT, "_value": NUM, "_uncertainty_abs": OPTNUM, "_uncertainty_rel": OPTNUM, "_relative": BOOL},
              "GaussianMatrixParameterConstraint": {"_indices": SEQ, "_values": SEQ, "_cov_mat_inverse_term": PYOBJ}}
    eng = la_engine(root, schema)
    pv = VSeq.fresh("parameter_values")
    inline(eng, "GaussianSimpleParameterConstraint", "index", "value")
    fld = lambda vw, st, f: vw.f(st, vw.self, f)
    absu = lambda vw, st: z3.If(fld(vw, st, "_uncertainty_abs").none, fld(vw, st, "_uncertainty_rel").e * fld(vw, st, "_value").e, fld(vw, st, "_uncertainty_abs").e)
    mk(eng, "GaussianSimpleParameterConstraint", "uncertainty", "getter", result=lambda vw: VNum(absu(vw, vw.pre)))
    c = Contract("GaussianSimpleParameterConstraint", "cost")
    c.requires.append(lambda vw: z3.And(0 <= fld(vw, vw.pre, "_index").e, fld(vw, vw.pre, "_index").e < pv.len))

    def post(vw):
        d = (pv.arr[fld(vw, vw.pre, "_index").e] - fld(vw, vw.pre, "_value").e) / absu(vw, vw.pre)
        return [("simple constraint cost = ((p[index] - value) / uncertainty)^2", vw.result.real() == d * d)]
    c.ensures.append(post)
    eng.verify("GaussianSimpleParameterConstraint", "cost", None, lambda e, st, me_: {"parameter_values": pv}, contract=c)
    # uncertainty getter body (relative form: uncertainty = uncertainty_rel * value)
    g = Contract("GaussianSimpleParameterConstraint", "uncertainty", "getter")
    g.requires.append(lambda vw: z3.Not(z3.And(fld(vw, vw.pre, "_uncertainty_abs").none, fld(vw, vw.pre, "_uncertainty_rel").none)))
    g.ensures.append(lambda vw: [("absolute uncertainty (relative form converted with the constraint value)", z3.And(z3.Not(vw.result.none), vw.result.e == absu(vw, vw.pre)) if isinstance(vw.result, VOptNum) else vw.result.real() == absu(vw, vw.pre))])
    saved = eng.contracts.pop(("GaussianSimpleParameterConstraint", "uncertainty", "getter"))
    eng.verify("GaussianSimpleParameterConstraint", "uncertainty", "getter", contract=g)
    # matrix constraint
    Cinv = z3.Const("cov_mat_inverse", MatU)
    inline(eng, "GaussianMatrixParameterConstraint", "indices", "values")
    mk(eng, "GaussianMatrixParameterConstraint", "cov_mat_inverse", "getter", result=lambda vw: VTerm(Cinv))
    IDX, VAL = H("_indices", "seq")[me], H("_values", "seq")[me]
    nI = H("_indices", "seq", "len")[me]
    eng.index_model = True
    m = Contract("GaussianMatrixParameterConstraint", "cost")
    m.requires.append(lambda vw: z3.And(nI >= 0, H("_values", "seq", "len")[me] == nI, z3.ForAll([i], z3.Implies(z3.And(0 <= i, i < nI), z3.And(0 <= z3.ToInt(IDX[i]), z3.ToInt(IDX[i]) < pv.len)))))

    def mpost(vw):
        resv = vec_of(materialise(FnArr(lambda k_: pv.arr[z3.ToInt(IDX[k_])] - VAL[k_]), "res"), nI)
        return [("matrix constraint cost = r^T C^-1 r with r_k = p[indices_k] - values_k", vw.result.real() == dot(vecmat(resv, Cinv), resv))]
    m.ensures.append(mpost)
    eng.verify("GaussianMatrixParameterConstraint", "cost", None, lambda e, st, me_: {"parameter_values": pv}, contract=m)
    return eng



# ------------------------------------------------------------------ (3) x -> y projection
def u_projection(root):
    eng = la_engine(root, {"XYFit": {"_param_model": REF("XYParametricModel")}, "XYParametricModel": {"_model_function_object": FUN, "_model_parameters": SEQ, "_data": MAT}})
    eng.lib["np.sqrt"] = lambda e, st, a, kw, n: (VSeq(FnArr(lambda k_: usqrt(a[0].arr[k_])), a[0].len) if isinstance(a[0], VSeq) else VNum(usqrt(a[0].real())))
    eng.lib["np.square"] = lambda e, st, a, kw, n: VSeq(FnArr(lambda k_: a[0].arr[k_] * a[0].arr[k_]), a[0].len)
    fprime = z3.Function("model_slope", R, PA, R)
    xcov, ycov = VMat(z3.Const("x_cov_mat", arr(I, I, R)), z3.Int("n"), z3.Int("n")), VMat(z3.Const("y_cov_mat", arr(I, I, R)), z3.Int("n"), z3.Int("n"))
    xm, pv, xe, ye = VSeq(z3.Const("x_model", PA), z3.Int("n")), VSeq.fresh("parameter_values"), VSeq(z3.Const("x_error", PA), z3.Int("n")), VSeq(z3.Const("y_error", PA), z3.Int("n"))
    n = z3.Int("n")
    d = mk(eng, "XYParametricModel", "eval_model_function_derivative_by_x")
    d.result = lambda vw: VSeq(FnArr(lambda k_: fprime(vw.args["x"].arr[k_], materialise(vw.args["model_parameters"].arr, "pv"))), vw.args["x"].len)
    d.requires.append(lambda vw: vw.args["dx"].len == vw.args["x"].len)
    P = materialise(pv.arr, "pv")
    c = Contract("XYFit", "_project_cov_mat")
    c.requires.append(lambda vw: z3.And(n >= 0, H("_param_model", "ref")[me] != NULL))
    c.ensures.append(lambda vw: [("projected covariance: V_y[i][j] + V_x[i][j] f'(x_i) f'(x_j), slopes at the current parameters", z3.And(vw.result.rows == n, vw.result.cols == n,
                                  z3.ForAll([i, j], z3.Implies(z3.And(0 <= i, i < n, 0 <= j, j < n), vw.result.at(i, j) == ycov.at(i, j) + xcov.at(i, j) * (fprime(xm.arr[i], P) * fprime(xm.arr[j], P))))))])
    eng.verify("XYFit", "_project_cov_mat", None, lambda e, st, me_: {"x_cov_mat": xcov, "y_cov_mat": ycov, "x_model": xm, "parameter_values": pv}, contract=c)
    c = Contract("XYFit", "_project_error")
    c.requires.append(lambda vw: z3.And(n >= 0, H("_param_model", "ref")[me] != NULL))
    c.ensures.append(lambda vw: [("projected pointwise uncertainty: sqrt(sigma_y^2 + (sigma_x f'(x))^2)", z3.And(vw.result.len == n,
                                  z3.ForAll([i], z3.Implies(z3.And(0 <= i, i < n), vw.result.arr[i] == usqrt(ye.arr[i] * ye.arr[i] + (xe.arr[i] * fprime(xm.arr[i], P)) * (xe.arr[i] * fprime(xm.arr[i], P)))))))])
    eng.verify("XYFit", "_project_error", None, lambda e, st, me_: {"x_error": xe, "y_error": ye, "x_model": xm, "parameter_values": pv}, contract=c)
    # the slope itself: central difference with the documented default step where dx == 0
    f = z3.Function("model_f", R, PA, R)
    eng.fun_models = {"_model_function_object": lambda e, st, args, kw, node: VSeq(FnArr(lambda k_: f(args[0].arr[k_], materialise(args[1].seq.arr, "pv"))), args[0].len)}
    eng.lib["np.where"] = lambda e, st, a, kw, node: VSeq(FnArr(lambda k_: z3.If(a[0].fn(k_), a[1].arr[k_], a[2].arr[k_])), a[1].len)
    eng.lib["np.abs"] = lambda e, st, a, kw, node: VSeq(FnArr(lambda k_: z3.If(a[0].arr[k_] >= 0, a[0].arr[k_], -a[0].arr[k_])), a[0].len)
    dx = VSeq(z3.Const("dx", PA), z3.Int("n"))
    eng.contracts.pop(("XYParametricModel", "eval_model_function_derivative_by_x", None))
    c = Contract("XYParametricModel", "eval_model_function_derivative_by_x")
    c.requires.append(lambda vw: n >= 0)
    absx = lambda t: z3.If(t >= 0, t, -t)
    step = lambda k: z3.If(dx.arr[k] == 0, z3.RealVal("1/100") * (absx(xm.arr[k]) + 1 / (1 + absx(xm.arr[k]))), dx.arr[k])
    c.ensures.append(lambda vw: [("slope = central difference (f(x+h) - f(x-h)) / 2h at the given parameters, h = dx or the documented default where dx is 0",
                                  z3.ForAll([i], z3.Implies(z3.And(0 <= i, i < n), vw.result.arr[i] == z3.RealVal("1/2") * (f(xm.arr[i] + step(i), P) - f(xm.arr[i] - step(i), P)) / step(i))))])
    eng.verify("XYParametricModel", "eval_model_function_derivative_by_x", None, lambda e, st, me_: {"x": xm, "model_parameters": pv, "dx": dx}, contract=c)
    return eng


usqrt = z3.Function("uf_sqrt", R, R)


# ------------------------------------------------------------------ (4) totals registered in the graph: model + data
def u_total_lambdas(root):
    eng = la_engine(root, {})
    eng.lib["np.sqrt"] = lambda e, st, a, kw, n: VSeq(FnArr(lambda k_: usqrt(a[0].arr[k_])), a[0].len)
    owner, fdef = eng.repo.find("FitBase", "_init_nexus")
    lams = [x for x in _ast.walk(fdef) if isinstance(x, _ast.Lambda) and [a.arg for a in x.args.args] == ["m", "d"]]
    lams.sort(key=lambda x: (x.lineno, x.col_offset))
    if len(lams) != 2:
        raise Unsupported(f"expected the two total-uncertainty lambdas (m, d) in FitBase._init_nexus, found {len(lams)}")
    m_, d_ = VSeq(z3.Const("m_err", PA), z3.Int("n")), VSeq(z3.Const("d_err", PA), z3.Int("n"))
    M_, D_ = VMat(z3.Const("m_cov", arr(I, I, R)), z3.Int("n"), z3.Int("n")), VMat(z3.Const("d_cov", arr(I, I, R)), z3.Int("n"), z3.Int("n"))
    st = State()
    eng._cur = st
    r_err = eng.call_lambda(VLambda(lams[0], {}), [m_, d_], {}, st)
    r_cov = eng.call_lambda(VLambda(lams[1], {}), [M_, D_], {}, st)
    eng.lemma("total pointwise uncertainty node = sqrt(model^2 + data^2) elementwise", [], z3.ForAll([i], r_err.arr[i] == usqrt(m_.arr[i] * m_.arr[i] + d_.arr[i] * d_.arr[i])))
    eng.lemma("total covariance node = model covariance + data covariance elementwise", [], z3.ForAll([i, j], r_cov.at(i, j) == M_.at(i, j) + D_.at(i, j)))
    import hashlib
    seg = _ast.get_source_segment(eng.repo.files[eng.repo.classes[owner][0]][0], fdef)
    eng.functions.append({"path": eng.repo.classes[owner][0], "qualname": "FitBase._init_nexus (the two total-uncertainty lambdas only)", "verified_as": "FitBase", "sha256": hashlib.sha256(seg.encode()).hexdigest(), "exit_paths": [], "obligations": 2})
    return eng


# ------------------------------------------------------------------ (5) no declared source is silently ignored
def u_error_change(root):
    schema = {"FitBase": {"_fitter": PYOBJ, "_nexus": REF("Nexus"), "_implicit_no_errors": BOOL, "_cost_function": REF("CostFunction"), "_cost_function_pointwise": REF("CostFunction"),
                          "_data_container": REF("DataContainerBase"), "_param_model": REF("DataContainerBase")},
              "DataContainerBase": {"_on_error_change_callback": PYOBJ}, "CostFunction": {"#kwargs": PYOBJ}}
    eng = engine(root, FILES + ["kafe2/fit/indexed/fit.py", "kafe2/fit/_base/container.py"], schema, [])
    mk(eng, "Nexus", "get", result=lambda vw: VNode(vw.args["node_name"].s, vw.self.e))
    made = []

    def ctor(e, st, a, kw, n):
        r = e.alloc(st, "new_cost_function", "CostFunction")
        made.append((r, kw))
        return r
    eng.lib["class:CostFunction_Chi2"] = ctor
    eng.consts = {"STRING_TO_COST_FUNCTION": VDict({"chi2_covariance": VTuple([VLib("class:CostFunction_Chi2"), VDict({"errors_to_use": VStr("covariance")})])})}
    pw = z3.Const("pointwise_version", Ref)
    mk(eng, "CostFunction", "pointwise_version", "getter", result=lambda vw: VRef(pw, "CostFunction"))
    newname = VStr("chi2")
    mk(eng, "CostFunction", "name", "getter", result=lambda vw: newname)
    initcalls = []
    mk(eng, "FitBase", "_init_cost_function", result=lambda vw: (initcalls.append(dict(vw.args)), VNone())[1])
    mk(eng, "FitBase", "has_data_errors", "getter", result=lambda vw: VBool(z3.Bool("has_data_errors")))          # (not asked by the code under proof: the switch does not depend on WHERE the first source was declared)
    mk(eng, "FitBase", "has_model_errors", "getter", result=lambda vw: VBool(z3.Bool("has_model_errors")))
    mk(eng, "FitBase", "has_errors", "getter", result=lambda vw: VBool(z3.Bool("has_errors")))
    for implicit, fitcls in ((True, "IndexedFit"), (False, "IndexedFit"), (True, "XYFit")):
        rec = {}

        def init(e, st, me_, rec=rec, implicit=implicit):
            rec.clear(); made.clear(); initcalls.clear()
            e.write_field(st, me_, "_fitter", VExternal("fitter", rec))
            st.assume(e.read_field(st, me_, "_implicit_no_errors").e == implicit)
            return {}

        def post(vw, rec=rec, implicit=implicit, fitcls=fitcls):
            marked = {c[0] for c in vw.post.ghost.get("node_calls", ()) if c[1] == "mark_for_update"}
            table = {"data_error", "model_error", "data_cov_mat", "model_cov_mat"} if fitcls == "IndexedFit" else {a_ + t_ + s_ for a_ in ("x_", "y_") for t_ in ("data", "model") for s_ in ("_error", "_cov_mat")}          # xy: the sources of BOTH axes, data and model side
            out = [("minimizer state reset", z3.BoolVal(any(c[0] == "reset_minimizer" for c in rec.get("calls", [])))),
                   ("EVERY basic error node of the fit type is marked for update", z3.BoolVal(table <= marked))]
            if implicit:
                ok = len(made) == 1 and len(initcalls) == 1
                retarget = [c for c in rec.get("calls", []) if c[0] == "set:parameter_to_minimize"]
                out += [("the implicit no-error chi2 is replaced by the covariance chi2", z3.BoolVal(ok and isinstance(made[0][1].get("errors_to_use"), VStr) and made[0][1]["errors_to_use"].s == "covariance") if ok else z3.BoolVal(False)),
                        ("... installed as the fit's cost function, with its pointwise version", z3.And(vw.f(vw.post, vw.self, "_cost_function").e == made[0][0].e, vw.f(vw.post, vw.self, "_cost_function_pointwise").e == pw) if ok else z3.BoolVal(False)),
                        ("... re-registered in the graph, replacing the old cost node", z3.BoolVal(ok and isinstance(initcalls[0].get("existing_behavior"), VStr) and initcalls[0]["existing_behavior"].s == "replace")),
                        ("... and the minimizer is re-targeted at the new cost node", z3.BoolVal(len(retarget) == 1 and retarget[0][1][0] is newname)),
                        ("the implicit flag is cleared", z3.Not(vw.f(vw.post, vw.self, "_implicit_no_errors").e))]
            else:
                out += [("an explicit cost function is left alone", z3.And(vw.f(vw.post, vw.self, "_cost_function").e == vw.f(vw.pre, vw.self, "_cost_function").e, z3.BoolVal(len(made) == 0)))]
            return out
        c = Contract(fitcls, "_on_error_change")
        c.ensures.append(post)
        eng.verify(fitcls, "_on_error_change", None, init, contract=c, tag=f"({fitcls}, implicit_no_errors={implicit})")
    # data setter: BOTH containers deliver error changes to _on_error_change
    compat = z3.Bool("data_compatible")
    dc, pm = z3.Const("new_data_container", Ref), z3.Const("new_param_model", Ref)

    def snd(vw):
        vw.eng.write_field(vw.post, vw.self, "_data_container", VRef(dc, "DataContainerBase"))
        vw.eng.write_field(vw.post, VRef(dc, "DataContainerBase"), "_on_error_change_callback", VBound(vw.self, "_on_error_change"))     # done by every _set_new_data (checked natively per fit type)
        return VNone()
    mk(eng, "FitBase", "_set_new_data", result=snd)
    mk(eng, "FitBase", "_set_new_parametric_model", result=lambda vw: (vw.eng.write_field(vw.post, vw.self, "_param_model", VRef(pm, "DataContainerBase")), VNone())[1])
    mk(eng, "FitBase", "data", "getter", result=lambda vw: VOpaque("data"))
    mk(eng, "CostFunction", "is_data_compatible", result=lambda vw: VTuple([VBool(compat), VStr("reason")]))

    new_has_errors = z3.Bool("new_container_declares_uncertainties")
    mk(eng, "DataContainerBase", "has_errors", "getter", result=lambda vw: VBool(new_has_errors))

    def oec(vw):          # _on_error_change as proved above: the implicit chi2 is replaced; here only the call is recorded
        vw.post.ghost["oec_calls"] = vw.post.ghost.get("oec_calls", 0) + 1
        vw.eng.write_field(vw.post, vw.self, "_implicit_no_errors", VBool(z3.BoolVal(False)))
        return VNone()
    mk(eng, "FitBase", "_on_error_change", result=oec)
    implicit0 = z3.Bool("implicit_no_errors_before")

    def init2(e, st, me_):
        st.assume(e.read_field(st, me_, "_implicit_no_errors").e == implicit0)
        e.write_field(st, me_, "_fitter", VExternal("fitter", {}))
        st.assume(z3.And(dc != NULL, pm != NULL, dc != pm, e.read_field(st, me_, "_cost_function").e != NULL))
        e.write_field(st, VRef(pm, "DataContainerBase"), "_on_error_change_callback", VNone())
        return {"new_data": VOpaque("new_data")}

    def post2(vw):
        if vw.flow == "raise":
            return [("raises only for data the cost function cannot handle", z3.Not(compat))]
        cb = lambda r: vw.eng.read_field(vw.post, VRef(r, "DataContainerBase"), "_on_error_change_callback")
        wired = lambda r: z3.BoolVal(isinstance(cb(r), VBound) and cb(r).name == "_on_error_change" and z3.eq(cb(r).recv.e, vw.self.e))
        n_oec = vw.post.ghost.get("oec_calls", 0)
        return [("a fit still on the implicit no-errors chi2 that is given a container declaring uncertainties switches to the covariance chi2 (through _on_error_change, proved above): declared sources are not ignored",
                 z3.Implies(z3.And(implicit0, new_has_errors), z3.BoolVal(n_oec >= 1))),
                ("the data container reports uncertainty changes to the fit", wired(dc)),
                ("the parametric model ALSO reports uncertainty changes to the fit (a model-referenced source may be the first or only one)", wired(pm))]
    c = Contract("IndexedFit", "data", "setter")
    c.ensures.append(post2)
    eng.verify("IndexedFit", "data", "setter", init2, contract=c)
    return eng



def u_pointwise_version(root):
    """the optimised pointwise variant a fit switches to for a diagonal covariance is the SAME cost: same constraint flag and the same determinant flag the cost function itself evaluates"""
    schema = {"CostFunction": {"_cost_function_handle": PYOBJ, "_add_constraint_cost": BOOL, "_add_determinant_cost": BOOL, "_add_determinant_cost_ga": BOOL, "_fail_on_no_matrix": BOOL}}
    eng = engine(root, FILES, schema, [])
    made = []

    def ctor(cls):
        def f(e, st, a, kw, n):
            made.append((cls, dict(kw)))
            return e.alloc(st, "pointwise_cost", cls)
        return f
    for cls, det_field, handles in (("CostFunction_GaussApproximation", "_add_determinant_cost_ga", ("gaussian_approximation_covariance", "gaussian_approximation_pointwise_errors")),
                                    ("CostFunction_Chi2", "_add_determinant_cost", ("chi2_covariance", "chi2_covariance_fast", "chi2_pointwise_errors", "chi2_no_errors"))):
        eng.lib["class:" + cls] = ctor(cls)
        for h in handles:
            c = Contract(cls, "pointwise_version", "getter")

            def post(vw, cls=cls, det_field=det_field, h=h):
                has_variant = h in ("gaussian_approximation_covariance", "chi2_covariance")
                if not has_variant:
                    return [("no pointwise variant for this handle", z3.BoolVal(isinstance(vw.result, VNone)))]
                if not made or made[-1][0] != cls:
                    return [("a pointwise instance of the same class is built", z3.BoolVal(False))]
                kw = made[-1][1]
                ok = isinstance(kw.get("errors_to_use"), VStr) and kw["errors_to_use"].s == "pointwise" and isinstance(vw.result, VRef)
                return [("a pointwise instance of the same class is built", z3.BoolVal(bool(ok))),
                        ("same constraint flag", kw["add_constraint_cost"].e == vw.f(vw.pre, vw.self, "_add_constraint_cost").e if "add_constraint_cost" in kw else z3.BoolVal(False)),
                        ("same log-determinant flag as the one this cost function evaluates (" + det_field + ")", kw["add_determinant_cost"].e == vw.f(vw.pre, vw.self, det_field).e if "add_determinant_cost" in kw else z3.BoolVal(False))]
            c.ensures.append(post)
            made.clear()
            eng.verify(cls, "pointwise_version", "getter", lambda e, st, me_, h=h: (e.write_field(st, me_, "_cost_function_handle", VBound(me_, h)), {})[1], contract=c, tag=f"[{h}]")
    return eng


def units(root):
    return [Unit("CostFunction.__call__ composition", u_call), Unit("CostFunction_Chi2._chi2", u_chi2), Unit("log-determinant terms", u_logdet), Unit("negative log-likelihoods", u_nll),
            Unit("parameter constraint costs", u_constraints), Unit("XYFit x->y projection", u_projection), Unit("total = model + data graph nodes", u_total_lambdas),
            Unit("error change reaches the cost (callback wiring, implicit chi2 switch)", u_error_change), Unit("pointwise_version keeps the cost", u_pointwise_version),
            Unit("is_diagonal is exact (the pointwise cost is chosen only for a truly diagonal covariance; shared with C15)", _shared_is_diagonal),
            Unit("declared constraints reach the constraint objects unchanged (value, uncertainty, relative flag, indices; shared with C03)", _shared_constraints),
            Unit("xy cost functions: which graph nodes they read (both axes by default)", u_xy_cost_names),
            Unit("a declared source contributes (sigma sigma^T) o rho with the SIGNED relative reference: SimpleGaussianError caches (shared with C02)", _shared_source_cov),
            Unit("SimpleGaussianError._calculate_cov_mat_generic (shared with C02)", _shared_source_generic),
            Unit("HistFit.model = bin integrals x ALL entries of the histogram for a density (shared with C13)", _shared_histfit_model)]


def u_xy_cost_names(root):
    """the xy cost functions read the uncertainties of BOTH axes unless told otherwise: with axes_to_use = 'xy' (the default) the cost arguments are the projected totals
    (total_error / total_cov_mat...), with 'y' the y-only ones; any other value is refused.  'x-uncertainties projected onto y' rests on this choice of graph nodes."""
    fields = ("_DATA_NAME", "_MODEL_NAME", "_ERROR_NAME", "_COV_MAT_CHOLESKY_NAME", "_COV_MAT_QR_NAME", "_COV_MAT_NAME")
    sch = {c_: {f_: PYOBJ for f_ in fields} for c_ in ("XYCostFunction_Chi2", "XYCostFunction_NegLogLikelihood", "XYCostFunction_GaussApproximation")}
    eng = engine(root, ["kafe2/fit/xy/cost.py", "kafe2/fit/_base/cost.py"], sch, [])
    for base in ("CostFunction_Chi2", "CostFunction_NegLogLikelihood", "CostFunction_GaussApproximation"):
        mk(eng, base, "__init__", result=lambda vw: VNone())
    want = {"XYCostFunction_Chi2": {"xy": {"_ERROR_NAME": "total_error", "_COV_MAT_CHOLESKY_NAME": "total_cov_mat_cholesky", "_COV_MAT_QR_NAME": "total_cov_mat_qr"},
                                    "y": {"_ERROR_NAME": "y_total_error", "_COV_MAT_CHOLESKY_NAME": "y_total_cov_mat_cholesky", "_COV_MAT_QR_NAME": "y_total_cov_mat_qr"}},
            "XYCostFunction_NegLogLikelihood": {"xy": {"_ERROR_NAME": "total_error"}, "y": {"_ERROR_NAME": "y_total_error"}},
            "XYCostFunction_GaussApproximation": {"xy": {"_ERROR_NAME": "total_error", "_COV_MAT_CHOLESKY_NAME": "total_cov_mat_cholesky", "_COV_MAT_NAME": "total_cov_mat"},
                                                  "y": {"_ERROR_NAME": "y_total_error", "_COV_MAT_CHOLESKY_NAME": "y_total_cov_mat_cholesky", "_COV_MAT_NAME": "y_total_cov_mat"}}}
    for cls in want:
        for given in (None, "xy", "XY", "y", "Y", "yx", "x"):
            c = Contract(cls, "__init__")

            def post(vw, cls=cls, given=given):
                key = "xy" if given is None else given.lower()
                if key not in ("xy", "y"):
                    return [("any other axis selection is refused", z3.BoolVal(vw.flow == "raise" and vw.exc == "ValueError"))]
                if vw.flow == "raise":
                    return [("accepted", z3.BoolVal(False))]
                got = {f_: vw.f(vw.post, vw.self, f_) for f_ in list(want[cls][key]) + ["_DATA_NAME", "_MODEL_NAME"]}
                exp = dict(want[cls][key], _DATA_NAME="y_data", _MODEL_NAME="y_model")
                return [(f"axes_to_use = {given if given is not None else 'default'}: data / model are the y values, the uncertainties are the {'totals of both axes projected onto y' if key == 'xy' else 'y-only totals'}",
                         z3.BoolVal(all(isinstance(got[f_], VStr) and got[f_].s == exp[f_] for f_ in exp)))]
            c.ensures.append(post)
            eng.verify(cls, "__init__", None, lambda e, st, me_, given=given: ({} if given is None else {"axes_to_use": VStr(given)}), contract=c, tag=f"[axes_to_use={given}]")
    return eng


def _shared_histfit_model(root):
    from . import c13
    return c13.u_histfit_model(root)


def _shared_source_cov(root):
    from . import c02
    return c02.u_source(root)


def _shared_source_generic(root):
    from . import c02
    return c02.u_generic(root)


def _shared_constraints(root):
    from . import c03
    return c03.u_constraints(root)


def _shared_is_diagonal(root):
    from . import c15
    return c15.u_is_diagonal(root)
