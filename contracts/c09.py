"""C09 - Saving and reloading any object reproduces it.

Dict-flow contracts: for every writer / reader pair the REAL _make_representation is executed on a symbolic object (fields uninterpreted, getters by
contract), which yields a python dict with concrete keys and symbolic values; yaml.dump / yaml.load are the identity on plain types (assumed); the REAL
_convert_yaml_doc_to_object is then executed on that dict with the constructors and add_* methods recorded. Obligations: the recorded calls rebuild the
object's abstract view field by field, and the reader leaves no key unconsumed.  Protocol: YamlWriterMixin.write truncates before writing; every class
that offers to_file is registered under the name it reports.
"""
import ast
import z3
from .base import *
from . import c14

FILES = ["kafe2/fit/representation/_yaml_base.py", "kafe2/fit/representation/_base.py", "kafe2/fit/representation/constraint/yaml_drepr.py", "kafe2/fit/representation/constraint/_base.py",
         "kafe2/fit/representation/container/yaml_drepr.py", "kafe2/fit/representation/container/_base.py", "kafe2/fit/representation/error/common_error_tools.py", "kafe2/core/constraint.py", "kafe2/core/error.py",
         "kafe2/fit/io/file.py", "kafe2/fit/io/handle.py", "kafe2/fit/representation/fit/yaml_drepr.py", "kafe2/fit/representation/fit/_base.py", "kafe2/fit/_base/fit.py", "kafe2/fit/_base/cost.py",
         "kafe2/fit/unbinned/cost.py", "kafe2/fit/_base/model.py", "kafe2/fit/_base/container.py", "kafe2/fit/_base/format.py", "kafe2/fit/histogram/container.py", "kafe2/fit/indexed/container.py",
         "kafe2/fit/xy/container.py", "kafe2/fit/unbinned/container.py", "kafe2/fit/custom/fit.py", "kafe2/fit/histogram/fit.py", "kafe2/fit/indexed/fit.py", "kafe2/fit/unbinned/fit.py", "kafe2/fit/xy/fit.py", "kafe2/core/fitters/nexus_fitter.py"]
META = {
    "level": "proof",
    "trusted_base": [
        "yaml.dump followed by yaml.load is the identity on dicts, lists, strings, booleans, None and numbers (floats up to their repr, which round-trips exactly)",
        "ndarray.tolist() / list(map(float, ..)) / np.array keep the numeric content; the matrix text dumper keeps ~8 significant digits (stated, bounded natively)",
        "the getters used by the writers return the fields they name (their own contracts: C02, C12, C14)",
        "file objects: truncate(0) empties the file, write appends at the position (operating system)",
        "inspect.getsource / exec round trip of function source text (external)",
    ],
    "assumptions": ["machine arithmetic treated as mathematical", "closed world of kafe2 classes"],
    "bounded": [{"what": "real objects written, read back through their own class, compared on their observables, written again, written over a longer file: 4 container types x 11 source mixes, 4 parametric models, 7 constraint forms, "
                         "5 fit types x 7 configurations x (not fitted, fitted, fitted with asymmetric errors), save_state / load_state, every class offering to_file", "bound": "native: 169 objects"}],
}
me = z3.Const("self", Ref)
i, j = z3.Ints("i j")
PA, MA = arr(I, R), arr(I, I, R)


def rt_engine(root, schema=None):
    eng = engine(root, FILES, schema or {}, [])
    tolist = lambda recv: c14.VFn(lambda e, st, a, kw: recv)

    class ListLike:
        pass
    base_attr = eng.ev_Attribute

    def ev_attr(n, st):
        if n.attr == "tolist":
            b = eng.ev(n.value, st)
            if isinstance(b, (VSeq, VMat)):
                return tolist(b)
        return base_attr(n, st)
    eng.ev_Attribute = ev_attr
    eng.lib["np.array"] = eng.lib["np.asarray"] = lambda e, st, a, kw, n: a[0]
    return eng


# ------------------------------------------------------------------ constraints
def u_constraints(root):
    eng = rt_engine(root)
    made = []

    def ctor(cls):
        def f(e, st, a, kw, n):
            if a:
                raise Unsupported("positional constructor arguments")
            made.append((cls, dict(kw)))
            return e.alloc(st, "reloaded", cls)
        return f
    for cls in ("GaussianSimpleParameterConstraint", "GaussianMatrixParameterConstraint"):
        eng.lib["class:" + cls] = ctor(cls)
    idx, val, Uabs, Urel, rel = z3.Int("index"), z3.Real("value"), z3.Real("uncertainty_abs"), z3.Real("uncertainty_rel"), z3.Bool("relative")
    S = "GaussianSimpleParameterConstraint"
    mk(eng, S, "index", "getter", result=lambda vw: VNum(idx))
    mk(eng, S, "value", "getter", result=lambda vw: VNum(val))
    mk(eng, S, "uncertainty", "getter", result=lambda vw: VNum(Uabs))
    mk(eng, S, "uncertainty_rel", "getter", result=lambda vw: VNum(Urel))
    mk(eng, S, "relative", "getter", result=lambda vw: VBool(rel))
    eng.consts = {"__class_of_self": None}

    # writer on a simple constraint, then the reader on the written dict
    doc = {}
    c = Contract("ConstraintYamlWriter", "_make_representation")
    c.requires.append(lambda vw: Uabs == Urel * val)            # the two views of the same uncertainty (GaussianSimpleParameterConstraint.uncertainty / uncertainty_rel)

    def post_w(vw):
        r = vw.result
        doc["simple"] = doc.get("simple", []) + [(vw.post, r)]
        return [("a plain dict with the documented keys", z3.BoolVal(isinstance(r, VDict) and set(r.d) == {"type", "index", "value", "uncertainty", "relative"} and as_s(r.d["type"]) == "simple"))]
    c.ensures.append(post_w)
    eng.verify("ConstraintYamlWriter", "_make_representation", None, lambda e, st, me_: {"cls": VLib("class:ConstraintYamlWriter"), "constraint": VRef(z3.Const("constraint", Ref), S)}, contract=c, tag="[simple]")
    for k_, (st_w, d_w) in enumerate(doc["simple"]):
        c = Contract("ConstraintYamlReader", "_convert_yaml_doc_to_object")
        c.requires.append(lambda vw, st_w=st_w: z3.And(*st_w.pc))            # the path of the writer that produced this dict

        def post_r(vw):
            ok = len(made) >= 1 and made[-1][0] == S and isinstance(vw.result, VTuple) and isinstance(vw.result.items[1], VDict)
            if not ok:
                return [("a simple constraint is constructed", z3.BoolVal(False))]
            kw = made[-1][1]
            eff = z3.If(kw["relative"].e, kw["uncertainty"].real() * kw["value"].real(), kw["uncertainty"].real())
            return [("same parameter index, value and relativity", z3.And(kw["index"].e == idx, kw["value"].real() == val, kw["relative"].e == rel)),
                    ("same absolute uncertainty (a relative constraint stores the RELATIVE uncertainty)", eff == Uabs),
                    ("the stored number is the one of the declared kind", kw["uncertainty"].real() == z3.If(rel, Urel, Uabs)),
                    ("every written key is consumed", z3.BoolVal(len(vw.result.items[1].d) == 0))]
        c.ensures.append(post_r)
        made.clear()
        eng.verify("ConstraintYamlReader", "_convert_yaml_doc_to_object", None, lambda e, st, me_, d_w=d_w: {"cls": VLib("class:ConstraintYamlReader"), "yaml_doc": VDict(dict(d_w.d))}, contract=c, tag=f"[simple, writer path {k_}]")

    # matrix constraints: each constructor form is written and read back as the same constructor call
    M = "GaussianMatrixParameterConstraint"
    n = z3.Int("n")
    indices, values = VSeq(z3.Const("indices", PA), n), VSeq(z3.Const("values", PA), n)
    mats = {k_: VMat(z3.Const(k_, MA), n, n) for k_ in ("cov_mat", "cov_mat_rel", "cor_mat")}
    uncs = {k_: VSeq(z3.Const(k_, PA), n) for k_ in ("uncertainties", "uncertainties_rel")}
    mk(eng, M, "indices", "getter", result=lambda vw: indices)
    mk(eng, M, "values", "getter", result=lambda vw: values)
    for k_, v_ in list(mats.items()) + list(uncs.items()):
        mk(eng, M, k_, "getter", result=lambda vw, v_=v_: v_)
    for mtype in ("cov", "cor"):
        for relf in (False, True):
            mk(eng, M, "matrix_type", "getter", result=lambda vw, mtype=mtype: VStr(mtype))
            mk(eng, M, "relative", "getter", result=lambda vw, relf=relf: VBool(z3.BoolVal(relf)))
            got = {}
            c = Contract("ConstraintYamlWriter", "_make_representation")
            c.ensures.append(lambda vw: (got.__setitem__("doc", vw.result), [("a plain dict", z3.BoolVal(isinstance(vw.result, VDict)))])[1])
            eng.verify("ConstraintYamlWriter", "_make_representation", None, lambda e, st, me_: {"cls": VLib("class:ConstraintYamlWriter"), "constraint": VRef(z3.Const("constraint", Ref), M)}, contract=c, tag=f"[matrix,{mtype},relative={relf}]")
            c = Contract("ConstraintYamlReader", "_convert_yaml_doc_to_object")

            def post_m(vw, mtype=mtype, relf=relf):
                ok = len(made) >= 1 and made[-1][0] == M and isinstance(vw.result, VTuple)
                if not ok:
                    return [("a matrix constraint is constructed", z3.BoolVal(False))]
                kw = made[-1][1]
                own_m = mats["cor_mat"] if mtype == "cor" else (mats["cov_mat_rel"] if relf else mats["cov_mat"])
                own_u = None if mtype == "cov" else (uncs["uncertainties_rel"] if relf else uncs["uncertainties"])
                good = kw["indices"] is indices and kw["values"] is values and kw["matrix"] is own_m and as_s(kw["matrix_type"]) == mtype and z3.is_true(z3.simplify(kw["relative"].e == relf)) and \
                    ((isinstance(kw["uncertainties"], VNone)) if own_u is None else (kw["uncertainties"] is own_u))
                return [("the same constructor form: indices, values, the matrix of the declared kind (cov / cov_rel / cor), its uncertainties of the declared relativity, type and flag", z3.BoolVal(bool(good))),
                        ("every written key is consumed", z3.BoolVal(len(vw.result.items[1].d) == 0))]
            c.ensures.append(post_m)
            made.clear()
            eng.verify("ConstraintYamlReader", "_convert_yaml_doc_to_object", None, lambda e, st, me_: {"cls": VLib("class:ConstraintYamlReader"), "yaml_doc": VDict(dict(got["doc"].d))}, contract=c, tag=f"[matrix,{mtype},relative={relf}]")
    return eng



# ------------------------------------------------------------------ containers: data, histogram content and labels
def ext_trace(st, who):
    return [(m, a, kw) for (w, m, a, kw) in st.ghost.get("ext_calls", ()) if w == who]


def u_container_fields(root):
    eng = rt_engine(root)
    eng.lib["map"] = lambda e, st, a, kw, n: a[1]                  # map(float, xs): the same numbers
    eng.lib["list"] = lambda e, st, a, kw, n: a[0]
    eng.lib["float"] = lambda e, st, a, kw, n: a[0]
    eng.consts = {"common_error_tools": VLib("common_error_tools")}
    passed = {}

    def pes(e, st, a, kw, n):
        st.ghost = dict(st.ghost)
        st.ghost["pes"] = (kw["container_obj"], VDict(dict(kw["yaml_doc"].d)))
        return VTuple([kw["container_obj"], kw["yaml_doc"]])
    eng.lib["common_error_tools.process_error_sources"] = pes
    eng.lib["common_error_tools.write_errors_to_yaml"] = lambda e, st, a, kw, n: a[1]

    def ctor(cls):
        def f(e, st, a, kw, n):
            st.ghost = dict(st.ghost)
            st.ghost["made"] = st.ghost.get("made", ()) + ((cls, tuple(a), dict(kw)),)
            return VExternal("reloaded", {})
        return f
    CLASSES = ("HistContainer", "IndexedContainer", "UnbinnedContainer", "XYContainer")
    for cls in CLASSES:
        eng.lib["class:" + cls] = ctor(cls)
    n, nb = z3.Int("n"), z3.Int("n_edges")
    data, xd, yd = VSeq(z3.Const("data", PA), n), VSeq(z3.Const("x", PA), n), VSeq(z3.Const("y", PA), n)
    edges, heights, raw = VSeq(z3.Const("bin_edges", PA), nb), VSeq(z3.Const("bin_heights", PA), nb - 1), VSeq(z3.Const("raw_data", PA), z3.Int("n_raw"))
    for v_ in (edges, heights, raw):
        v_.pylist = True
    under, over = z3.Real("underflow"), z3.Real("overflow")
    for cls in CLASSES + ("DataContainerBase",):
        mk(eng, cls, "has_errors", "getter", result=lambda vw: VBool(z3.BoolVal(False)))
    mk(eng, "IndexedContainer", "data", "getter", result=lambda vw: data)
    mk(eng, "UnbinnedContainer", "data", "getter", result=lambda vw: data)
    mk(eng, "XYContainer", "x", "getter", result=lambda vw: xd)
    mk(eng, "XYContainer", "y", "getter", result=lambda vw: yd)
    mk(eng, "HistContainer", "bin_edges", "getter", result=lambda vw: edges)
    mk(eng, "HistContainer", "data", "getter", result=lambda vw: heights)
    mk(eng, "HistContainer", "raw_data", "getter", result=lambda vw: raw)
    mk(eng, "HistContainer", "underflow", "getter", result=lambda vw: VNum(under))
    mk(eng, "HistContainer", "overflow", "getter", result=lambda vw: VNum(over))
    for cls, manual in (("IndexedContainer", None), ("UnbinnedContainer", None), ("XYContainer", None), ("HistContainer", False), ("HistContainer", True)):
        for labelled in (False, True, "axes-only", "label-only", "x-only"):          # each label is stored on its own account
            lab = {False: (VNone(), VNone(), VNone()), True: (VStr("the label"), VStr("x label"), VStr("y label")), "axes-only": (VNone(), VStr("x label"), VStr("y label")),
                   "label-only": (VStr("the label"), VNone(), VNone()), "x-only": (VNone(), VStr("x label"), VNone())}[labelled]
            for c_ in (cls, "DataContainerBase"):
                mk(eng, c_, "label", "getter", result=lambda vw, lab=lab: lab[0])
                mk(eng, c_, "axis_labels", "getter", result=lambda vw, lab=lab: VTuple([lab[1], lab[2]]))
            eng.schema.setdefault("HistContainer", {})["_manual_heights"] = BOOL
            got = {}
            c = Contract("DataContainerYamlWriter", "_make_representation")
            c.requires.append(lambda vw, manual=manual: (vw.eng.read_field(vw.pre, VRef(z3.Const("container", Ref), "HistContainer"), "_manual_heights").e == bool(manual)) if manual is not None else z3.BoolVal(True))
            c.ensures.append(lambda vw: (got.__setitem__("doc", vw.result), [("a plain dict", z3.BoolVal(isinstance(vw.result, VDict)))])[1])
            tag = f"[{cls}{'' if manual is None else (',bin heights set by hand' if manual else ',filled from entries')}{',labels: ' + str(labelled) if labelled else ''}]"
            eng.verify("DataContainerYamlWriter", "_make_representation", None, lambda e, st, me_, cls=cls: {"cls": VLib("class:DataContainerYamlWriter"), "container": VRef(z3.Const("container", Ref), cls)}, contract=c, tag=tag)
            c = Contract("DataContainerYamlReader", "_convert_yaml_doc_to_object")
            c.requires.append(lambda vw: z3.And(n >= 1, nb >= 2, raw.len >= 0))

            def post(vw, cls=cls, manual=manual, lab=lab):
                made = list(vw.post.ghost.get("made", ()))
                tr = ext_trace(vw.post, "reloaded")
                ok = len(made) == 1 and made[0][0] == cls
                if not ok:
                    return [("one container of the same class is constructed", z3.BoolVal(False))]
                _, a_, kw = made[0]
                out = []
                if cls in ("IndexedContainer", "UnbinnedContainer"):
                    out.append(("same data", z3.BoolVal(len(a_) == 1 and a_[0] is data)))
                elif cls == "XYContainer":
                    out.append(("same x and y data, in this order", z3.BoolVal(len(a_) == 2 and a_[0] is xd and a_[1] is yd)))
                else:
                    out.append(("same bin edges (with n_bins and bin_range derived from them)", z3.And(z3.BoolVal(kw.get("bin_edges") is edges), kw["n_bins"].e == nb - 1, kw["bin_range"].items[0].real() == edges.arr[0], kw["bin_range"].items[1].real() == edges.arr[nb - 1])))
                    sb = [t for t in tr if t[0] == "set_bins"]
                    if manual:
                        good = len(sb) == 1 and sb[0][2].get("bin_heights") is heights and isinstance(kw.get("fill_data"), VNone)
                        out.append(("heights set by hand: restored through set_bins with the SAME heights, and no entries", z3.BoolVal(bool(good))))
                        out.append(("underflow restored as underflow, overflow as overflow", z3.And(sb[0][2]["underflow"].real() == under, sb[0][2]["overflow"].real() == over) if good else z3.BoolVal(False)))
                    else:
                        out.append(("filled from entries: the same entries, no manual heights", z3.BoolVal(kw.get("fill_data") is raw and not sb)))
                sets = {t[0]: t[1][0] for t in tr if t[0].startswith("set:")}
                lv = sets.get("set:label")
                av = sets.get("set:axis_labels")
                same_v = lambda x, y: (isinstance(x, VNone) and isinstance(y, VNone)) or (isinstance(x, VStr) and isinstance(y, VStr) and x.s == y.s)
                out.append(("same label and axis labels (None stays None)", z3.BoolVal(bool(lv is not None and av is not None and same_v(lv, lab[0]) and isinstance(av, VTuple) and same_v(av.items[0], lab[1]) and same_v(av.items[1], lab[2])))))
                pes_ = vw.post.ghost.get("pes")
                out.append(("everything but the uncertainty sections is consumed before the sources are processed", z3.BoolVal(pes_ is not None and set(pes_[1].d) <= {"errors", "x_errors", "y_errors"})))
                return out
            c.ensures.append(post)
            eng.verify("DataContainerYamlReader", "_convert_yaml_doc_to_object", None, lambda e, st, me_: {"cls": VLib("class:DataContainerYamlReader"), "yaml_doc": VDict(dict(got["doc"].d))}, contract=c, tag=tag)
    return eng



# ------------------------------------------------------------------ uncertainty sources: written per source, re-added per source  (instance check: source lists of length <= 2)
class Cont(V):
    """stand-in for the container that receives the re-added sources: records add / disable calls, keeps the names in insertion order"""

    def __init__(self, kind, n):
        self.kind, self.n, self._error_dicts, self.name = kind, n, VDict({}), kind

    def vattr(self, e, st, name):
        if name == "size":
            return VNum(self.n)
        if name == "_error_dicts":
            return self._error_dicts
        if name == "disable_error":
            def dis(e_, st_, a, kw):
                st_.ghost = dict(st_.ghost)
                st_.ghost["disabled"] = st_.ghost.get("disabled", ()) + (a[0].s if isinstance(a[0], VStr) else a[0],)
                return VNone()
            return c14.VFn(dis)


def u_container_errors(root, only_kind=None, only_axis="any"):
    eng = rt_engine(root, {"GaussianErrorBase": {"_corr_coeff": NUM, "_matrix_type_at_construction": PYOBJ}, "SimpleGaussianError": {}, "MatrixGaussianError": {}, "IndexedContainer": {"_error_dicts": PYOBJ}, "XYContainer": {"_error_dicts": PYOBJ}})
    n = z3.Int("n")
    eng.lib["float"] = lambda e, st, a, kw, node: VNum(a[0].real())
    eng.lib["list"] = lambda e, st, a, kw, node: a[0]
    allsame = z3.Function("all_entries_equal", Ref, B)
    errv = {"abs": z3.Function("error_abs", Ref, PA), "rel": z3.Function("error_rel", Ref, PA)}
    mats = {k_: z3.Function(k_, Ref, MA) for k_ in ("cov_mat", "cov_mat_rel", "cor_mat")}
    isrel = z3.Function("is_relative", Ref, B)
    # np.allclose is agreement within a tolerance: implied by exact agreement, but it does NOT imply it (a writer that decides with it may flatten distinct entries)
    def allclose(e, st, a, kw, node):
        ex = z3.ForAll([i], z3.Implies(z3.And(0 <= i, i < a[1].len), a[1].arr[i] == a[0].real()))
        c_ = fresh("within_tolerance", z3.BoolSort())
        st.assume(z3.Implies(ex, c_))
        return VBool(c_)
    eng.lib["np.allclose"] = allclose
    for cls in ("GaussianErrorBase", "SimpleGaussianError", "MatrixGaussianError"):
        mk(eng, cls, "relative", "getter", result=lambda vw: VBool(isrel(vw.self.e)))
        mk(eng, cls, "error", "getter", result=lambda vw: VSeq(errv["abs"](vw.self.e), n))
        mk(eng, cls, "error_rel", "getter", result=lambda vw: VSeq(errv["rel"](vw.self.e), n))
        for k_, f_ in mats.items():
            mk(eng, cls, k_, "getter", result=lambda vw, f_=f_: VMat(f_(vw.self.e), n, n))

    def add_to(e, st, a, kw, node):
        st.ghost = dict(st.ghost)
        st.ghost["added"] = st.ghost.get("added", ()) + ((a[0].s, dict(kw)),)
        nm = kw.get("name")
        a[1]._error_dicts.d[nm.s if isinstance(nm, VStr) else "random-%d" % len(a[1]._error_dicts.d)] = VNone()
        return a[1]
    eng.lib["add_error_to_container"] = add_to
    from pyvc import lib as _lib

    def isinst(e, st, a, kw, node):
        if ast.unparse(node.args[1]) == "XYContainer":
            return VBool(z3.BoolVal(isinstance(a[0], Cont) and a[0].kind == "xy"))
        return _lib.lib_isinstance(e, st, a, kw, node)
    eng.lib["isinstance"] = isinst
    base_binop = eng.binop

    def binop(op, a, b, node=None):
        empty = lambda v_: (isinstance(v_, VSeq) and z3.is_int_value(z3.simplify(v_.len)) and z3.simplify(v_.len).as_long() == 0) or (isinstance(v_, VTuple) and not v_.items)
        if isinstance(op, ast.Add) and isinstance(a, VTuple) and empty(b):
            return a
        return base_binop(op, a, b, node)
    eng.binop = binop
    SRC = {"s1": ("SimpleGaussianError", None), "s2": ("SimpleGaussianError", None), "m_cov": ("MatrixGaussianError", "covariance"), "m_cor": ("MatrixGaussianError", "correlation")}
    refs = {k_: z3.Const("source_" + k_, Ref) for k_ in SRC}
    for kind, axes in (("indexed", (None,)), ("xy", (0, 1))):
        if only_kind is not None and kind != only_kind:
            continue
        for mix in (("s1",), ("m_cov",), ("m_cor",), ("s1", "m_cov"), ("s2", "s1"), ("m_cor", "s2")):
            for axis in axes:
                if only_axis != "any" and axis != only_axis:
                    continue
                for dis in (False, True):
                    cls = "IndexedContainer" if kind == "indexed" else "XYContainer"
                    section = {None: "errors", 0: "x_errors", 1: "y_errors"}[axis]
                    got = {}

                    def init_w(e, st, me_, mix=mix, axis=axis, dis=dis, cls=cls):
                        cont = VRef(z3.Const("container", Ref), cls)
                        ed = {}
                        for q_, k_ in enumerate(mix):
                            ent = {"err": VRef(refs[k_], SRC[k_][0]), "enabled": VBool(z3.BoolVal(not (dis and q_ == len(mix) - 1)))}
                            if axis is not None:
                                ent["axis"] = VNum(z3.IntVal(axis))
                            ed[k_] = VDict(ent)
                            if SRC[k_][1]:
                                e.write_field(st, VRef(refs[k_], SRC[k_][0]), "_matrix_type_at_construction", VStr(SRC[k_][1]))
                        e.write_field(st, cont, "_error_dicts", VDict(ed))
                        return {"container": cont, "yaml_doc": VDict({})}
                    c = Contract(c14.CET, "write_errors_to_yaml")
                    c.requires.append(lambda vw: n >= 1)
                    c.ensures.append(lambda vw, got=got: (got.setdefault("docs", []).append((vw.post, vw.result)), [("a plain dict", z3.BoolVal(isinstance(vw.result, VDict)))])[1])
                    tag = f"[{kind},{section}: {'+'.join(mix)}{', last disabled' if dis else ''}]"
                    eng.verify(c14.CET, "write_errors_to_yaml", None, init_w, contract=c, tag=tag)
                    for k_path, (st_w, doc) in enumerate(got["docs"]):
                        c = Contract(c14.CET, "process_error_sources")
                        c.requires.append(lambda vw, st_w=st_w: z3.And(n >= 1, *st_w.pc))
                        c.loops[0] = c.loops[1] = lambda e, s: z3.BoolVal(False)

                        def post(vw, mix=mix, axis=axis, dis=dis):
                            ad = list(vw.post.ghost.get("added", ()))
                            if len(ad) != len(mix):
                                return [("one source re-added per source written", z3.BoolVal(False))]
                            out = []
                            for q_, ((typ, kw), k_) in enumerate(zip(ad, mix)):
                                r_ = refs[k_]
                                ax_ok = ("axis" not in kw) if axis is None else (isinstance(kw.get("axis"), VNum) and z3.is_true(z3.simplify(kw["axis"].e == axis)))
                                head = z3.And(z3.BoolVal(bool(ax_ok and isinstance(kw.get("name"), VStr) and kw["name"].s == k_)), kw["relative"].e == isrel(r_))
                                own = lambda a_: z3.If(isrel(r_), errv["rel"](r_)[a_], errv["abs"](r_)[a_])
                                ev = kw.get("err_val")
                                if isinstance(ev, VSeq):
                                    sizes = z3.And(ev.len == n, z3.ForAll([i], z3.Implies(z3.And(0 <= i, i < n), ev.arr[i] == own(i))))
                                elif isinstance(ev, VNum):        # collapsed to one number: only when all entries are equal (add_error broadcasts it again: C14)
                                    sizes = z3.ForAll([i], z3.Implies(z3.And(0 <= i, i < n), ev.real() == own(i)))
                                else:
                                    sizes = z3.BoolVal(SRC[k_][1] == "covariance" and isinstance(ev, VNone))
                                if SRC[k_][0] == "SimpleGaussianError":
                                    out.append((f"source {q_ + 1} ({k_}): simple, same name / axis / relativity, same sizes of the declared relativity, same correlation",
                                                z3.And(z3.BoolVal(typ == "simple"), head, sizes, kw["correlation"].real() == vw.eng.read_field(vw.pre, VRef(r_, "SimpleGaussianError"), "_corr_coeff").e)))
                                else:
                                    mt = SRC[k_][1]
                                    Mw = kw.get("err_matrix")
                                    want = mats["cor_mat"](r_) if mt == "correlation" else None
                                    m_ok = isinstance(Mw, VMat) and isinstance(kw.get("matrix_type"), VStr) and kw["matrix_type"].s == mt
                                    same_m = z3.ForAll([i, j], z3.Implies(z3.And(0 <= i, i < n, 0 <= j, j < n), Mw.at(i, j) == (mats["cor_mat"](r_)[i][j] if mt == "correlation" else z3.If(isrel(r_), mats["cov_mat_rel"](r_)[i][j], mats["cov_mat"](r_)[i][j])))) if m_ok else z3.BoolVal(False)
                                    out.append((f"source {q_ + 1} ({k_}): matrix of the construction type ({mt}), the matrix of the declared relativity, sizes for a correlation matrix", z3.And(z3.BoolVal(typ == "matrix" and bool(m_ok)), head, same_m, sizes)))
                            want_dis = (mix[-1],) if dis else ()
                            out.append(("exactly the disabled source is disabled again", z3.BoolVal(tuple(vw.post.ghost.get("disabled", ())) == want_dis)))
                            return out
                        c.ensures.append(post)
                        eng.verify(c14.CET, "process_error_sources", None, lambda e, st, me_, kind=kind, doc=doc: {"container_obj": Cont(kind, n), "yaml_doc": VDict(dict(doc.d))}, contract=c, tag=tag + f"[writer path {k_path}]")
    return eng



# ------------------------------------------------------------------ writing replaces the content of the file
def u_write_protocol(root):
    eng = rt_engine(root, {"YamlWriterMixin": {"_ohandle": PYOBJ, "_kafe_object": PYOBJ, "_yaml_doc": PYOBJ}})
    eng.consts = {"yaml": VLib("yaml")}
    doc = VDict({"type": VStr("marker")})
    mk(eng, "YamlWriterMixin", "_make_representation", result=lambda vw: doc)
    mk(eng, "DReprWriterMixin", "_get_preface_comment", result=lambda vw: VStr("# preface"))

    def dump(e, st, a, kw, n):
        st.ghost = dict(st.ghost)
        st.ghost["ext_calls"] = st.ghost.get("ext_calls", ()) + ((a[1].name if isinstance(a[1], VExternal) else "?", "yaml.dump", (a[0],), dict(kw)),)
        return VNone()
    eng.lib["yaml.dump"] = dump
    c = Contract("YamlWriterMixin", "write")

    def post(vw):
        tr = [(m, a) for (w, m, a, kw) in vw.post.ghost.get("ext_calls", ()) if w == "file"]
        names = [m for m, a in tr]
        first_write = min([q for q, m in enumerate(names) if m in ("write", "yaml.dump")] or [10 ** 6])
        trunc = [q for q, (m, a) in enumerate(tr) if m == "truncate"]
        t_ok = len(trunc) == 1 and trunc[0] < first_write and len(tr[trunc[0]][1]) == 1 and isinstance(tr[trunc[0]][1][0], VNum) and z3.is_true(z3.simplify(tr[trunc[0]][1][0].e == 0))
        return [("the file is emptied (truncate to 0 bytes) BEFORE anything is written", z3.BoolVal(bool(t_ok))),
                ("then the preface comment and the representation of the object are written, in this order, inside the handle's context", z3.BoolVal(names[:1] == ["__enter__"] and [m for m in names if m in ("write", "yaml.dump")] == ["write", "yaml.dump"] and
                                                                                                                              any(m == "yaml.dump" and a[0] is doc for m, a in tr)))]
    c.ensures.append(post)
    eng.verify("YamlWriterMixin", "write", None, lambda e, st, me_: (e.write_field(st, me_, "_ohandle", VExternal("file", {})), e.write_field(st, me_, "_kafe_object", VOpaque("object")), {})[2], contract=c)
    return eng



# ------------------------------------------------------------------ fits
FIT_TYPES = {"XYFit": "xy", "IndexedFit": "indexed", "HistFit": "histogram", "UnbinnedFit": "unbinned", "CustomFit": "custom"}


def u_fit(root):
    eng = rt_engine(root, {"FitBase": {"_cost_function": REF("CostFunction"), "_fitter": REF("NexusFitter"), "_minimizer": PYOBJ, "_minimizer_kwargs": PYOBJ, "_param_model": PYOBJ, "_parameter_formatters": PYOBJ}})
    M = lambda tag: VOpaque(("marker", tag))
    is_m = lambda v, tag: isinstance(v, VOpaque) and v.tag == ("marker", tag)
    eng.consts = {"inspect": VLib("inspect"), "DataContainerYamlWriter": VLib("w:container"), "ParametricModelYamlWriter": VLib("w:model"), "ConstraintYamlWriter": VLib("w:constraint"),
                  "DataContainerYamlReader": VLib("r:container"), "ParametricModelYamlReader": VLib("r:model"), "ConstraintYamlReader": VLib("r:constraint"),
                  "STRING_TO_COST_FUNCTION": VDict({"known_id": VNone()}), "STRING_TO_COST_FUNCTION_XY": VDict({"known_id": VNone()}), "STRING_TO_COST_FUNCTION_UNBINNED": VDict({"known_id": VNone()})}
    eng.lib["w:container._make_representation"] = lambda e, st, a, kw, n: VDict({"type": VStr("dataset-doc")})
    eng.lib["w:model._make_representation"] = lambda e, st, a, kw, n: VDict({"type": VStr("model-doc")})
    eng.lib["w:constraint._make_representation"] = lambda e, st, a, kw, n: VDict({"type": VStr("constraint-doc"), "of": a[0]})
    eng.lib["to_python_types"] = eng.lib["to_numpy_arrays"] = lambda e, st, a, kw, n: a[0]
    eng.lib["_process_function_code_for_dump"] = lambda e, st, a, kw, n: a[0]
    eng.lib["inspect.getsource"] = lambda e, st, a, kw, n: VStr("<source of cost function>")
    eng.lib["getattr"] = lambda e, st, a, kw, n: a[2]            # getattr(func, "_kafe2_source_code", None) on a function defined in a file: None
    eng.lib["list"] = lambda e, st, a, kw, n: a[0]

    def push(st, key, entry):
        st.ghost = dict(st.ghost)
        st.ghost[key] = st.ghost.get(key, ()) + (entry,)
    eng.lib["r:container._make_object"] = lambda e, st, a, kw, n: (push(st, "read", ("container", a[0], dict(kw))), M("reloaded-container"))[1]

    class PM(V):
        def vattr(self, e, st, name):
            if name == "_model_function_object":
                return M("reloaded-model-function")
            if name in ("density", "bin_evaluation"):
                return M("stored-" + name)
            if name == "has_errors":
                return VBool(z3.Bool("read_model_declares_uncertainties"))

        def vsetattr(self, e, st, name, v):
            push(st, "pm_set", (name, v))
    eng.lib["r:model._make_object"] = lambda e, st, a, kw, n: (push(st, "read", ("model", a[0], dict(kw))), PM())[1]
    eng.lib["r:constraint._make_object"] = lambda e, st, a, kw, n: (push(st, "read", ("constraint", a[0], dict(kw))), M("reloaded-constraint:%d" % len([x for x in st.ghost.get("read", ()) if x[0] == "constraint"])))[1]
    eng.lib["_parse_function"] = lambda e, st, a, kw, n: M("parsed-function")

    def ctor(cls):
        def f(e, st, a, kw, n):
            push(st, "made", (cls, tuple(a), dict(kw)))
            return VExternal("reloaded-fit", {})
        return f
    for cls in FIT_TYPES:
        eng.lib["class:" + cls] = ctor(cls)
    # the fit being written
    fixed = VDict({"b": VNum(z3.Real("fixed_b"))})
    limits = VDict({"a": VTuple([VNum(z3.Real("lo_a")), VNum(z3.Real("hi_a"))])})
    cons = VTuple([M("constraint-1"), M("constraint-2")])
    results = VDict({"did_fit": VBool(z3.Bool("did_fit")), "parameter_values": M("result-values"), "parameter_errors": M("result-errors")})
    mk(eng, "NexusFitter", "fixed_parameters", "getter", result=lambda vw: fixed)
    mk(eng, "NexusFitter", "limited_parameters", "getter", result=lambda vw: limits)
    mk(eng, "FitBase", "parameter_constraints", "getter", result=lambda vw: cons)
    mk(eng, "FitBase", "data_container", "getter", result=lambda vw: M("data-container"))
    mk(eng, "FitBase", "get_result_dict", result=lambda vw: results)
    mk(eng, "CostFunction", "func", "getter", result=lambda vw: M("cost-func"))
    for cls, tname in FIT_TYPES.items():
        for ident in ("known_id", None):
            if ident is None and cls not in ("CustomFit", "XYFit"):
                continue
            mk(eng, "CostFunction", "kafe2go_identifier", "getter", result=lambda vw, ident=ident: VStr(ident) if ident else VNone())
            got = {}
            c = Contract("FitYamlWriter", "_make_representation")
            c.ensures.append(lambda vw, got=got: (got.__setitem__("doc", vw.result), [("a plain dict", z3.BoolVal(isinstance(vw.result, VDict)))])[1])

            def init(e, st, me_, cls=cls):
                fit = VRef(z3.Const("fit", Ref), cls)
                e.write_field(st, fit, "_minimizer", VStr("the-minimizer"))
                e.write_field(st, fit, "_minimizer_kwargs", VDict({"tolerance": VNum(z3.Real("tol"))}))
                e.write_field(st, fit, "_param_model", M("param-model"))
                e.write_field(st, fit, "_parameter_formatters", VTuple([]))
                return {"cls": VLib("class:FitYamlWriter"), "fit": fit}
            tag = f"[{cls}, cost function {'named' if ident else 'given as code'}]"
            eng.verify("FitYamlWriter", "_make_representation", None, init, contract=c, tag=tag)
            c = Contract("FitYamlReader", "_convert_yaml_doc_to_object")

            def post(vw, cls=cls, tname=tname, ident=ident):
                made = list(vw.post.ghost.get("made", ()))
                read = list(vw.post.ghost.get("read", ()))
                tr = ext_trace(vw.post, "reloaded-fit")
                if len(made) != 1 or made[0][0] != cls:
                    return [("one fit of the same class is constructed", z3.BoolVal(False))]
                _, a_, kw = made[0]
                out = []
                if cls != "CustomFit":
                    r_c = [x for x in read if x[0] == "container"]
                    r_m = [x for x in read if x[0] == "model"]
                    out.append(("the data container and the parametric model are read from the documents the writer made, typed like the fit",
                                z3.BoolVal(len(r_c) == 1 and as_s(r_c[0][1].d.get("type")) == "dataset-doc" and as_s(r_c[0][2].get("default_type")) == tname and len(r_m) == 1 and as_s(r_m[0][1].d.get("type")) == "model-doc" and
                                           is_m(r_m[0][2].get("dataset"), "reloaded-container") and len(a_) == 2 and is_m(a_[0], "reloaded-container") and is_m(a_[1], "reloaded-model-function"))))
                    out.append(("the parametric model that was read (with its parameter values and model-side sources) replaces the constructor's own", z3.BoolVal(any(m_ == "set:_param_model" and isinstance(x_[0], PM) for m_, x_, k2 in tr))))
                if cls != "CustomFit":
                    wired = [v_ for n_, v_ in vw.post.ghost.get("pm_set", ()) if n_ == "_on_error_change_callback"]
                    calls = [m_ for m_, x_, k2 in tr]
                    told = "_on_error_change" in calls and "set:_param_model" in calls and calls.index("_on_error_change") > calls.index("set:_param_model")
                    out.append(("the model that was read reports changes of its uncertainty sources to the new fit", z3.BoolVal(len(wired) == 1 and isinstance(wired[0], VBound) and wired[0].name == "_on_error_change" and isinstance(wired[0].recv, VExternal) and wired[0].recv.name == "reloaded-fit")))
                    out.append(("model-side sources that were read enter the new fit's cost: the fit is told about them after the model is installed (an implicit no-errors chi2 is replaced there)",
                                z3.Implies(z3.Bool("read_model_declares_uncertainties"), z3.BoolVal(told))))
                if cls == "HistFit":
                    out.append(("a histogram fit is constructed with the stored density / bin-evaluation settings (they govern every parametric model the fit builds later)",
                                z3.BoolVal(is_m(kw.get("density"), "stored-density") and is_m(kw.get("bin_evaluation"), "stored-bin_evaluation"))))
                cf = kw.get("cost_function")
                out.append(("cost function: the stored identifier, or the function re-created from the stored code", z3.BoolVal(bool((as_s(cf) == "known_id") if ident else is_m(cf, "parsed-function")))))
                out.append(("same minimizer and minimizer options", z3.BoolVal(as_s(kw.get("minimizer")) == "the-minimizer" and isinstance(kw.get("minimizer_kwargs"), VDict) and set(kw["minimizer_kwargs"].d) == {"tolerance"})))
                r_k = [x for x in read if x[0] == "constraint"]
                assigned = [x_[0] for m_, x_, k2 in tr if m_ == "set:_fit_param_constraints"]
                out.append(("EVERY constraint is read back from its own document, in order, and the list is installed", z3.BoolVal(len(r_k) == 2 and [is_m(x[1].d.get("of"), "constraint-%d" % (q_ + 1)) for q_, x in enumerate(r_k)] == [True, True] and
                                                                                                                        len(assigned) == 1 and isinstance(assigned[0], VTuple) and len(assigned[0].items) == 2)))
                fx = [(x_, k2) for m_, x_, k2 in tr if m_ == "fix_parameter"]
                lm = [(x_, k2) for m_, x_, k2 in tr if m_ == "limit_parameter"]
                out.append(("fixed parameters fixed again at the stored values", z3.And(z3.BoolVal(len(fx) == 1 and as_s(fx[0][0][0]) == "b"), fx[0][0][1].real() == z3.Real("fixed_b")) if len(fx) == 1 else z3.BoolVal(False)))
                out.append(("limits restored (lower, upper)", z3.And(z3.BoolVal(len(lm) == 1 and as_s(lm[0][0][0]) == "a"), lm[0][0][1].real() == z3.Real("lo_a"), lm[0][0][2].real() == z3.Real("hi_a")) if len(lm) == 1 and all(isinstance(v_, VNum) for v_ in lm[0][0][1:3]) else z3.BoolVal(False)))
                lr = [x_[0] for m_, x_, k2 in tr if m_ == "set:_loaded_result_dict"]
                out.append(("the stored fit results become the loaded results", z3.BoolVal(len(lr) == 1 and isinstance(lr[0], VDict) and set(lr[0].d) == {"did_fit", "parameter_values", "parameter_errors"})))
                if cls == "CustomFit":
                    sv = [x_ for m_, x_, k2 in tr if m_ == "set_all_parameter_values"]
                    out.append(("a custom fit (no parametric model) takes its parameter values from the stored results, before the loaded results are installed",
                                z3.BoolVal(len(sv) == 1 and is_m(sv[0][0], "result-values") and [m_ for m_, x_, k2 in tr].index("set_all_parameter_values") < [m_ for m_, x_, k2 in tr].index("set:_loaded_result_dict"))))
                out.append(("every written key is consumed", z3.BoolVal(isinstance(vw.result, VTuple) and isinstance(vw.result.items[1], VDict) and len(vw.result.items[1].d) == 0)))
                return out
            c.ensures.append(post)
            eng.verify("FitYamlReader", "_convert_yaml_doc_to_object", None, lambda e, st, me_, got=got: {"cls": VLib("class:FitYamlReader"), "yaml_doc": VDict(dict(got["doc"].d))}, contract=c, tag=tag)
    return eng



# ------------------------------------------------------------------ every class that offers to_file is registered under the name it reports
REPR_FILES = ["kafe2/fit/representation/_base.py", "kafe2/fit/representation/_yaml_base.py"] + [f"kafe2/fit/representation/{d}/{f}" for d in ("constraint", "container", "fit", "format", "model") for f in ("_base.py", "yaml_drepr.py")]
MIXIN_FILES = ["kafe2/fit/io/file.py", "kafe2/core/constraint.py", "kafe2/fit/_base/container.py", "kafe2/fit/_base/model.py", "kafe2/fit/_base/fit.py", "kafe2/fit/_base/cost.py", "kafe2/fit/_base/format.py",
               "kafe2/fit/histogram/model.py", "kafe2/fit/indexed/model.py", "kafe2/fit/xy/model.py", "kafe2/fit/unbinned/model.py", "kafe2/fit/histogram/container.py", "kafe2/fit/indexed/container.py",
               "kafe2/fit/xy/container.py", "kafe2/fit/unbinned/container.py", "kafe2/fit/unbinned/cost.py", "kafe2/fit/xy/cost.py", "kafe2/fit/histogram/cost.py", "kafe2/fit/indexed/cost.py"]


def u_registry(root):
    import os
    eng = engine(root, [f for f in REPR_FILES + MIXIN_FILES if os.path.exists(os.path.join(root, f))], {}, [])
    repo = eng.repo
    # registry: BASE_OBJECT_TYPE_NAME of every class on which _register_class is called at module level, per role
    def class_attr(cls, name):
        for c_ in repo.mro(cls):
            for stmt in repo.classes[c_][1].body:
                if isinstance(stmt, ast.Assign) and any(isinstance(t, ast.Name) and t.id == name for t in stmt.targets) and isinstance(stmt.value, ast.Constant):
                    return stmt.value.value
        return None
    registry = {}
    for path, (src, tree) in repo.files.items():
        for stmt in tree.body:
            if isinstance(stmt, ast.Expr) and isinstance(stmt.value, ast.Call) and isinstance(stmt.value.func, ast.Attribute) and stmt.value.func.attr == "_register_class" and isinstance(stmt.value.func.value, ast.Name):
                cls = stmt.value.func.value.id
                registry.setdefault(class_attr(cls, "BASE_OBJECT_TYPE_NAME"), set()).add(class_attr(cls, "DREPR_ROLE_NAME"))
    # classes offering to_file / from_file: everything below FileIOMixin; the name each reports and how
    offered = {}
    for cls in list(repo.classes):
        if cls.startswith("@") or "FileIOMixin" not in repo.mro(cls) or cls == "FileIOMixin":
            continue
        owner, fdef = repo.find(cls, "_get_object_type_name")
        if fdef is None or owner == "FileIOMixin":
            offered[cls] = (None, False)
            continue
        rets = [x.value.value for x in ast.walk(fdef) if isinstance(x, ast.Return) and isinstance(x.value, ast.Constant)]
        offered[cls] = (rets[0] if len(rets) == 1 else None, any(ast.unparse(d_) == "classmethod" for d_ in fdef.decorator_list))
    eng.lemma("the table of registered representers was read from the real source (7 object types, reader and writer each)", [], z3.BoolVal(len(registry) >= 7 and all(v == {"reader", "writer"} for v in registry.values())))
    by_name = {}
    for cls, (name, is_cm) in sorted(offered.items()):
        by_name.setdefault(name, []).append((cls, is_cm))
    for name, lst in sorted(by_name.items(), key=lambda kv: str(kv[0])):
        eng.lemma(f"registered:{name}", [], z3.BoolVal(bool(name in registry and registry.get(name) == {"reader", "writer"} and all(cm for _, cm in lst))))
        eng.functions.append({"path": "kafe2/fit/io/file.py", "qualname": f"FileIOMixin.to_file / from_file for object type '{name}': " + ", ".join(c_ for c_, _ in lst), "verified_as": "table", "sha256": "", "exit_paths": [], "obligations": 1})
    eng.trusted.append("class hierarchy and registration calls read syntactically from the loaded source files (no dynamic registration elsewhere)")
    return eng



def u_cost_identifiers(root):
    """what a fit writes as `cost_function` for a built-in cost function is a key the reader knows"""
    eng = engine(root, ["kafe2/fit/_base/cost.py", "kafe2/fit/unbinned/cost.py", "kafe2/fit/xy/cost.py", "kafe2/core/constraint.py", "kafe2/fit/io/file.py"],
                 {"CostFunction": {"_kafe2go_identifier": PYOBJ, "_add_determinant_cost_ga": PYOBJ, "_needs_errors": PYOBJ, "_is_chi2": PYOBJ, "_saturated": PYOBJ, "_formatter": PYOBJ, "_fail_on_no_matrix": PYOBJ,
                                   "_fail_on_no_errors": PYOBJ, "_errors_valid": PYOBJ}}, [])

    def keys_of(path, table="STRING_TO_COST_FUNCTION"):
        for stmt in eng.repo.files[path][1].body:
            if isinstance(stmt, ast.Assign) and any(isinstance(t, ast.Name) and t.id == table for t in stmt.targets) and isinstance(stmt.value, ast.Dict):
                return {k_.value for k_ in stmt.value.keys if isinstance(k_, ast.Constant)}
        return set()
    base_keys, unb_keys = keys_of("kafe2/fit/_base/cost.py"), keys_of("kafe2/fit/unbinned/cost.py")
    mk(eng, "CostFunction", "__init__")
    mk(eng, "CostFunction", "name", "getter", result=lambda vw: VStr("<handle name>"))
    fm = VExternal("formatter", {})
    for cls, configs, keys in (("CostFunction_GaussApproximation", [dict(errors_to_use=e_, fast_math=f_) for e_ in ("covariance", "pointwise", "Covariance") for f_ in (False, True)], base_keys),
                               ):      # (the unbinned NLL also names itself 'nll'; without a name the writer falls back to the function's source, which round-trips as well: not asserted)
        for cfg in configs:
            c = Contract(cls, "__init__")
            c.ensures.append(lambda vw, keys=keys: [("the identifier written for this cost function is a key of the lookup table the reader uses",
                                                     z3.BoolVal(isinstance(vw.f(vw.post, vw.self, "_kafe2go_identifier"), VStr) and vw.f(vw.post, vw.self, "_kafe2go_identifier").s in keys))])

            def init(e, st, me_, cfg=cfg):
                e.write_field(st, me_, "_formatter", fm)
                return {k_: (VStr(v_) if isinstance(v_, str) else VBool(z3.BoolVal(v_))) for k_, v_ in cfg.items()}
            eng.verify(cls, "__init__", None, init, contract=c, tag=str(cfg) if cfg else "")
    # chi2 and negative log-likelihood cost functions name themselves after the function they wrap: the reader's table must lead from that name back to THIS configuration
    def table_of(path, table="STRING_TO_COST_FUNCTION"):
        for stmt in eng.repo.files[path][1].body:
            if isinstance(stmt, ast.Assign) and any(isinstance(t, ast.Name) and t.id == table for t in stmt.targets) and isinstance(stmt.value, ast.Dict):
                return {k_.value: (ast.unparse(v_.elts[0]), ast.literal_eval(v_.elts[1])) for k_, v_ in zip(stmt.value.keys, stmt.value.values) if isinstance(k_, ast.Constant) and isinstance(v_, ast.Tuple)}
        return {}
    table = table_of("kafe2/fit/_base/cost.py")
    handle = {}
    mk(eng, "CostFunction", "__init__", result=lambda vw: (handle.__setitem__("name", vw.args["cost_function"].name if isinstance(vw.args.get("cost_function"), VBound) else None), VNone())[1])
    mk(eng, "CostFunction", "name", "getter", result=lambda vw: VStr(handle["name"]) if handle.get("name") else VNone())
    DEFAULTS = {"CostFunction_NegLogLikelihood": {"data_point_distribution": "poisson", "ratio": False}, "CostFunction_Chi2": {"errors_to_use": "covariance", "fast_math": False, "add_determinant_cost": True}}
    for cls, configs in (("CostFunction_NegLogLikelihood", [dict(data_point_distribution=d_, ratio=r_) for d_ in ("gaussian", "poisson") for r_ in (False, True)]),
                         ("CostFunction_Chi2", [dict(errors_to_use="covariance", fast_math=False), dict(errors_to_use="covariance", fast_math=True), dict(errors_to_use="pointwise", fast_math=False), dict(errors_to_use=None, fast_math=False, add_determinant_cost=False)])):
        for cfg in configs:
            c = Contract(cls, "__init__")

            def post(vw, cls=cls, cfg=cfg):
                ident = vw.f(vw.post, vw.self, "_kafe2go_identifier")
                ok = isinstance(ident, VStr) and ident.s in table
                out = [("the identifier written for this cost function is a key of the lookup table the reader uses", z3.BoolVal(ok))]
                if ok:
                    tcls, tkw = table[ident.s]
                    full = lambda kw: dict(DEFAULTS[cls], **kw)
                    out.append(("... and the table leads back to THIS class with THIS configuration (a Gaussian likelihood does not come back as a Poisson one)", z3.BoolVal(tcls == cls and full(tkw) == full(cfg))))
                return out
            c.ensures.append(post)

            def init(e, st, me_, cfg=cfg):
                handle.clear()
                e.write_field(st, me_, "_formatter", fm)
                return {k_: (VStr(v_) if isinstance(v_, str) else VNone() if v_ is None else VBool(z3.BoolVal(v_))) for k_, v_ in cfg.items()}
            eng.verify(cls, "__init__", None, init, contract=c, tag=str(cfg))
    return eng


def as_s(v):
    return v.s if isinstance(v, VStr) else None


def u_result_dict(root):
    """FitBase.get_result_dict (what FitYamlWriter stores and save_state writes): the asymmetric uncertainties it reports are the ones the fit holds - results loaded from a file
    first (a reloaded fit has no live ones), else freshly computed ones if asked for, else those the fitter has already computed; keyed by the parameter names in order"""
    from . import c03
    Part, Val, Fn = c03.Part, c03.Val, c03.Fn
    eng = c03.fit_engine(root)
    eng.consts["OrderedDict"] = VLib("dict")
    eng.lib["float"] = lambda e, st, a, kw, node: a[0]
    names = VTuple([VStr("a"), VStr("b")])
    for g_, v_ in (("did_fit", VBool(z3.BoolVal(True))), ("cost_function_value", Val("cost")), ("ndf", VNum(z3.Int("ndf"))), ("goodness_of_fit", VNum(z3.Real("goodness_of_fit"))), ("chi2_probability", VNone()), ("parameter_name_value_dict", Val("values")), ("parameter_cov_mat", Val("cov")),
                   ("parameter_errors", VTuple([Val("err_a"), Val("err_b")])), ("parameter_cor_mat", Val("cor")), ("parameter_names", names), ("asymmetric_parameter_errors", VTuple([Val("computed_a"), Val("computed_b")]))):
        mk(eng, "FitBase", g_, "getter", result=lambda vw, v_=v_: v_)
    mk(eng, "FitBase", "_check_dynamic_error_compatibility", result=lambda vw: VNone())
    for loaded in ("with-asymmetric", "without-asymmetric", None):
        for asked in (False, True):
            for fitter_has in (True, False):
                c = Contract("FitBase", "get_result_dict")
                c.requires.append(lambda vw: z3.Int("ndf") != 0)

                def post(vw, loaded=loaded, asked=asked, fitter_has=fitter_has):
                    r = vw.result
                    if vw.flow == "raise" or not isinstance(r, VDict) or "asymmetric_parameter_errors" not in r.d:
                        return [("a result dictionary with an entry for the asymmetric uncertainties", z3.BoolVal(False))]
                    gn = r.d.get("gof/ndf")
                    ratio = [("the dictionary holds the goodness of fit and ITS ratio to the degrees of freedom (not the cost's)",
                              z3.And(r.d["goodness_of_fit"].real() == z3.Real("goodness_of_fit"), gn.real() * z3.ToReal(z3.Int("ndf")) == z3.Real("goodness_of_fit")) if isinstance(gn, VNum) and isinstance(r.d.get("goodness_of_fit"), VNum) else z3.BoolVal(False))]
                    got = r.d["asymmetric_parameter_errors"]
                    want = "loaded" if loaded == "with-asymmetric" else "computed" if asked else "fitter" if fitter_has else None
                    if want is None:
                        return ratio + [("none held, none asked for: None", z3.BoolVal(isinstance(got, VNone)))]
                    ok = isinstance(got, VDict) and list(got.d) == ["a", "b"] and [getattr(x, "tag", None) for x in got.d.values()] == [want + "_a", want + "_b"]
                    return ratio + [(f"the asymmetric uncertainties reported are the {want} ones (loaded results first, then freshly computed ones if asked for, then those the fitter has), keyed by parameter name in order", z3.BoolVal(ok))]
                c.ensures.append(post)

                def init(e, st, me_, loaded=loaded, asked=asked, fitter_has=fitter_has):
                    e.write_field(st, me_, "_loaded_result_dict", VNone() if loaded is None else VDict({"did_fit": VBool(z3.BoolVal(True)), "asymmetric_parameter_errors": VTuple([Val("loaded_a"), Val("loaded_b")]) if loaded == "with-asymmetric" else VNone()}))
                    e.write_field(st, me_, "_fitter", Part("fitter", {"asymmetric_fit_parameter_errors_if_calculated": VTuple([Val("fitter_a"), Val("fitter_b")]) if fitter_has else VNone()}))
                    return {"asymmetric_parameter_errors": VBool(z3.BoolVal(asked))}
                eng.verify("FitBase", "get_result_dict", None, init, contract=c, tag=f"[loaded results: {loaded}, asked: {asked}, fitter has them: {fitter_has}]")
    return eng


def units(root):
    return [Unit("constraint writer -> reader", u_constraints), Unit("YamlWriterMixin.write replaces the file content", u_write_protocol), Unit("fit writer -> reader", u_fit), Unit("representer registry", u_registry), Unit("cost function identifiers", u_cost_identifiers), Unit("container writer -> reader (data, histogram content, labels)", u_container_fields), Unit("get_result_dict reports the asymmetric uncertainties the fit holds (loaded ones first)", u_result_dict),
            *[Unit(f"uncertainty sources writer -> reader ({k_}{'' if a_ is None else ', axis %d' % a_})", (lambda root, k_=k_, a_=a_: u_container_errors(root, k_, a_)), bounded="source lists of length <= 2 per axis (6 mixes of simple / covariance-matrix / correlation-matrix sources, each relative or absolute, last one disabled or not); sizes, matrices, correlation and data size symbolic") for k_, a_ in (("indexed", None), ("xy", 0), ("xy", 1))]]
