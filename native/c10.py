"""Native side of C10: the documented ndf / goodness-of-fit / chi2-probability formulas evaluated on real fits and multi-fits."""
import itertools, sys
from common import parse, Runner, imp

args = parse()
import numpy as np
from scipy.stats import chi2 as chi2dist
kafe2 = imp("kafe2")
XYFit, IndexedFit, HistFit, UnbinnedFit, MultiFit = kafe2.XYFit, kafe2.IndexedFit, kafe2.HistFit, kafe2.UnbinnedFit, kafe2.MultiFit
HistContainer = kafe2.HistContainer
R = Runner("C10", args, scope="xy/indexed/hist/unbinned fits and multi-fits of 2 members; 0-2 simple/matrix constraints on fit or members; fix/release histories of <=3 ops; repeated reads",
           rule="enumeration of (fit kind, constraints, fix/release history); every quantity read twice")


def lin(x, a=1.0, b=0.5):
    return a * x + b


def lin2(x, a=1.0, c=0.2):
    return a * x + c


def imodel(a=1.0, b=0.5):
    return a * np.arange(5) + b


def norm(x, mu=0.1, sigma=1.2):
    return np.exp(-0.5 * ((x - mu) / sigma) ** 2) / np.sqrt(2 * np.pi * sigma ** 2)


def make(kind):
    if kind == "xy":
        f = XYFit([[1.0, 2.0, 3.0, 4.0, 5.0], [1.7, 2.4, 3.9, 4.2, 5.6]], lin)
        f.add_error("y", 0.3)
        return f, 5
    if kind == "xy_cov":
        f = XYFit([[1.0, 2.0, 3.0, 4.0], [1.7, 2.4, 3.9, 4.2]], lin)
        f.add_error("y", 0.3, correlation=0.4)
        f.add_error("x", 0.1)
        return f, 4
    if kind == "indexed":
        f = IndexedFit([0.4, 1.7, 2.4, 3.9, 4.2], imodel)
        f.add_error(0.25)
        return f, 5
    if kind == "hist":
        h = HistContainer(6, (-3, 3), fill_data=list(np.linspace(-2.5, 2.5, 40)))
        return HistFit(h, norm), 6
    if kind == "unbinned":
        return UnbinnedFit(list(np.linspace(-2.0, 2.0, 30)), norm), 30
    raise KeyError(kind)


CONS = {"none": [], "simple": [("s", "a")], "matrix": [("m", ("a", "b"))], "both": [("s", "a"), ("m", ("a", "b"))]}


def add_constraints(fit, spec, names):
    extra = 0
    for kind, tgt in spec:
        if kind == "s":
            fit.add_parameter_constraint(names[0], value=0.7, uncertainty=0.5)
            extra += 1
        else:
            fit.add_matrix_parameter_constraint(list(names[:2]), [0.8, 0.3], [[0.25, 0.01], [0.01, 0.16]])
            extra += 2
    return extra


def gen_single(tier, seed):
    for kind in ("xy", "xy_cov", "indexed", "hist", "unbinned"):
        for cons in CONS:
            for hist in ([], ["fix0"], ["fix0", "fix0"], ["fix0", "rel0"], ["fix0", "fix1", "rel0"], ["rel0", "fix1"], ["fix0", "fix1"], ["fix1", "fix0", "fix1"]):          # (incl. several parameters fixed at the same time)
                for dofit in (False, True):
                    if dofit and hist[-2:] in (["fix0", "fix1"], ["fix0", "fix1"][::-1] + ["fix1"]) :
                        continue          # (nothing left to fit for the two-parameter models)
                    if dofit and (hist or cons == "both") and tier != "thorough":
                        continue
                    yield {"kind": kind, "constraints": cons, "history": hist, "do_fit": dofit}


def check_single(fit, n_data, extra, fixed, tag):
    npar = len(fit.parameter_names)
    exp_ndf = n_data + extra - npar + len(fixed)
    for rep in (1, 2):
        if fit.ndf != exp_ndf:
            return {"got": {"ndf": fit.ndf, "read": rep}, "expected": {"ndf": exp_ndf}, "witness_class": f"{tag}:ndf"}
    cf = fit._cost_function
    if cf.is_chi2:
        cost = fit.cost_function_value
        ld = fit._nexus.get("total_cov_mat_log_determinant").value if cf.add_determinant_cost else 0.0
        exp_p = 1.0 - chi2dist.cdf(cost - ld, exp_ndf)
        for rep in (1, 2):
            p = fit.chi2_probability
            if not np.isclose(p, exp_p, rtol=1e-9, atol=1e-12):
                return {"got": {"chi2_probability": p}, "expected": {"chi2_probability": exp_p}, "witness_class": f"{tag}:chi2_probability"}
        # gof for chi2 = r^T V^-1 r + constraint cost, independent of the determinant term
        r = np.asarray(fit.data if not hasattr(fit, "y_data") else fit.y_data) - np.asarray(fit.model if not hasattr(fit, "y_model") else fit.y_model)
        V = np.asarray(fit.total_cov_mat)
        ccost = sum(c.cost(fit.parameter_values) for c in fit.parameter_constraints)
        exp_g = float(r @ np.linalg.solve(V, r)) + ccost
        g = fit.goodness_of_fit
        if not np.isclose(g, exp_g, rtol=1e-7, atol=1e-9):
            return {"got": {"gof": g}, "expected": {"gof": exp_g}, "witness_class": f"{tag}:gof"}
        if not np.isclose(cost - ld, exp_g, rtol=1e-7, atol=1e-9):
            return {"got": {"cost-logdet": cost - ld}, "expected": exp_g, "witness_class": f"{tag}:cost-vs-gof"}
    else:
        if fit.chi2_probability is not None:
            return {"got": fit.chi2_probability, "expected": None, "witness_class": f"{tag}:prob-not-None"}
    rd = fit.get_result_dict()
    if rd.get("ndf") != exp_ndf:
        return {"got": {"result_dict.ndf": rd.get("ndf")}, "expected": exp_ndf, "witness_class": f"{tag}:result_dict"}
    # the dictionary (what do_fit returns and save_state stores) holds the same goodness of fit, and its ratio to ndf
    g_ = fit.goodness_of_fit
    if (g_ is None) != (rd.get("goodness_of_fit") is None) or (g_ is not None and (not np.isclose(rd["goodness_of_fit"], g_, rtol=1e-12, atol=0) or not np.isclose(rd["gof/ndf"], g_ / exp_ndf, rtol=1e-12, atol=0))):
        return {"got": {k_: rd.get(k_) for k_ in ("goodness_of_fit", "gof/ndf")}, "expected": {"goodness_of_fit": g_, "gof/ndf": None if g_ is None else g_ / exp_ndf}, "witness_class": f"{tag}:result_dict:gof"}
    if rd.get("chi2_probability") is None and fit.chi2_probability is not None or (rd.get("chi2_probability") is not None and not np.isclose(rd["chi2_probability"], fit.chi2_probability, rtol=1e-12, atol=0)):
        return {"got": rd.get("chi2_probability"), "expected": fit.chi2_probability, "witness_class": f"{tag}:result_dict:chi2_probability"}


@R.oracle("single_fit_formulas", gen_single, obligation="FitBase.")
def single(inp):
    fit, n_data = make(inp["kind"])
    names = fit.parameter_names
    extra = add_constraints(fit, CONS[inp["constraints"]], names)
    fixed = set()
    for op in inp["history"]:
        nm = names[int(op[-1])]
        if op.startswith("fix"):
            fit.fix_parameter(nm); fixed.add(nm)
        else:
            fit.release_parameter(nm); fixed.discard(nm)
    r = check_single(fit, n_data, extra, fixed, "before-fit")
    if r:
        return r
    if inp["do_fit"]:
        fit.do_fit()
        return check_single(fit, n_data, extra, fixed, "after-fit")


def gen_multi(tier, seed):
    for kinds in (("xy", "xy2"), ("xy", "indexed"), ("hist", "xy")):
        for where in ("none", "multi", "member0", "member1", "both"):
            for shared in (False, True):
                for hist in ([], ["fix_a"], ["fix_a", "rel_a"], ["fix_a", "fix_a"]):
                    if shared and not all(k.startswith("xy") for k in kinds):
                        continue
                    yield {"kinds": list(kinds), "constraint_on": where, "shared_error": shared, "history": hist}


def make_member(kind):
    if kind == "xy2":
        f = XYFit([[1.0, 2.0, 3.0, 4.0, 5.5], [1.1, 2.3, 2.9, 4.4, 5.9]], lin2)
        f.add_error("y", 0.2)
        return f, 5
    return make(kind)


@R.oracle("multi_fit_formulas", gen_multi, obligation="MultiFit.")
def multi(inp):
    (f0, n0), (f1, n1) = make_member(inp["kinds"][0]), make_member(inp["kinds"][1])
    extra = 0
    if inp["constraint_on"] in ("member0", "both"):
        extra += add_constraints(f0, [("s", None)], f0.parameter_names)
    if inp["constraint_on"] in ("member1",):
        extra += add_constraints(f1, [("m", None)], f1.parameter_names)
    m = MultiFit([f0, f1])
    if inp["constraint_on"] in ("multi", "both"):
        extra += add_constraints(m, [("s", None)], m.parameter_names)
    if inp["shared_error"]:
        m.add_error(0.1, fits="all", axis="y") if all(k.startswith("xy") for k in inp["kinds"]) else m.add_error(0.1, fits="all")
    fixed = set()
    for op in inp["history"]:
        nm = m.parameter_names[0]
        if op.startswith("fix"):
            m.fix_parameter(nm); fixed.add(nm)
        else:
            m.release_parameter(nm); fixed.discard(nm)
    exp_ndf = n0 + n1 + extra - len(m.parameter_names) + len(fixed)
    for rep in (1, 2, 3):
        if m.ndf != exp_ndf:
            return {"got": {"ndf": m.ndf, "read": rep}, "expected": {"ndf": exp_ndf}, "witness_class": "multi:ndf" + (":repeated-read" if rep > 1 else "")}
    if m._cost_function.is_chi2:
        cost = m.cost_function_value
        sub = 0.0
        if m._shared_error_nodes_initialized:
            sub += m._nexus.get("total_cov_mat_log_determinant").value
        for f in (f0, f1):
            cf = f._cost_function
            if cf.add_determinant_cost and not (m._shared_error_nodes_initialized and cf.is_chi2):
                sub += f._nexus.get("total_cov_mat_log_determinant").value
        exp_p = 1.0 - chi2dist.cdf(cost - sub, exp_ndf)
        p = m.chi2_probability
        if not np.isclose(p, exp_p, rtol=1e-9, atol=1e-12):
            return {"got": {"chi2_probability": p}, "expected": {"chi2_probability": exp_p}, "witness_class": "multi:chi2_probability"}
        if not inp["shared_error"]:
            g = m.goodness_of_fit
            own = sum(c.cost(m.parameter_values) for c in m.parameter_constraints)
            exp_g = f0.goodness_of_fit + f1.goodness_of_fit + own      # gof = cost - saturated cost: constraint cost of the multi-fit's own constraints stays
            if not np.isclose(g, exp_g, rtol=1e-9):
                return {"got": {"gof": g}, "expected": exp_g, "witness_class": "multi:gof-sum" + (":own-constraints" if own else "")}
            if not np.isclose(cost - sub, exp_g, rtol=1e-7):
                return {"got": {"cost-logdets": cost - sub}, "expected": exp_g, "witness_class": "multi:cost-vs-gof"}
        else:
            # joint chi2: r^T V^-1 r over the concatenated data + every constraint's cost
            ccost = sum(c.cost(m.parameter_values) for c in m.parameter_constraints)
            ccost += sum(c.cost(f.parameter_values) for f in (f0, f1) for c in f.parameter_constraints)
            g = m.goodness_of_fit
            if not np.isclose(cost - sub, g, rtol=1e-7):
                return {"got": {"cost-logdets": cost - sub, "gof": g}, "expected": "equal", "witness_class": "multi:shared:cost-vs-gof"}


sys.exit(R.main())
