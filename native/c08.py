"""Native side of C08 (bounded): histories of post-fit queries on real fits; after EVERY query the fit must be where it was, the minimizer and the graph must hold
the same parameter values, and asking the same question twice must give the same answer."""
import io, itertools, os, sys, tempfile, warnings
from common import parse, Runner, imp

args = parse()
import numpy as np
warnings.simplefilter("ignore")
kafe2 = imp("kafe2")
XYFit, IndexedFit, HistFit, UnbinnedFit, CustomFit, HistContainer = kafe2.XYFit, kafe2.IndexedFit, kafe2.HistFit, kafe2.UnbinnedFit, kafe2.CustomFit, kafe2.HistContainer
R = Runner("C08", args, scope="5 fit types x 2 back ends x {free, one fixed, one limited} x all sequences of <= 2 (quick) / <= 3 (thorough) queries out of 12 (cov, cor, hessian, asymmetric errors, profile, contour, "
                              "error band, report, result dict, to_file, repeated read of values and cost)",
           rule="history enumeration; after each query: values / cost / errors / did_fit vs. the state right after do_fit, minimizer vs. graph values, repeat of the query")
R.shards = 14

X = np.array([0.5, 1.5, 2.5, 3.5, 4.5, 5.5])
Y = np.array([1.2, 2.9, 5.3, 7.0, 9.4, 10.6])
RAW = [round(float(v), 3) for v in np.linspace(-2.6, 2.9, 50) ** 3 / 8.0]


def quad(x, a=1.0, b=0.5, c=0.1):
    return a * x * x * 0.1 + b * x + c


def iquad(a=1.0, b=0.5, c=0.1):
    return a * np.arange(6) ** 2 * 0.1 + b * np.arange(6) + c


def normal(x, mu=0.1, sigma=1.2):
    return np.exp(-0.5 * ((x - mu) / sigma) ** 2) / np.sqrt(2.0 * np.pi * sigma ** 2)


def custom_cost(a=0.3, b=1.0, c=0.4):
    return (a - 0.7) ** 2 / 0.04 + (b + 0.2) ** 2 / 0.09 + (c - 1.1) ** 2 / 0.25 + 0.5 * a * b + 0.3 * (b * c) ** 2


def make(kind, backend, setup):
    if kind == "xy":
        f = XYFit([X, Y], quad, minimizer=backend); f.add_error("y", 0.4); f.add_error("x", 0.1)
    elif kind == "indexed":
        f = IndexedFit(Y, iquad, minimizer=backend); f.add_error(0.4)
    elif kind == "hist":
        f = HistFit(HistContainer(8, (-3, 3), fill_data=RAW), normal, minimizer=backend)
    elif kind == "unbinned":
        f = UnbinnedFit(RAW, normal, minimizer=backend)
    else:
        f = CustomFit(custom_cost, minimizer=backend)
    n = list(f.parameter_names)
    if setup == "fixed":
        f.fix_parameter(n[-1], {"c": 0.3, "sigma": 1.0}.get(n[-1], 0.5))
    elif setup == "limited":
        f.limit_parameter(n[0], -5.0, 5.0)
    return f


def q_profile(f):
    xy, _ = f._fitter.profile([n for n in f.parameter_names if n not in f._fitter.fixed_parameters][0], size=7)
    return np.asarray(xy)


def q_profile_cl(f):
    """the variant plot_profile uses: bounds from a confidence level, arrows on (the bounds are searched with the live minimizer)"""
    xy, _ = f._fitter.profile([n for n in f.parameter_names if n not in f._fitter.fixed_parameters][0], size=7, cl=0.9, arrows=True)
    return np.asarray(xy)


def _refused(f, **kw):
    n_ = [n for n in f.parameter_names if n not in f._fitter.fixed_parameters][0]
    i_ = list(f.parameter_names).index(n_)
    v_, e_ = float(f.parameter_values[i_]), float(f.parameter_errors[i_]) or 1.0
    kw = {k_: (v_ + x_[1] * e_ if isinstance(x_, tuple) else x_) for k_, x_ in kw.items()}
    try:
        f._fitter.profile(n_, size=5, **kw)
    except ValueError as e:
        return "refused"
    return "accepted"


def q_profile_refused_low(f):
    """a request that has to be refused (lower bound above the fitted value): refused, and the fit is where it was"""
    return _refused(f, low=("rel", +0.5))


def q_profile_refused_cl(f):
    """a request that is refused only AFTER the lower bound was visited with the live minimizer (one-sided 50 % level -> two-sided level 0)"""
    return _refused(f, low=("rel", -1.0), cl=0.5)


def q_contour(f):
    free = [n for n in f.parameter_names if n not in f._fitter.fixed_parameters]
    c = f._fitter.contour(free[0], free[1], sigma=1.0)
    if c is None:
        return None
    if c.xy_points is not None:
        return None          # contour points are returned in back-end order: only the side effects are compared
    return np.asarray(c.grid_z)


def q_report(f):
    s = io.StringIO()
    f.report(s)
    return s.getvalue()


def q_to_file(f):
    d = tempfile.mkdtemp(prefix="c08_")
    p = os.path.join(d, "f.yml")
    f.to_file(p)
    t = "\n".join(l for l in open(p).read().splitlines() if not l.startswith("#"))
    os.remove(p); os.rmdir(d)
    return t


QUERIES = {
    "cov": lambda f: np.asarray(f.parameter_cov_mat), "cor": lambda f: np.asarray(f.parameter_cor_mat), "hessian": lambda f: np.asarray(f._fitter.minimizer.hessian),
    "asym": lambda f: np.asarray(f.asymmetric_parameter_errors), "profile": q_profile, "profile_cl": q_profile_cl, "profile_refused_low": q_profile_refused_low, "profile_refused_cl": q_profile_refused_cl, "contour": q_contour,
    "band": lambda f: np.asarray(f.error_band()) if hasattr(f, "error_band") else None,
    "report": q_report, "result_dict": lambda f: {k: (np.asarray(v).tolist() if isinstance(v, np.ndarray) else v) for k, v in f.get_result_dict().items()},
    "to_file": q_to_file, "read": lambda f: (np.asarray(f.parameter_values).tolist(), float(f.cost_function_value)),
}


def gen(tier, seed):
    names = list(QUERIES)
    depth = 3 if tier == "thorough" else 2
    for kind in ("xy", "indexed", "hist", "unbinned", "custom"):
        for backend in ("iminuit", "scipy"):
            for setup in ("free", "fixed", "limited", "frozen-after-fit"):
                if kind in ("hist", "unbinned") and setup in ("fixed", "frozen-after-fit"):
                    continue          # two parameters only: contour needs two free ones
                seqs = [(q,) for q in names] + [(p, q) for p in ("asym", "profile", "profile_cl", "contour", "cov", "to_file", "band") for q in names]
                if depth == 3:
                    import zlib
                    rng = np.random.RandomState(seed + zlib.crc32(repr((kind, backend, setup)).encode()) % 1000)          # (not hash(): string hashes differ from process to process)
                    seqs += [tuple(rng.choice(names, 3)) for _ in range(25)]
                if tier == "quick":
                    pairs_here = kind in ("xy", "custom") and setup in ("free", "fixed", "frozen-after-fit")
                    seqs = [s for s in seqs if len(s) == 1 or (pairs_here and s[0] in ("asym", "profile", "profile_cl", "contour"))]
                seqs = [s for s in seqs if not (len(s) > 1 and any(q_.startswith("profile_refused") for q_ in s)) or (tier == "thorough" or s[0] == "profile_cl")]          # refused requests: alone, and after one answered request
                for s in seqs:
                    if "band" in s and kind != "xy":
                        continue
                    yield {"kind": kind, "backend": backend, "setup": setup, "queries": list(s)}


def same_answer(a, b, tol=2e-3):
    if a is None or b is None:
        return a is None and b is None
    if isinstance(a, str):
        return a == b
    if isinstance(a, dict):
        return set(a) == set(b) and all(same_answer(a[k], b[k]) for k in a)
    if isinstance(a, (tuple, list)) and not isinstance(a, np.ndarray) and any(isinstance(x, (list, tuple, dict, str)) for x in a):
        return len(a) == len(b) and all(same_answer(x, y) for x, y in zip(a, b))
    try:
        a_, b_ = np.asarray(a, float), np.asarray(b, float)
    except (TypeError, ValueError):
        return a == b
    return a_.shape == b_.shape and bool(np.allclose(a_, b_, rtol=tol, atol=tol / 10, equal_nan=True))


def same_profile(a, b):
    """two scans of the same profile: the scan points are placed from the (re-estimated, C07) parameter uncertainty, so they may sit at slightly different positions -
    the answers agree if the second scan lies on the curve of the first one"""
    try:
        (x1, y1), (x2, y2) = np.asarray(a, float), np.asarray(b, float)
    except (TypeError, ValueError):
        return False
    if x1.shape != x2.shape or abs((x1[-1] - x1[0]) - (x2[-1] - x2[0])) > 0.05 * abs(x1[-1] - x1[0]):
        return False
    inside = (x2 >= x1.min()) & (x2 <= x1.max())
    if inside.sum() < len(x2) - 2:
        return False
    fine = np.linspace(x1.min(), x1.max(), 400)
    curve = np.interp(fine, x1, y1)            # (piecewise linear through 7 points of a parabola: compared with the matching tolerance)
    span = float(np.max(y1) - np.min(y1)) or 1.0
    return bool(np.all(np.abs(y2[inside] - np.interp(x2[inside], x1, y1)) <= 0.06 * span))


@R.oracle("queries_do_not_move_the_fit", gen, obligation="post-fit queries")
def history(inp):
    f = make(inp["kind"], inp["backend"], inp["setup"])
    f.do_fit()
    if inp["setup"] == "frozen-after-fit":
        f.fix_parameter(f.parameter_names[0])          # freeze a parameter where the fit left it: nothing observable changes
    v0, c0, e0 = np.asarray(f.parameter_values).copy(), float(f.cost_function_value), np.asarray(f.parameter_errors).copy()
    sig = np.where(e0 > 0, e0, 1.0)
    tag = inp["backend"]
    for k, q in enumerate(inp["queries"]):
        try:
            a1 = QUERIES[q](f)
        except Exception as e:
            return {"got": f"{q}: {type(e).__name__}: {e}"[:300], "expected": "an answer", "witness_class": f"{tag}:{q}:raises"}
        if q.startswith("profile_refused") and a1 != "refused":
            return {"got": a1, "expected": "refused (ValueError)", "witness_class": f"{tag}:{q}:not-refused"}
        v, c, e = np.asarray(f.parameter_values), float(f.cost_function_value), np.asarray(f.parameter_errors)
        mv = np.asarray(f._fitter.minimizer.parameter_values)
        where = q if k == 0 else inp["queries"][k - 1] + "-then-" + q
        if not np.array_equal(mv, v):
            return {"got": {"minimizer": mv.tolist(), "graph": v.tolist()}, "expected": "equal", "witness_class": f"{tag}:minimizer!=graph:after-{q}"}
        if not f.did_fit and inp["setup"] != "frozen-after-fit":
            return {"got": False, "expected": True, "witness_class": f"{tag}:did_fit-lost:after-{q}"}
        if np.any(np.abs(v - v0) > 0.02 * sig + 1e-9):
            return {"got": v.tolist(), "expected": v0.tolist(), "witness_class": f"{tag}:values-moved:after-{q}"}
        if abs(c - c0) > 1e-3 * max(1.0, abs(c0)):
            return {"got": c, "expected": c0, "witness_class": f"{tag}:cost-moved:after-{q}"}
        if inp["setup"] != "frozen-after-fit" and not np.allclose(e, e0, rtol=3e-2, atol=1e-9):      # (after freezing a parameter the uncertainties of the others are conditional ones once anything re-minimises: C03's subject)
            return {"got": e.tolist(), "expected": e0.tolist(), "witness_class": f"{tag}:errors-changed:after-{q}"}
        fx = dict(f._fitter.fixed_parameters)
        if inp["setup"] == "fixed" and (len(fx) != 1 or any(v[list(f.parameter_names).index(n)] != val for n, val in fx.items())):
            return {"got": fx, "expected": "the fixed parameter stays fixed at its value", "witness_class": f"{tag}:fixed-changed:after-{q}"}
        try:
            a2 = QUERIES[q](f)
        except Exception as e2:
            return {"got": f"{q} (second time): {type(e2).__name__}: {e2}"[:300], "expected": "an answer", "witness_class": f"{tag}:{q}:raises-second-time"}
        if inp["setup"] == "frozen-after-fit" and q in ("profile", "profile_cl", "contour", "asym", "report", "to_file", "result_dict", "cov", "cor", "hessian", "band"):
            continue        # the first such query re-estimates the uncertainties for the new configuration (stale until then: C03's subject), so the second answer may differ
        if q in ("profile", "profile_cl") and same_profile(a1, a2):
            continue
        if not same_answer(a1, a2, 2e-2 if q in ("profile", "profile_cl", "contour") else 2e-3):       # scan grids are placed from the (re-estimated) uncertainties: compared to 2 %
            return {"got": str(a2)[:300], "expected": str(a1)[:300], "witness_class": f"{tag}:{q}:different-answer-second-time"}
    R.cover(inp["kind"] + ":" + inp["backend"])


sys.exit(R.main())
