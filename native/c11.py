"""Native side of C11 (bounded): the multi-fit relations on real fits.
  cost_sum        multi cost = sum of member costs (+ the multi-fit's own constraints) at every parameter point, same-named parameters share one value
  single          a multi-fit of one fit reproduces the fit
  shared_joint    a shared source = the joint covariance with the shared matrix in every block between sharing members (cost and total_cov_mat in closed form)
  sub_blocks      after multi.do_fit every member reports name-indexed sub-blocks (values, errors, cov, cor, asymmetric errors)
  fix_release     fix / release on the multi-fit mirrored into exactly the members that have the name"""
import itertools, math, sys
from common import parse, Runner, imp

args = parse()
import numpy as np
kafe2 = imp("kafe2")
XYFit, IndexedFit, HistFit, UnbinnedFit, MultiFit = kafe2.XYFit, kafe2.IndexedFit, kafe2.HistFit, kafe2.UnbinnedFit, kafe2.MultiFit
HistContainer = kafe2.HistContainer
R = Runner("C11", args, scope="multi-fits of 1-4 members (xy / indexed / hist / unbinned), overlap patterns of parameter names incl. disjoint and unequal, shared sources on every subset of >= 2 of 3-4 Gaussian members "
                              "x axis x {simple, correlated, matrix, data-relative}, 5 parameter points set through the multi-fit and through members, both back ends for results",
           rule="enumeration; closed-form joint covariance as reference")
R.shards = 5

X = [np.array([0.5, 1.5, 2.5, 3.5, 4.5]), np.array([0.2, 1.1, 2.2, 3.1, 4.4]), np.array([1.0, 2.0, 3.0, 4.0, 5.0]), np.array([0.7, 1.4, 2.9, 3.3, 4.1])]
Y = [np.array([1.2, 2.9, 5.1, 7.2, 8.8]), np.array([0.1, 1.4, 4.3, 9.1, 19.5]), np.array([2.1, 2.8, 4.2, 4.9, 6.1]), np.array([0.9, 1.5, 3.2, 3.1, 4.4])]


# model functions with overlapping parameter names; analytic derivatives by x for the closed-form reference
def m_ab(x, a=1.0, b=0.5):
    return a * x + b


def m_ca(x, c=0.3, a=1.0):
    return c * x * x + a * x


def m_bd(x, b=0.5, d=1.0):
    return d * x + b


def m_abc(x, a=1.0, b=0.5, c=0.3):
    return c * x * x + a * x + b


def m_e(x, e=0.8):
    return e * x


DERIV = {"m_ab": lambda x, p: p["a"] + 0 * x, "m_ca": lambda x, p: 2 * p["c"] * x + p["a"], "m_bd": lambda x, p: p["d"] + 0 * x,
         "m_abc": lambda x, p: 2 * p["c"] * x + p["a"], "m_e": lambda x, p: p["e"] + 0 * x}
FUNCS = {"m_ab": m_ab, "m_ca": m_ca, "m_bd": m_bd, "m_abc": m_abc, "m_e": m_e}


def imodel_ab(a=1.0, b=0.5):
    return a * np.arange(5) + b


def norm_ms(x, mu=0.1, sigma=1.2):
    return np.exp(-0.5 * ((x - mu) / sigma) ** 2) / np.sqrt(2 * np.pi * sigma ** 2)


def norm_as(x, a=0.1, sigma=1.2):      # shares 'a' with the xy members and 'sigma' with the histogram member
    return np.exp(-0.5 * ((x - a) / sigma) ** 2) / np.sqrt(2 * np.pi * sigma ** 2)


def member(spec, slot, minimizer=None):
    kw = {"minimizer": minimizer} if minimizer else {}
    if spec in FUNCS:
        f = XYFit([X[slot], Y[slot]], FUNCS[spec], **kw)
        f.add_error("y", 0.3 + 0.1 * slot)
        return f
    if spec == "xy_xerr":
        f = XYFit([X[slot], Y[slot]], m_ab, **kw)
        f.add_error("y", 0.4)
        f.add_error("x", 0.15)
        return f
    if spec == "indexed":
        f = IndexedFit(Y[slot], imodel_ab, **kw)
        f.add_error(0.35, correlation=0.2)
        return f
    if spec == "hist":
        return HistFit(HistContainer(6, (-3, 3), fill_data=list(np.linspace(-2.5, 2.5, 40) ** 3 / 6.0)), norm_ms, **kw)
    if spec == "unbinned":
        return UnbinnedFit(list(np.linspace(-2.0, 2.0, 30) * 0.9 + 0.2), norm_as, **kw)
    raise KeyError(spec)


POINTS = [
    {"a": 1.0, "b": 0.5, "c": 0.3, "d": 1.0, "e": 0.8, "mu": 0.1, "sigma": 1.2},
    {"a": 0.4, "b": -1.0, "c": 0.9, "d": 2.5, "e": -0.3, "mu": -0.4, "sigma": 0.8},
    {"a": -2.0, "b": 3.0, "c": -0.2, "d": 0.1, "e": 4.0, "mu": 0.7, "sigma": 2.1},
]


def set_point(fit, p):
    fit.set_parameter_values(**{n: p[n] for n in fit.parameter_names})


def names_consistent(multi, members, what):
    mv = dict(zip(multi.parameter_names, multi.parameter_values))
    for k, f in enumerate(members):
        for n, v in zip(f.parameter_names, f.parameter_values):
            if n not in mv:
                return {"got": list(multi.parameter_names), "expected": n, "witness_class": what + ":name-missing"}
            if mv[n] != v:
                return {"got": {n: v, "member": k}, "expected": mv[n], "witness_class": what + ":value-not-common"}
    want = []
    for f in members:
        want += [n for n in f.parameter_names if n not in want]
    if list(multi.parameter_names) != want:
        return {"got": list(multi.parameter_names), "expected": want, "witness_class": what + ":names"}


# ------------------------------------------------------------------ 1. cost sum + common values
LAYOUTS = [["m_ab"], ["m_ab", "m_ca"], ["m_ab", "m_e"], ["m_ab", "m_ab"], ["m_abc", "m_ca", "m_ab"], ["m_ab", "indexed", "m_bd"], ["m_ab", "hist", "unbinned"], ["hist", "unbinned"],
           ["unbinned", "m_ca", "hist", "m_bd"], ["xy_xerr", "m_ca", "indexed"], ["m_e", "m_bd", "m_ca", "m_ab"]]


def gen_cost(tier, seed):
    for layout in LAYOUTS:
        for constraint in (None, "simple", "matrix"):
            if constraint == "matrix" and len(layout) < 2:
                continue
            yield {"layout": layout, "constraint": constraint}


@R.oracle("cost_is_sum_of_member_costs", gen_cost, obligation="MultiCostFunction.cost_sum / MultiFit._init_nexus")
def cost_sum(inp):
    members = [member(s, k) for k, s in enumerate(inp["layout"])]
    multi = MultiFit(members)
    names = list(multi.parameter_names)
    cons = None
    if inp["constraint"] == "simple":
        multi.add_parameter_constraint(names[0], 0.6, 0.3)
        cons = lambda v: ((v[names[0]] - 0.6) / 0.3) ** 2
    elif inp["constraint"] == "matrix":
        multi.add_matrix_parameter_constraint(names[:2], [0.6, 0.2], [[0.09, 0.01], [0.01, 0.04]])
        Ci = np.linalg.inv(np.array([[0.09, 0.01], [0.01, 0.04]]))
        cons = lambda v: float((np.array([v[names[0]], v[names[1]]]) - [0.6, 0.2]) @ Ci @ (np.array([v[names[0]], v[names[1]]]) - [0.6, 0.2]))
    r = names_consistent(multi, members, "initial")
    if r:
        return r
    steps = [("multi", p) for p in POINTS] + [("member%d" % k, POINTS[(k + 1) % 3]) for k in range(len(members))] + [("multi-all", POINTS[1])]
    for who, p in steps:
        if who == "multi":
            set_point(multi, p)
        elif who == "multi-all":
            multi.set_all_parameter_values([p[n] * 1.5 for n in names])
        else:
            k = int(who[6:])
            f = members[k]
            f.set_parameter_values(**{f.parameter_names[-1]: p[f.parameter_names[-1]] * 0.7 + 0.11})
        r = names_consistent(multi, members, "after-set-via-" + who.rstrip("0123456789"))
        if r:
            return r
        v = dict(zip(multi.parameter_names, multi.parameter_values))
        exp = sum(f.cost_function_value for f in members) + (cons(v) if cons else 0.0)
        got = multi.cost_function_value
        if not np.isclose(got, exp, rtol=1e-10, atol=1e-10):
            return {"got": got, "expected": exp, "witness_class": "cost!=sum:set-via-" + who.rstrip("0123456789") + (":constraint" if cons else "")}
        # each member's cost is the cost of an independent twin at the same parameter subset
        for k, f in enumerate(members):
            twin = member(inp["layout"][k], k)
            twin.set_parameter_values(**{n: v[n] for n in twin.parameter_names})
            if not np.isclose(twin.cost_function_value, f.cost_function_value, rtol=1e-10, atol=1e-10):
                return {"got": f.cost_function_value, "expected": twin.cost_function_value, "witness_class": "member-cost!=own-fit"}


# ------------------------------------------------------------------ 2. multi-fit of one fit
def gen_single(tier, seed):
    for spec in ("m_ab", "m_abc", "xy_xerr", "indexed", "hist", "unbinned"):
        for backend in ("iminuit", "scipy"):
            yield {"spec": spec, "backend": backend}


@R.oracle("single_member_reproduces_fit", gen_single, obligation="MultiFit.do_fit / _update_singular_fits")
def single(inp):
    f, g = member(inp["spec"], 0, inp["backend"]), member(inp["spec"], 0, inp["backend"])
    multi = MultiFit([g], minimizer=inp["backend"])
    f.do_fit(); multi.do_fit()
    for what, a, b in (("values", f.parameter_values, multi.parameter_values), ("errors", f.parameter_errors, multi.parameter_errors),
                       ("cov", f.parameter_cov_mat, multi.parameter_cov_mat), ("cost", f.cost_function_value, multi.cost_function_value),
                       ("ndf", f.ndf, multi.ndf), ("gof", f.goodness_of_fit, multi.goodness_of_fit), ("member-values", f.parameter_values, g.parameter_values),
                       ("member-errors", f.parameter_errors, g.parameter_errors)):
        tol = 2e-2 * np.max(np.abs(f.parameter_errors)) if what in ("values", "member-values") else 0
        if a is None and b is None:
            continue
        if not np.allclose(np.asarray(a, float), np.asarray(b, float), rtol=2e-2 if what in ("errors", "cov", "member-errors") else 1e-5, atol=tol):
            return {"got": np.asarray(b), "expected": np.asarray(a), "witness_class": "single:" + what}


# ------------------------------------------------------------------ 3. shared source = joint covariance
def gen_shared(tier, seed):
    layouts = [["m_ab", "m_ca", "m_bd"], ["m_abc", "m_e", "m_ca", "m_ab"]]
    for layout in layouts:
        n = len(layout)
        subsets = [list(s) for r in range(2, n + 1) for s in itertools.combinations(range(n), r)]
        if tier == "quick":
            subsets = [s for s in subsets if s in ([0, 2], [1, 2], [0, 1, 2], [0, 3], [1, 3], [0, 1, 2, 3])]
        for subset in subsets:
            for axis in ("y", "x"):
                for kind in ("simple", "correlated", "matrix", "relative", "two-sources"):
                    for private_x in (False, True):
                        if tier == "quick" and private_x and kind not in ("simple", "matrix"):
                            continue
                        yield {"layout": layout, "subset": subset, "axis": axis, "kind": kind, "private_x": private_x}
    # a member that carries its own parameter constraint: the joint fit includes it
    for axis in ("y", "x"):
        yield {"layout": layouts[0], "subset": [0, 2], "axis": axis, "kind": "simple", "private_x": False, "member_constraint": True}


def shared_matrix(kind, axis, ref, n=5):
    if kind == "simple":
        return 0.2 ** 2 * np.eye(n)
    if kind == "correlated":
        return 0.2 ** 2 * (0.6 * np.ones((n, n)) + 0.4 * np.eye(n))
    if kind == "matrix":
        B = np.array([[0.1, 0.02], [0.05, -0.03], [0.0, 0.08], [-0.04, 0.01], [0.07, 0.05]])
        return B @ B.T + 0.01 * np.eye(n)
    raise KeyError(kind)


@R.oracle("shared_source_is_joint_covariance", gen_shared, obligation="MultiFit._init_shared_error_nodes._combine_cov_mats")
def shared(inp):
    layout, subset, axis = inp["layout"], inp["subset"], inp["axis"]
    n = len(layout)
    # members: relative shared sources need identical references among the sharing members
    members = []
    for k, s in enumerate(layout):
        slot = 0 if (inp["kind"] == "relative" and k in subset) else k
        f = XYFit([X[slot] if (inp["kind"] == "relative" and axis == "x" and k in subset) else X[k], Y[slot] if (inp["kind"] == "relative" and axis == "y" and k in subset) else Y[k]], FUNCS[s])
        f.add_error("y", 0.3 + 0.1 * k)
        if inp["private_x"] and k == 1:
            f.add_error("x", 0.12)
        members.append(f)
    if inp.get("member_constraint"):
        members[0].add_parameter_constraint(members[0].parameter_names[0], 0.8, 0.2)
    multi = MultiFit(members)
    mats = []
    if inp["kind"] in ("simple", "correlated"):
        multi.add_error(0.2, fits=subset, axis=axis, correlation=0.6 if inp["kind"] == "correlated" else 0)
        mats.append((subset, shared_matrix(inp["kind"], axis, None)))
    elif inp["kind"] == "matrix":
        multi.add_matrix_error(shared_matrix("matrix", axis, None), "cov", fits=subset, axis=axis)
        mats.append((subset, shared_matrix("matrix", axis, None)))
    elif inp["kind"] == "relative":
        multi.add_error(0.05, fits=subset, axis=axis, relative=True, correlation=0.5)
        ref = (X[0] if axis == "x" else Y[0])
        mats.append((subset, np.outer(0.05 * ref, 0.05 * ref) * (0.5 * np.ones((5, 5)) + 0.5 * np.eye(5))))
    else:
        multi.add_error(0.2, fits=subset, axis=axis)
        other = [subset[0], subset[-1]]
        multi.add_matrix_error(shared_matrix("matrix", axis, None), "cov", fits=other, axis=axis)
        mats += [(subset, shared_matrix("simple", axis, None)), (other, shared_matrix("matrix", axis, None))]
    xs = [np.asarray(f.x_data) for f in members]
    ys = [np.asarray(f.y_data) for f in members]
    N = 5 * n
    Vy, Vx = np.zeros((N, N)), np.zeros((N, N))
    for k in range(n):
        Vy[5 * k:5 * k + 5, 5 * k:5 * k + 5] += (0.3 + 0.1 * k) ** 2 * np.eye(5)
        if inp["private_x"] and k == 1:
            Vx[5 * k:5 * k + 5, 5 * k:5 * k + 5] += 0.12 ** 2 * np.eye(5)
    for sub, M in mats:
        tgt = Vx if axis == "x" else Vy
        for a in sub:
            for b in sub:
                tgt[5 * a:5 * a + 5, 5 * b:5 * b + 5] += M
    any_x = bool(np.any(np.diag(Vx) > 0))
    for step, p in enumerate(POINTS + [POINTS[0]]):
        if step == 1:
            f = members[subset[-1]]
            f.set_parameter_values(**{nm: p[nm] for nm in f.parameter_names})        # through a member
            set_point(multi, dict(p, **dict(zip(f.parameter_names, f.parameter_values))))
        else:
            set_point(multi, p)
        v = dict(zip(multi.parameter_names, multi.parameter_values))
        d = np.concatenate([DERIV[s](xs[k], v) for k, s in enumerate(layout)])
        V = Vy + (Vx * np.outer(d, d) if any_x else 0)
        res = np.concatenate([ys[k] - FUNCS[s](xs[k], **{nm: v[nm] for nm in members[k].parameter_names}) for k, s in enumerate(layout)])
        exp = float(res @ np.linalg.solve(V, res)) + float(np.linalg.slogdet(V)[1])
        if inp.get("member_constraint"):
            exp += ((v[members[0].parameter_names[0]] - 0.8) / 0.2) ** 2
        got_V = np.asarray(multi.total_cov_mat)
        if got_V.shape != V.shape or not np.allclose(got_V, V, rtol=1e-6, atol=1e-9):
            bad = np.argwhere(~np.isclose(got_V, V, rtol=1e-6, atol=1e-9)) if got_V.shape == V.shape else []
            blk = sorted({(int(i) // 5, int(j) // 5) for i, j in bad})[:6]
            return {"got": "blocks differing: " + str(blk), "expected": "joint covariance", "witness_class": f"total_cov_mat:{axis}:{inp['kind']}:point{step}"}
        got = multi.cost_function_value
        if not np.isclose(got, exp, rtol=1e-7, atol=1e-7):
            return {"got": got, "expected": exp, "witness_class": ("member-constraint-dropped:" if inp.get("member_constraint") else "") + f"shared-cost!=joint:{axis}:{inp['kind']}:point{step}"}
        r = names_consistent(multi, members, "shared")
        if r:
            return r


# ------------------------------------------------------------------ 4. member results are sub-blocks
def gen_blocks(tier, seed):
    for layout in (["m_abc", "m_ca", "m_ab"], ["m_ab", "m_e", "m_bd"], ["m_e", "m_bd", "m_ca", "m_ab"], ["m_ab", "hist", "unbinned"]):
        for backend in ("iminuit", "scipy"):
            for asym in ("no", "do_fit", "read-later"):
                for shared_ in (False, True):
                    if shared_ and "hist" in layout:
                        continue
                    if tier == "quick" and backend == "scipy" and asym != "no":
                        continue
                    yield {"layout": layout, "backend": backend, "asymmetric": asym, "shared": shared_}


@R.oracle("member_results_are_sub_blocks", gen_blocks, obligation="MultiFit._update_singular_fits / _get_parameter_indices")
def blocks(inp):
    members = [member(s, k, inp["backend"]) for k, s in enumerate(inp["layout"])]
    multi = MultiFit(members, minimizer=inp["backend"])
    if inp["shared"]:
        multi.add_error(0.2, fits=[0, len(members) - 1], axis="y")
    multi.do_fit(asymmetric_parameter_errors=(inp["asymmetric"] == "do_fit"))
    asym = multi.asymmetric_parameter_errors if inp["asymmetric"] != "no" else None
    names = list(multi.parameter_names)
    for k, f in enumerate(members):
        idx = [names.index(nm) for nm in f.parameter_names]
        for what, got, exp in (("values", f.parameter_values, np.asarray(multi.parameter_values)[idx]), ("errors", f.parameter_errors, np.asarray(multi.parameter_errors)[idx]),
                               ("cov", f.parameter_cov_mat, np.asarray(multi.parameter_cov_mat)[np.ix_(idx, idx)]), ("cor", f.parameter_cor_mat, np.asarray(multi.parameter_cor_mat)[np.ix_(idx, idx)])):
            if got is None or not np.array_equal(np.asarray(got), exp):
                return {"got": got, "expected": exp, "witness_class": f"sub-block:{what}:member{min(k, 2)}"}
        if not f.did_fit:
            return {"got": False, "expected": True, "witness_class": "sub-block:did_fit"}
        if asym is not None:
            got = f.asymmetric_parameter_errors
            if got is None or not np.allclose(np.asarray(got), np.asarray(asym)[idx], rtol=1e-9, atol=0):
                return {"got": got, "expected": np.asarray(asym)[idx], "witness_class": f"sub-block:asymmetric:member{min(k, 2)}"}


# ------------------------------------------------------------------ 5. fix / release mirrored
def gen_fix(tier, seed):
    for layout in (["m_abc", "m_ca", "m_ab"], ["m_ab", "m_e", "m_bd"], ["m_ab", "hist", "unbinned"]):
        for with_value in (False, True):
            yield {"layout": layout, "with_value": with_value}


@R.oracle("fix_release_mirrored", gen_fix, obligation="MultiFit.fix_parameter / release_parameter")
def fix(inp):
    members = [member(s, k) for k, s in enumerate(inp["layout"])]
    multi = MultiFit(members)
    for name in list(multi.parameter_names):
        before = {k: dict(f._fitter.fixed_parameters) for k, f in enumerate(members)}
        if inp["with_value"]:
            multi.fix_parameter(name, 0.77)
        else:
            multi.fix_parameter(name)
        val = dict(zip(multi.parameter_names, multi.parameter_values))[name]
        if inp["with_value"] and val != 0.77:
            return {"got": val, "expected": 0.77, "witness_class": "fix:value"}
        if name not in multi._fitter.fixed_parameters:
            return {"got": dict(multi._fitter.fixed_parameters), "expected": name, "witness_class": "fix:multi"}
        for k, f in enumerate(members):
            fx = dict(f._fitter.fixed_parameters)
            if name in f.parameter_names:
                if fx.get(name) != val or dict(zip(f.parameter_names, f.parameter_values))[name] != val:
                    return {"got": fx, "expected": {name: val}, "witness_class": "fix:member-not-fixed"}
            exp_other = {q: w for q, w in before[k].items() if q != name}
            if {q: w for q, w in fx.items() if q != name} != exp_other:
                return {"got": fx, "expected": exp_other, "witness_class": "fix:other-names-touched"}
        r = names_consistent(multi, members, "fix")
        if r:
            return r
        multi.release_parameter(name)
        if name in multi._fitter.fixed_parameters or any(name in f._fitter.fixed_parameters for f in members):
            return {"got": [dict(f._fitter.fixed_parameters) for f in members], "expected": "released everywhere", "witness_class": "release"}
    multi.fix_parameter(multi.parameter_names[0], 0.9)
    multi.do_fit()
    if multi.parameter_values[0] != 0.9 or any(dict(zip(f.parameter_names, f.parameter_values)).get(multi.parameter_names[0], 0.9) != 0.9 for f in members):
        return {"got": list(multi.parameter_values), "expected": 0.9, "witness_class": "fix:moved-by-fit"}


def gen_one_node(tier, seed):
    for layout in (["m_abc", "m_ca", "m_ab"], ["m_ab", "m_e", "m_bd"], ["m_ab", "hist", "unbinned"]):
        for how in ("member.set_all_parameter_values", "member.set_parameter_values", "multi.set_parameter_values", "member.do_fit"):
            for who in range(len(layout)):
                if how.startswith("multi") and who:
                    continue
                yield {"layout": layout, "how": how, "member": who}


@R.oracle("a_shared_parameter_is_one_parameter", gen_one_node, obligation="MultiFit._init_nexus")
def one_node(inp):
    """fits in a multi-fit that use the same parameter name use ONE parameter: a value given to it through any member (or found by a member's own fit) is the
    value the multi-fit and every other member see, and the costs are evaluated there"""
    members = [member(s, k) for k, s in enumerate(inp["layout"])]
    multi = MultiFit(members)
    f = members[inp["member"]]
    how = inp["how"]
    if how == "member.set_all_parameter_values":
        new = [0.37 + 0.11 * q for q in range(len(f.parameter_names))]
        f.set_all_parameter_values(new)
        want = dict(zip(f.parameter_names, new))
    elif how == "member.set_parameter_values":
        want = {f.parameter_names[-1]: 0.61}
        f.set_parameter_values(**want)
    elif how == "multi.set_parameter_values":
        want = {n_: 0.41 + 0.07 * q for q, n_ in enumerate(multi.parameter_names)}
        multi.set_parameter_values(**want)
    else:
        f.do_fit()
        want = dict(zip(f.parameter_names, f.parameter_values))
    views = [("multi", multi)] + [("member%d" % k, g) for k, g in enumerate(members)]
    for label, g in views:
        have = dict(zip(g.parameter_names, g.parameter_values))
        for n_, v_ in want.items():
            if n_ in have and not math.isclose(have[n_], v_, rel_tol=1e-12, abs_tol=1e-12):
                return {"got": {label: have}, "expected": want, "witness_class": f"one-node:{how}:{label}-does-not-see-the-value"}
    # and the cost is evaluated at these values: the multi cost equals the sum of the member costs computed by fresh, stand-alone copies at the same point
    total = 0.0
    for k, s in enumerate(inp["layout"]):
        g = member(s, k)
        now = dict(zip(multi.parameter_names, multi.parameter_values))
        g.set_all_parameter_values([now[n_] for n_ in g.parameter_names])
        total += float(g.cost_function_value)
    if not math.isclose(float(multi.cost_function_value), total, rel_tol=1e-9, abs_tol=1e-9):
        return {"got": float(multi.cost_function_value), "expected": total, "witness_class": f"one-node:{how}:cost-not-at-the-values"}


sys.exit(R.main())
