"""Native side of C09 (bounded): real objects are written, read back through their own class, compared on their observables, written again (fixpoint) and
written over an existing longer file."""
import io, itertools, os, sys, tempfile, warnings
from common import parse, Runner, imp

args = parse()
import numpy as np
warnings.simplefilter("ignore")
kafe2 = imp("kafe2")
con = imp("kafe2.core.constraint")
XYFit, IndexedFit, HistFit, UnbinnedFit, CustomFit = kafe2.XYFit, kafe2.IndexedFit, kafe2.HistFit, kafe2.UnbinnedFit, kafe2.CustomFit
XYContainer, IndexedContainer, HistContainer, UnbinnedContainer = kafe2.XYContainer, kafe2.IndexedContainer, kafe2.HistContainer, kafe2.UnbinnedContainer
R = Runner("C09", args, scope="4 container types x source mixes (simple/matrix, abs/rel, correlated, non-constant, disabled) x labels; 4 parametric models; simple and matrix constraints in all forms; "
                              "5 fit types x (sources incl. model-referenced, constraints, fixed, limited) x (not fitted, fitted, fitted with asymmetric errors); save_state/load_state; overwrite of an existing file",
           rule="enumeration; every object written, read through its own class, compared, written again (text fixpoint)")
R.shards = 4

X = np.array([0.5, 1.5, 2.5, 3.5, 4.5])
Y = np.array([1.2, 2.9, 5.1, 7.2, 8.8])
ABS = np.array([0.3, 0.25, 0.4, 0.5, 0.45])
REL = np.array([0.05, 0.1, 0.02, 0.08, 0.04])
CORM = np.array([[1.0, 0.3, 0.1, 0.0, -0.2], [0.3, 1.0, 0.25, 0.1, 0.0], [0.1, 0.25, 1.0, 0.4, 0.1], [0.0, 0.1, 0.4, 1.0, 0.3], [-0.2, 0.0, 0.1, 0.3, 1.0]])
RAW = [round(float(v), 3) for v in np.linspace(-2.9, 3.4, 40) ** 3 / 9.0]     # some entries below and above the bin range: unequal under / overflow


def line(x, a=1.0, b=0.5):
    return a * x + b


def iline(a=1.0, b=0.5):
    return a * np.arange(5) + b


def normal(x, mu=0.1, sigma=1.2):
    return np.exp(-0.5 * ((x - mu) / sigma) ** 2) / np.sqrt(2.0 * np.pi * sigma ** 2)


def custom_cost(a=0.3, b=1.0):
    return (a - 0.7) ** 2 / 0.04 + (b + 0.2) ** 2 / 0.09 + 0.5 * a * b


class Tmp:
    def __enter__(self):
        self.d = tempfile.mkdtemp(prefix="c09_")
        return self.d

    def __exit__(self, *a):
        for f in os.listdir(self.d):
            os.remove(os.path.join(self.d, f))
        os.rmdir(self.d)


def same(a, b, what, tol=1e-7):
    if a is None or b is None:
        return None if (a is None and b is None) else {"got": a, "expected": b, "witness_class": what + ":None-mismatch"}
    a, b = np.asarray(a, float), np.asarray(b, float)
    scale = float(np.nanmax(np.abs(b))) if b.size and np.any(np.isfinite(b)) else 0.0          # relative to the magnitude of the expected values: small numbers are numbers too
    if a.shape != b.shape or not np.allclose(a, b, rtol=tol, atol=tol * scale if scale > 0 else 1e-12, equal_nan=True):
        return {"got": a, "expected": b, "witness_class": what}


def roundtrip(obj, cls, d, tag, view=None):
    """write, read through the object's own class, write again: -> (reloaded, failure)"""
    p1, p2 = os.path.join(d, "a.yml"), os.path.join(d, "b.yml")
    try:
        obj.to_file(p1)
    except Exception as e:
        return None, {"got": "to_file: " + repr(e)[:200], "expected": "written", "witness_class": tag + ":cannot-save"}
    try:
        back = cls.from_file(p1)
    except Exception as e:
        return None, {"got": "from_file: " + repr(e)[:200], "expected": "read back", "witness_class": tag + ":cannot-reload"}
    if type(back) is not type(obj):
        return back, {"got": type(back).__name__, "expected": type(obj).__name__, "witness_class": tag + ":type"}
    back.to_file(p2)
    strip = lambda t: "\n".join(l for l in t.splitlines() if not l.startswith("#"))
    t1 = strip(open(p1).read())
    try:
        back2 = cls.from_file(p2)
    except Exception as e:
        return back, {"got": "second from_file: " + repr(e)[:200], "expected": "read back", "witness_class": tag + ":second-cycle-cannot-reload"}
    if view is not None:
        r = compare_views(view(back), view(back2), tag + ":second-cycle")
        if r:
            return back, r
    # overwrite: a longer file at the same path is replaced completely (reference: the same object written to a fresh path just before)
    p3 = os.path.join(d, "c.yml")
    obj.to_file(p3)
    with open(p1, "w") as f:
        f.write("junk: " + "x" * 20000 + "\n")
    obj.to_file(p1)
    if strip(open(p1).read()) != strip(open(p3).read()):
        return back, {"got": open(p1).read()[-80:], "expected": "the file holds exactly the new document", "witness_class": tag + ":overwrite-leaves-old-content"}
    return back, None


# ------------------------------------------------------------------ containers
MIXES = {
    "tiny-vector": [("s", dict(err_val=ABS * 1e-10))], "nearly-constant-vector": [("s", dict(err_val=0.3 + 1e-7 * np.arange(len(ABS))))],          # distinct entries must come back distinct, whatever their magnitude
    "none": [], "simple": [("s", dict(err_val=0.3))], "vector": [("s", dict(err_val=ABS))], "relative": [("s", dict(err_val=REL, relative=True))], "correlated": [("s", dict(err_val=0.2, correlation=0.6))],
    "matrix-cov": [("m", dict(err_matrix=CORM * np.outer(ABS, ABS), matrix_type="cov"))], "matrix-cor": [("m", dict(err_matrix=CORM, matrix_type="cor", err_val=ABS))],
    "matrix-rel": [("m", dict(err_matrix=CORM * np.outer(REL, REL), matrix_type="cov", relative=True))], "matrix-cor-rel": [("m", dict(err_matrix=CORM, matrix_type="cor", err_val=REL, relative=True))],
    "two+disabled": [("s", dict(err_val=0.3, name="kept")), ("s", dict(err_val=ABS, correlation=0.4, name="off"))],
    "named-mix": [("s", dict(err_val=REL, relative=True, name="r")), ("m", dict(err_matrix=CORM * np.outer(ABS, ABS), matrix_type="cov", name="m")), ("s", dict(err_val=0.1, name="c", correlation=1.0))],
}


def add_sources(target, mix, axis=None, n=5):
    pre = (axis,) if axis is not None else ()
    for kind, kw in MIXES[mix]:
        kw = dict(kw)
        for k_ in ("err_val", "err_matrix"):
            if k_ in kw and np.ndim(kw[k_]) >= 1 and n != 5:
                v = np.asarray(kw[k_])
                kw[k_] = np.pad(v, [(0, n - 5)] * v.ndim, constant_values=0.3) if v.ndim == 1 else (np.pad(v, [(0, n - 5)] * 2) + np.diag([0.0] * 5 + [1.0 if "cor" == kw.get("matrix_type") else 0.09] * (n - 5)))
        if kind == "s":
            target.add_error(*pre, kw.pop("err_val"), **kw)
        else:
            target.add_matrix_error(*pre, kw.pop("err_matrix"), kw.pop("matrix_type"), **kw)
    if mix == "two+disabled":
        target.disable_error("off")


def gen_cont(tier, seed):
    for kind in ("indexed", "xy-y", "xy-x", "hist-raw", "hist-heights", "unbinned"):
        for mix in MIXES:
            if kind == "unbinned" and mix != "none":
                continue
            for labels in (False, True, "axes-only", "label-only"):          # (each of the three labels on its own, too)
                if labels and mix not in ("none", "simple"):
                    continue
                yield {"kind": kind, "mix": mix, "labels": labels}


def make_container(kind, mix, labels):
    if kind == "indexed":
        c = IndexedContainer(Y); add_sources(c, mix)
    elif kind.startswith("xy"):
        c = XYContainer(X, Y); add_sources(c, mix, axis=kind[-1])
        if mix == "simple":
            c.add_error("x" if kind[-1] == "y" else "y", 0.11)
    elif kind == "hist-raw":
        c = HistContainer(6, (-3, 3), fill_data=RAW); add_sources(c, mix, n=6)
    elif kind == "hist-heights":
        c = HistContainer(6, (-3, 3)); c.set_bins([3.0, 5.0, 9.0, 8.0, 4.0, 2.0], underflow=7.0, overflow=1.0); add_sources(c, mix, n=6)
    else:
        c = UnbinnedContainer(RAW)
    if labels and labels != "axes-only":
        c.label = "my data"
    if labels and labels != "label-only":
        c.axis_labels = ("the x", "the y")
    return c


def container_view(c):
    v = {"data": np.asarray(c.data), "label": c.label, "axis_labels": tuple(c.axis_labels), "has_errors": c.has_errors}
    if not isinstance(c, UnbinnedContainer):
        v["cov"] = np.asarray(c.cov_mat) if not isinstance(c, XYContainer) else np.stack([np.asarray(c.x_cov_mat), np.asarray(c.y_cov_mat)])
        v["sources"] = sorted((d["enabled"], type(d["err"]).__name__, bool(d["err"].relative), d.get("axis")) for d in c._error_dicts.values())
    if isinstance(c, HistContainer):
        v.update(underflow=c.underflow, overflow=c.overflow, edges=np.asarray(c.bin_edges), n_entries=c.n_entries if hasattr(c, "n_entries") else None)
    return v


def compare_views(a, b, tag):
    for k_ in a:
        if isinstance(a[k_], np.ndarray) or isinstance(a[k_], float) or isinstance(a[k_], (int, np.integer)) and not isinstance(a[k_], bool):
            r = same(a[k_], b[k_], tag + ":" + k_)
            if r:
                return r
        elif a[k_] != b[k_]:
            return {"got": b[k_], "expected": a[k_], "witness_class": tag + ":" + k_}


@R.oracle("container_round_trip", gen_cont, obligation="DataContainerYamlWriter / DataContainerYamlReader")
def cont(inp):
    c = make_container(inp["kind"], inp["mix"], inp["labels"])
    tag = "container:" + inp["kind"].split("-")[0] + (":" + inp["mix"] if inp["mix"] in ("two+disabled",) else "")
    with Tmp() as d:
        back, fail = roundtrip(c, type(c), d, tag, container_view)
        if fail:
            return fail
        return compare_views(container_view(c), container_view(back), tag)


# ------------------------------------------------------------------ constraints
def gen_con(tier, seed):
    for form in ("simple-abs", "simple-rel", "simple-rel-negative", "matrix-cov", "matrix-cov-rel", "matrix-cor", "matrix-cor-rel"):
        yield {"form": form}


@R.oracle("constraint_round_trip", gen_con, obligation="ConstraintYamlWriter / ConstraintYamlReader")
def constraint(inp):
    vals, cor, unc, rel = np.array([1.3, -0.7]), np.array([[1.0, 0.4], [0.4, 1.0]]), np.array([0.2, 0.05]), np.array([0.1, 0.08])
    f = inp["form"]
    c = {"simple-abs": lambda: con.GaussianSimpleParameterConstraint(1, 2.5, 0.3), "simple-rel": lambda: con.GaussianSimpleParameterConstraint(1, 2.5, 0.1, relative=True),
         "simple-rel-negative": lambda: con.GaussianSimpleParameterConstraint(0, -2.5, 0.1, relative=True),
         "matrix-cov": lambda: con.GaussianMatrixParameterConstraint([2, 0], vals, cor * np.outer(unc, unc)), "matrix-cov-rel": lambda: con.GaussianMatrixParameterConstraint([2, 0], vals, cor * np.outer(rel, rel), relative=True),
         "matrix-cor": lambda: con.GaussianMatrixParameterConstraint([2, 0], vals, cor, matrix_type="cor", uncertainties=unc),
         "matrix-cor-rel": lambda: con.GaussianMatrixParameterConstraint([2, 0], vals, cor, matrix_type="cor", uncertainties=rel, relative=True)}[f]()
    with Tmp() as d:
        back, fail = roundtrip(c, type(c), d, "constraint:" + f)
        if fail:
            return fail
        for p in (np.array([1.0, 0.5, 3.0]), np.array([-2.0, 2.1, 0.4]), np.array([0.3, -1.1, 2.2])):
            r = same(back.cost(p), c.cost(p), "constraint:" + f + ":cost")
            if r:
                return r
        if back.relative != c.relative:
            return {"got": back.relative, "expected": c.relative, "witness_class": "constraint:" + f + ":relative-flag"}
        # the generic base class offers from_file / to_file as well
        try:
            generic = con.ParameterConstraint.from_file(os.path.join(d, "a.yml"))
            if type(generic) is not type(c):
                return {"got": type(generic).__name__, "expected": type(c).__name__, "witness_class": "constraint:base-class-read"}
        except Exception as e:
            return {"got": repr(e)[:200], "expected": "readable through the base class", "witness_class": "constraint:base-class-read"}


# ------------------------------------------------------------------ parametric models
def gen_model(tier, seed):
    for kind in ("xy", "indexed", "hist", "unbinned"):
        for fn in ("def", "library"):
            if fn == "library" and kind == "indexed":
                continue
            for errs in (False, True):
                if errs and kind == "unbinned":
                    continue
                yield {"kind": kind, "function": fn, "errors": errs}
    for be in ("rectangle", "trapezoid", "numerical", "simpson"):          # every way of evaluating the bins, and both normalisations, come back as they were
        for density in (True, False):
            yield {"kind": "hist", "function": "def", "errors": False, "bin_evaluation": be, "density": density}


@R.oracle("parametric_model_round_trip", gen_model, obligation="ParametricModelYamlWriter / ParametricModelYamlReader")
def pmodel(inp):
    k, lib = inp["kind"], inp["function"] == "library"
    xym, im, hm, um = imp("kafe2.fit.xy.model"), imp("kafe2.fit.indexed.model"), imp("kafe2.fit.histogram.model"), imp("kafe2.fit.unbinned.model")
    fl = imp("kafe2.fit.util.function_library")
    if k == "xy":
        m = xym.XYParametricModel(X, fl.linear_model if lib else line, [1.7, -0.4])
        if inp["errors"]:
            m.add_error("y", REL, relative=True); m.add_error("x", 0.1)
    elif k == "indexed":
        m = im.IndexedParametricModel(iline, [1.7, -0.4], shape_like=Y)
        if inp["errors"]:
            m.add_error(ABS, correlation=0.3)
    elif k == "hist":
        m = hm.HistParametricModel(6, (-3, 3), "normal_distribution" if lib else normal, [0.3, 1.4], **({"bin_evaluation": inp["bin_evaluation"], "density": inp["density"]} if "bin_evaluation" in inp else {}))
        if inp["errors"]:
            m.add_error(0.1, relative=True)
    else:
        m = um.UnbinnedParametricModel(RAW, fl.normal_distribution if lib else normal, [0.3, 1.4])
    tag = "model:" + k
    with Tmp() as d:
        back, fail = roundtrip(m, type(m), d, tag)
        if fail:
            return fail
        r = same(back.parameters, m.parameters, tag + ":parameters") or same(back.data, m.data, tag + ":values")
        if r:
            return r
        if k != "unbinned":
            ga = (lambda q: np.stack([q.x_cov_mat, q.y_cov_mat])) if k == "xy" else (lambda q: q.cov_mat)
            r = same(ga(back), ga(m), tag + ":cov")
            if r:
                return r
        if back.label != m.label:
            return {"got": back.label, "expected": m.label, "witness_class": tag + ":label"}
        if k == "hist" and (back.bin_evaluation_string != m.bin_evaluation_string or back.density != m.density):
            return {"got": [back.bin_evaluation_string, back.density], "expected": [m.bin_evaluation_string, m.density], "witness_class": tag + ":bin-evaluation-settings"}
        p2 = [0.9, 2.2]
        back.parameters = p2; m.parameters = p2
        return same(back.data, m.data, tag + ":values-at-other-parameters")


# ------------------------------------------------------------------ fits
def gen_fit(tier, seed):
    for kind in ("xy", "indexed", "hist", "unbinned", "custom"):
        for config in ("plain", "sources", "model-sources", "disabled-source", "constraints", "fixed+limited", "limit-at-zero", "one-sided-limit", "everything", "nll-gaussian", "nllr-gaussian", "variable-bins"):
            if config in ("nll-gaussian", "nllr-gaussian") and kind not in ("xy", "indexed", "hist"):
                continue
            if config == "variable-bins" and kind != "hist":
                continue
            if kind in ("unbinned", "custom") and config in ("sources", "model-sources", "disabled-source", "everything"):
                continue
            for state in ("not-fitted", "fitted", "fitted+asymmetric"):
                if tier == "quick" and state == "fitted+asymmetric" and config not in ("plain", "constraints", "fixed+limited"):
                    continue
                yield {"kind": kind, "config": config, "state": state}


def make_fit(kind, config):
    if kind == "xy":
        f = XYFit([X, Y], line); f.add_error("y", 0.3)
    elif kind == "indexed":
        f = IndexedFit(Y, iline); f.add_error(0.3)
    elif kind == "hist":
        f = HistFit(HistContainer(6, (-3, 3), fill_data=RAW), normal)
    elif kind == "unbinned":
        f = UnbinnedFit(RAW, normal)
    else:
        f = CustomFit(custom_cost)
    if config in ("nll-gaussian", "nllr-gaussian"):          # a Gaussian likelihood must not come back as a Poisson one
        cf = config.replace("-", "_")
        if kind == "xy":
            f = XYFit([X, Y], line, cost_function=cf); f.add_error("y", 0.3)
        elif kind == "indexed":
            f = IndexedFit(Y, iline, cost_function=cf); f.add_error(0.3)
        else:
            f = HistFit(HistContainer(6, (-3, 3), fill_data=RAW), normal, cost_function=cf); f.add_error(0.7)
    if config == "variable-bins":
        f = HistFit(HistContainer(6, (-3, 3), bin_edges=[-3.0, -1.0, -0.5, 0.0, 0.5, 1.0, 3.0], fill_data=RAW), normal)
    ax = ("y",) if kind == "xy" else ()
    names = list(f.parameter_names)
    if config in ("sources", "everything"):
        if kind == "hist":
            f = HistFit(HistContainer(6, (-3, 3), fill_data=RAW), normal, cost_function="gauss_approximation")
            f.add_error(np.array([0.5, 0.6, 0.9, 0.8, 0.6, 0.5]), correlation=0.3); f.add_error(0.05, relative=True, reference="data")
        else:
            f.add_error(*ax, ABS, correlation=0.3); f.add_matrix_error(*ax, CORM * np.outer(REL, REL), "cov", relative=True)
            if kind == "xy":
                f.add_error("x", 0.1)
    if config in ("model-sources", "everything") and kind in ("xy", "indexed"):
        f.add_error(*ax, 0.04, relative=True, reference="model")
    if config == "disabled-source":
        if kind == "hist":
            f = HistFit(HistContainer(6, (-3, 3), fill_data=RAW), normal, cost_function="gauss_approximation")
            f.add_error(0.7, name="kept")
        f.add_error(*ax, 0.9, name="off")
        f.disable_error("off")
    if config in ("constraints", "everything"):
        f.add_parameter_constraint(names[0], 0.9, 0.2)
        f.add_parameter_constraint(names[1], 1.3, 0.1, relative=True)
        if config == "everything":
            f.add_matrix_parameter_constraint(names[:2], [0.8, 1.2], [[1.0, 0.3], [0.3, 1.0]], matrix_type="cor", uncertainties=[0.3, 0.2])
    if config in ("fixed+limited", "everything"):
        f.fix_parameter(names[1], 1.25)
        f.limit_parameter(names[0], -3.0, 4.0)
    if config == "limit-at-zero":          # a bound that is exactly 0 is a bound, not an open side
        f.limit_parameter(names[0], 0.0, 4.0)
        f.limit_parameter(names[1], -5.0, 0.0) if kind in ("xy", "indexed") else None
    if config == "one-sided-limit":
        f.limit_parameter(names[0], None, 4.0)
        f.limit_parameter(names[1], 0.0, None)
    return f


def fit_view(f, kind):
    v = {"names": list(f.parameter_names), "values": np.asarray(f.parameter_values), "cost": f.cost_function_value, "fixed": dict(f._fitter.fixed_parameters), "limited": {k_: tuple(v_) for k_, v_ in f._fitter.limited_parameters.items()},
         "n_constraints": len(f.parameter_constraints), "did_fit": f.did_fit, "errors": np.asarray(f.parameter_errors) if f.did_fit else None, "cov": f.parameter_cov_mat if f.did_fit else None,
         "cor": f.parameter_cor_mat if f.did_fit else None}
    if kind not in ("custom", "unbinned"):
        v["total_cov"] = np.asarray(f.total_cov_mat)
        v["data"] = np.asarray(f.data)
        v["sources"] = sorted((d["enabled"], type(d["err"]).__name__, bool(d["err"].relative)) for cont_ in (f.data_container, f._param_model) for d in cont_._error_dicts.values())
    return v


@R.oracle("fit_round_trip", gen_fit, obligation="FitYamlWriter / FitYamlReader")
def fit(inp):
    kind, config, state = inp["kind"], inp["config"], inp["state"]
    f = make_fit(kind, config)
    if state != "not-fitted":
        f.do_fit(asymmetric_parameter_errors=(state == "fitted+asymmetric"))
    tag = f"fit:{kind}:{config}" if config in ("disabled-source", "model-sources") else f"fit:{kind}"
    asym = f.asymmetric_parameter_errors if state == "fitted+asymmetric" else None
    with Tmp() as d:
        back, fail = roundtrip(f, type(f), d, tag, lambda q: fit_view(q, kind))
        if fail:
            return fail
        a, b = fit_view(f, kind), fit_view(back, kind)
        r = compare_views(a, b, tag + ":" + state.split("+")[0])
        if r:
            return r
        if asym is not None:
            r = same(back.asymmetric_parameter_errors, asym, tag + ":asymmetric-errors", 1e-6)
            if r:
                return r
            # ... also in the result dictionary (what report / to_file / save_state of the reloaded fit use), and after a second save / load cycle
            rd_ = back.get_result_dict().get("asymmetric_parameter_errors")
            r = same(list(rd_.values()) if isinstance(rd_, dict) else rd_, asym, tag + ":asymmetric-errors-in-result-dict", 1e-6)
            if r:
                return r
            back2, fail2 = roundtrip(back, type(back), d, tag + ":second-cycle", lambda q: fit_view(q, kind))
            if fail2:
                return fail2
            r = same(back2.asymmetric_parameter_errors, asym, tag + ":asymmetric-errors-after-second-cycle", 1e-6)
            if r:
                return r
        # same cost surface
        free = [n_ for n_ in f.parameter_names if n_ not in f._fitter.fixed_parameters]
        for p in ([0.8, 1.3], [1.7, 0.9]):
            kw = dict(zip(free, p))
            f.set_parameter_values(**kw); back.set_parameter_values(**kw)
            r = same(back.cost_function_value, f.cost_function_value, tag + ":cost-at-point")
            if r:
                return r
        # same result when refitted
        f.do_fit(); back.do_fit()
        r = same(back.parameter_values, f.parameter_values, tag + ":refit-values", 1e-3) or same(back.cost_function_value, f.cost_function_value, tag + ":refit-cost", 1e-5)
        return r


# ------------------------------------------------------------------ every class that offers to_file / from_file
def gen_classes(tier, seed):
    for k in ("ModelFunctionBase", "HistModelFunction", "IndexedModelFunction", "ModelFunctionFormatter", "ParameterFormatter", "CostFunction_Chi2", "CostFunction_NegLogLikelihood", "CostFunction-user", "FunctionFormatter"):
        yield {"class": k}


@R.oracle("every_saveable_class_round_trips", gen_classes, obligation="FileIOMixin.to_file / from_file")
def classes(inp):
    k = inp["class"]
    bm, fm, cm = imp("kafe2.fit._base.model"), imp("kafe2.fit._base.format"), imp("kafe2.fit._base.cost")
    if k == "ModelFunctionBase":
        o = bm.ModelFunctionBase(line)
    elif k == "HistModelFunction":
        o = imp("kafe2.fit.histogram.model").HistModelFunction(normal)
    elif k == "IndexedModelFunction":
        o = imp("kafe2.fit.indexed.model").IndexedModelFunction(iline)
    elif k == "ModelFunctionFormatter":
        o = bm.ModelFunctionBase(line).formatter
    elif k == "ParameterFormatter":
        o = fm.ParameterFormatter("a", value=1.5, error=0.2, name="a", latex_name="\\alpha")
    elif k == "CostFunction_Chi2":
        o = cm.CostFunction_Chi2()
    elif k == "CostFunction_NegLogLikelihood":
        o = cm.CostFunction_NegLogLikelihood()
    elif k == "CostFunction-user":
        o = cm.CostFunction(custom_cost)
    else:
        o = fm.FunctionFormatter("f", arg_formatters=[fm.ParameterFormatter("a")])
    tag = "class:" + ("CostFunction" if k.startswith("CostFunction") else k)
    with Tmp() as d:
        back, fail = roundtrip(o, type(o), d, tag)
        if fail:
            return fail
        if k.endswith("ModelFunction") or k == "ModelFunctionBase":
            if list(back.formatter.par_formatters[q].name for q in range(len(back.formatter.par_formatters))) != list(o.formatter.par_formatters[q].name for q in range(len(o.formatter.par_formatters))):
                return {"got": "parameter names differ", "expected": "same", "witness_class": tag + ":names"}
            a_ = (X, 1.3, 0.4) if k == "ModelFunctionBase" else ((X, 0.3, 1.1) if k == "HistModelFunction" else (1.3, 0.4))
            return same(back(*a_), o(*a_), tag + ":values")
        if k == "ParameterFormatter":
            for att in ("name", "latex_name", "arg_name"):      # value / error are transient display state filled in by the owning fit: not part of the representation
                if getattr(back, att) != getattr(o, att):
                    return {"got": getattr(back, att), "expected": getattr(o, att), "witness_class": tag + ":" + att}
        if k == "ModelFunctionFormatter":
            if back.get_formatted(with_par_values=False) != o.get_formatted(with_par_values=False):
                return {"got": back.get_formatted(with_par_values=False), "expected": o.get_formatted(with_par_values=False), "witness_class": tag + ":formatted"}


# ------------------------------------------------------------------ save_state / load_state
def gen_state(tier, seed):
    for kind in ("xy", "indexed", "hist", "unbinned", "custom"):
        for asym in (False, True):
            yield {"kind": kind, "asymmetric": asym}


@R.oracle("save_state_load_state", gen_state, obligation="FitBase.save_state / load_state")
def state(inp):
    f, g = make_fit(inp["kind"], "plain"), make_fit(inp["kind"], "plain")
    f.do_fit(asymmetric_parameter_errors=inp["asymmetric"])
    with Tmp() as d:
        p = os.path.join(d, "state.yml")
        with open(p, "w") as fh:
            fh.write("old: " + "y" * 5000 + "\n")
        f.save_state(p)
        g.load_state(p)
        tag = "state:" + inp["kind"]
        r = same(g.parameter_values, f.parameter_values, tag + ":values") or same(g.parameter_errors, f.parameter_errors, tag + ":errors") or same(g.parameter_cov_mat, f.parameter_cov_mat, tag + ":cov") or \
            same(g.parameter_cor_mat, f.parameter_cor_mat, tag + ":cor") or same(g.cost_function_value, f.cost_function_value, tag + ":cost")
        if r:
            return r
        if g.did_fit != f.did_fit:
            return {"got": g.did_fit, "expected": f.did_fit, "witness_class": tag + ":did_fit"}
        if inp["asymmetric"]:
            return same(g.asymmetric_parameter_errors, f.asymmetric_parameter_errors, tag + ":asymmetric", 1e-6)


sys.exit(R.main())
